----------------------------- MODULE WindowTrace -----------------------------
(***************************************************************************)
(* Trace validation for C09.  A trace is a concatenation of runs           *)
(*   reset(w, s, strat, model) ; add(item, ts, fired)* ; flush ; end       *)
(* recorded from the real CSPARQLWindow.  The verdict per run is the       *)
(* requirement of C09 evaluated on what the consumer observed: there is an *)
(* assignment of aligned intervals to the firings (content exact, closes   *)
(* not after the trigger, non-decreasing; triggers strictly increasing;    *)
(* under density every closing interval exactly once).  A run that does    *)
(* not satisfy it prints a FAIL line and validation continues with the     *)
(* next run; the POSTCONDITION checks that the whole trace was consumed.   *)
(***************************************************************************)
EXTENDS Naturals, Integers, Sequences, FiniteSets, TLC, Json, IOUtils

Rec == ndJsonDeserialize(IOEnv.TRACE)

VARIABLES flush,    \* <<>> or <<set of <<item, ts>> received from flush()>> (<<{}>> = nothing was sent)
          l,        \* next trace line
          cfg,      \* [w, s, ne, run, model] of the current run
          pushes,   \* sequence of <<item, ts>>
          firings,  \* sequence of [ts |-> trigger, items |-> set of <<item, ts>>]
          panicked
vars == <<l, cfg, pushes, firings, panicked, flush>>

ToSet(sq) == {sq[i] : i \in 1..Len(sq)}
MaxOf(S) == CHOOSE x \in S : \A y \in S : y <= x
MinOf(S) == CHOOSE x \in S : \A y \in S : x <= y

W == cfg.w
S == cfg.s
Has(name) == \E i \in 1..Len(cfg.strat) : cfg.strat[i][1] = name
HasClose == Has("close")
PlainClose == HasClose /\ \A i \in 1..Len(cfg.strat) : cfg.strat[i][1] \in {"close", "nonempty"}

\* what a window [c-W, c) must contain: each item once, with its latest in-interval timestamp
ExpectedN(c, n) ==
  LET occ == {k \in 1..n : c - W <= pushes[k][2] /\ pushes[k][2] < c}
      ids == {pushes[k][1] : k \in occ}
  IN  {<<id, MaxOf({pushes[k][2] : k \in {j \in occ : pushes[j][1] = id}})>> : id \in ids}

Expected(c) == ExpectedN(c, Len(pushes))

\* items (each once, latest in-range timestamp) with timestamp in [lo, hi)
Expected2(lo, hi) ==
  LET occ == {k \in 1..Len(pushes) : lo <= pushes[k][2] /\ pushes[k][2] < hi}
      ids == {pushes[k][1] : k \in occ}
  IN  {<<id, MaxOf({pushes[k][2] : k \in {j \in occ : pushes[j][1] = id}})>> : id \in ids}

\* aligned closes that can explain firing f when the previous close was prev: the content is what the interval held
\* when the report was made (f.n pushes had been made; a report precedes the insertion of the triggering item); with
\* OnWindowClose the interval is closed by then.  Lists with OnContentChange only promise "nothing foreign" (Window.tla).
Candidates(f, prev) ==
  LET top == IF HasClose THEN f.ts ELSE f.ts + W
      lo == IF f.items = {} THEN prev ELSE MaxOf({prev} \cup {MaxOf({x[2] : x \in f.items}) + 1})
      hi == IF f.items = {} THEN top ELSE MinOf({top} \cup {MinOf({x[2] : x \in f.items}) + W})
  IN  {c \in lo..hi : c % S = 0 /\ IF Has("change") THEN f.items \subseteq ExpectedN(c, f.n) ELSE ExpectedN(c, f.n) = f.items}

RECURSIVE Greedy(_, _)
Greedy(k, prev) ==
  IF k > Len(firings) THEN TRUE
  ELSE LET good == Candidates(firings[k], prev)
       IN  IF good = {} THEN FALSE ELSE Greedy(k + 1, IF HasClose THEN MinOf(good) ELSE 0)

StrategyPost ==
  \A k \in 1..Len(firings) : \A i \in 1..Len(cfg.strat) :
     /\ (cfg.strat[i][1] = "periodic" => firings[k].ts % cfg.strat[i][2] = 0)
     /\ (cfg.strat[i][1] = "nonempty" => firings[k].items # {})

TriggersIncrease == \A k \in 1..(Len(firings) - 1) : firings[k].ts < firings[k + 1].ts

Dense == \A i \in 1..(Len(pushes) - 1) : pushes[i + 1][2] - pushes[i][2] <= S

\* the closes that must be reported exactly once in a dense stream, in order
Closing ==
  LET first == pushes[1][2]
      last  == pushes[Len(pushes)][2]
      ms    == {c \in (first + 1)..last : c % S = 0 /\ (cfg.ne => Expected(c) # {})}
  IN  ms

RECURSIVE SortedSeq(_)
SortedSeq(T) == IF T = {} THEN <<>> ELSE LET m == MinOf(T) IN <<m>> \o SortedSeq(T \ {m})

DenseOK ==
  LET M == SortedSeq(Closing)
      k == Len(firings) - Len(M)
  IN  /\ k >= 0
      /\ \A j \in 1..k : firings[j].items = {} /\ ~cfg.ne
      /\ \A j \in 1..Len(M) :
            /\ M[j] <= firings[k + j].ts
            /\ Expected(M[j]) = firings[k + j].items

\* flush(): one merged report of every window that still contains the last timestamp (nothing when that is empty)
FlushOK ==
  flush = <<>> \/ Len(pushes) = 0 \/
     LET T == pushes[Len(pushes)][2]
         opens == {o \in (0 - W)..T : (o + W) % S = 0 /\ o <= T /\ T < o + W}
         omin == CHOOSE o \in opens : \A p \in opens : o <= p
     IN  flush[1] = IF opens = {} THEN {} ELSE Expected2(omin, T + 1)

RunOK ==
  /\ ~panicked
  /\ FlushOK
  /\ TriggersIncrease
  /\ Greedy(1, 0)
  /\ StrategyPost
  /\ (PlainClose /\ Len(pushes) >= 1 /\ Dense) => DenseOK

\* conformance of the code-shaped model (only for runs generated by TLC)
\* cfg.model is the sequence of behaviours the model has for this stream (more than one only with OnContentChange,
\* whose outcome depends on the HashMap iteration order): the observation must be one of them
ModelAgrees ==
  cfg.hasmodel =>
     /\ (flush # <<>> => flush[1] = {<<x[1], x[2]>> : x \in ToSet(cfg.mflush.items)})
     /\ \E a \in 1..Len(cfg.model) :
           /\ Len(cfg.model[a]) = Len(firings)
           /\ \A k \in 1..Len(firings) :
                 /\ cfg.model[a][k].ts = firings[k].ts
                 /\ ToSet(cfg.model[a][k].items) = {<<x[1], x[2]>> : x \in firings[k].items}

Init == /\ l = 1
        /\ cfg = [w |-> 1, s |-> 1, ne |-> FALSE, strat |-> <<>>, run |-> 0, hasmodel |-> FALSE, model |-> <<>>, mflush |-> [items |-> <<>>]]
        /\ pushes = <<>> /\ firings = <<>> /\ panicked = FALSE /\ flush = <<>>

Ev == Rec[l]

Reset == /\ Ev.ev = "reset"
         /\ cfg' = [w |-> Ev.w, s |-> Ev.s, ne |-> Ev.nonempty, strat |-> Ev.strat, run |-> Ev.run,
                    hasmodel |-> Ev.hasmodel, model |-> Ev.model, mflush |-> Ev.mflush]
         /\ pushes' = <<>> /\ firings' = <<>> /\ panicked' = FALSE /\ flush' = <<>>

AddEv == /\ Ev.ev = "add"
         /\ pushes' = Append(pushes, <<Ev.item, Ev.ts>>)
         /\ firings' = firings \o [k \in 1..Len(Ev.fired) |->
                                     [ts |-> Ev.ts, n |-> Len(pushes), items |-> {<<x[1], x[2]>> : x \in ToSet(Ev.fired[k].items)}]]
         /\ panicked' = (panicked \/ Ev.panic)
         /\ UNCHANGED <<cfg, flush>>

FlushEv == /\ Ev.ev = "flush"
           /\ flush' = <<UNION {{<<x[1], x[2]>> : x \in ToSet(Ev.fired[k].items)} : k \in 1..Len(Ev.fired)}>>
           /\ panicked' = (panicked \/ Ev.panic \/ Len(Ev.fired) > 1)
           /\ UNCHANGED <<cfg, pushes, firings>>

EndEv == /\ Ev.ev = "end"
         /\ IF RunOK THEN TRUE ELSE PrintT(<<"FAIL", cfg.run>>)
         /\ IF ModelAgrees THEN TRUE ELSE PrintT(<<"MODELDIFF", cfg.run>>)
         /\ UNCHANGED <<cfg, pushes, firings, panicked, flush>>

Next == /\ l <= Len(Rec)
        /\ l' = l + 1
        /\ (Reset \/ AddEv \/ FlushEv \/ EndEv)

Spec == Init /\ [][Next]_vars

Consumed == IF TLCGet("stats").diameter - 1 = Len(Rec) THEN TRUE
            ELSE PrintT(<<"STUCK", TLCGet("stats").diameter, Len(Rec)>>) /\ FALSE
=============================================================================
