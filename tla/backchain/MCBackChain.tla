----------------------------- MODULE MCBackChain -----------------------------
EXTENDS SLDImpl, Json

\* rule variables X = -101, Y = -102, Z = -103 (user names, also offered as goal names)
X == -101
Y == -102
Z == -103
Rl(prem, concl) == [prem |-> prem, concl |-> concl]

\* p = 21 derived, e = 22 / q = 23 stored; nodes 1..4
Copy    == [facts |-> {<<1, 22, 2>>, <<2, 22, 1>>, <<3, 22, 3>>},
            rules |-> << Rl(<< <<X, 22, Y>> >>, << <<X, 21, Y>> >>) >>]
Swap    == [facts |-> {<<1, 22, 2>>, <<3, 22, 3>>, <<2, 21, 3>>},
            rules |-> << Rl(<< <<Y, 22, X>> >>, << <<X, 21, Y>> >>) >>]
Join    == [facts |-> {<<1, 22, 2>>, <<2, 23, 3>>, <<2, 23, 1>>, <<3, 22, 3>>, <<3, 23, 3>>},
            rules |-> << Rl(<< <<X, 22, Z>>, <<Z, 23, Y>> >>, << <<X, 21, Y>> >>) >>]
ChainR  == [facts |-> {<<1, 22, 2>>, <<2, 22, 3>>, <<3, 22, 4>>},
            rules |-> << Rl(<< <<X, 22, Y>> >>, << <<X, 21, Y>> >>),
                         Rl(<< <<X, 22, Y>>, <<Y, 21, Z>> >>, << <<X, 21, Z>> >>) >>]
ChainL  == [facts |-> {<<1, 22, 2>>, <<2, 22, 3>>, <<3, 22, 4>>},
            rules |-> << Rl(<< <<X, 21, Y>>, <<Y, 22, Z>> >>, << <<X, 21, Z>> >>),
                         Rl(<< <<X, 22, Y>> >>, << <<X, 21, Y>> >>) >>]
Sym     == [facts |-> {<<1, 22, 2>>, <<2, 22, 2>>, <<3, 21, 1>>},
            rules |-> << Rl(<< <<X, 22, Y>> >>, << <<X, 21, Y>> >>),
                         Rl(<< <<X, 21, Y>> >>, << <<Y, 21, X>> >>) >>]
TwoHead == [facts |-> {<<1, 22, 2>>, <<2, 22, 3>>},
            rules |-> << Rl(<< <<X, 22, Y>> >>, << <<X, 21, Y>>, <<Y, 21, X>> >>),
                         Rl(<< <<X, 21, Y>>, <<Y, 21, Z>> >>, << <<X, 23, Z>> >>) >>]
VarPred == [facts |-> {<<1, 22, 2>>, <<2, 23, 2>>},
            rules |-> << Rl(<< <<X, Z, Y>> >>, << <<Y, 21, X>> >>) >>]
ConstR  == [facts |-> {<<1, 22, 2>>, <<2, 22, 2>>, <<3, 22, 1>>},
            rules |-> << Rl(<< <<X, 22, 2>>, <<X, 22, Y>> >>, << <<Y, 21, 1>> >>),
                         Rl(<< <<X, 22, X>> >>, << <<X, 21, X>> >>) >>]

\* conclusions with constants only / a constant and a variable: a goal with a repeated variable
\* must not be answered through <<1, 21, 2>> (unification has to respect a binding made earlier
\* in the same pattern)
ConstH  == [facts |-> {<<1, 22, 2>>, <<2, 22, 2>>},
            rules |-> << Rl(<< <<X, 22, Y>> >>, << <<1, 21, 2>>, <<X, 21, 3>> >>),
                         Rl(<< <<X, 22, X>> >>, << <<3, 21, X>> >>) >>]

MCGoalNames == {X, Y, -1, -2}            \* X, Y (also used inside the rules), v0, v1
MCGoalNamesMore == {X, Y, -1, -2, -3, -5}   \* ... v2, v4
MCPrograms      == <<Copy, Swap, Join, ChainR, ChainL, Sym, TwoHead, VarPred, ConstR, ConstH>>
MCProgramsSmall == <<Copy, Swap, Join, ChainR, Sym, ConstH>>

\* L2: every (program, goal) with the answer set the code-shaped model predicts
Emit == PrintT(<<"REPLAY", ToJson([facts |-> Programs[prog].facts, rules |-> Programs[prog].rules,
                                   goal |-> goal, answers |-> out.ans])>>)
=============================================================================
