-------------------------- MODULE WindowModelTrace --------------------------
(***************************************************************************)
(* Trace validation of recorded CSPARQLWindow runs against the code-shaped *)
(* model itself (Window.tla), for every strategy list: each recorded       *)
(* add_to_window(item, ts) must be one of the outcomes Window!AddOutcomes   *)
(* allows in the current model state - same report (or none), and the      *)
(* model state is advanced with it.  Where several outcomes agree with the *)
(* observation (HashMap iteration order under OnContentChange) TLC follows *)
(* all of them.  A run that leaves the model prints MODELDIFF and is       *)
(* skipped up to the next reset; C09's requirement is judged separately    *)
(* (WindowTrace.tla) - this module binds the model to the code.            *)
(* Trace: reset(w, s, strat) ; add(item, ts, fired)* ; flush(fired) ; end  *)
(***************************************************************************)
EXTENDS Window, Json, IOUtils

Rec == ndJsonDeserialize(IOEnv.TRACE)
VARIABLES l, bad, runid
tvars == <<vars, l, bad, runid>>

ToSetOf(sq) == {sq[i] : i \in 1..Len(sq)}
Obs(f) == {<<x[1], x[2]>> : x \in ToSetOf(f.items)}
Ev == Rec[l]

TInit == /\ l = 1 /\ bad = TRUE /\ runid = 0
         /\ width = 1 /\ slide = 1 /\ strat = <<>> /\ active = {} /\ appTime = 0 /\ lastChange = <<>>
         /\ stream = <<>> /\ ids = <<>> /\ fired = <<>> /\ flushed = <<>>

Reset == /\ Ev.ev = "reset"
         /\ width' = Ev.w /\ slide' = Ev.s /\ strat' = Ev.strat /\ runid' = Ev.run /\ bad' = FALSE
         /\ active' = {} /\ appTime' = 0 /\ lastChange' = <<>> /\ stream' = <<>> /\ ids' = <<>> /\ fired' = <<>> /\ flushed' = <<>>

Leave(why) == /\ PrintT(<<"MODELDIFF", runid, why, l>>) /\ bad' = TRUE
              /\ UNCHANGED <<vars, runid>>

\* an outcome of the model agrees with what the consumer received during this call
Agrees(o, e) ==
  IF Len(e.fired) = 0 THEN o.report = <<>>
  ELSE Len(e.fired) = 1 /\ o.report # <<>> /\ o.report[1].items = Obs(e.fired[1])

AddEv == /\ Ev.ev = "add"
         /\ IF bad THEN UNCHANGED <<vars, bad, runid>>
            ELSE IF Ev.panic THEN Leave("panic")
            ELSE LET ok == {o \in AddOutcomes(Ev.item, Ev.ts) : Agrees(o, Ev)} IN
                 IF ok = {} THEN Leave("add")
                 ELSE /\ \E o \in ok : Apply(Ev.item, Ev.ts, o)
                      /\ UNCHANGED <<bad, runid>>

FlushEv == /\ Ev.ev = "flush"
           /\ IF bad \/ stream = <<>> THEN UNCHANGED <<vars, bad, runid>>
              ELSE LET merged == UNION {w.items : w \in active}
                       got == UNION {Obs(Ev.fired[k]) : k \in 1..Len(Ev.fired)}
                   IN  IF Ev.panic \/ Len(Ev.fired) > 1 \/ got # merged \/ (Len(Ev.fired) = 1) # (merged # {})
                       THEN Leave("flush") ELSE UNCHANGED <<vars, bad, runid>>

EndEv == Ev.ev = "end" /\ UNCHANGED <<vars, bad, runid>>

TNext == l <= Len(Rec) /\ l' = l + 1 /\ (Reset \/ AddEv \/ FlushEv \/ EndEv)
TSpec == TInit /\ [][TNext]_tvars

\* TLC explores every outcome that agrees with the observation; the trace is consumed iff some path reaches its end
Consumed == IF TLCGet("stats").diameter - 1 = Len(Rec) THEN TRUE
            ELSE PrintT(<<"STUCK", TLCGet("stats").diameter, Len(Rec)>>) /\ FALSE
=============================================================================
