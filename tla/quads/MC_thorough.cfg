SPECIFICATION Spec
CONSTANTS
  Subj = {1,2}
  Pred = {2,3}
  Obj = {1,2}
  Named = {7,8}
  MaxQuads = 4
CONSTRAINT Bound
INVARIANTS IndexesAgree NoEmptyLevels ReadsAgree CatalogCovers
PROPERTY Refines
CHECK_DEADLOCK FALSE
