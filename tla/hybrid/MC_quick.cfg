SPECIFICATION Spec
CONSTANTS
  N = 3
  Den = 4
  Weights <- WeightsQuick
  Thetas = {0, 1, 2, 3, 4}
  KSched <- KSchedQuick
  Bug = "none"
INVARIANTS DecisionSoundInv BoundsCertified ExpiryNeverGuesses MassAgrees
CHECK_DEADLOCK FALSE
