----------------------------- MODULE NQuadsImpl -----------------------------
(***************************************************************************)
(* Code-shaped model, over the character-class alphabet of Roundtrip.tla,  *)
(* of the N-Quads / N-Triples export and import of sparql_database.rs:     *)
(*   generate_nquads / generate_ntriples (term-kind guess, escaping),      *)
(*   str::lines + trim + final-dot handling of parse_nquads_and_add /      *)
(*   parse_ntriples, the tokenizer automaton parse_ntriples_parts (in_uri, *)
(*   in_literal, escaped, qt_depth, look-ahead after a closing quote),     *)
(*   clean_ntriples_term, decode_ntriples_literal, encode_term_star and    *)
(*   split_quoted_triple_content.                                          *)
(* A text is a sequence of class names.  TLC enumerates every literal of   *)
(* Sigma^(<= n) that satisfies NotMistaken, in four contexts, and          *)
(* evaluates the round trip on the model (Cases: <<format, context, longest literal>>).                                  *)
(*                                                                         *)
(*  EscapeNT     = FALSE : historic generate_ntriples (no escaping) F-C14  *)
(*  DirectEncode = FALSE : historic import: the term returned by           *)
(*                 clean_ntriples_term (already unquoted / unescaped) was   *)
(*                 interpreted a second time by encode_term_star   F-C14b  *)
(***************************************************************************)
EXTENDS Roundtrip, TLC, Json

CONSTANTS Sigma, Cases, EscapeNT, DirectEncode, EmitDone

VARIABLES fmt, ctx, lit, out, pc
vars == <<fmt, ctx, lit, out, pc>>

\* ------------------------------------------------------------------ strings
RECURSIVE TrimL(_), TrimR(_)
TrimL(s) == IF s # <<>> /\ Head(s) \in Ws THEN TrimL(Tail(s)) ELSE s
TrimR(s) == IF s # <<>> /\ s[Len(s)] \in Ws THEN TrimR(SubSeq(s, 1, Len(s) - 1)) ELSE s
Trim(s) == TrimR(TrimL(s))

RECURSIVE TrimQ(_)                       \* trim_matches('"')
TrimQ(s) == IF s # <<>> /\ Head(s) = "Q" THEN TrimQ(Tail(s))
            ELSE IF s # <<>> /\ s[Len(s)] = "Q" THEN TrimQ(SubSeq(s, 1, Len(s) - 1)) ELSE s

\* escape_ntriples_literal
EscC(c) == CASE c = "B" -> <<"B", "B">> [] c = "Q" -> <<"B", "Q">> [] c = "L" -> <<"B", "n">>
             [] c = "C" -> <<"B", "r">> [] c = "T" -> <<"B", "t">> [] OTHER -> <<c>>
RECURSIVE Escape(_)
Escape(s) == IF s = <<>> THEN <<>> ELSE EscC(Head(s)) \o Escape(Tail(s))

\* decode_ntriples_literal: [ok, v, rest]
NoDec == [ok |-> FALSE, v |-> <<>>, rest |-> <<>>]
RECURSIVE Dec(_, _, _)
Dec(b, i, v) ==
  IF i > Len(b) THEN NoDec
  ELSE IF b[i] = "Q" THEN [ok |-> TRUE, v |-> v, rest |-> SubSeq(b, i + 1, Len(b))]
  ELSE IF b[i] = "B"
         THEN IF i + 1 > Len(b) THEN NoDec
              ELSE LET e == b[i + 1]
                   IN  CASE e = "t" -> Dec(b, i + 2, Append(v, "T"))
                         [] e = "n" -> Dec(b, i + 2, Append(v, "L"))
                         [] e = "r" -> Dec(b, i + 2, Append(v, "C"))
                         [] e = "Q" -> Dec(b, i + 2, Append(v, "Q"))
                         [] e = "B" -> Dec(b, i + 2, Append(v, "B"))
                         [] OTHER   -> NoDec           \* (b f ' u U are not in the alphabet)
  ELSE Dec(b, i + 1, Append(v, b[i]))
Decode(t) == IF t = <<>> \/ t[1] # "Q" THEN NoDec ELSE Dec(Tail(t), 1, <<>>)

\* ------------------------------------------------------------------ export
F  == <<"a", ":", "a">>                                  \* the frame IRI
BN == <<"_", ":", "a">>                                  \* the frame blank node
Br(s) == <<"<">> \o s \o <<">">>
Qt(s, escaped) == <<"Q">> \o (IF escaped THEN Escape(s) ELSE s) \o <<"Q">>
QtLex(s, p, o) == <<"<", "<", "S">> \o s \o <<"S">> \o p \o <<"S">> \o o \o <<"S", ">", ">">>

Data(c, l) == CASE c = "obj"   -> <<F, F, l, <<>>>>
                [] c = "graph" -> <<BN, F, l, F>>
                [] c = "qts"   -> <<QtLex(F, F, l), F, F, <<>>>>
                [] c = "qto"   -> <<F, F, QtLex(F, F, l), <<>>>>

SubjNQ(s) == IF StartsWith(s, <<"<", "<">>) \/ StartsWith(s, <<"_", ":">>) THEN s ELSE Br(s)
ObjNQ(o)  == IF StartsWith(o, <<"<", "<">>) \/ StartsWith(o, <<"_", ":">>) THEN o
             ELSE IF LooksLikeIri(o) THEN Br(o) ELSE Qt(o, TRUE)
GraphNQ(g) == IF StartsWith(g, <<"_", ":">>) THEN g ELSE Br(g)
SubjNT(s) == IF StartsWith(s, <<"<", "<">>) THEN s ELSE Br(s)
\* generate_ntriples brackets only http:// and https:// objects; no class sequence denotes such a prefix
ObjNT(o)  == IF StartsWith(o, <<"<", "<">>) THEN o ELSE Qt(o, EscapeNT)

Export(f, q) ==
  IF f = "nq"
    THEN SubjNQ(q[1]) \o <<"S">> \o Br(q[2]) \o <<"S">> \o ObjNQ(q[3]) \o
         (IF q[4] = <<>> THEN <<>> ELSE <<"S">> \o GraphNQ(q[4])) \o <<"S", ".", "L">>
    ELSE IF q[4] # <<>> THEN <<>>
         ELSE SubjNT(q[1]) \o <<"S">> \o Br(q[2]) \o <<"S">> \o ObjNT(q[3]) \o <<"S", ".", "L">>

\* ------------------------------------------------------------------ import
\* str::lines (the stripped \r is white space and trimmed anyway)
RECURSIVE SplitLines(_, _, _)
SplitLines(s, i, cur) ==
  IF i > Len(s) THEN (IF cur = <<>> THEN <<>> ELSE <<cur>>)
  ELSE IF s[i] = "L" THEN <<cur>> \o SplitLines(s, i + 1, <<>>)
  ELSE SplitLines(s, i + 1, Append(cur, s[i]))

\* parse_ntriples_parts.  State: parts, cur, u (in_uri), q (in_literal), e (escaped), d (qt_depth)
Peek(s, i) == IF i <= Len(s) THEN s[i] ELSE "EOF"

\* after ^^ : consume the datatype; returns [i, cur]
RECURSIVE DtUri(_, _, _), DtLoop(_, _, _)
DtUri(s, i, cur) ==                \* inside <...> of the datatype: push up to and including '>'
  IF i > Len(s) THEN [i |-> i, cur |-> cur, closed |-> FALSE]
  ELSE IF s[i] = ">" THEN [i |-> i + 1, cur |-> Append(cur, s[i]), closed |-> TRUE]
  ELSE DtUri(s, i + 1, Append(cur, s[i]))
DtLoop(s, i, cur) ==
  IF i > Len(s) THEN [i |-> i, cur |-> cur]
  ELSE IF s[i] = "<" THEN LET r == DtUri(s, i + 1, Append(cur, "<"))
                          IN  IF r.closed THEN [i |-> r.i, cur |-> r.cur] ELSE DtLoop(s, r.i, r.cur)
  ELSE IF s[i] \in Ws THEN [i |-> i, cur |-> cur]
  ELSE DtLoop(s, i + 1, Append(cur, s[i]))

RECURSIVE LangLoop(_, _, _)
LangLoop(s, i, cur) == IF i <= Len(s) /\ s[i] \in Alnum \* (or '-', not in the alphabet)
                         THEN LangLoop(s, i + 1, Append(cur, s[i])) ELSE [i |-> i, cur |-> cur]

\* look-ahead after a closing quote; returns [i, cur]
AfterQuote(s, i, cur) ==
  LET nx == Peek(s, i)
  IN  IF nx = "^"
        THEN IF Peek(s, i + 1) = "^" THEN DtLoop(s, i + 2, cur \o <<"^", "^">>)
             ELSE [i |-> i + 1, cur |-> Append(cur, "^")]
      ELSE IF nx = "@" THEN LangLoop(s, i + 1, Append(cur, "@"))
      ELSE [i |-> i, cur |-> cur]

Push(st, c) == [st EXCEPT !.cur = Append(st.cur, c)]
Flush(st) == [st EXCEPT !.parts = Append(st.parts, Trim(st.cur)), !.cur = <<>>]

RECURSIVE Tok(_, _, _)
Tok(s, i, st) ==
  IF i > Len(s) THEN (IF st.cur # <<>> THEN Append(st.parts, Trim(st.cur)) ELSE st.parts)
  ELSE LET ch == s[i] IN
    IF ch = "<" /\ ~st.q /\ ~st.e THEN
        IF Peek(s, i + 1) = "<" /\ ~st.u
          THEN Tok(s, i + 2, [st EXCEPT !.cur = st.cur \o <<"<", "<">>, !.d = st.d + 1])
        ELSE IF st.d > 0
          THEN IF Peek(s, i + 1) = "<"
                 THEN Tok(s, i + 2, [st EXCEPT !.cur = st.cur \o <<"<", "<">>, !.d = st.d + 1])
                 ELSE Tok(s, i + 1, Push(st, "<"))
        ELSE Tok(s, i + 1, [Push(st, "<") EXCEPT !.u = TRUE])
    ELSE IF ch = ">" /\ ~st.q /\ ~st.e THEN
        IF st.d > 0 /\ ~st.u
          THEN IF Peek(s, i + 1) = ">"
                 THEN LET st2 == [st EXCEPT !.cur = st.cur \o <<">", ">">>, !.d = st.d - 1]
                      IN  Tok(s, i + 2, IF st2.d = 0 THEN Flush(st2) ELSE st2)
                 ELSE Tok(s, i + 1, Push(st, ">"))
        ELSE IF st.u
          THEN LET st2 == [Push(st, ">") EXCEPT !.u = FALSE]
               IN  Tok(s, i + 1, IF st2.d = 0 THEN Flush(st2) ELSE st2)
        ELSE Tok(s, i + 1, Push(st, ">"))
    ELSE IF ch = "Q" /\ ~st.u /\ ~st.e THEN
        IF st.q      \* closing quote
          THEN LET r == AfterQuote(s, i + 1, Append(st.cur, "Q"))
                   st2 == [st EXCEPT !.q = FALSE, !.cur = r.cur]
               IN  Tok(s, r.i, IF st2.d = 0 THEN Flush(st2) ELSE st2)
          ELSE Tok(s, i + 1, [Push(st, "Q") EXCEPT !.q = TRUE])
    ELSE IF ch = "B" /\ (st.u \/ st.q) /\ ~st.e THEN Tok(s, i + 1, [Push(st, "B") EXCEPT !.e = TRUE])
    ELSE IF ch \in {"S", "T"} /\ ~st.u /\ ~st.q /\ ~st.e /\ st.d = 0 THEN
        Tok(s, i + 1, IF st.cur # <<>> THEN Flush(st) ELSE st)
    ELSE Tok(s, i + 1, [Push(st, ch) EXCEPT !.e = FALSE])

Parts(s) == Tok(s, 1, [parts |-> <<>>, cur |-> <<>>, u |-> FALSE, q |-> FALSE, e |-> FALSE, d |-> 0])

\* clean_ntriples_term
Clean(term) ==
  LET t == Trim(term)
  IN  IF StartsWith(t, <<"<", "<">>) /\ EndsWith(t, <<">", ">">>) THEN t
      ELSE IF t # <<>> /\ t[1] = "<" /\ t[Len(t)] = ">" THEN SubSeq(t, 2, Len(t) - 1)
      ELSE IF t # <<>> /\ t[1] = "Q"
             THEN LET r == Decode(t)
                  IN  IF r.ok /\ (r.rest = <<>> \/ StartsWith(r.rest, <<"^", "^">>)) THEN r.v
                      ELSE IF r.ok /\ r.rest[1] = "@" THEN r.v \o r.rest
                      ELSE t
      ELSE t

\* split_quoted_triple_content.  State: parts, cur, d (depth), u, q, e
RECURSIVE SQ(_, _, _)
SQ(s, i, st) ==
  IF i > Len(s) THEN (IF Trim(st.cur) # <<>> THEN Append(st.parts, Trim(st.cur)) ELSE st.parts)
  ELSE LET ch == s[i] IN
    IF st.e THEN SQ(s, i + 1, [Push(st, ch) EXCEPT !.e = FALSE])
    ELSE IF ch = "B" /\ st.q THEN SQ(s, i + 1, [Push(st, ch) EXCEPT !.e = TRUE])
    ELSE IF ch = "Q" /\ ~st.u THEN SQ(s, i + 1, [Push(st, ch) EXCEPT !.q = ~st.q])
    ELSE IF ch = "<" /\ ~st.q THEN
        LET st2 == Push(st, ch)
        IN  SQ(s, i + 1, IF EndsWith(st2.cur, <<"<", "<">>) THEN [st2 EXCEPT !.d = st.d + 1]
                         ELSE IF st.d = 0 THEN [st2 EXCEPT !.u = TRUE] ELSE st2)
    ELSE IF ch = ">" /\ ~st.q THEN
        LET st2 == Push(st, ch)
        IN  SQ(s, i + 1, IF st.u THEN [st2 EXCEPT !.u = FALSE]
                         ELSE IF EndsWith(st2.cur, <<">", ">">>) /\ st.d > 0 THEN [st2 EXCEPT !.d = st.d - 1]
                         ELSE st2)
    ELSE IF ch \in {"S", "T", "L", "C"} /\ st.d = 0 /\ ~st.u /\ ~st.q THEN
        SQ(s, i + 1, IF Trim(st.cur) # <<>> THEN [st EXCEPT !.parts = Append(st.parts, Trim(st.cur)), !.cur = <<>>] ELSE st)
    ELSE SQ(s, i + 1, Push(st, ch))

RECURSIVE JoinSp(_, _)
JoinSp(ps, i) == IF i > Len(ps) THEN <<>> ELSE IF i = Len(ps) THEN ps[i] ELSE ps[i] \o <<"S">> \o JoinSp(ps, i + 1)

SplitQT(content) ==
  LET ps == SQ(content, 1, [parts |-> <<>>, cur |-> <<>>, d |-> 0, u |-> FALSE, q |-> FALSE, e |-> FALSE])
      at(k) == IF k <= Len(ps) THEN ps[k] ELSE <<>>
  IN  IF Len(ps) >= 3 THEN <<ps[1], ps[2], JoinSp(ps, 3)>> ELSE <<at(1), at(2), at(3)>>

\* encode_term_star followed by decode_any: the lexical form under which a term ends up in the store
RECURSIVE EncStar(_, _)
EncStar(term, fuel) ==
  LET t == Trim(term)
  IN  IF StartsWith(t, <<"<", "<">>) /\ EndsWith(t, <<">", ">">>) /\ Len(t) >= 4
        THEN IF fuel = 0 THEN <<"?">>
             ELSE LET x == SplitQT(Trim(SubSeq(t, 3, Len(t) - 2)))
                  IN  QtLex(EncStar(x[1], fuel - 1), EncStar(x[2], fuel - 1), EncStar(x[3], fuel - 1))
      ELSE IF t # <<>> /\ t[1] = "<" /\ t[Len(t)] = ">" /\ Len(t) >= 2 THEN SubSeq(t, 2, Len(t) - 1)
      ELSE IF t # <<>> /\ t[1] = "Q"
             THEN LET r == Decode(t) IN IF r.ok THEN r.v ELSE TrimQ(t)
      ELSE t

\* how the importers turn a cleaned term into a stored term
Enc(term) == IF DirectEncode /\ ~(StartsWith(term, <<"<", "<">>) /\ EndsWith(term, <<">", ">">>))
               THEN term ELSE EncStar(term, 3)

\* one line of parse_nquads_and_add / parse_ntriples: the set of quads it adds (empty or one)
Stripped(raw) == LET ln == Trim(raw)
                 IN  IF ln = <<>> \/ ln[1] = "#" \/ ln[Len(ln)] # "." THEN <<"skip">>
                     ELSE <<"ok", Trim(SubSeq(ln, 1, Len(ln) - 1))>>

LineNQ(raw) ==
  LET x == Stripped(raw)
  IN  IF x[1] = "skip" THEN {}
      ELSE LET ps == Parts(x[2])
           IN  IF Len(ps) \notin {3, 4} THEN {}
               ELSE {<<Enc(Clean(ps[1])), Enc(Clean(ps[2])), Enc(Clean(ps[3])),
                       IF Len(ps) = 4 THEN Clean(ps[4]) ELSE <<>>>>}

RdfType == <<"?", "r", "d", "f", "t", "y", "p", "e">>
LineNT(raw) ==
  LET x == Stripped(raw)
  IN  IF x[1] = "skip" THEN {}
      ELSE LET ps == Parts(x[2])
           IN  IF Len(ps) # 3 THEN {}
               ELSE {<<Enc(Clean(ps[1])), Enc(IF ps[2] = <<"a">> THEN RdfType ELSE Clean(ps[2])), Enc(Clean(ps[3])), <<>>>>}

Import(f, text) ==
  LET ls == SplitLines(text, 1, <<>>)
  IN  UNION {IF f = "nq" THEN LineNQ(ls[i]) ELSE LineNT(ls[i]) : i \in 1..Len(ls)}

\* ------------------------------------------------------------------ behaviour
RECURSIVE Strings(_)
Strings(n) == IF n = 0 THEN {<<>>}
              ELSE LET S == Strings(n - 1) IN S \cup {Append(s, c) : s \in {x \in S : Len(x) = n - 1}, c \in Sigma}

\* a case is <<format, context, longest literal>>
Init == /\ \E c \in Cases : fmt = c[1] /\ ctx = c[2] /\ lit \in {s \in Strings(c[3]) : NotMistaken(s)}
        /\ out = [text |-> <<>>, back |-> {}, ok |-> FALSE]
        /\ pc = "new"

Run == /\ pc = "new"
       /\ LET q == Data(ctx, lit)
              text == Export(fmt, q)
              back == Import(fmt, text)
          IN  out' = [text |-> text, back |-> back, ok |-> RoundTrip(fmt, {q}, back, <<>>)]
       /\ pc' = "done"
       /\ UNCHANGED <<fmt, ctx, lit>>

Spec == Init /\ [][Run]_vars

\* C14 on the model: literals outside quoted triples survive the round trip
RoundTripPlain == (pc = "done" /\ ctx \in {"obj", "graph"}) => out.ok
\* every exported text is tokenised into exactly the terms that were written (3 or 4 parts on its only line)
RoundTripAll == pc = "done" => out.ok

RECURSIVE SetToSeq(_)
SetToSeq(S) == IF S = {} THEN <<>> ELSE LET x == CHOOSE y \in S : TRUE IN <<x>> \o SetToSeq(S \ {x})

Emit == (EmitDone /\ pc = "done") =>
          PrintT(<<"REPLAY", ToJson([f |-> fmt, c |-> ctx, l |-> lit, t |-> out.text, b |-> SetToSeq(out.back), ok |-> out.ok])>>)
=============================================================================
