//! C15 driver: runs encode / decode / quoted-encode sequences and builds, unions and merges
//! databases through the real `Dictionary`, `QuotedTripleStore` and `SparqlDatabase`, and
//! records one ndjson event per call (see tla/dict/DictTrace.tla for the event list).
//!
//! Identifiers are logged as `[tag, n]` = `[id >> 31, id & 0x7fff_ffff]` (TLC integers are
//! 32-bit signed); `[2,0]` is the default graph, `[3,0]` "looked up but not found".
//! Cases refer to terms *structurally* (a JSON string, or an array of three term references
//! for a quoted triple); the driver resolves them by read-only look-ups in the real maps, so
//! no identifier is ever predicted outside the code under test.  The driver only runs the
//! code and logs: every expected value is computed by TLC.
use crate::util::*;
use kolibrie::sparql_database::SparqlDatabase;
use serde_json::{json, Value};
use shared::dataset_index::{GraphId, Quad};
use shared::dictionary::Dictionary;
use shared::quoted_triple_store::{is_quoted_triple_id, QuotedTripleStore};
use shared::triple::Triple;
use std::collections::HashMap;
use std::sync::{Arc, RwLock};

#[derive(Clone, Debug, PartialEq)]
enum Ref {
    S(String),
    Q(Box<[Ref; 3]>),
}

fn parse_ref(v: &Value) -> Ref {
    match v {
        Value::String(s) => Ref::S(s.clone()),
        Value::Array(a) if a.len() == 3 => Ref::Q(Box::new([parse_ref(&a[0]), parse_ref(&a[1]), parse_ref(&a[2])])),
        _ => panic!("bad term reference {v}"),
    }
}

fn ref_json(r: &Ref) -> Value {
    match r {
        Ref::S(s) => json!(s),
        Ref::Q(t) => json!([ref_json(&t[0]), ref_json(&t[1]), ref_json(&t[2])]),
    }
}

fn parse_ref3(v: &Value) -> [Ref; 3] {
    let a = v.as_array().expect("triple of term references");
    [parse_ref(&a[0]), parse_ref(&a[1]), parse_ref(&a[2])]
}

fn idj(id: u32) -> Value { json!([id >> 31, id & 0x7fff_ffff]) }
fn idj_opt(id: Option<u32>) -> Value { id.map(idj).unwrap_or(json!([3, 0])) }
fn gidj(g: GraphId) -> Value { match g { GraphId::Default => json!([2, 0]), GraphId::Named(id) => idj(id) } }
fn id_of(v: &Value) -> u32 { ((v[0].as_u64().unwrap() as u32) << 31) | (v[1].as_u64().unwrap() as u32) }
fn b(x: bool) -> &'static str { if x { "t" } else { "f" } }
fn isq(id: Option<u32>) -> &'static str { match id { Some(i) => b(is_quoted_triple_id(i)), None => "-" } }

/// Concrete syntax of a term for `encode_term_star` / `add_quad_parts`; the stored lexical form of a
/// leaf is the string itself (IRIs lose their angle brackets, literals their quotes).
fn syntax(r: &Ref) -> String {
    match r {
        Ref::S(s) => {
            if s.starts_with("http") { format!("<{s}>") }
            else if s.starts_with("_:") { s.clone() }
            else { format!("\"{s}\"") }
        }
        Ref::Q(t) => format!("<< {} {} {} >>", syntax(&t[0]), syntax(&t[1]), syntax(&t[2])),
    }
}

fn all_plain(t: &[Ref; 3]) -> bool { t.iter().all(|r| matches!(r, Ref::S(_))) }
fn leaf(r: &Ref) -> &str { match r { Ref::S(s) => s, _ => unreachable!() } }

/// Read-only resolution of a term reference in the real maps.
fn resolve(db: &SparqlDatabase, r: &Ref) -> Option<u32> {
    match r {
        Ref::S(s) => db.dictionary.read().unwrap().string_to_id.get(s).copied(),
        Ref::Q(t) => {
            let a = resolve(db, &t[0])?;
            let p = resolve(db, &t[1])?;
            let o = resolve(db, &t[2])?;
            db.quoted_triple_store.read().unwrap().components_to_id.get(&(a, p, o)).copied()
        }
    }
}

/// After a call that encoded `r` internally: one enc/qenc event per sub-term (post-order) with the
/// identifier now stored for it; the root event carries the value the call returned.
fn log_subs(out: &mut Out, k: u64, db: &SparqlDatabase, r: &Ref, root_ret: Option<u32>) -> Option<u32> {
    match r {
        Ref::S(s) => {
            let id = resolve(db, r);
            out.ev(json!({"ev":"enc","db":k,"s":s,"id":idj_opt(id),"ret":idj_opt(root_ret.or(id)),"isq":isq(id)}));
            id
        }
        Ref::Q(t) => {
            let a = log_subs(out, k, db, &t[0], None);
            let p = log_subs(out, k, db, &t[1], None);
            let o = log_subs(out, k, db, &t[2], None);
            let id = match (a, p, o) {
                (Some(a), Some(p), Some(o)) => db.quoted_triple_store.read().unwrap().components_to_id.get(&(a, p, o)).copied(),
                _ => None,
            };
            out.ev(json!({"ev":"qenc","db":k,"spo":[idj_opt(a),idj_opt(p),idj_opt(o)],"id":idj_opt(id),
                          "ret":idj_opt(root_ret.or(id)),"isq":isq(id)}));
            id
        }
    }
}

fn perm(p: f64) -> i64 { (p * 1000.0).round() as i64 }

fn raw_dump(db: &SparqlDatabase) -> Value {
    let d = db.dictionary.read().unwrap();
    let q = db.quoted_triple_store.read().unwrap();
    let mut s2i: Vec<(&String, &u32)> = d.string_to_id.iter().collect();
    s2i.sort();
    let mut i2s: Vec<(&u32, &String)> = d.id_to_string.iter().collect();
    i2s.sort();
    let mut c2i: Vec<(&(u32, u32, u32), &u32)> = q.components_to_id.iter().collect();
    c2i.sort();
    let mut i2c: Vec<(&u32, &(u32, u32, u32))> = q.id_to_components.iter().collect();
    i2c.sort();
    let mut seeds: Vec<(&Triple, &f64)> = db.probability_seeds.iter().collect();
    seeds.sort_by(|x, y| x.0.cmp(y.0));
    json!({
        "s2i": s2i.iter().map(|(s, i)| json!([s, idj(**i)])).collect::<Vec<_>>(),
        "i2s": i2s.iter().map(|(i, s)| json!([idj(**i), s])).collect::<Vec<_>>(),
        "next": d.next_id,
        "qc2i": c2i.iter().map(|(c, i)| json!([[idj(c.0), idj(c.1), idj(c.2)], idj(**i)])).collect::<Vec<_>>(),
        "qi2c": i2c.iter().map(|(i, c)| json!([idj(**i), [idj(c.0), idj(c.1), idj(c.2)]])).collect::<Vec<_>>(),
        "qnext": q.next_qt_id & 0x7fff_ffff,
        "quads": db.dataset_index.all_quads().iter().map(|x| json!([idj(x.subject), idj(x.predicate), idj(x.object), gidj(x.graph)])).collect::<Vec<_>>(),
        "graphs": db.dataset_index.named_graphs().iter().map(|g| gidj(*g)).collect::<Vec<_>>(),
        "seeds": seeds.iter().map(|(t, p)| json!([[idj(t.subject), idj(t.predicate), idj(t.object)], perm(**p)])).collect::<Vec<_>>(),
    })
}

/// Lexical projection, through `decode_any` only.
fn lex_dump(db: &SparqlDatabase) -> Value {
    let dec = |id: u32| db.decode_any(id).unwrap_or_else(|| "?undecodable".to_string());
    let decg = |g: GraphId| match g { GraphId::Default => String::new(), GraphId::Named(id) => dec(id) };
    let mut qids: Vec<u32> = db.quoted_triple_store.read().unwrap().id_to_components.keys().copied().collect();
    qids.sort();
    json!({
        "quads": db.dataset_index.all_quads().iter().map(|x| json!([dec(x.subject), dec(x.predicate), dec(x.object), decg(x.graph)])).collect::<Vec<_>>(),
        "graphs": db.dataset_index.named_graphs().iter().map(|g| decg(*g)).collect::<Vec<_>>(),
        "quoted": qids.iter().map(|i| dec(*i)).collect::<Vec<_>>(),
        "seeds": db.probability_seeds.iter().map(|(t, p)| json!([dec(t.subject), dec(t.predicate), dec(t.object), perm(*p)])).collect::<Vec<_>>(),
    })
}

fn dec_events(out: &mut Out, k: u64, db: &SparqlDatabase, id: u32) {
    let d = db.dictionary.read().unwrap();
    let q = db.quoted_triple_store.read().unwrap();
    let r = d.decode(id).map(|s| s.to_string());
    let term = d.decode_term(id, &q);
    let qd = q.decode(id);
    drop(d);
    drop(q);
    let any = db.decode_any(id);
    out.ev(json!({"ev":"dec","db":k,"id":idj(id),"ok":b(r.is_some()),"r":r.unwrap_or_default(),
                  "aok":b(any.is_some()),"any":any.unwrap_or_default(),"tok":b(term.is_some()),"term":term.unwrap_or_default()}));
    if is_quoted_triple_id(id) || qd.is_some() {
        out.ev(json!({"ev":"qdec","db":k,"id":idj(id),"ok":b(qd.is_some()),
                      "r": qd.map(|c| json!([idj(c.0), idj(c.1), idj(c.2)])).unwrap_or(json!([]))}));
    }
}

/// Encode a plain string through Dictionary::encode and log the call.
fn enc_logged(out: &mut Out, k: u64, db: &SparqlDatabase, s: &str) -> u32 {
    let id = db.dictionary.write().unwrap().encode(s);
    out.ev(json!({"ev":"enc","db":k,"s":s,"id":idj(id),"ret":idj(id),"isq":b(is_quoted_triple_id(id))}));
    id
}

fn deep_fork(src: &SparqlDatabase) -> SparqlDatabase {
    let mut n = SparqlDatabase::new();
    n.dictionary = Arc::new(RwLock::new(src.dictionary.read().unwrap().clone()));
    n.quoted_triple_store = Arc::new(RwLock::new(src.quoted_triple_store.read().unwrap().clone()));
    n
}

struct World {
    dbs: HashMap<u64, SparqlDatabase>,
}

impl World {
    fn db(&mut self, k: u64) -> &mut SparqlDatabase { self.dbs.entry(k).or_insert_with(SparqlDatabase::new) }
}

/// Executes one operation of a case; returns false when the run must stop (lost term / panic).
fn exec(out: &mut Out, w: &mut World, op: &Value) -> bool {
    let name = op["op"].as_str().unwrap();
    let k = op.get("db").and_then(|x| x.as_u64()).unwrap_or(1);
    match name {
        "enc" => {
            let db = w.db(k);
            enc_logged(out, k, db, op["s"].as_str().unwrap());
        }
        "qenc" => {
            let t = parse_ref3(&op["t"]);
            let db = w.db(k);
            let ids: Vec<Option<u32>> = t.iter().map(|r| resolve(db, r)).collect();
            if ids.iter().any(|x| x.is_none()) { out.ev(json!({"ev":"lost","db":k})); return false; }
            let (a, p, o) = (ids[0].unwrap(), ids[1].unwrap(), ids[2].unwrap());
            let id = db.quoted_triple_store.write().unwrap().encode(a, p, o);
            out.ev(json!({"ev":"qenc","db":k,"spo":[idj(a),idj(p),idj(o)],"id":idj(id),"ret":idj(id),"isq":b(is_quoted_triple_id(id))}));
        }
        // capacity boundary: the public allocation counters are moved close to the end of their range (identifiers need
        // not be dense); the following encodes must hand out identifiers of the right range or refuse
        "ff" => {
            let left = op["left"].as_u64().unwrap() as u32;
            let db = w.db(k);
            let mut d = db.dictionary.write().unwrap();
            d.next_id = d.next_id.max(shared::quoted_triple_store::QUOTED_TRIPLE_ID_BIT - left);
        }
        "qff" => {
            let left = op["left"].as_u64().unwrap() as u32;
            let db = w.db(k);
            let mut q = db.quoted_triple_store.write().unwrap();
            q.next_qt_id = q.next_qt_id.max(u32::MAX - left);
        }
        "qencraw" => {
            let a: Vec<u32> = op["spo"].as_array().unwrap().iter().map(id_of).collect();
            let db = w.db(k);
            let id = db.quoted_triple_store.write().unwrap().encode(a[0], a[1], a[2]);
            out.ev(json!({"ev":"qenc","db":k,"spo":[idj(a[0]),idj(a[1]),idj(a[2])],"id":idj(id),"ret":idj(id),"isq":b(is_quoted_triple_id(id))}));
        }
        "dec" => {
            let r = parse_ref(&op["t"]);
            let db = w.db(k);
            match resolve(db, &r) {
                Some(id) => dec_events(out, k, db, id),
                None => { out.ev(json!({"ev":"lost","db":k})); return false; }
            }
        }
        "decraw" => {
            let id = id_of(&op["id"]);
            let db = w.db(k);
            dec_events(out, k, db, id);
        }
        "star" => {
            let r = parse_ref(&op["t"]);
            let db = w.db(k);
            let ret = db.encode_term_star(&syntax(&r));
            log_subs(out, k, db, &r, Some(ret));
        }
        "quad" => {
            let t = parse_ref3(&op["t"]);
            let g = op["g"].as_str().unwrap_or("");
            let via = op.get("via").and_then(|x| x.as_str()).unwrap_or("ids");
            let db = w.db(k);
            if via == "parts" && !g.is_empty() {
                let ret = db.add_quad_parts(&syntax(&t[0]), &syntax(&t[1]), &syntax(&t[2]), g);
                let ids: Vec<Option<u32>> = t.iter().map(|r| log_subs(out, k, db, r, None)).collect();
                let gid = log_subs(out, k, db, &Ref::S(g.to_string()), None);
                out.ev(json!({"ev":"quad","db":k,"q":[idj_opt(ids[0]),idj_opt(ids[1]),idj_opt(ids[2]),idj_opt(gid)],"ret":b(ret)}));
            } else if via == "parts" && all_plain(&t) {
                db.add_triple_parts(leaf(&t[0]), leaf(&t[1]), leaf(&t[2]));
                let ids: Vec<Option<u32>> = t.iter().map(|r| log_subs(out, k, db, r, None)).collect();
                out.ev(json!({"ev":"quad","db":k,"q":[idj_opt(ids[0]),idj_opt(ids[1]),idj_opt(ids[2]),[2,0]],"ret":"-"}));
            } else {
                let ids: Vec<Option<u32>> = t.iter().map(|r| resolve(db, r)).collect();
                if ids.iter().any(|x| x.is_none()) { out.ev(json!({"ev":"lost","db":k})); return false; }
                let graph = if g.is_empty() { GraphId::Default } else { GraphId::Named(enc_logged(out, k, db, g)) };
                let (s, p, o) = (ids[0].unwrap(), ids[1].unwrap(), ids[2].unwrap());
                let ret = if g.is_empty() && via == "triple" {
                    db.add_triple(Triple { subject: s, predicate: p, object: o });
                    "-"
                } else {
                    b(db.add_quad(Quad { subject: s, predicate: p, object: o, graph }))
                };
                out.ev(json!({"ev":"quad","db":k,"q":[idj(s),idj(p),idj(o),gidj(graph)],"ret":ret}));
            }
        }
        "graph" => {
            let db = w.db(k);
            let id = enc_logged(out, k, db, op["g"].as_str().unwrap());
            db.dataset_index.create_graph(GraphId::Named(id));
            out.ev(json!({"ev":"graph","db":k,"g":idj(id)}));
        }
        "seed" => {
            let t = parse_ref3(&op["t"]);
            let p = op["p"].as_i64().unwrap();
            let via = op.get("via").and_then(|x| x.as_str()).unwrap_or("direct");
            let db = w.db(k);
            if via == "tagged" && all_plain(&t) {
                db.add_tagged_triple(leaf(&t[0]), leaf(&t[1]), leaf(&t[2]), p as f64 / 1000.0);
                let ids: Vec<Option<u32>> = t.iter().map(|r| log_subs(out, k, db, r, None)).collect();
                out.ev(json!({"ev":"quad","db":k,"q":[idj_opt(ids[0]),idj_opt(ids[1]),idj_opt(ids[2]),[2,0]],"ret":"-"}));
                out.ev(json!({"ev":"seed","db":k,"t":[idj_opt(ids[0]),idj_opt(ids[1]),idj_opt(ids[2])],"p":p}));
            } else {
                let ids: Vec<Option<u32>> = t.iter().map(|r| resolve(db, r)).collect();
                if ids.iter().any(|x| x.is_none()) { out.ev(json!({"ev":"lost","db":k})); return false; }
                let tr = Triple { subject: ids[0].unwrap(), predicate: ids[1].unwrap(), object: ids[2].unwrap() };
                db.probability_seeds.insert(tr.clone(), p as f64 / 1000.0);
                out.ev(json!({"ev":"seed","db":k,"t":[idj(tr.subject),idj(tr.predicate),idj(tr.object)],"p":p}));
            }
        }
        "snap" => {
            let db = w.db(k);
            out.ev(json!({"ev":"snap","db":k,"raw":raw_dump(db),"lex":lex_dump(db)}));
        }
        "fork" => {
            let (from, to) = (op["from"].as_u64().unwrap(), op["to"].as_u64().unwrap());
            let n = deep_fork(w.db(from));
            w.dbs.insert(to, n);
            out.ev(json!({"ev":"fork","from":from,"to":to}));
        }
        "union" => {
            let (a, bb, o) = (op["a"].as_u64().unwrap(), op["b"].as_u64().unwrap(), op["out"].as_u64().unwrap());
            w.db(a);
            w.db(bb);
            let other = if a == bb { deep_fork_full(&w.dbs[&bb]) } else { w.dbs.remove(&bb).unwrap() };
            let r = { let me = w.dbs.get_mut(&a).unwrap(); guarded(|| me.union(&other)) };
            if a != bb { w.dbs.insert(bb, other); }
            match r {
                Ok(u) => {
                    out.ev(json!({"ev":"union","a":a,"b":bb,"out":o,"ret":"ok","raw":raw_dump(&u),"lex":lex_dump(&u)}));
                    w.dbs.insert(o, u);
                }
                Err(msg) => {
                    out.ev(json!({"ev":"union","a":a,"b":bb,"out":o,"ret":"panic","msg":msg,"raw":{},"lex":{}}));
                    return false;
                }
            }
        }
        "merge" | "qmerge" => {
            let (d, o) = (op["d"].as_u64().unwrap(), op["o"].as_u64().unwrap());
            w.db(d);
            w.db(o);
            let od: Dictionary = w.dbs[&o].dictionary.read().unwrap().clone();
            let oq: QuotedTripleStore = w.dbs[&o].quoted_triple_store.read().unwrap().clone();
            let me = &w.dbs[&d];
            if name == "merge" { me.dictionary.write().unwrap().merge(&od); } else { me.quoted_triple_store.write().unwrap().merge(&oq); }
            out.ev(json!({"ev":name,"d":d,"o":o,"raw":raw_dump(me)}));
        }
        other => panic!("unknown op {other}"),
    }
    true
}

/// An independent copy of a whole database (own dictionary and quoted store), used for `x.union(&x)`.
fn deep_fork_full(src: &SparqlDatabase) -> SparqlDatabase {
    let mut n = src.clone();
    n.dictionary = Arc::new(RwLock::new(src.dictionary.read().unwrap().clone()));
    n.quoted_triple_store = Arc::new(RwLock::new(src.quoted_triple_store.read().unwrap().clone()));
    n
}

/// case: {"kind":..., "ops":[...], "model"?: {"has":"t","union":{..},"merge":{..}}}
fn run_case(out: &mut Out, run: &mut u64, case: &Value) {
    *run += 1;
    let model = case.get("model").cloned().unwrap_or(json!({"has":"f"}));
    out.ev(json!({"ev":"reset","run":*run,"model":model,"case":case}));
    let mut w = World { dbs: HashMap::new() };
    for op in case["ops"].as_array().unwrap() {
        match guarded(|| exec(out, &mut w, op)) {
            Ok(true) => {}
            Ok(false) => break,
            // a refusal at the end of the identifier range is the documented behaviour, not a crash
            Err(msg) if msg.contains("ID space exhausted") => { out.ev(json!({"ev":"exhausted","op":op["op"]})); break; }
            Err(msg) => { out.ev(json!({"ev":"panic","op":op["op"],"msg":msg})); break; }
        }
    }
}

// ------------------------------------------------------------------------------------ generation

/// What the generator remembers about a database: which terms its case has encoded so far
/// (structurally; never identifiers).
#[derive(Default, Clone)]
struct Known {
    plain: Vec<String>,
    quoted: Vec<Ref>,
}

impl Known {
    fn add(&mut self, r: &Ref) {
        match r {
            Ref::S(s) => { if !self.plain.contains(s) { self.plain.push(s.clone()); } }
            Ref::Q(t) => {
                for c in t.iter() { self.add(c); }
                if !self.quoted.contains(r) { self.quoted.push(r.clone()); }
            }
        }
    }
    fn any(&self, rng: &mut Rng) -> Option<Ref> {
        let n = self.plain.len() + self.quoted.len();
        if n == 0 { return None; }
        // bias towards quoted terms so that nesting happens
        if !self.quoted.is_empty() && rng.chance(1, 3) { return Some(rng.pick(&self.quoted).clone()); }
        let i = rng.below(n as u64) as usize;
        Some(if i < self.plain.len() { Ref::S(self.plain[i].clone()) } else { self.quoted[i - self.plain.len()].clone() })
    }
    fn plain_any(&self, rng: &mut Rng) -> Option<Ref> {
        if self.plain.is_empty() { None } else { Some(Ref::S(rng.pick(&self.plain).clone())) }
    }
}

fn depth(r: &Ref) -> u32 { match r { Ref::S(_) => 0, Ref::Q(t) => 1 + t.iter().map(depth).max().unwrap() } }

fn pool(rng: &mut Rng, n: usize) -> Vec<String> {
    let mut all: Vec<String> = Vec::new();
    for i in 0..10 { all.push(format!("http://e/i{i}")); }
    for i in 0..6 { all.push(format!("l{i}")); }
    for i in 0..3 { all.push(format!("_:b{i}")); }
    all.push("5".to_string());
    rng.shuffle(&mut all);
    all.truncate(n);
    all
}

/// a term over the pool that need not be known yet (for encode_term_star / add_quad_parts)
fn fresh_term(rng: &mut Rng, pool: &[String], d: u32) -> Ref {
    if d == 0 || rng.chance(3, 5) { return Ref::S(rng.pick(pool).clone()); }
    Ref::Q(Box::new([fresh_term(rng, pool, d - 1), Ref::S(rng.pick(pool).clone()), fresh_term(rng, pool, d - 1)]))
}

/// one population step for database k; `full` also produces quads / graphs / seeds
fn gen_build_op(rng: &mut Rng, k: u64, kn: &mut Known, pool: &[String], full: bool, ops: &mut Vec<Value>) {
    let choice = rng.below(if full { 20 } else { 9 });
    match choice {
        0..=3 => {
            let s = rng.pick(pool).clone();
            kn.add(&Ref::S(s.clone()));
            ops.push(json!({"op":"enc","db":k,"s":s}));
        }
        4..=6 => {
            // quoted triple over known terms (nesting up to depth 3)
            if let (Some(a), Some(p), Some(o)) = (kn.any(rng), kn.plain_any(rng), kn.any(rng)) {
                let t = Ref::Q(Box::new([a, p, o]));
                if depth(&t) <= 3 {
                    kn.add(&t);
                    if let Ref::Q(c) = &t { ops.push(json!({"op":"qenc","db":k,"t":[ref_json(&c[0]),ref_json(&c[1]),ref_json(&c[2])]})); }
                }
            }
        }
        7 | 8 => {
            let t = fresh_term(rng, pool, 2);
            kn.add(&t);
            ops.push(json!({"op":"star","db":k,"t":ref_json(&t)}));
        }
        9..=13 => {
            // quad over known terms, default or named graph, through one of the entry points
            if let (Some(a), Some(p), Some(o)) = (kn.any(rng), kn.plain_any(rng), kn.any(rng)) {
                let g = if rng.chance(2, 5) { String::new() } else { rng.pick(pool).clone() };
                let via = *rng.pick(&["ids", "ids", "triple", "parts"]);
                if !g.is_empty() { kn.add(&Ref::S(g.clone())); }
                ops.push(json!({"op":"quad","db":k,"t":[ref_json(&a),ref_json(&p),ref_json(&o)],"g":g,"via":via}));
            }
        }
        14 => {
            // quad over terms that need not be encoded yet (add_quad_parts encodes them)
            let t = [fresh_term(rng, pool, 2), Ref::S(rng.pick(pool).clone()), fresh_term(rng, pool, 1)];
            let g = rng.pick(pool).clone();
            for r in t.iter() { kn.add(r); }
            kn.add(&Ref::S(g.clone()));
            ops.push(json!({"op":"quad","db":k,"t":[ref_json(&t[0]),ref_json(&t[1]),ref_json(&t[2])],"g":g,"via":"parts"}));
        }
        15 | 16 => {
            // a named graph that may stay empty
            let g = rng.pick(pool).clone();
            kn.add(&Ref::S(g.clone()));
            ops.push(json!({"op":"graph","db":k,"g":g}));
        }
        _ => {
            let p = *rng.pick(&[125i64, 250, 500, 750, 1000]);
            if rng.chance(1, 3) {
                let t = [Ref::S(rng.pick(pool).clone()), Ref::S(rng.pick(pool).clone()), Ref::S(rng.pick(pool).clone())];
                for r in t.iter() { kn.add(r); }
                ops.push(json!({"op":"seed","db":k,"t":[ref_json(&t[0]),ref_json(&t[1]),ref_json(&t[2])],"p":p,"via":"tagged"}));
            } else if let (Some(a), Some(pp), Some(o)) = (kn.any(rng), kn.plain_any(rng), kn.any(rng)) {
                ops.push(json!({"op":"seed","db":k,"t":[ref_json(&a),ref_json(&pp),ref_json(&o)],"p":p,"via":"direct"}));
            }
        }
    }
}

fn gen_seq(rng: &mut Rng, nops: u64) -> Value {
    let n = rng.range(6, 20) as usize;
    let pool = pool(rng, n);
    let mut kn = Known::default();
    let mut ops = Vec::new();
    for i in 0..nops {
        match rng.below(10) {
            0..=5 => gen_build_op(rng, 1, &mut kn, &pool, false, &mut ops),
            6 | 7 => { if let Some(r) = kn.any(rng) { ops.push(json!({"op":"dec","db":1,"t":ref_json(&r)})); } }
            8 => ops.push(json!({"op":"decraw","db":1,"id":[rng.below(2), rng.below(40)]})),
            _ => { if let Some(r) = kn.plain_any(rng) { ops.push(json!({"op":"enc","db":1,"s":leaf(&r)})); } }
        }
        if i % 25 == 24 { ops.push(json!({"op":"snap","db":1})); }
    }
    ops.push(json!({"op":"snap","db":1}));
    json!({"kind":"seq","ops":ops})
}

fn gen_pair(rng: &mut Rng, maxops: u64) -> Value {
    let n = rng.range(5, 14) as usize;
    let base = pool(rng, n);
    // the two databases draw from overlapping pools in different orders: identifiers clash
    let mut pa = base.clone();
    let mut pb = base.clone();
    rng.shuffle(&mut pa);
    rng.shuffle(&mut pb);
    let keep_a = rng.range(2, pa.len() as u64) as usize;
    let keep_b = rng.range(2, pb.len() as u64) as usize;
    pa.truncate(keep_a);
    pb.truncate(keep_b);
    let (mut ka, mut kb) = (Known::default(), Known::default());
    let mut ops = Vec::new();
    let (na, nb) = (rng.range(0, maxops), rng.range(1, maxops));
    // interleave the two builds: they are independent objects
    let (mut ia, mut ib) = (0, 0);
    while ia < na || ib < nb {
        if ia < na && (ib >= nb || rng.chance(1, 2)) { gen_build_op(rng, 1, &mut ka, &pa, true, &mut ops); ia += 1; }
        else { gen_build_op(rng, 2, &mut kb, &pb, true, &mut ops); ib += 1; }
    }
    ops.push(json!({"op":"snap","db":1}));
    ops.push(json!({"op":"snap","db":2}));
    ops.push(json!({"op":"union","a":1,"b":2,"out":3}));
    ops.push(json!({"op":"snap","db":1}));
    ops.push(json!({"op":"snap","db":2}));
    // the result is a database like any other: its identifiers are stable and new terms get unused ones
    let mut k3 = ka.clone();
    for s in kb.plain.iter() { k3.add(&Ref::S(s.clone())); }
    for q in kb.quoted.iter() { k3.add(q); }
    ops.push(json!({"op":"enc","db":3,"s":"http://e/new1"}));
    k3.add(&Ref::S("http://e/new1".to_string()));
    for _ in 0..rng.range(1, 6) { gen_build_op(rng, 3, &mut k3, &base, true, &mut ops); }
    for _ in 0..3 { if let Some(r) = k3.any(rng) { ops.push(json!({"op":"dec","db":3,"t":ref_json(&r)})); } }
    ops.push(json!({"op":"snap","db":3}));
    match rng.below(4) {
        0 => { ops.push(json!({"op":"union","a":2,"b":1,"out":4})); ops.push(json!({"op":"snap","db":4})); }
        1 => { ops.push(json!({"op":"union","a":3,"b":2,"out":4})); ops.push(json!({"op":"snap","db":3})); }
        2 => { ops.push(json!({"op":"union","a":1,"b":1,"out":4})); ops.push(json!({"op":"snap","db":1})); }
        _ => {}
    }
    json!({"kind":"pair","ops":ops})
}

fn gen_merge(rng: &mut Rng, maxops: u64) -> Value {
    let n = rng.range(5, 14) as usize;
    let pool = pool(rng, n);
    let mut k1 = Known::default();
    let mut ops = Vec::new();
    for _ in 0..rng.range(0, maxops) { gen_build_op(rng, 1, &mut k1, &pool, false, &mut ops); }
    ops.push(json!({"op":"fork","from":1,"to":2}));
    let mut k2 = k1.clone();
    // the loaders' usage: a copy is extended and merged back; sometimes both sides are extended (they then disagree)
    for _ in 0..rng.range(0, maxops) { gen_build_op(rng, 2, &mut k2, &pool, false, &mut ops); }
    if rng.chance(1, 4) { for _ in 0..rng.range(1, 3) { gen_build_op(rng, 1, &mut k1, &pool, false, &mut ops); } }
    ops.push(json!({"op":"snap","db":1}));
    ops.push(json!({"op":"merge","d":1,"o":2}));
    ops.push(json!({"op":"qmerge","d":1,"o":2}));
    ops.push(json!({"op":"snap","db":1}));
    for q in k2.quoted.iter() { k1.add(q); }
    for s in k2.plain.iter() { k1.add(&Ref::S(s.clone())); }
    // the counters must have advanced: new terms get unused identifiers
    ops.push(json!({"op":"enc","db":1,"s":"http://e/new1"}));
    k1.add(&Ref::S("http://e/new1".to_string()));
    ops.push(json!({"op":"qenc","db":1,"t":["http://e/new1","http://e/new1","http://e/new1"]}));
    for _ in 0..rng.range(1, 5) { gen_build_op(rng, 1, &mut k1, &pool, false, &mut ops); }
    for _ in 0..3 { if let Some(r) = k1.any(rng) { ops.push(json!({"op":"dec","db":1,"t":ref_json(&r)})); } }
    ops.push(json!({"op":"snap","db":1}));
    json!({"kind":"merge","ops":ops})
}

fn gen_cases(seed: u64, n: u64, seqops: u64, maxops: u64) -> Vec<Value> {
    let mut rng = Rng::new(seed ^ 0xC15);
    let mut cases = Vec::new();
    for i in 0..n {
        cases.push(match i % 10 {
            0 => gen_seq(&mut rng, seqops),
            1 | 2 => gen_merge(&mut rng, maxops),
            _ => gen_pair(&mut rng, maxops),
        });
    }
    // capacity boundaries of both identifier ranges (no snapshots: the raw counters exceed TLC's 32-bit integers)
    for left in 0..4u64 {
        let mut ops = vec![json!({"op":"enc","db":1,"s":"l0"}), json!({"op":"enc","db":1,"s":"http://e/i0"}), json!({"op":"ff","db":1,"left":left})];
        for j in 0..5 { ops.push(json!({"op":"enc","db":1,"s":format!("http://e/n{j}")})); ops.push(json!({"op":"dec","db":1,"t":"l0"})); }
        cases.push(json!({"kind":"boundary","ops":ops}));
        let mut ops = vec![json!({"op":"enc","db":1,"s":"l0"}), json!({"op":"enc","db":1,"s":"l1"}), json!({"op":"enc","db":1,"s":"l2"}),
                           json!({"op":"qenc","db":1,"t":["l0","l1","l2"]}), json!({"op":"qff","db":1,"left":left})];
        for t in [["l1","l1","l2"], ["l2","l1","l0"], ["l0","l1","l1"], ["l2","l1","l2"], ["l1","l1","l1"]] {
            ops.push(json!({"op":"qenc","db":1,"t":t}));
            ops.push(json!({"op":"dec","db":1,"t":["l0","l1","l2"]}));
        }
        cases.push(json!({"kind":"boundary","ops":ops}));
    }
    // precondition coverage: a quoted triple over an identifier nobody handed out
    cases.push(json!({"kind":"seq","ops":[{"op":"enc","db":1,"s":"l0"},{"op":"qencraw","db":1,"spo":[[0,0],[0,7],[0,0]]},{"op":"snap","db":1}]}));
    cases
}

pub fn main(a: &Args) {
    let mut out = Out::create(a.req("out"));
    let mut run = 0u64;
    let cases = if let Some(f) = a.get("cases") { read_cases(f) }
                else { gen_cases(a.num("seed", 1), a.num("random", 50), a.num("seqops", 300), a.num("maxops", 20)) };
    for c in &cases { run_case(&mut out, &mut run, c); }
    out.finish();
}
