"""C11 - multi-window results are joins of what each window itself reported.

L1  tla/rsp/MultiImpl.tla: code-shaped model (one shared store, a worker per window, coordinator with the four
    synchronisation policies, timer as a silent action) checked by TLC against the requirement for all interleavings;
    negative control: per-window eviction (the historic design) leaks.
L3  requirement tla/rsp/MultiTrace.tla.  Real engines over two windows on two streams (sharing or not
sharing vocabulary, optionally with static background data and rules) are fed seeded interleaved
streams under every synchronisation policy, single-threaded and multi-threaded with perturbed
schedules; every emitted solution is judged by TLC against the contents the windows reported
(fire events recorded by the hook under the store lock).
"""
import json
import os
import random
import time
import vlib
from vlib import log
from checks.c10 import V, C, tr, pr_rules, NS, SUBJ, RULESETS

FAMILY = "rsp"
PA, PB, PS, LOC = NS + "pa", NS + "pb", NS + "p", NS + "loc"
ROOMS = [NS + "r0", NS + "r1"]
POLICIES = ["wait", "steal", "timeout-steal", "timeout-drop"]


def gen_case(rng, i):
    # window names: unrelated / one a proper suffix of the other (either way round); WHERE lists the
    # blocks in either order
    wna, wnb = [(f":wa{i}", f":wb{i}"), (f":w{i}", f":bw{i}"), (f":tw{i}", f":w{i}"), (f":w{i}x", f":w{i}")][(i // 3) % 4]
    shared = i % 2 == 0
    pa, pb = (PS, PS) if shared else (PA, PB)
    k = rng.random()
    if k < 0.2:
        qa, qb = [[V("x"), C(pa), V("y")]], [[V("x"), C(pb), V("y")]]          # two shared variables: both must agree
    elif k < 0.4:
        qa, qb = [[V("x"), C(pa), V("y")]], [[V("z"), C(pb), V("y")]]          # join on ?y
    elif k < 0.7:
        qa, qb = [[V("x"), C(pa), V("y")]], [[V("u"), C(pb), V("v")]]          # cross product
    else:
        qa, qb = [[V("x"), C(pa), V("y")], [V("y"), C(pa), V("w")]], [[V("x"), C(pb), V("v")]]
    static, sdata = [], []
    if rng.random() < 0.35:
        static = [[V("x"), C(LOC), V("r")]]
        sdata = [[s, LOC, rng.choice(ROOMS)] for s in SUBJ if rng.random() < 0.7]
        if shared and rng.random() < 0.5:
            sdata.append([rng.choice(SUBJ), PS, rng.choice(SUBJ)])                # static triple in window vocabulary must not leak
    rules = RULESETS[1] if (shared and rng.random() < 0.2) else []
    if rules:
        qb = [[V("z"), C(NS + "q"), V("y")]]
        rules = [{"prem": [[V("a"), C(PS), V("b")]], "concl": [[V("a"), C(NS + "q"), V("b")]]}]
    wa, sa = rng.choice([(2, 1), (2, 2), (4, 2), (3, 1)])
    wb, sb = rng.choice([(2, 1), (2, 2), (4, 2), (3, 3)])
    pushes, ts = [], 0
    for _ in range(rng.randint(8, 24)):
        ts += rng.choice([0, 1, 1, 2])
        st = rng.choice([":s1", ":s2"])
        pred = (pa if st == ":s1" else pb) if rng.random() < 0.85 else rng.choice([pa, pb, NS + "q"])
        pushes.append({"stream": st, "s": rng.choice(SUBJ), "p": pred, "o": rng.choice(SUBJ), "ts": ts})
    blka = f" WINDOW {wna} {{ " + " ".join(f"{tr(a)} {tr(b)} {tr(c)} ." for a, b, c in qa) + " }"
    blkb = f" WINDOW {wnb} {{ " + " ".join(f"{tr(a)} {tr(b)} {tr(c)} ." for a, b, c in qb) + " }"
    body = (blka + blkb if (i // 12) % 2 == 0 else blkb + blka) + " " + " ".join(f"{tr(a)} {tr(b)} {tr(c)} ." for a, b, c in static)
    text = (f"REGISTER RSTREAM <http://out/stream> AS SELECT * FROM NAMED WINDOW {wna} ON :s1 [RANGE {wa} STEP {sa}] "
            f"FROM NAMED WINDOW {wnb} ON :s2 [RANGE {wb} STEP {sb}] WHERE {{{body}}}")
    mode = "single" if i % 3 == 0 else "multi"
    return {"query": text, "rules": pr_rules(rules), "mode": mode, "policy": POLICIES[(i // 2) % 4], "seed": rng.randint(1, 10 ** 6),
            "static": "".join(f"<{s}> <{p}> <{o}> .\n" for s, p, o in sdata), "pushes": pushes, "shared_vocabulary": shared,
            "windows": [wna, wnb], "coordinator": True,
            "spec": {"blocks": {wna: qa, wnb: qb}, "static": static, "sdata": sdata, "rules": rules}}


def sig_for(case, why):
    if why == "deadlock":
        return "RSPEngine multi-window|multi-thread|engine threads block each other (run does not terminate)"
    if why == "leak":
        return "RSPEngine multi-window|shared R2R store|a WINDOW block matches items that only another window reported"
    return f"RSPEngine multi-window|{case['mode']}|{case['policy']}|{why}"


def validate(trace, verdict, tag):
    res = vlib.tlc_trace(FAMILY, "MultiTrace.tla", "MultiTrace.cfg", trace, tag=f"c11-{tag}", heap="6g", timeout=3000)
    runs = vlib.split_runs(vlib.read_ndjson(trace))
    stuck = [rid for rid, ev in runs.items() if any(e["ev"] == "timeout" for e in ev)]
    if stuck:
        raise vlib.ToolError(f"{len(stuck)} engine run(s) did not reach quiescence within 60 s (worker / coordinator threads still alive): not a verdict")
    failed = {}
    for f in res["fail"]:
        failed.setdefault(f[0], f[1])
    for rid, why in sorted(failed.items()):
        case = runs[rid][0]["case"]
        verdict.violation(sig_for(case, why), {"driver": "rsp", "case": case, "why": why})
    return runs, failed, res


def run(ctx):
    t0 = time.time()
    verdict = vlib.Verdict("C11", ctx.seed, ctx.tier)
    wd = vlib.workdir("c11")
    if ctx.replay:
        case = json.load(open(ctx.replay))["case"]["case"]
        vlib.write_ndjson(os.path.join(wd, "cases.ndjson"), [case])
        vlib.kverif_restartable("rsp", os.path.join(wd, "cases.ndjson"), os.path.join(wd, "replay.ndjson"))
        validate(os.path.join(wd, "replay.ndjson"), verdict, "replay")
        return verdict.finish()
    thorough = ctx.tier == "thorough"
    mc = vlib.tlc_mc(FAMILY, "MCMulti.tla", "MCMulti_thorough.cfg" if thorough else "MCMulti_quick.cfg", workers=8)
    log(f"L1 MultiImpl (shared store, workers, coordinator, 4 policies): {mc['states']} distinct states, violated={mc['violated']}")
    if mc["uncovered"]:
        raise vlib.ToolError(f"vacuity: actions never taken in L1: {mc['uncovered']}")
    neg = vlib.tlc_mc(FAMILY, "MCMulti.tla", "MCMulti_unfixed.cfg", workers=4, coverage=False, tag="c11-neg")
    if neg["violated"] != "BlockAnswersFromOwnWindow":
        raise vlib.ToolError("non-vacuity check failed: per-window eviction no longer leaks in the model")
    rng = random.Random(ctx.seed * 1299709 + 11)
    n = 1500 if thorough else 120
    cases = [gen_case(rng, i) for i in range(n)]
    cp, tp = os.path.join(wd, "cases.ndjson"), os.path.join(wd, "trace.ndjson")
    vlib.write_ndjson(cp, cases)
    vlib.kverif_restartable("rsp", cp, tp)
    runs, failed, res = validate(tp, verdict, "l3")
    emits = sum(1 for ev in runs.values() for e in ev if e["ev"] == "emit")
    log(f"validated {len(runs)} scenarios, {emits} emitted solutions: {len(failed)} scenarios rejected")
    if mc["violated"] and not failed:
        raise vlib.ToolError(f"L1 invariant {mc['violated']} violated in the model but not reproduced on the code: model out of date")
    rc = verdict.finish()
    distinct = set()
    by = {}
    for rid, ev in runs.items():
        c = ev[0]["case"]
        if any(e["ev"] == "emit" for e in ev):
            distinct.add(vlib.case_hash([c["query"], c["pushes"], c["mode"], c["policy"], c["seed"]]))
        k = f"{c['mode']}/{c['policy']}/{'shared' if c['shared_vocabulary'] else 'disjoint'}-vocabulary"
        by[k] = by.get(k, 0) + 1
    smp = runs[sorted(runs)[0]]
    cov = {"evaluations": len(runs), "distinct_nontrivial": len(distinct),
           "rule": "seeded scenarios: 2 windows on 2 streams, patterns sharing or not sharing vocabulary, optional static pattern and rule, "
                   "4 sync policies x single/multi-thread; distinct by (query, streams, mode, policy, schedule seed); non-trivial = at least one solution emitted",
           "samples": [{"query": smp[0]["case"]["query"], "policy": smp[0]["case"]["policy"], "mode": smp[0]["case"]["mode"],
                        "first_events": [{k: v for k, v in e.items() if k != "case"} for e in smp[1:8]]}],
           "states": mc["states"], "transitions": mc["generated"], "traces_validated_against_impl": len(runs), "trace_states": res["states"],
           "emitted_solutions_judged": emits, "scenarios_by_configuration": by}
    vlib.write_evidence("C11", ctx.tier, ctx.seed, "model_checking", cov,
                        ["reported[w] is taken from the fire events the hook records under the store lock (not from a separate probe window)",
                         "Timeout policies use a 30 ms wall-clock deadline; the requirement is independent of when a cycle is emitted",
                         "L1 (MultiImpl.tla) treats one firing as one atomic step (the store mutex spans evict..query) and has no rules / static data; it is bound to the code by trace validation only (no L2 replay)"],
                        time.time() - t0, len(verdict.violations))
    return rc
