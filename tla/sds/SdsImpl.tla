------------------------------ MODULE SdsImpl ------------------------------
(***************************************************************************)
(* Code-shaped model of                                                    *)
(*   datalog::reasoning::materialisation::cross_window_incremental::       *)
(*   incremental_sds_plus                                                  *)
(* driven through all window-consistent histories of a small universe, and *)
(* checked after every evaluation against the requirement SdsReq.          *)
(*                                                                         *)
(* IncStep follows the code: d_base (translate_sds_to_datalog), d_old      *)
(* (carried facts with expiry > now), d_new (alive facts absent from d_old *)
(* or with a later expiry), tags seeded from d_old then d_new, semi-naive  *)
(* rounds starting from delta = d_new in which a derivation needs one      *)
(* premise in the delta, new facts get the derivation tag, known facts     *)
(* whose tag improves (max) re-enter the next delta (delta_improved), the  *)
(* loop ends when a round neither adds a fact nor improves a tag; the      *)
(* result keeps the facts whose predicate belongs to a component.          *)
(* Hash-iteration order inside a round is abstracted: a round reads the    *)
(* tags of its start (the code may already see a tag improved earlier in   *)
(* the same round; both reach the same fixpoint because improved facts are *)
(* re-submitted).                                                          *)
(***************************************************************************)
EXTENDS SdsReq, TLC

CONSTANTS W, S, O,        \* configuration (see SdsReq)
          Programs,       \* sequence of programs, each a sequence of rules
          Pool,           \* sequence (per window) of sets of <<s, lp, o>> that can arrive
          MaxT,           \* evaluation and arrival times are 0..MaxT
          MaxSteps,       \* evaluations per history
          LazyModes,      \* subset of BOOLEAN: TRUE = expired triples stay listed
          KeepHist,       \* TRUE: record the history (behaviour emission), FALSE: state graph only
          Variant         \* "code" | "renewals-ignored" | "min-over-derivations" (negative controls)

VARIABLES prog, lazy, t, cur, old, hist, pre
vars == <<prog, lazy, t, cur, old, hist, pre>>

CompsAll == Comps(W, S, O)
Rules(p) == SeqRange(Programs[p])
Empty == [f \in {} |-> 0]

---------------------------------------------------------------------------
(* semi_naive_with_initial_tags_and_delta with ExpirationProvenance *)

Combine(S1) == IF Variant = "min-over-derivations" THEN MinOf(S1) ELSE MaxOf(S1)

RECURSIVE Rounds(_, _, _, _)
Rounds(R, facts, tag, delta) ==
  LET D        == {d \in Derivs(R, facts) : d[2] \cap delta # {}}
      cand     == {d[1] : d \in D}
      dtag(f)  == Combine({MinOf({tag[p] : p \in d[2]}) : d \in {dd \in D : dd[1] = f}})
      newF     == cand \ facts
      improved == {f \in cand \cap facts : dtag(f) > tag[f]}
      tag2     == [f \in facts \cup newF |->
                     IF f \in newF \/ f \in improved THEN dtag(f) ELSE tag[f]]
  IN  IF newF = {} /\ improved = {} THEN tag
      ELSE Rounds(R, facts \cup newF, tag2, newF \cup improved)

IncStep(R, prev, base, now) ==
  LET dOld  == {f \in DOMAIN prev : prev[f] > now}
      dNew  == IF Variant = "renewals-ignored"
                 THEN {f \in DOMAIN base : f \notin dOld}
                 ELSE {f \in DOMAIN base : IF f \in dOld THEN prev[f] < base[f] ELSE TRUE}
      f0    == dOld \cup dNew
      tag0  == [f \in f0 |-> IF f \in dNew THEN base[f] ELSE prev[f]]
      final == Rounds(R, f0, tag0, dNew)
  IN  [f \in {g \in DOMAIN final : HasOwner(g[2], CompsAll)} |-> final[f]]

---------------------------------------------------------------------------
(* histories *)

Pairs == UNION {{<<i, x>> : x \in Pool[i]} : i \in 1..Len(W)}

Listed(i, x) == {y \in cur[i] : y[1] = x[1] /\ y[2] = x[2] /\ y[3] = x[3]}

Step(t2, ch) ==
  LET arrival(i, x) == IF ch[<<i, x>>] >= 0 THEN ch[<<i, x>>]
                       ELSE IF Listed(i, x) # {} THEN (CHOOSE y \in Listed(i, x) : TRUE)[4] ELSE -1
      nxt == [i \in 1..Len(W) |->
                {<<x[1], x[2], x[3], arrival(i, x)>> :
                    x \in {z \in Pool[i] : /\ arrival(i, z) >= 0
                                           /\ (lazy \/ arrival(i, z) + W[i].alpha > t2)}}]
      inc  == IncStep(Rules(prog), old, Base(W, S, nxt, t2), t2)
  IN  /\ t' = t2
      /\ cur' = nxt
      /\ old' = inc
      /\ pre' = WindowConsistent(W, t, cur, t2, nxt)
      /\ hist' = IF KeepHist THEN Append(hist, [t |-> t2, win |-> nxt, inc |-> {<<f[1], f[2], f[3], inc[f]>> : f \in DOMAIN inc}])
                 ELSE hist
      /\ UNCHANGED <<prog, lazy>>

Init == /\ prog \in 1..Len(Programs) /\ lazy \in LazyModes
        /\ t = -1 /\ cur = [i \in 1..Len(W) |-> {}] /\ old = Empty /\ hist = <<>>
        /\ pre = TRUE

Next == /\ t < MaxT
        /\ (KeepHist => Len(hist) < MaxSteps)
        /\ \E t2 \in (t + 1)..MaxT : \E ch \in [Pairs -> {-1} \cup ((t + 1)..t2)] : Step(t2, ch)

Spec == Init /\ [][Next]_vars

---------------------------------------------------------------------------
(* Impl => Req, evaluated in every reachable state (t, cur, old) *)

NowBase == Base(W, S, cur, t)
IncOf(c) == {f \in DOMAIN old : Owner(f[2], CompsAll) = c}

\* the generator only produces histories the property speaks about
GenConsistent == pre
\* per component exactly the facts of from-scratch reasoning over the alive facts
FactsEqualNaive ==
  t >= 0 => LET M == Mat(Rules(prog), NowBase)
            IN  \A c \in CompsAll : IncOf(c) = MatOf(M, c, CompsAll)
\* the kept expiry is the latest time until which some derivation stays fully supported
ExpiryIsMaxMin == t >= 0 => old = ExpThreshold(Rules(prog), NowBase)
\* the two definitions of that time coincide
DefinitionsAgree == t >= 0 => ExpThreshold(Rules(prog), NowBase) = ExpSemiring(Rules(prog), NowBase)
=============================================================================
