"""C15 - term identifiers are a stable bijection, also across database union.

L1  tla/dict/Dict.tla (requirement: enc, qenc, ghost handed; Bijective, RangesDisjoint, RoundTrip, Stable,
    Nesting) is model checked on its own; tla/dict/UnionImpl.tla (two dictionaries/quoted stores/databases
    built independently through code-shaped encode operators, then SparqlDatabase::union step by step with
    its translation cache, or Dictionary/QuotedTripleStore::merge with or_insert) is checked against it:
    each dictionary refines Dict.tla, UnionDenotesUnion, SourceUntouched, CacheSound, OrderIrrelevant,
    MergeSafe.  Negative controls: graph names copied untranslated must violate UnionDenotesUnion; merge
    without its precondition must violate bijectivity.
L2  every build history of a smaller instance is printed by TLC together with the model's prediction of
    union and merge; each is replayed on the real Dictionary / QuotedTripleStore / SparqlDatabase
    (followed by snapshots, union, merge, further encodes) and the recording is validated.
L3  seeded random encode/decode/quoted-encode sequences, random pairs of populated databases (default and
    named graphs, empty named graphs, nested quoted triples, seeds, several entry points) unioned, and
    fork/extend/merge scenarios; validated by tla/dict/DictTrace.tla, which computes every expected value.
"""
import json
import os
import time
from concurrent.futures import ThreadPoolExecutor

import vlib
from vlib import log

FAMILY = "dict"

SITE = {
    "enc": "Dictionary::encode",
    "qenc": "QuotedTripleStore::encode",
    "dec": "Dictionary::decode|decode_term|SparqlDatabase::decode_any",
    "qdec": "QuotedTripleStore::decode",
    "snap": "identifier-stability(snapshot)",
    "union": "SparqlDatabase::union",
    "merge": "Dictionary::merge",
    "qmerge": "QuotedTripleStore::merge",
    "quad": "SparqlDatabase::add_quad",
    "lost": "identifier-stability(lookup)",
    "panic": "panic",
}

L2_TAIL = [
    {"op": "snap", "db": 1}, {"op": "snap", "db": 2},
    {"op": "union", "a": 1, "b": 2, "out": 3},
    {"op": "snap", "db": 1}, {"op": "snap", "db": 2},
    {"op": "enc", "db": 3, "s": "zz"}, {"op": "qenc", "db": 3, "t": ["zz", "zz", "zz"]}, {"op": "snap", "db": 3},
    {"op": "merge", "d": 1, "o": 2}, {"op": "qmerge", "d": 1, "o": 2}, {"op": "snap", "db": 1},
    {"op": "enc", "db": 1, "s": "zz"}, {"op": "qenc", "db": 1, "t": ["zz", "zz", "zz"]}, {"op": "snap", "db": 1},
]


def sig_for(run_events, fail):
    """site | trigger class | symptom.  fail = [run, line, event, reason] as printed by DictTrace."""
    ev, why = fail[2], fail[3]
    kind = run_events[0]["case"].get("kind", "?")
    trigger = kind
    if ev in ("enc", "qenc"):
        # which entry point produced the event: a direct call returns the id it logs; sub-terms of
        # encode_term_star / add_quad_parts / add_tagged_triple are looked up afterwards
        trigger = kind + ",encode"
    if ev == "union":
        trigger = kind + ",ids-clash" if kind in ("pair", "l2") else kind
    return f"{SITE.get(ev, ev)}|{trigger}|{why}"


def validate_one(path, tag):
    return vlib.tlc_trace(FAMILY, "DictTrace.tla", "DictTrace.cfg", path, tag=f"c15-{tag}", heap="4g")


def validate(trace_path, verdict, tag, parts=1):
    """Validate a recorded trace (split over `parts` JVMs at run boundaries)."""
    events = vlib.read_ndjson(trace_path)
    runs = vlib.split_runs(events)
    rids = sorted(runs)
    results = []
    if parts <= 1 or len(rids) < parts * 4:
        results.append(validate_one(trace_path, tag))
    else:
        chunks = [rids[i::parts] for i in range(parts)]
        paths = []
        for n, ch in enumerate(chunks):
            p = f"{trace_path}.part{n}"
            vlib.write_ndjson(p, [e for r in ch for e in runs[r]])
            paths.append(p)
        with ThreadPoolExecutor(max_workers=parts) as ex:
            results = list(ex.map(lambda a: validate_one(a[1], f"{tag}-{a[0]}"), enumerate(paths)))
        for p in paths:
            os.remove(p)
    failed, drift, skipped = {}, {}, {}
    states = 0
    for res in results:
        states += res["states"]
        for f in res["fail"]:
            failed.setdefault(f[0], f)
        for d in res["modeldiff"]:
            drift.setdefault(d[0], d)
        for i in res["info"]:
            if len(i) > 1 and i[1] == "skipped":
                skipped.setdefault(i[0], i)
    for rid, f in sorted(failed.items()):
        ev = runs[rid]
        verdict.violation(sig_for(ev, f), {"driver": "c15", "case": ev[0]["case"], "failing_line": f[1], "event": f[2], "why": f[3]},
                          detail=f"(run {rid}: {f[2]} -> {f[3]})")
    drift = {r: d for r, d in drift.items() if r not in failed}
    return runs, failed, drift, skipped, states


def clash(run_events):
    """Non-triviality of a union/merge run: the operand dictionaries really disagree on some identifier
    (same id - different string, or same string - different id).  Pure counting on the recording."""
    snaps = {}
    for e in run_events:
        if e["ev"] == "snap" and e["db"] in (1, 2) and e["db"] not in snaps:
            snaps[e["db"]] = e
        if e["ev"] in ("union", "merge"):
            break
    if len(snaps) < 2:
        return False
    a = {json.dumps(i): s for s, i in snaps[1]["raw"]["s2i"]}
    b = {json.dumps(i): s for s, i in snaps[2]["raw"]["s2i"]}
    return any(i in b and b[i] != s for i, s in a.items())


def nontrivial(run_events):
    kind = run_events[0]["case"].get("kind")
    evs = [e["ev"] for e in run_events]
    if kind == "seq":
        seen, again = set(), False
        for e in run_events:
            if e["ev"] == "enc":
                again = again or e["s"] in seen
                seen.add(e["s"])
        return again and "qenc" in evs and "dec" in evs
    if kind == "merge":
        return "merge" in evs and any(e["ev"] in ("enc", "qenc") and e["db"] == 2 for e in run_events)
    return "union" in evs and clash(run_events)


def run(ctx):
    t0 = time.time()
    verdict = vlib.Verdict("C15", ctx.seed, ctx.tier)
    wd = vlib.workdir("c15")
    if ctx.replay:
        case = json.load(open(ctx.replay))["case"]["case"]
        vlib.write_ndjson(os.path.join(wd, "cases.ndjson"), [case])
        vlib.kverif(["c15", "--cases", os.path.join(wd, "cases.ndjson"), "--out", os.path.join(wd, "replay.ndjson")])
        validate(os.path.join(wd, "replay.ndjson"), verdict, "replay")
        return verdict.finish()

    thorough = ctx.tier == "thorough"
    tier = "thorough" if thorough else "quick"

    # ---- L1
    with ThreadPoolExecutor(max_workers=5) as ex:
        f_req = ex.submit(vlib.tlc_mc, FAMILY, "Dict.tla", f"MCDict_{tier}.cfg", 4, 1800, True, "c15-dict")
        # -coverage costs ~30 s on these recursive operators whatever the size of the model: the main run goes without,
        # vacuity is excluded by the negative controls, the census of the emitted histories below and (thorough) MC_cov.cfg
        f_mc = ex.submit(vlib.tlc_mc, FAMILY, "UnionImpl.tla", f"MC_{tier}.cfg", 8, 3000, False, "c15-union")
        f_cov = ex.submit(vlib.tlc_mc, FAMILY, "UnionImpl.tla", "MC_cov.cfg", 2, 900, True, "c15-cov") if thorough else None
        f_n1 = ex.submit(vlib.tlc_mc, FAMILY, "UnionImpl.tla", "MC_neg_graphs.cfg", 2, 900, False, "c15-neg1")
        f_n2 = ex.submit(vlib.tlc_mc, FAMILY, "UnionImpl.tla", "MC_neg_merge.cfg", 2, 900, False, "c15-neg2")
        f_em = ex.submit(vlib.tlc_emit, FAMILY, "MCUnion.tla", f"MC_emit_{tier}.cfg", 4, 1800, "c15-emit")
        req, mc, neg1, neg2 = f_req.result(), f_mc.result(), f_n1.result(), f_n2.result()
        behaviours, est = f_em.result()
        cov_run = f_cov.result() if f_cov else None
    if thorough:
        more, _ = vlib.tlc_emit(FAMILY, "MCUnion.tla", "MC_emit_thorough2.cfg", 8, 1800, "c15-emit2")
        seen = {json.dumps(b["ops"], sort_keys=True) for b in behaviours}
        behaviours += [b for b in more if json.dumps(b["ops"], sort_keys=True) not in seen]
    t1 = time.time()
    log(f"L1 [{t1 - t0:.0f}s] Dict.tla (requirement) {req['states']} distinct states, violated={req['violated']}; "
        f"UnionImpl refines it: {mc['states']} distinct states ({mc['generated']} transitions), violated={mc['violated']}")
    if req["violated"]:
        raise vlib.ToolError(f"the requirement module violates its own invariant {req['violated']}")
    unc = [a for a in req["uncovered"] + (cov_run["uncovered"] if cov_run else []) if a not in ("DInit", "DNext")]
    if unc:
        raise vlib.ToolError(f"vacuity: actions never taken in L1: {unc}")
    # census of the build histories TLC emitted (same actions, constants not larger than the L1 run): every kind of
    # build step occurs, some history nests quoted triples, and for some the model predicts clashing identifiers
    kinds = {o["op"] for b in behaviours for o in b["ops"]}
    nested = sum(1 for b in behaviours for o in b["ops"] if o["op"] == "qenc" and any(isinstance(x, list) for x in o["t"]))
    if kinds != {"enc", "qenc", "quad", "graph", "seed"} or not nested:
        raise vlib.ToolError(f"vacuity: build steps missing from the emitted histories: {sorted(kinds)}, nested={nested}")
    if neg1["violated"] != "UnionDenotesUnion":
        raise vlib.ToolError("non-vacuity check failed: untranslated graph names no longer violate UnionDenotesUnion in the model")
    if neg2["violated"] != "MergeAlwaysBijective":
        raise vlib.ToolError("non-vacuity check failed: merge of disagreeing dictionaries no longer breaks bijectivity in the model")

    # ---- L2: TLC build histories -> real code
    cases = [{"kind": "l2", "ops": b["ops"] + L2_TAIL, "model": {"has": "t", "union": b["union"], "merge": b["merge"]}}
             for b in behaviours]
    vlib.write_ndjson(os.path.join(wd, "l2cases.ndjson"), cases)
    vlib.kverif(["c15", "--cases", os.path.join(wd, "l2cases.ndjson"), "--out", os.path.join(wd, "l2.ndjson")])
    runs2, failed2, drift2, skip2, st2 = validate(os.path.join(wd, "l2.ndjson"), verdict, "l2", parts=6 if thorough else 4)
    t2 = time.time()
    log(f"L2 [{t2 - t1:.0f}s] replayed {len(cases)} TLC build histories (+ union, merge, further encodes): {len(failed2)} rejected, "
        f"{len(drift2)} differ from the code-shaped model only, {len(skip2)} left the merge precondition")

    # ---- L3: random sequences / pairs / merges
    n3, seqops, maxops = (2500, 1000, 30) if thorough else (500, 400, 22)
    vlib.kverif(["c15", "--random", n3, "--seed", ctx.seed, "--seqops", seqops, "--maxops", maxops, "--out", os.path.join(wd, "l3.ndjson")])
    runs3, failed3, drift3, skip3, st3 = validate(os.path.join(wd, "l3.ndjson"), verdict, "l3", parts=6 if thorough else 4)
    ev3 = sum(len(r) - 1 for r in runs3.values())
    log(f"L3 [{time.time() - t2:.0f}s] validated {len(runs3)} recorded runs ({ev3} calls): {len(failed3)} rejected, {len(skip3)} left a precondition")

    if mc["violated"] and not (failed2 or failed3):
        raise vlib.ToolError(f"L1 {mc['violated']} violated in the model but not reproduced on the code: model out of date")
    if drift2 and not verdict.violations:
        log(f"MODEL-DRIFT: {len(drift2)} behaviours where the code's identifiers differ from DictCode.tla while the requirement holds "
            f"(update the code-shaped model); not a verdict")

    rc = verdict.finish()
    allruns = list(runs2.values()) + list(runs3.values())
    distinct = {vlib.case_hash(ev[0]["case"].get("ops")) for ev in allruns if nontrivial(ev)}
    calls = sum(len(r) - 1 for r in allruns)
    pairs = [r for r in runs3.values() if r[0]["case"]["kind"] == "pair" and clash(r) and len(r[0]["case"]["ops"]) <= 40]
    pair = max(pairs, key=lambda r: max([len(e["raw"]["quads"]) for e in r if e["ev"] == "union"] + [0])) if pairs else runs3[sorted(runs3)[0]]
    unions = sum(1 for r in allruns for e in r if e["ev"] == "union")
    cov = {
        "states": mc["states"] + req["states"], "transitions": mc["generated"] + req["generated"],
        "traces_validated_against_impl": len(allruns),
        "samples": [{"l3_pair_case_ops": pair[0]["case"]["ops"],
                     "union_event_lexical": next((e["lex"] for e in pair if e["ev"] == "union"), None)},
                    {"tlc_behaviour": behaviours[len(behaviours) // 2]}],
        "evaluations": len(allruns), "distinct_nontrivial": len(distinct),
        "rule": "one evaluation = one recorded run (L2: a TLC build history of two databases + union + merge; L3: a seeded random "
                "encode/decode/quoted-encode sequence, a pair of populated databases unioned, or a fork/extend/merge scenario), every "
                "call of which is judged by TLC. Distinct by hash of the operation list. Non-trivial: sequence runs re-encode a known "
                "term, encode a quoted triple and decode; union runs have operand dictionaries in which some identifier denotes "
                "different strings (identifiers clash); merge runs extend the forked copy before merging.",
        "exhaustive": True,
        "l1_requirement_states": req["states"], "l1_union_model_states": mc["states"],
        "l1_constants": f"MC_{tier}.cfg, MCDict_{tier}.cfg", "negative_controls": ["MC_neg_graphs.cfg", "MC_neg_merge.cfg"],
        "l2_behaviours": len(cases), "l3_runs": len(runs3), "calls_judged": calls, "unions_judged": unions,
        "skipped_precondition": len(skip2) + len(skip3), "model_drift": len(drift2), "trace_states": st2 + st3,
    }
    vlib.write_evidence("C15", ctx.tier, ctx.seed, "model_checking", cov,
                        ["a term is the string handed to Dictionary::encode (IRIs without angle brackets, literals without quotes): "
                         "the collapse of term kinds / datatypes / language tags by encode_term_star is not judged here (C13/C14)",
                         "strings contain no white space, so the rendering '<< s p o >>' of decode_any is injective and lexical comparison is structural",
                         "L1 exhaustive only within the cfg constants; beyond them the evidence is trace validation of sampled executions",
                         "seeds: if both operands seed the same lexical triple with different probabilities either value is accepted",
                         "merge is judged only under its precondition (the two maps agree); outside it the run is counted as skipped",
                         "identifier exhaustion (2^31 plain / quoted identifiers) is not explored"],
                        time.time() - t0, len(verdict.violations))
    if rc == 0 and thorough:
        # the thorough recordings are several hundred MB; they are reproducible from the seed
        for f in ("l2.ndjson", "l2cases.ndjson", "l3.ndjson"):
            os.remove(os.path.join(wd, f))
    return rc
