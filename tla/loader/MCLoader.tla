------------------------------ MODULE MCLoader ------------------------------
(* Constants for the exhaustive runs of LoaderImpl. *)
EXTENDS LoaderImpl

I(x) == [k |-> "iri", v |-> "http://e/" \o x, x |-> "", t |-> ""]
N(x) == [k |-> "pn", v |-> x, x |-> "e", t |-> ""]
T(s, p, o) == [kind |-> "triple", s |-> s, p |-> p, o |-> o, g |-> DefaultG]

Lines == { T(I("a"), I("b"), I("c")),              \* the same three terms in two orders: chunk-local
           T(I("c"), I("b"), I("a")),              \* identifiers differ from the shared ones
           T(N("a"), I("b"), N("d")),              \* prefixed names, one term new to every prior
           [kind |-> "prefix", name |-> "e", iri |-> "http://e/"],
           [kind |-> "comment"] }

LinesThorough == Lines \cup { T(I("d"), N("b"), I("a")), [kind |-> "blank"] }

S(x) == "http://e/" \o x
PriorSet == { <<>>,
              << <<S("a"), S("b"), S("c")>> >>,
              << <<S("c"), S("b"), S("a")>>, <<S("d"), S("b"), S("d")>> >> }
=============================================================================
