#!/usr/bin/env python3
"""Regenerates /verif/MANIFEST.json from the table below and validates it against the schema."""
import json
import os
import subprocess
import sys

ROOT = os.path.dirname(os.path.dirname(os.path.abspath(__file__)))

CLAIMED = {
    "C19": dict(
        category="model_checking",
        text="TLC checks a code-shaped model of compute_repairs/query_with_repairs (stack, seen set, insertion-time maximality test, every "
             "HashSet iteration order as a nondeterministic permutation, final maximality filter) against the requirement (repairs = "
             "subset-maximal consistent subsets, answers = facts of every repair, conflict-free facts answered) for all fact sets of a small "
             "universe x 7 constraint sets, with the historic search as negative control; every instance of the universe and seeded random "
             "fact/constraint/goal/rule sets are executed on the real Reasoner several times with fresh hash states; every call of "
             "query_with_repairs and infer_new_facts_semi_naive_with_repairs is judged by a TLA+ trace specification (TLC enumerates all subsets).",
        design_ref="DESIGN.md section 5 (C19)",
        note="Trusted: TLC, Json module, recording harness (harness/src/c19.rs). Constraints = positive bodies with >= 1 atom, no filters; "
             "<= 8 facts. Hash orders on the real code are sampled (fresh SipHash keys per call, two processes), all orders only on the model. "
             "Materialisation: only consistency of the final fact set is required (as the property states).",
        technique="TLA+ model checking of a code-shaped search model over all iteration orders (TLC) + exhaustive small-universe replay + "
                  "trace validation against the TLA+ requirement",
    ),
    "C18": dict(
        category="model_checking",
        text="TLC checks a code-shaped model of backward_chaining.rs (explicit variable names, binding maps with resolve, global "
             "renaming counter with the reserved-name rule, per-visit rule renaming, depth cut) against the requirement (answers sound "
             "w.r.t. the least model, complete for TP^MaxDepth) for every goal over a small universe whose variables are called like "
             "rule variables or like engine-generated names v<k>; every such instance is replayed on the real Reasoner::backward_chaining "
             "with the model's predicted answer set, and seeded random programs (chains around the depth bound 10, stratified programs "
             "with arbitrary term shapes, linear recursion on cyclic graphs) x goal shapes x three naming schemes are recorded; every "
             "call is judged by a TLA+ trace specification in which TLC computes LFP(R,F) and TP^10(F).",
        design_ref="DESIGN.md section 5 (C18)",
        note="Trusted: TLC, Json module, recording harness (harness/src/c18.rs: resolve_term applied to the goal variables). Safe positive "
             "rules without filters, ground facts, no quoted triples. Facts deeper than the bound are only required to be sound. "
             "Exhaustive only for the programs/goal universe of MCBackChain.tla; L3 programs restricted to linear recursion.",
        technique="TLA+ model checking of a code-shaped SLD model (TLC) + spec-to-impl replay with model prediction + trace validation "
                  "against the TLA+ requirement (TLC computes least model and bounded TP iteration)",
    ),
    "C05": dict(
        category="model_checking",
        text="TLC checks a code-shaped model of the fixpoint driver and the semi-naive / naive strategies (fact vector, known set, delta "
             "window start_idx_for_delta, two strata for negation as failure, second run, arbitrary vector and rule order) against the "
             "TLA+ definition of the least / stratified model (Match, TP, LFP, Model) for every safe program of several small families "
             "and every small fact set; the enumerated programs with the predicted rounds, hand-written programs and seeded random safe "
             "programs (1..4 premises, constants / repeated variables anywhere, variable predicates, several conclusions, numeric and "
             "identity filters, one stratum of negation, <= 25 facts) are materialised by the real Reasoner with all four strategies "
             "under several rule / fact orders plus a second run; every returned fact set, store and second run is validated by the "
             "TLA+ trace specification in which TLC computes the model.",
        design_ref="DESIGN.md section 5 (C05)",
        note="Trusted: TLC, Json module, recording harness (harness/src/c05.rs). Exhaustive only within the program families of "
             "tla/datalog/MC_*.cfg; beyond them sampled executions. Negation is judged for programs that pass the syntactic one-stratum "
             "test Stratified; numeric filters only on numerals; provenance strategy with BooleanProvenance only (tags: C06); rayon "
             "schedules are not controlled. Known finding F-C05c (provenance strategy: single NAF pass).",
        technique="TLA+ model checking of a code-shaped evaluator against a denotational model (TLC) + spec-to-impl replay + trace "
                  "validation with TLC as the oracle",
    ),
    "C07": dict(
        category="model_checking",
        text="A TLA+ requirement (BoolFun.tla) gives every handle of the decision-diagram manager a truth table over the registered "
             "variables and states each operation (literal, apply and/or, negate, exactly-one, variable introduction, budgeted twins) by "
             "its postcondition on these tables including canonicity (equal tables - equal handles) and 'exhaustion changes nothing'; "
             "TLC checks a small code-shaped model (unique table, apply/negate caches filled after success, variables introduced between "
             "operations, exhaustion at any call) against it. Every transition of that model is replayed on a real SddManager, and "
             "recordings of the real SddManager - all operand pairs over 2 (quick) / 3 (thorough) variables through apply and try_apply, "
             "seeded random sequences over up to 8 variables, and fault enumeration (deadline closure expiring at the k-th checkpoint for "
             "every k up to the measured count, every node limit, then continued use of the same manager with all handles probed) - are "
             "validated event by event by the TLA+ trace specification: TLC computes the truth table of the formula, the completions of "
             "enumerate_models, and the WMC and gradient sums.",
        design_ref="DESIGN.md section 5 (C07)",
        note="Trusted: TLC, Json/FiniteSetsExt community modules, the recording harness (harness/src/c07.rs: SddId numbered by first "
             "appearance, float WMC*4^n rounded to an integer with a 1e-6 integrality flag). Weights are multiples of 1/4; WMC/gradient "
             "are compared only for functions that imply exactly-one of every registered exclusive group (TLA+ predicate WmcMeaningful). "
             "Exhaustive only for operand pairs over <= 3 variables and the bounded L1/L2 model; up to 8 variables by seeded sampling; "
             "sequences with more interruption points than the cap are sampled. Unregistered variables and duplicate variables in "
             "exactly_one are outside the API's contract and not generated. No finding: the check passes on the unchanged tree.",
        technique="TLA+ model checking (TLC) + edge-cover replay + trace validation against the TLA+ requirement with fault enumeration",
    ),
    "C08": dict(
        category="model_checking",
        text="TLC checks a code-shaped model of the hybrid escalation controller (top-k rounds, certificates, adaptive k, exact fallback, "
             "clock expiry enabled at every clock reading, proof enumeration abstracted to any antichain of proofs with a sound residual) "
             "against the C08 requirement exhaustively for all proof sets over 3 seeds; TLC emits every lineage of that universe and the grid "
             "of valid configurations and the real evaluator is run on all of them; seeded random monotone/non-monotone lineage DAGs with "
             "independent seeds and exclusive groups are run through evaluate_hybrid_with_clock / evaluate_topk / "
             "compile_lineage_to_sdd_with_clock with a scripted clock that passes the deadline at the j-th reading for every j, and small rule "
             "programs through Reasoner::infer_new_facts_with_hybrid; a TLA+ trace specification computes the true probability of every "
             "lineage by world enumeration and judges every recorded result (exact value, interval, Alert/NoAlert, NeedsExact bounds).",
        design_ref="DESIGN.md section 5 (C08)",
        note="Trusted: TLC, Json module, recording harness (harness/src/c08.rs: float->scaled-integer step with slack 1e-9). Dyadic seed "
             "probabilities and thresholds only (exact in f64); complete exclusive groups; <= 12 seeds. evaluate_topk has no injectable clock "
             "(real budgets: generous / already expired). The Reasoner path judges each fact's result against the lineage the materialisation "
             "recorded (lineage correctness is C06). L1 exhaustive only within the cfg constants.",
        technique="TLA+ model checking (TLC) + exhaustive small-universe replay + clock-fault enumeration + trace validation against the TLA+ requirement",
    ),
    "C14": dict(
        category="model_checking",
        text="TLC evaluates a transcription, over a 20-class character alphabet, of the N-Quads / N-Triples exporters (term-kind guess, "
             "escaping) and importers (line splitting, the parse_ntriples_parts tokenizer automaton, clean_ntriples_term, "
             "decode_ntriples_literal, encode_term_star, split_quoted_triple_content) on every literal of Sigma^(<=3) (thorough: <=4) that "
             "cannot be mistaken for an IRI, blank node or quoted triple, alone (default graph / named graph) and inside a quoted triple, and "
             "checks Import(Export(D)) = Restrict(D) (negative controls: historic exporter without escaping, historic double interpretation of "
             "cleaned terms); every enumerated case is concretised with rotating class representatives (multi-byte, Unicode white space) and "
             "run through the real generate_* -> parse_* for N-Quads, N-Triples and Turtle; seeded random multi-quad datasets with long "
             "literals, named graphs, blank nodes and quoted triples; a TLA+ trace specification judges every round trip against the requirement "
             "and compares exported text and re-imported quads with the model's prediction.",
        design_ref="DESIGN.md section 5 (C14)",
        note="Trusted: TLC, the Json module, the recording harness (harness/src/c14.rs). Unicode by class representatives only; the letters "
             "b f u U, + - ' and \\u escapes are outside the alphabet; Turtle has no code-shaped model (requirement only). Known findings: "
             "literals with delimiter characters inside quoted triples (all three formats); Turtle export of a subject with several predicates.",
        technique="TLA+ model checking of a transcribed tokenizer/escaper (TLC) + exhaustive spec-to-impl replay + trace validation against the TLA+ requirement",
    ),
    "C13": dict(
        category="model_checking",
        text="TLC checks a code-shaped model of the loaders (1000-line chunks modelled with ChunkSize 2: parallel parse + sequential encode "
             "for N-Triples; per-chunk private dictionary / prefix map and their merge for N3; sequential Turtle) against the requirement "
             "'store after = store before + exactly the document's triples', exhaustively for small documents, three prior databases and all "
             "chunk completion orders, with the two historic N3 designs as negative controls; every behaviour of a smaller instance is replayed "
             "on the real loaders with each model chunk laid out on a real 1000-line chunk; documents of 1/999/1000/1001/2500 (thorough: up to "
             "20000) lines x prior database empty/small/large-dictionary/loaded-from-another-format x 1/2/16 rayon threads x five formats, and one "
             "document per (format, term shape) for the cross-format clause, are loaded by the real parse_* functions; a TLA+ trace "
             "specification computes what must be stored and judges every load.",
        design_ref="DESIGN.md section 5 (C13)",
        note="Trusted: TLC, the Json module, the document renderer and recording harness (harness/src/c13.rs). Line-oriented subset only (one "
             "statement per physical line); literal normalisation is not modelled in L1 but decided on the real loaders per term shape; "
             "interleavings inside rayon are not controlled (pool size is an axis). Known findings: N3 literals containing free-standing "
             "';' ',' '.' or runs of spaces; RDF/XML entity references, empty text, xml:lang.",
        technique="TLA+ model checking (TLC) + spec-to-impl replay with chunk inflation + trace validation against the TLA+ requirement",
    ),
    "C15": dict(
        category="model_checking",
        text="TLC checks the requirement module Dict.tla (identifier maps as relations, ghost of every pair ever handed out; "
             "Bijective, RangesDisjoint, RoundTrip, Stable, well-founded nesting) and a code-shaped model UnionImpl.tla (two hash maps and a "
             "counter per store, two independently built databases whose identifiers clash, SparqlDatabase::union step by step through "
             "reencode_term_id and its translation cache, Dictionary/QuotedTripleStore::merge with or_insert) against it: refinement of "
             "Dict.tla per dictionary, UnionDenotesUnion on lexical denotations, SourceUntouched, CacheSound, OrderIrrelevant, MergeSafe "
             "(merge keeps a bijection exactly when the maps agree). Every build history of a smaller instance is replayed on the real "
             "Dictionary/QuotedTripleStore/SparqlDatabase and seeded random encode/decode/quoted-encode sequences, unions of populated "
             "databases (named and empty graphs, nested quoted triples, seeds, several entry points incl. encode_term_star) and "
             "fork/extend/merge scenarios are recorded; every returned identifier, decoding, snapshot of both maps and union result is "
             "validated by the TLA+ trace specification, which computes the expected lexical datasets itself; a merge of dictionaries "
             "that do not agree (outside merge's precondition) is still judged for the stability of every pair handed out earlier.",
        design_ref="DESIGN.md section 5 (C15), 12.1",
        note="Trusted: TLC, Json module, recording harness (harness/src/c15.rs). A term is the string stored in the dictionary: the "
             "collapse of IRI/literal/datatype/language forms by encode_term_star is not judged (C13/C14). Strings without white space. "
             "Exhaustive only within the cfg constants (3 strings, <=2 quoted triples, <=2 quads per database). Identifier exhaustion: recorded "
             "boundary cases move the public counters to the last 0..3 identifiers of each range (a refusal is allowed, a wrong-range identifier is not). "
             "merge is judged only under its precondition (the maps agree).",
        technique="TLA+ refinement checking (TLC) + spec-to-impl replay + trace validation against the TLA+ requirement",
    ),
    "C06": dict(
        category="model_checking",
        text="A TLA+ requirement module (Worlds.tla over a Datalog least-model operator) defines the possible-worlds probability, the "
             "min-max value and Boolean derivability; TLC checks a code-shaped model of the semi-naive tag propagation (delta_improved "
             "re-triggering, single negative pass, tags as sets of worlds) against it exhaustively for a pool of small programs and inputs; "
             "every terminal state of that model and seeded random programs (recursive, shared evidence, stratified negation, up to 12 "
             "uncertain facts in the thorough tier) are executed on the real Reasoner::infer_new_facts_with_provenance under DNF, SDD, "
             "min-max and Boolean provenance, and TLC enumerates all 2^|U| worlds of every case to judge every recovered probability as an "
             "exact scaled integer.",
        design_ref="DESIGN.md section 5 (C06)",
        note="Trusted: TLC, the Json/FiniteSetsExt community modules, the recording harness (harness/src/c06.rs: runs the code, scales "
             "probabilities to integers, tolerance 1e-6). Input probabilities on a dyadic grid num/den with den^|U| <= 2^30; accuracy on "
             "arbitrary reals is not claimed. Negation only for stratified programs and only under dnf/sdd/bool. TopKProofs is only "
             "checked as a lower bound, AddMultProbability only for the derived fact set (both approximate by design). Rule filters unused.",
        technique="TLA+ model checking (TLC) of a code-shaped model + replay of its terminal states + trace validation with TLC as "
                  "possible-worlds oracle",
    ),
    "C12": dict(
        category="model_checking",
        text="TLC checks a code-shaped model of incremental_sds_plus (carried/new split, seeded expiry tags, semi-naive rounds with "
             "improved-tag re-triggering, regrouping per component) against the C12 requirement (least model of the alive facts per "
             "component, expiry = max over derivations of min over leaf expiries) in every reachable state of all window-consistent "
             "histories of a small universe; every maximal history of a smaller instance is replayed through the real "
             "incremental_sds_plus (carrying the returned state) and naive_sds_plus, and seeded random longer histories are recorded "
             "from the real code; every recorded evaluation is judged by a TLA+ trace specification in which TLC computes the alive "
             "facts, the least model, the component routing and every expiry.",
        design_ref="DESIGN.md section 5 (C12)",
        note="Trusted: TLC, Json module, recording harness (harness/src/c12.rs). Precondition as TLA+ predicates (distinct component "
             "IRIs, safe positive rules with constant component-annotated predicates, window-consistent histories, constant static "
             "graphs). Exhaustive only within the cfg constants; the RSPEngine wrapper is not driven (the two functions are called directly).",
        technique="TLA+ model checking (TLC) of a code-shaped model against the requirement + spec-to-impl replay + trace validation "
                  "with TLC as Datalog/expiry oracle",
    ),
    "C11": dict(
        category="model_checking",
        text="MultiTrace.tla states the requirement on every emitted solution of a multi-window continuous query (each WINDOW block's variables "
             "answer that block over a content this very window reported, plus derived facts; the static part answers over the static data "
             "only). Real two-window engines (shared / disjoint vocabulary, static data, rules, four synchronisation policies, single and "
             "multi-threaded with perturbed schedules) are run and TLC judges every emission against the fire events recorded under the store lock.",
        design_ref="DESIGN.md section 5 (C11)",
        note="Trusted: TLC, hooks, recording harness. MultiImpl.tla (L1) checks the design (shared store with shared eviction list, workers, "
             "coordinator policies) for all interleavings of a small instance; the code is bound to the requirement by trace validation of "
             "sampled scenarios; reported contents come from the hook's fire events rather than from a separate probe window.",
        technique="TLA+ requirement checked by TLC on hook-recorded traces of multi-window engines under perturbed schedules (trace validation)",
    ),
    "C16": dict(
        category="exploration",
        text="Syntax.tla is the concrete syntax of the fragment as a printer state machine; TLC -simulate prints seeded syntax trees with "
             "nondeterministic separators (space, tab, LF, CR LF, lone CR), comments ended by LF / CR / end of text, keyword case, equivalent spellings "
             "(; and , abbreviations, optional WHERE, ASC, redundant brackets), arithmetic operands (precedence and left associativity), variable names "
             "outside ASCII, and with single structured faults. Every text is "
             "parsed by the real parsers; TLC (SyntaxTrace.tla) requires acceptance, full consumption and structural equality modulo the "
             "documented normalisations for un-faulted texts and panic-freedom for faulted ones.",
        design_ref="DESIGN.md section 5 (C16) and section 6",
        note="Covers the structured request family only, NOT all byte strings (stated limit). Level exploration: sampled printings, no exhaustive space.",
        technique="TLA+ printer state machine simulated by TLC (spec-to-impl replay) + TLC trace validation of parser outcomes",
    ),
    "C10": dict(
        category="model_checking",
        text="TLC checks a code-shaped model of the single-window processor and the MultiThread worker (FIFO channel, evict / load / materialise / "
             "answer as separate steps, every interleaving with the feeder) against Rsp.tla: each emission is a function of the current and "
             "previous window content only. Real engines built through RSPBuilder are fed seeded streams single-threaded and under perturbed "
             "multi-threaded schedules; every firing recorded by the hooks is validated by TLC and the multi-threaded emission sequence must "
             "equal the single-threaded one.",
        design_ref="DESIGN.md section 5 (C10)",
        note="Trusted: TLC, hooks (kolibrie/src/verif.rs, events written under the store lock), recording harness. Window queries are basic "
             "graph patterns, rules positive N3 rules. Real schedules are perturbed, not enumerated; the exhaustive interleaving argument is on the model.",
        technique="TLA+ model checking of a code-shaped pipeline model (TLC) + trace validation of hook-recorded firings under perturbed schedules",
    ),
    "C02": dict(
        category="model_checking",
        text="For seeded (dataset, SELECT) pairs the harness obtains the optimizer's plan under fresh / stale / empty / adversarial statistics, "
             "rewrites its join nodes to every (or sampled) assignment of bind / hash / nested-loop, expands star joins, runs under rayon pools "
             "of 1..16 threads and for permuted triple-pattern orders; TLC requires the complete solution multiset of every execution to equal "
             "Eval of the pattern in Sparql.tla, hence all configurations agree with the algebra and with each other.",
        design_ref="DESIGN.md section 5 (C02)",
        note="Trusted: TLC, Python generator, the plan-rewriting harness (harness/src/c02.rs). Rayon-internal interleavings are not controlled. "
             "Plan.tla (operational semantics of bind / hash / nested-loop joins) is checked by TLC as a theorem over a small menu; the code is "
             "bound by trace validation only.",
        technique="TLA+ operational plan semantics proved equal to the denotational one by TLC over a small universe (Plan.tla) + TLA+ denotational "
                  "specification as oracle over a configuration matrix of recorded plan executions (trace validation)",
    ),
    "C03": dict(
        category="model_checking",
        text="Update.tla defines the effect of the six update forms on the quad set and catalog (WHERE once on the pre-state via Sparql.tla, "
             "deletions before insertions, fresh blank nodes per solution occurrence, counts = actual change, rejected => unchanged). Seeded "
             "histories are executed through every update entry point of the real engine; TLC judges each request from the recorded lexical "
             "dataset before and after it, matching allocated blank nodes up to renaming. A code-shaped model of the executor "
             "(UpdateImpl.tla: WHERE, template instantiation per solution with the blank-node allocator, deletions then insertions one quad "
             "at a time in any order, counting, rejection before mutation) is checked by TLC against that effect for every dataset of a "
             "5-quad universe x 13 operations, six classic mistakes (variants of the model) are each rejected, and every (dataset, operation) "
             "instance is replayed on the real engine.",
        design_ref="DESIGN.md sections 5 (C03) and 10.2",
        note="Trusted: TLC, Python generator/printer and lexical kind tables. Each request is judged against the recorded pre-state. "
             "Exhaustive only for the small universe of MCUpdate.tla; beyond it trace validation of sampled histories (incl. a family that "
             "pre-loads blank nodes shaped like allocated ones).",
        technique="TLA+ model checking of a code-shaped executor against the update semantics (TLC, with negative controls) + spec-to-impl "
                  "replay + trace validation of recorded request histories with TLC as oracle",
    ),
    "C17": dict(
        category="model_checking",
        text="UpdateTrace.tla states the frame conditions of the string entry points (query-only entry points never change quads or catalog "
             "and refuse update syntax; refused requests change nothing; no request panics). Seeded histories interleave SELECTs, all update "
             "forms and aliases on query entry points, structurally mutated requests with multi-byte text and garbage over 7 entry points; "
             "TLC judges every request from the recorded pre/post dataset.",
        design_ref="DESIGN.md section 5 (C17)",
        note="Covers the generated request families, not arbitrary byte strings (DESIGN.md section 6). HTTP framing is always well formed.",
        technique="TLA+ frame conditions checked by TLC on recorded request histories (trace validation) with structured fault injection",
    ),
    "C01": dict(
        category="model_checking",
        text="Sparql.tla is a denotational TLA+ definition of the supported SELECT fragment (bag semantics, dataset views, group-scoped FILTER, "
             "BIND, VALUES/UNDEF, subqueries, aggregates, acceptance of ORDER BY / LIMIT / DISTINCT). Seeded (dataset, syntax tree) pairs are "
             "printed to text, executed by the real engine through both SELECT entry points, and TLC judges every recorded (stored dataset, "
             "tree, rows) event against Eval; deviations are re-judged under named relaxations of the expression semantics to classify them. "
             "The oracle itself is checked first: TLC evaluates 15 algebraic laws of the SPARQL algebra on Eval (MCLaws.tla, 18432 instances, "
             "with a failing control for unsound filter push-down).",
        design_ref="DESIGN.md section 5 (C01)",
        note="Trusted: TLC, the Python generator/printer (the tree TLC evaluates and the text the engine parses come from the same object), "
             "lexical kind/number/rank tables computed in Python. No exhaustive state space: evidence is trace validation of sampled queries "
             "(quick 1200, thorough 10000) over a 14-term universe. Non-definite subquery cuts and non-numeric aggregate inputs are skipped.",
        technique="TLA+ denotational specification evaluated by TLC as oracle (trace validation of recorded query executions); algebraic laws of "
                  "the specification checked by TLC",
    ),
    "C04": dict(
        category="model_checking",
        text="TLC checks that a code-shaped model of DatasetIndex (four nested indexes with key sets, pruning, catalog) refines the "
             "set-of-quads specification and that every transcribed read path equals its set expression; every transition of the "
             "specification is replayed (edge cover) on a real DatasetIndex and SparqlDatabase and seeded random histories are recorded; "
             "every return value, snapshot, graph listing and sampled read call is validated by the TLA+ trace specification. Apalache "
             "shows that TypeOK /\\ CatalogCovers is an inductive invariant of the requirement module for identifiers of arbitrary value "
             "(with a broken DROP as rejected control).",
        design_ref="DESIGN.md section 5 (C04)",
        note="Trusted: TLC, Json module, recording harness (harness/src/c04.rs). Exhaustive only for the small universe of the cfg; "
             "read calls per step are a seeded sample of all lookup shapes.",
        technique="TLA+ refinement checking (TLC) + inductive invariant of the requirement module (Apalache) + edge-cover replay + trace "
                  "validation against the TLA+ requirement",
    ),
    "C09": dict(
        category="model_checking",
        text="TLC checks a code-shaped model of CSPARQLWindow against the C09 requirement exhaustively for small streams/"
             "widths/slides; every behaviour of a smaller instance is replayed on the real window and seeded random long "
             "streams are recorded from the real code; all recordings are validated by a TLA+ trace specification of the requirement, "
             "and every recorded call is additionally stepped through the model itself (WindowModelTrace.tla). The model covers every "
             "report strategy list (OnWindowClose, NonEmptyContent, Periodic, OnContentChange in any order, Iterator::all short-circuit, "
             "HashMap iteration order as nondeterminism) and flush().",
        design_ref="DESIGN.md sections 5 (C09) and 10.2",
        note="Trusted: TLC, the Json community module, the recording harness (harness/src/c09.rs). In-order streams only; "
             "time-driven tick. C09 is claimed for strategy lists without OnContentChange (for those only 'nothing foreign' is required, "
             "see Window.tla); 'exactly once' for OnWindowClose [+NonEmptyContent]. Exhaustive only within the cfg constants.",
        technique="TLA+ model checking (TLC) + spec-to-impl replay + trace validation against the TLA+ requirement",
    ),
}

PENDING_REASON = "check not built yet in this round (see DESIGN.md section 9 order of work); no claim is made"

ALL = ["C%02d" % i for i in range(1, 20)]


def main():
    checks = []
    for pid in ALL:
        if pid not in CLAIMED:
            continue
        c = CLAIMED[pid]
        checks.append({
            "property_id": pid,
            "quick_cmd": f"bin/check {pid} --tier quick",
            "thorough_cmd": f"bin/check {pid} --tier thorough",
            "evidence_file": f"/verif/evidence/{pid}.json",
            "replay_cmd_template": f"bin/check {pid} --replay {{path}}",
            "engine": "kverif+tlc",
            "level_claimed": {"category": c["category"], "text": c["text"], "design_ref": c["design_ref"]},
            "level_note": c["note"],
            "technique": c["technique"],
        })
    na = [{"property_id": p, "reason": NA.get(p, PENDING_REASON)} for p in ALL if p not in CLAIMED]
    hooks_commits = subprocess.run(["git", "-C", "/repo", "log", "--format=%h", "--grep=^verif-hook"],
                                   stdout=subprocess.PIPE, text=True).stdout.split()
    m = {
        "version": 1,
        "setup_cmd": "bin/setup",
        "hooks": {
            "guard": "cfg(kolibrie_verif)",
            "enable": "harness/.cargo/config.toml passes --cfg kolibrie_verif to every crate of the harness build "
                      "(path dependencies on /repo/kolibrie, /repo/shared, /repo/datalog)",
            "baseline_off_cmd": "cd /repo && cargo test --workspace --no-fail-fast --offline",
            "source_commits": hooks_commits,
            "add_only": True,
        },
        "engines": [
            {"name": "kverif+tlc", "path": "/verif/bin/check",
             "serves_properties": sorted(CLAIMED),
             "kind_free_text": "Python driver: builds the Rust harness (harness/) against /repo's working tree, runs TLC on the "
                               "TLA+ specifications in tla/ (exhaustive model checking, behaviour emission, trace validation)"}
        ],
        "checks": checks,
        "not_applicable": na,
        "notes": "Exit 2 = tool error (build failure, TLC timeout, trace not consumed), never a verdict. "
                 "known_findings.json lists genuine defects (known / fixed).",
    }
    path = os.path.join(ROOT, "MANIFEST.json")
    with open(path, "w") as f:
        json.dump(m, f, indent=1)
    try:
        r = subprocess.run(["python3-vt", "-c",
                            "import json,jsonschema,sys;jsonschema.validate(json.load(open(sys.argv[1])),json.load(open('/root/.vp/MANIFEST.schema.json')));print('MANIFEST valid')",
                            path])
        return r.returncode
    except FileNotFoundError:
        return 0


NA = {}

if __name__ == "__main__":
    sys.exit(main())
