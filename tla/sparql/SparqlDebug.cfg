SPECIFICATION DSpec
CHECK_DEADLOCK FALSE
