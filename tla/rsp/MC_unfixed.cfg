SPECIFICATION Spec
CONSTANTS
  Universe <- U3
  MaxFirings = 3
  Ops <- AllOps
  Rules <- RulesPQ
  Query <- QueryQ
  FixDerived = FALSE
INVARIANTS EmissionIsFunctionOfStream StoreIsCurrentWindow FifoOrder
CHECK_DEADLOCK FALSE
