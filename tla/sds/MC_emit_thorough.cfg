SPECIFICATION Spec
CONSTANTS
  W <- MCW23
  S <- MCS
  O <- MCO
  Programs <- MCPrograms
  Pool <- MCPool
  MaxT = 3
  MaxSteps = 3
  LazyModes = {TRUE, FALSE}
  KeepHist = TRUE
  Variant = "code"
INVARIANTS Emit
CHECK_DEADLOCK FALSE
