SPECIFICATION Spec
CONSTANTS
  Nodes = {1,2}
  Preds = {11,12}
  MaxFacts = 3
  ConSets <- MCConSets
  FinalFilter = FALSE
INVARIANTS TypeOK StackDistinct KeptConsistent FindsAllRepairs AllMaximal
CHECK_DEADLOCK FALSE
