SPECIFICATION Spec
CONSTANTS
  Variant = "dedup-solutions"
  Datasets <- AllDatasets
  Ops <- MenuOps
  KindTab <- Kinds
  BlankPrefix = "_:kolibrie-update-"
  MaxCtr = 9
INVARIANTS EffectHolds RejectedUnchanged FreshIsFresh
CHECK_DEADLOCK FALSE
