SPECIFICATION Spec
CONSTANTS
  N = 3
  Den = 4
  Weights <- WeightsQuick
  Thetas = {2, 3}
  KSched <- KSchedCov
  Bug = "noprobe"
INVARIANTS DecisionSoundInv BoundsCertified ExpiryNeverGuesses MassAgrees
CHECK_DEADLOCK FALSE
