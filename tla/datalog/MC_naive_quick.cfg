SPECIFICATION Spec
CONSTANTS
  Consts = {}
  NVars = 2
  Preds = {"p", "q"}
  PVars = {}
  MaxPrem = 2
  MaxConcl = 1
  MaxRules = 1
  NegAtoms = 0
  WithFilters = TRUE
  FConsts = {"1", "2"}
  FPreds = {"p"}
  MaxFacts = 3
  Permute = FALSE
  Mode = "naive"
  Runs = 2
INVARIANTS ReachesModel OrderIndependent SecondRunEmpty NoDuplicates RoundsAreNew Sound SpecLaws Emit
CHECK_DEADLOCK FALSE
