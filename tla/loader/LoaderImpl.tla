----------------------------- MODULE LoaderImpl -----------------------------
(***************************************************************************)
(* Code-shaped model of the loaders of SparqlDatabase (sparql_database.rs) *)
(* with the variables the code keeps: the shared dictionary (string_to_id, *)
(* id_to_string, next_id), the index of identifier triples, the prefix map *)
(* and, per chunk of ChunkSize lines, the result of the parallel phase.    *)
(*                                                                         *)
(*  "nt"  parse_ntriples_and_add: chunks are parsed to string triples in   *)
(*        parallel (any completion order), then encode_triples encodes them*)
(*        chunk by chunk into the shared dictionary.                       *)
(*  "n3"  parse_n3: every chunk is parsed into a private database whose    *)
(*        dictionary counts from 0 and whose prefix map is its own; then,  *)
(*        chunk by chunk, the triples are added to the shared index and    *)
(*        the dictionaries merged.                                         *)
(*          ReencodeN3 = FALSE : historic code - the chunk's triples are   *)
(*             inserted BY LOCAL IDENTIFIER and Dictionary::merge keeps    *)
(*             existing entries (or_insert)                       (F-C13a) *)
(*          ReencodeN3 = TRUE  : triples are decoded with the chunk's      *)
(*             dictionary and encoded into the shared one                  *)
(*          SharePrefixesN3 = FALSE : historic code - a chunk sees only    *)
(*             the prefixes declared inside it                    (F-C13c) *)
(*          SharePrefixesN3 = TRUE  : a chunk starts from the prefixes     *)
(*             declared before it                                          *)
(*  "ttl" parse_turtle (and, without prefixes, parse_nquads_and_add): one  *)
(*        sequential pass, line by line, into the shared dictionary.       *)
(*                                                                         *)
(* Terms are atomic here (records of Loader.tla with plain IRIs / prefixed *)
(* names); the lexical normalisation of literals is not modelled, it is    *)
(* decided on the real code by the shape matrix of L3.                     *)
(***************************************************************************)
EXTENDS Loader, TLC, Json

CONSTANTS ChunkSize, MaxLines, Alphabet, Priors, Formats, ReencodeN3, SharePrefixesN3, EmitDone

VARIABLES fmt, doc, prior,      \* the case (chosen in Init, constant afterwards)
          dict,                 \* [s2i, i2s, next]  shared dictionary
          idx,                  \* set of identifier triples <<s, p, o>>
          pfx,                  \* prefix map of the database (function name -> iri)
          parsed,               \* function chunk number -> result of the parallel phase
          k,                    \* next chunk (nt, n3) / line (ttl) of the sequential phase
          pc                    \* "parse" | "merge" | "done"
vars == <<store, fmt, doc, prior, dict, idx, pfx, parsed, k, pc>>

EmptyDict == [s2i |-> <<>>, i2s |-> <<>>, next |-> 0]
EmptyFun == <<>>

\* Dictionary::encode
Encode(D, s) ==
  IF s \in DOMAIN D.s2i THEN [id |-> D.s2i[s], D |-> D]
  ELSE [id |-> D.next,
        D |-> [s2i |-> (s :> D.next) @@ D.s2i, i2s |-> (D.next :> s) @@ D.i2s, next |-> D.next + 1]]

\* Dictionary::merge: entries of the receiver win (or_insert)
Merge(D, O) == [s2i |-> D.s2i @@ O.s2i, i2s |-> D.i2s @@ O.i2s,
                next |-> IF D.next >= O.next THEN D.next ELSE O.next]

Decode(D, id) == IF id \in DOMAIN D.i2s THEN D.i2s[id] ELSE "?undecodable"

\* resolve_term / resolve_query_term on the atomic terms of this model
Resolve(P, t) == CASE t.k = "iri" -> t.v
                   [] t.k = "pn"  -> IF t.x \in DOMAIN P THEN P[t.x] \o t.v ELSE t.x \o ":" \o t.v
                   [] OTHER       -> t.v

EncodeTriple(D, tr) ==
  LET a == Encode(D, tr[1])
      b == Encode(a.D, tr[2])
      c == Encode(b.D, tr[3])
  IN  [D |-> c.D, ids |-> <<a.id, b.id, c.id>>]

\* sequential encoding of a sequence of string triples
RECURSIVE EncodeSeq(_, _, _, _)
EncodeSeq(D, I, trs, n) ==
  IF n > Len(trs) THEN [D |-> D, I |-> I]
  ELSE LET e == EncodeTriple(D, trs[n]) IN EncodeSeq(e.D, I \cup {e.ids}, trs, n + 1)

NChunks == (Len(doc) + ChunkSize - 1) \div ChunkSize
ChunkLines(c) == {i \in 1..Len(doc) : (i - 1) \div ChunkSize = c - 1}
Lo(c) == (c - 1) * ChunkSize + 1
Hi(c) == IF c * ChunkSize <= Len(doc) THEN c * ChunkSize ELSE Len(doc)

\* prefixes declared on lines lo..hi on top of P (later declarations win)
RECURSIVE PrefixFold(_, _, _)
PrefixFold(P, i, hi) ==
  IF i > hi THEN P
  ELSE PrefixFold(IF doc[i].kind = "prefix" THEN (doc[i].name :> doc[i].iri) @@ P ELSE P, i + 1, hi)

\* ---- nt: string triples of one chunk, in line order
RECURSIVE NtChunk(_, _)
NtChunk(i, hi) ==
  IF i > hi THEN <<>>
  ELSE (IF doc[i].kind = "triple"
          THEN << <<Resolve(EmptyFun, doc[i].s), Resolve(EmptyFun, doc[i].p), Resolve(EmptyFun, doc[i].o)>> >>
          ELSE <<>>) \o NtChunk(i + 1, hi)

\* ---- n3: private database of one chunk
RECURSIVE N3Chunk(_, _, _, _, _)
N3Chunk(D, I, P, i, hi) ==
  IF i > hi THEN [d |-> D, tr |-> I, pfx |-> P]
  ELSE IF doc[i].kind = "prefix" THEN N3Chunk(D, I, (doc[i].name :> doc[i].iri) @@ P, i + 1, hi)
  ELSE IF doc[i].kind = "triple"
         THEN LET e == EncodeTriple(D, <<Resolve(P, doc[i].s), Resolve(P, doc[i].p), Resolve(P, doc[i].o)>>)
              IN  N3Chunk(e.D, I \cup {e.ids}, P, i + 1, hi)
  ELSE N3Chunk(D, I, P, i + 1, hi)

\* the identifier triples of a chunk result re-encoded lexically (any order gives the same lexical result)
RECURSIVE Reencode(_, _, _, _)
Reencode(D, I, L, T) ==
  IF T = {} THEN [D |-> D, I |-> I]
  ELSE LET t == CHOOSE x \in T : TRUE
           e == EncodeTriple(D, <<Decode(L, t[1]), Decode(L, t[2]), Decode(L, t[3])>>)
       IN  Reencode(e.D, I \cup {e.ids}, L, T \ {t})

\* ---------------------------------------------------------------- behaviour
RECURSIVE SeqsUpTo(_)
SeqsUpTo(n) == IF n = 0 THEN {<<>>} ELSE LET S == SeqsUpTo(n - 1) IN S \cup {Append(s, a) : s \in {x \in S : Len(x) = n - 1}, a \in Alphabet}

Init ==
  /\ fmt \in Formats
  /\ doc \in SeqsUpTo(MaxLines)
  /\ InSubset(IF fmt = "ttl" THEN "ttl" ELSE fmt, doc)
  /\ prior \in Priors
  /\ LET e == EncodeSeq(EmptyDict, {}, prior, 1) IN dict = e.D /\ idx = e.I
  /\ store = {<<t[1], t[2], t[3], "">> : t \in {prior[i] : i \in 1..Len(prior)}}
  /\ pfx = EmptyFun
  /\ parsed = EmptyFun
  /\ k = 1
  /\ pc = IF fmt = "ttl" THEN "merge" ELSE "parse"

\* parallel phase: any chunk not yet parsed completes
ParseChunk(c) ==
  /\ pc = "parse" /\ c \in 1..NChunks /\ c \notin DOMAIN parsed
  /\ parsed' = (c :> (IF fmt = "nt" THEN NtChunk(Lo(c), Hi(c))
                      ELSE N3Chunk(EmptyDict, {}, IF SharePrefixesN3 THEN PrefixFold(pfx, 1, Lo(c) - 1) ELSE EmptyFun,
                                   Lo(c), Hi(c)))) @@ parsed
  /\ UNCHANGED <<store, fmt, doc, prior, dict, idx, pfx, k, pc>>

Collected ==
  /\ pc = "parse" /\ DOMAIN parsed = 1..NChunks
  /\ pc' = "merge"
  /\ UNCHANGED <<store, fmt, doc, prior, dict, idx, pfx, parsed, k>>

\* sequential phase, nt: encode_triples, chunk k
EncodeChunk ==
  /\ pc = "merge" /\ fmt = "nt" /\ k <= NChunks
  /\ LET e == EncodeSeq(dict, idx, parsed[k], 1) IN dict' = e.D /\ idx' = e.I
  /\ k' = k + 1
  /\ UNCHANGED <<store, fmt, doc, prior, pfx, parsed, pc>>

\* sequential phase, n3: add the chunk's triples, merge its dictionary and prefixes
MergeChunk ==
  /\ pc = "merge" /\ fmt = "n3" /\ k <= NChunks
  /\ IF ReencodeN3
       THEN LET e == Reencode(dict, idx, parsed[k].d, parsed[k].tr) IN dict' = e.D /\ idx' = e.I
       ELSE idx' = idx \cup parsed[k].tr /\ dict' = Merge(dict, parsed[k].d)
  /\ pfx' = parsed[k].pfx @@ pfx
  /\ k' = k + 1
  /\ UNCHANGED <<store, fmt, doc, prior, parsed, pc>>

\* ttl: one line per step
TurtleLine ==
  /\ pc = "merge" /\ fmt = "ttl" /\ k <= Len(doc)
  /\ IF doc[k].kind = "prefix" THEN pfx' = (doc[k].name :> doc[k].iri) @@ pfx /\ UNCHANGED <<dict, idx>>
     ELSE IF doc[k].kind = "triple"
            THEN LET e == EncodeTriple(dict, <<Resolve(pfx, doc[k].s), Resolve(pfx, doc[k].p), Resolve(pfx, doc[k].o)>>)
                 IN  dict' = e.D /\ idx' = idx \cup {e.ids} /\ UNCHANGED pfx
     ELSE UNCHANGED <<dict, idx, pfx>>
  /\ k' = k + 1
  /\ UNCHANGED <<store, fmt, doc, prior, parsed, pc>>

Finish ==
  /\ pc = "merge" /\ k > (IF fmt = "ttl" THEN Len(doc) ELSE NChunks)
  /\ pc' = "done"
  /\ store' = store \cup Stored(doc)          \* the requirement's action Load(fmt, doc)
  /\ UNCHANGED <<fmt, doc, prior, dict, idx, pfx, parsed, k>>

Next == (\E c \in 1..NChunks : ParseChunk(c)) \/ Collected \/ EncodeChunk \/ MergeChunk \/ TurtleLine \/ Finish
Spec == Init /\ [][Next]_vars

\* ---------------------------------------------------------------- properties
Lex == {<<Decode(dict, t[1]), Decode(dict, t[2]), Decode(dict, t[3]), "">> : t \in idx}

\* C13: the store contains the previous quads plus exactly the document's triples
AddsExactlyDoc == pc = "done" => Lex = store

\* what the dictionary hands out stays a bijection (the merge of F-C13a breaks it)
DictionaryBijective ==
  pc = "done" => /\ \A s \in DOMAIN dict.s2i : Decode(dict, dict.s2i[s]) = s
                 /\ \A i \in DOMAIN dict.i2s : dict.i2s[i] \in DOMAIN dict.s2i /\ dict.s2i[dict.i2s[i]] = i

\* the prior content is never touched before the end either
PriorKept == {<<t[1], t[2], t[3], "">> : t \in {prior[i] : i \in 1..Len(prior)}} \subseteq Lex

\* behaviour emission for the replay on the real loaders (L2)
Emit == (EmitDone /\ pc = "done") =>
          PrintT(<<"REPLAY", ToJson([fmt |-> fmt, doc |-> doc, prior |-> prior, chunk |-> ChunkSize,
                                     lex |-> Lex])>>)
=============================================================================
