//! C09 driver: runs streams through the real CSPARQLWindow (callback consumer, channel
//! consumer, WindowRunner) and records what each consumer observed per add_to_window.
use crate::util::*;
use kolibrie::rsp::s2r::{CSPARQLWindow, ContentContainer, Report, ReportStrategy, Tick};
use kolibrie::rsp::window_runner::{WindowRunner, WindowSpec};
use serde_json::{json, Value};
use std::sync::{Arc, Mutex};

fn content_json(c: &ContentContainer<u64>) -> Value {
    let mut v: Vec<(u64, usize)> = c.iter_with_timestamps().map(|(i, t)| (*i, t)).collect();
    v.sort();
    json!({"items": v.iter().map(|(i, t)| json!([i, t])).collect::<Vec<_>>() })
}

/// strategy list of a case: "strat":[["close"],["nonempty"],["periodic",2],["change"]]; without it OnWindowClose [+ NonEmptyContent]
fn strat_json(case: &Value) -> Value {
    if let Some(s) = case.get("strat") { return s.clone(); }
    if case["nonempty"].as_bool().unwrap_or(false) { json!([["close"], ["nonempty"]]) } else { json!([["close"]]) }
}

fn strategies(strat: &Value) -> Vec<ReportStrategy> {
    strat.as_array().unwrap().iter().map(|s| match s[0].as_str().unwrap() {
        "close" => ReportStrategy::OnWindowClose,
        "nonempty" => ReportStrategy::NonEmptyContent,
        "periodic" => ReportStrategy::Periodic(s[1].as_u64().unwrap() as usize),
        "change" => ReportStrategy::OnContentChange,
        other => panic!("unknown strategy {other}"),
    }).collect()
}

/// case: {"w","s","nonempty","kind","items":[[id,ts]..],"hasmodel","model":[..]}
fn run_case(out: &mut Out, run: &mut u64, case: &Value) {
    *run += 1;
    let w = case["w"].as_u64().unwrap() as usize;
    let s = case["s"].as_u64().unwrap() as usize;
    let strat = strat_json(case);
    let nonempty = strat.as_array().unwrap().iter().any(|s| s[0] == "nonempty");
    let kind = case["kind"].as_str().unwrap_or("callback");
    let items: Vec<(u64, usize)> = case["items"].as_array().unwrap().iter()
        .map(|p| (p[0].as_u64().unwrap(), p[1].as_u64().unwrap() as usize)).collect();
    let hasmodel = case.get("hasmodel").and_then(|v| v.as_bool()).unwrap_or(false);
    let model = if hasmodel { case["model"].clone() } else { json!([]) };
    out.ev(json!({"ev":"reset","run":*run,"kind":kind,"w":w,"s":s,"nonempty":nonempty,"strat":strat,
                  "hasmodel":hasmodel,"model":model,
                  "mflush": case.get("mflush").cloned().unwrap_or(json!({"items":[]})),"case":case}));
    let got: Arc<Mutex<Vec<Value>>> = Arc::new(Mutex::new(Vec::new()));
    let mut report = Report::new();
    for st in strategies(&strat) {
        report.add(st);
    }
    match kind {
        "callback" => {
            let mut win = CSPARQLWindow::new(w, s, report, Tick::TimeDriven, "w".to_string());
            let g = got.clone();
            win.register_callback(Box::new(move |c: ContentContainer<u64>| g.lock().unwrap().push(content_json(&c))));
            for (id, ts) in &items {
                let r = guarded(|| win.add_to_window(*id, *ts));
                let fired: Vec<Value> = got.lock().unwrap().drain(..).collect();
                out.ev(json!({"ev":"add","item":id,"ts":ts,"fired":fired,"panic":r.is_err()}));
            }
            let r = guarded(|| win.flush());
            let fired: Vec<Value> = got.lock().unwrap().drain(..).collect();
            out.ev(json!({"ev":"flush","fired":fired,"panic":r.is_err()}));
        }
        "channel" => {
            let mut win = CSPARQLWindow::new(w, s, report, Tick::TimeDriven, "w".to_string());
            let rx = win.register();
            for (id, ts) in &items {
                let r = guarded(|| win.add_to_window(*id, *ts));
                let mut fired = Vec::new();
                while let Ok(c) = rx.try_recv() {
                    fired.push(content_json(&c));
                }
                out.ev(json!({"ev":"add","item":id,"ts":ts,"fired":fired,"panic":r.is_err()}));
            }
            let r = guarded(|| win.flush());
            let mut fired = Vec::new();
            while let Ok(c) = rx.try_recv() {
                fired.push(content_json(&c));
            }
            out.ev(json!({"ev":"flush","fired":fired,"panic":r.is_err()}));
        }
        _ => {
            let mut win: WindowRunner<u64> = WindowRunner::new(
                WindowSpec { width: w, slide: s, report_strategies: strategies(&strat), tick: Tick::TimeDriven },
                "w".to_string(),
            );
            win.start_receiver();
            for (id, ts) in &items {
                let r = guarded(|| win.push(*id, *ts));
                let fired: Vec<Value> = win.drain().iter().map(content_json).collect();
                out.ev(json!({"ev":"add","item":id,"ts":ts,"fired":fired,"panic":r.is_err()}));
            }
            let r = guarded(|| win.flush());
            let fired: Vec<Value> = win.drain().iter().map(content_json).collect();
            out.ev(json!({"ev":"flush","fired":fired,"panic":r.is_err()}));
        }
    }
    out.ev(json!({"ev":"end","run":*run}));
}

fn gen_cases(seed: u64, n: u64, maxlen: u64) -> Vec<Value> {
    let kinds = ["callback", "channel", "runner"];
    let mut rng = Rng::new(seed);
    let mut cases = Vec::new();
    for i in 0..n {
        // shapes: width<slide, width=k*slide, non-multiples, large values, duplicates, gaps
        let s = match rng.below(4) { 0 => rng.range(1, 3), 1 => rng.range(1, 10), 2 => rng.range(5, 50), _ => rng.range(1, 1000) } as usize;
        let w = match rng.below(5) {
            0 => rng.range(1, s as u64) as usize,
            1 => s * rng.range(1, 4) as usize,
            2 => s + rng.range(0, 2 * s as u64) as usize,
            3 => rng.range(1, 12) as usize,
            _ => rng.range(1, 1000) as usize,
        }.max(1);
        let len = rng.range(1, maxlen) as usize;
        let dense = rng.chance(1, 2);
        let dup_items = rng.chance(1, 4);
        let mut ts = rng.below(3 * s as u64 + 2) as usize;
        let mut items = Vec::new();
        for k in 0..len {
            // gaps are bounded in units of the slide so that the validator's search stays small
            let gap = if dense { rng.range(0, s as u64) } else {
                match rng.below(4) { 0 => 0, 1 => rng.range(0, s as u64), 2 => rng.range(0, 2 * w as u64 + 1).min(8 * s as u64), _ => rng.range(0, 5 * w as u64 + 1).min(12 * s as u64) }
            } as usize;
            if k > 0 { ts += gap; }
            let id = if dup_items && k > 0 && rng.chance(1, 3) { rng.range(1, k as u64) } else { k as u64 + 1 };
            items.push(json!([id, ts]));
        }
        let strat = match rng.below(12) {
            0 | 1 => json!([["close"], ["nonempty"]]),
            2 => json!([["nonempty"], ["close"]]),
            3 => json!([["close"], ["periodic", rng.range(1, 2 * s as u64 + 1)]]),
            4 => json!([["periodic", rng.range(1, s as u64 + 2)]]),
            5 => json!([["nonempty"]]),
            6 => json!([["periodic", s], ["nonempty"], ["close"]]),
            _ => json!([["close"]]),
        };
        let nonempty = strat.as_array().unwrap().iter().any(|x| x[0] == "nonempty");
        cases.push(json!({"w":w,"s":s,"nonempty":nonempty,"strat":strat,"kind":kinds[(i % 3) as usize],"items":items,"hasmodel":false,"model":[]}));
    }
    cases
}

pub fn main(a: &Args) {
    let mut out = Out::create(a.req("out"));
    let mut run = 0u64;
    let cases = if let Some(f) = a.get("cases") { read_cases(f) } else { gen_cases(a.num("seed", 1), a.num("random", 100), a.num("maxlen", 60)) };
    for c in &cases {
        run_case(&mut out, &mut run, c);
    }
    out.finish();
}
