SPECIFICATION TSpec
POSTCONDITION Consumed
CHECK_DEADLOCK FALSE
