"""C03 - SPARQL Update applies exactly the standard effect, atomically.

Requirement: tla/sparql/Update.tla (Effect: WHERE once on the pre-state, D and I from all solution
occurrences, fresh blank nodes per occurrence, quads' = (quads \\ D) u I, counts = actual change).
Seeded histories of the six update forms (plus rejected operations, SELECTs and malformed requests
interleaved) are executed through every update entry point of the real engine; TLC judges every
request from the recorded lexical dataset before and after it (tla/sparql/UpdateTrace.tla).
"""
import json
import os
import time
import vlib
from vlib import log
from checks import updcommon as U
from checks import sparqlgen as G

MIX = {"update": 12, "reject": 2, "select": 1, "readonly": 1, "alias": 1, "fuzzed": 1, "malformed": 1}
MINE = {"update", "reject"}


def sig_for(m, v):
    if v.startswith("lenient:"):
        from checks.c01 import LENIENT
        return "execute_update|WHERE expression error semantics|" + LENIENT[v.split(":")[1]]
    form = ""
    if m["cls"] == "update":
        form = m["case"]["steps"][m["step"]]["meta"]["op"]["form"]
    return f"execute_update|{m['cls']}:{form or m['why']}|ep={m['ep']}|{v}"


def judge(events, meta, res, verdict, only=MINE):
    failed = {}
    for f in res["fail"]:
        m = meta[f[0]]
        if m["cls"] not in only:
            continue
        failed[f[0]] = f[1]
        verdict.violation(sig_for(m, f[1]), {"driver": "sparql", "case": U.prefix_case(m["case"], m["step"]), "verdict": f[1], "request": m["text"], "ep": m["ep"], "res": m["res"], "err": m["err"]},
                          detail=m["text"][:160])
    return failed


CONTROLS = {"where-twice": "the INSERT template is instantiated from a second WHERE evaluation after the deletions",
            "insert-first": "insertions applied before deletions", "shared-bnode": "one blank node per label for the whole operation",
            "count-requested": "counts are the sizes of the requested sets", "no-skip": "the allocator does not skip lexical forms the dictionary knows",
            "late-reject": "deletions applied before a failing INSERT instantiation is noticed",
            "dedup-solutions": "equal solutions of the WHERE multiset instantiated once (one blank node instead of n)"}


def nt_term(t):
    return t if t.startswith("_:") else G.render(t)


def l2_case(b, ep):
    """One TLC-emitted (dataset, operation) instance as a request history: the dataset is built through INSERT DATA
    (quads with a given blank-node label through the N-Triples loader), then the operation is submitted."""
    quads = [tuple(q) for q in b["quads"]]
    plain = [q for q in quads if not any(t.startswith("_:") for t in q)]
    blank = [q for q in quads if any(t.startswith("_:") for t in q)]
    steps = [dict(st, meta={"cls": "setup"}) for st in G.setup_steps(plain, [])]
    if blank:
        steps.append({"k": "load", "ep": "", "text": "".join(f"{nt_term(s_)} {nt_term(p)} {nt_term(o)} .\n" for s_, p, o, g in blank if g == ""), "meta": {"cls": "setup"}})
    op = {k: b["op"][k] for k in ("form", "del", "ins", "where")}
    steps.append(U.step("update", ep, G.pr_update(op), {"cls": "update", "op": op, "counts": ep in ("update", "db"),
                                                       "model": {"post": b["post"], "ins": b["ins"], "del": b["del"], "graphs": b["graphs"]}}))
    return {"steps": steps}


def model_layers(wd, verdict, thorough):
    """L1: TLC checks the code-shaped model of the executor (tla/sparql/UpdateImpl.tla) against Update!Effect for every dataset of
    a small universe x a menu of operations x every application order; each classic mistake (a variant of the model) must be
    rejected.  L2: every (dataset, operation) instance of that model is replayed on the real engine through the update entry
    points and judged by UpdateTrace.tla; the model's predicted post-state is compared as well (drift is reported, not a verdict)."""
    # no -coverage: it costs tens of minutes on this operator-heavy specification; non-vacuity comes from the six negative controls
    mc = vlib.tlc_mc(U.FAMILY, "MCUpdate.tla", "MCUpdate_code.cfg", workers=4, timeout=1800, tag="c03-l1", coverage=False)
    if mc["violated"]:
        raise vlib.ToolError(f"UpdateImpl.tla (code variant) violates {mc['violated']}: the model is out of date with the requirement (not a verdict)")
    controls = {}
    for v in CONTROLS:
        c = vlib.tlc_mc(U.FAMILY, "MCUpdate.tla", f"MCUpdate_{v}.cfg", workers=4, timeout=900, tag=f"c03-l1-{v}", coverage=False)
        controls[v] = c["violated"]
        if not c["violated"]:
            raise vlib.ToolError(f"negative control '{v}' ({CONTROLS[v]}) is not rejected by the requirement: the L1 check is vacuous")
    log(f"L1 UpdateImpl against Update!Effect: {mc['states']} distinct states, violated=None, {len(controls)} negative controls rejected")
    beh, st = vlib.tlc_emit(U.FAMILY, "MCUpdate.tla", "MCUpdate_emit.cfg", workers=4, timeout=900, tag="c03-l2-emit")
    uniq = {}
    for b in beh:
        if b["outcome"] != "done":
            continue
        uniq.setdefault(json.dumps([sorted(map(tuple, b["quads"])), b["op"]], sort_keys=True), b)
    eps = ["update", "db", "volcano", "handle", "http-update", "http-form-update"]
    cases = [l2_case(b, eps[i % len(eps)]) for i, b in enumerate(uniq.values())]
    cp, tp, ep_ = (os.path.join(wd, f"l2-{x}.ndjson") for x in ("cases", "trace", "tlc"))
    vlib.write_ndjson(cp, cases)
    vlib.kverif(["sparql", "--cases", cp, "--out", tp])
    events, meta = U.to_events(tp, ep_)
    res = vlib.tlc_trace(U.FAMILY, "UpdateTrace.tla", "UpdateTrace.cfg", ep_, tag="c03-l2", heap="4g")
    failed = judge(events, meta, res, verdict)
    drift = 0
    for e in events:
        m = meta[e["run"]]
        model = m["case"]["steps"][m["step"]]["meta"].get("model")
        if model and e["run"] not in failed:
            nf = lambda qs: sorted(tuple(q) for q in qs if not any(str(t).startswith("_:kolibrie-update-") for t in q))
            if nf(model["post"]) != nf(e["post"]["quads"]) or (e["counts"] and (model["ins"], model["del"]) != (e["ins"], e["del"])):
                drift += 1
    if drift:
        print(f"MODEL-DRIFT: property=C03 {drift} replayed instance(s) satisfy the requirement but differ from UpdateImpl.tla's prediction")
    log(f"L2 replayed {len(cases)} (dataset, operation) instances of the model on the real engine: {len(failed)} rejected, {drift} differ from the model only")
    return dict(states=mc["states"], transitions=mc["transitions"], controls=controls), dict(instances=len(cases), rejected=len(failed), drift=drift)


def alloc_cases(seed, n):
    """Blank-node allocator: the database already knows nodes whose labels look like allocated ones (a range around the
    process-wide counter), then templates with blank nodes are instantiated for several solutions."""
    import random
    rng = random.Random(seed * 7907 + 3)
    cases = []
    for i in range(n):
        label = ["x", "y"][i % 2]
        known = "".join(f"<http://e/i{1 + k % 3}> <http://e/p2> _:kolibrie-update-{k}-{label} .\n" for k in range(1, 400))
        steps = [dict(st, meta={"cls": "setup"}) for st in G.setup_steps([("http://e/i1", "http://e/p1", "http://e/i2", ""), ("http://e/i2", "http://e/p1", "http://e/i3", ""),
                                                                          ("http://e/i3", "http://e/p1", "http://e/i1", "")], [])]
        steps.append({"k": "load", "ep": "", "text": known, "meta": {"cls": "setup"}})
        V, C = G.V, G.C
        where = {"t": "join", "ps": [{"t": "bgp", "tps": [[V("a"), C("http://e/p1"), V("b")]]}]}
        for j in range(rng.choice([1, 2, 3])):
            op = {"form": "insert_where", "del": [], "ins": [[V("a"), C("http://e/pl"), ["b", label], G.DEFAULT_G], [["b", label], C("http://e/p1"), V("b"), C(G.GRAPHS[0])]], "where": where}
            ep = rng.choice(["update", "db", "handle"])
            steps.append(U.step("update", ep, G.pr_update(op), {"cls": "update", "op": op, "counts": ep in ("update", "db")}))
        cases.append({"steps": steps})
    return cases


def run(ctx):
    t0 = time.time()
    verdict = vlib.Verdict("C03", ctx.seed, ctx.tier)
    wd = vlib.workdir("c03")
    if ctx.replay:
        case = json.load(open(ctx.replay))["case"]["case"]
        events, meta, res = U.replay_case(wd, case, "c03-replay")
        judge(events, meta, res, verdict)
        return verdict.finish()
    thorough = ctx.tier == "thorough"
    l1, l2 = model_layers(wd, verdict, thorough)
    nh, nops = (400, 60) if thorough else (40, 40)
    events, meta, res = U.run_histories(wd, ctx.seed, nh, nops, MIX, "c03", extra_cases=alloc_cases(ctx.seed, 12 if thorough else 4))
    failed = judge(events, meta, res, verdict)
    mine = [e for e in events if e["cls"] in MINE]
    skipped = len(res["info"])
    log(f"judged {len(events)} requests in {nh} histories ({len(mine)} update / rejected operations): {len(failed)} rejected by the specification, {skipped} skipped")
    rc = verdict.finish()
    distinct, per_form = set(), {}
    for e in mine:
        changed = sorted(map(tuple, e["pre"]["quads"])) != sorted(map(tuple, e["post"]["quads"])) or e["pre"]["graphs"] != e["post"]["graphs"]
        if e["cls"] == "update" and changed:
            distinct.add(vlib.case_hash([e["op"], e["pre"]]))
            per_form[e["op"]["form"]] = per_form.get(e["op"]["form"], 0) + 1
    smp = next(e for e in mine if e["cls"] == "update" and e["pre"]["quads"] != e["post"]["quads"])
    cov = {"evaluations": len(mine), "distinct_nontrivial": len(distinct),
           "rule": "seeded histories over a 14-term universe, 3 named graphs + 1 new graph; distinct by (operation tree, pre-state); "
                   "non-trivial = a valid update that changed the dataset",
           "samples": [{"request": meta[smp["run"]]["text"], "ep": smp["ep"], "pre": smp["pre"], "post": smp["post"], "ins": smp["ins"], "del": smp["del"]}],
           "states": l1["states"], "transitions": l1["transitions"], "traces_validated_against_impl": nh + l2["instances"], "trace_states": res["states"],
           "l1_negative_controls_rejected": l1["controls"], "l2_model_instances_replayed": l2,
           "changing_updates_per_form": per_form, "rejected_requests": sum(1 for e in mine if e["cls"] == "reject"), "skipped": skipped}
    vlib.write_evidence("C03", ctx.tier, ctx.seed, "model_checking", cov,
                        ["L1 is exhaustive for 32 datasets x 13 operations x 2 counter values x all application orders of UpdateImpl.tla only; it is bound to the code through L2/L3",
                         "each request is judged against the dataset recorded before it (no accumulated model state)",
                         "fresh blank nodes are matched by a bijection TLC searches; at most 6 per request by construction",
                         "legal term positions use the lexical kind tables computed in Python"],
                        time.time() - t0, len(verdict.violations))
    return rc
