//! C14 driver: builds a database from abstract terms through the dictionary / quoted-triple
//! store, serialises it with the REAL generate_nquads / generate_ntriples / generate_turtle,
//! loads the text into an empty database with the REAL parse_* function and records the lexical
//! quads of both databases and the text.
//!
//! case (frame form, used for the strings enumerated by TLC):
//!   {"fmt":"nq|nt|ttl","ctx":"obj|graph|qts|qto","lit":"..","cs":[classes],"frame":"a:a","bn":"a",
//!    "hasmodel":bool,"mtext":"..","mback":[[s,p,o,g]..]}
//! case (dataset form):
//!   {"fmt":..,"feature":"..","quads":[[S,P,O,G]..]}   with terms {"k":"iri|bn|lit|qt|default","v":..,"cs":[..],"s":T,"p":T,"o":T}
//!   {"fmt":..,"gen":{"feature":..,"seed":..,"maxlit":..}}   (expanded deterministically)
use crate::util::*;
use kolibrie::sparql_database::SparqlDatabase;
use serde_json::{json, Value};
use shared::dataset_index::{GraphId, Quad};

fn lit(v: &str, cs: &Value) -> Value { json!({"k":"lit","v":v,"cs":cs}) }
fn iri(v: &str) -> Value { json!({"k":"iri","v":v}) }
fn bn(v: &str) -> Value { json!({"k":"bn","v":v}) }
fn qt(s: Value, p: Value, o: Value) -> Value { json!({"k":"qt","s":s,"p":p,"o":o}) }
fn dflt() -> Value { json!({"k":"default"}) }

fn encode(db: &SparqlDatabase, t: &Value) -> u32 {
    match t["k"].as_str().unwrap() {
        "iri" | "lit" => db.dictionary.write().unwrap().encode(t["v"].as_str().unwrap()),
        "bn" => db.dictionary.write().unwrap().encode(&format!("_:{}", t["v"].as_str().unwrap())),
        "qt" => {
            let (s, p, o) = (encode(db, &t["s"]), encode(db, &t["p"]), encode(db, &t["o"]));
            db.quoted_triple_store.write().unwrap().encode(s, p, o)
        }
        k => panic!("bad term kind {k}"),
    }
}

/// class sequences of all literals (`out`) and of those inside a quoted triple (`inner`)
fn collect_lits(t: &Value, inside: bool, out: &mut Vec<Value>, inner: &mut Vec<Value>) {
    match t["k"].as_str().unwrap_or("") {
        "lit" => { out.push(t["cs"].clone()); if inside { inner.push(t["cs"].clone()); } }
        "qt" => { for k in ["s", "p", "o"] { collect_lits(&t[k], true, out, inner); } }
        _ => {}
    }
}

fn lexquads(db: &SparqlDatabase) -> Vec<Value> {
    let dec = |id: u32| db.decode_any(id).unwrap_or_else(|| "?undecodable".to_string());
    db.dataset_index.all_quads().iter().map(|q| {
        let g = match q.graph { GraphId::Default => String::new(), GraphId::Named(g) => dec(g) };
        json!([dec(q.subject), dec(q.predicate), dec(q.object), g])
    }).collect()
}

fn frame_quads(case: &Value) -> Vec<Value> {
    let f = iri(case["frame"].as_str().unwrap());
    let l = lit(case["lit"].as_str().unwrap(), &case["cs"]);
    match case["ctx"].as_str().unwrap() {
        "obj" => vec![json!([f, f, l, dflt()])],
        "graph" => vec![json!([bn(case["bn"].as_str().unwrap()), f, l, f])],
        "qts" => vec![json!([qt(f.clone(), f.clone(), l), f, f, dflt()])],
        "qto" => vec![json!([f, f, qt(f.clone(), f.clone(), l), dflt()])],
        c => panic!("bad ctx {c}"),
    }
}

// ------------------------------------------------------------------ random datasets (L3)

const REPS: &[(&str, &[&str])] = &[
    // ordinary characters: letters and punctuation that has no role in N-Triples / N-Quads / Turtle literals
    ("a", &["a", "Z", "x", "k", "h", "p", "{", "|", "}", "{|", "|}", "{| a |}", ";", ",", "(", ")", "'", "=", "+", "-", "!", "*", "/", "?", "&", "%", "$", "~", "[", "]"]), ("n", &["n"]), ("0", &["0", "7"]), (":", &[":"]), ("Q", &["\""]), ("B", &["\\"]),
    ("L", &["\n"]), ("C", &["\r"]), ("T", &["\t"]), ("S", &[" "]), ("<", &["<"]), (">", &[">"]), ("_", &["_"]), ("#", &["#"]),
    (".", &["."]), ("^", &["^"]), ("@", &["@"]), ("e", &["\u{e9}", "\u{df}", "\u{65e5}"]), ("v", &["\u{2713}", "\u{1F600}", "\u{feff}"]),
    ("w", &["\u{a0}", "\u{2028}", "\u{85}"]),
];

/// A literal over the class alphabet that cannot be mistaken for an IRI, blank node or quoted triple
/// (the trace specification re-checks this with NotMistaken on the class sequence).
fn rand_lit(rng: &mut Rng, maxlen: u64, specials: bool) -> Value {
    loop {
        let n = rng.range(0, maxlen);
        let mut s = String::new();
        let mut cs = Vec::new();
        for _ in 0..n {
            let (c, reps) = if specials && rng.chance(1, 2) { *rng.pick(REPS) } else { REPS[rng.below(3) as usize] };
            s.push_str(*rng.pick::<&str>(reps));
            cs.push(c);
        }
        let first_colon = cs.iter().position(|c| *c == ":");
        let irilike = match first_colon {
            Some(i) if i > 0 => matches!(cs[0], "a" | "n") && cs[1..i].iter().all(|c| matches!(*c, "a" | "n" | "0" | ".")),
            _ => false,
        };
        if irilike || (cs.len() >= 2 && ((cs[0] == "<" && cs[1] == "<") || (cs[0] == "_" && cs[1] == ":"))) { continue; }
        return lit(&s, &json!(cs));
    }
}

fn rand_iri(rng: &mut Rng) -> Value {
    match rng.below(5) {
        0 => iri(&format!("http://e/r{}", rng.below(6))),
        1 => iri(&format!("https://e.org/ns#f{}", rng.below(6))),
        2 => iri(&format!("urn:x:u{}", rng.below(6))),
        3 => iri(&format!("http://e/p%20q/{}?a=b", rng.below(6))),
        _ => iri(&format!("http://e/s{}", rng.below(6))),
    }
}

fn expand(case: &Value) -> (Vec<Value>, String) {
    if case.get("ctx").is_some() { return (frame_quads(case), format!("ctx={}", case["ctx"].as_str().unwrap())); }
    if case.get("quads").is_some() {
        return (case["quads"].as_array().unwrap().clone(), case.get("feature").and_then(|f| f.as_str()).unwrap_or("explicit").to_string());
    }
    let g = &case["gen"];
    let feature = g["feature"].as_str().unwrap_or("long-literals");
    let maxlit = g["maxlit"].as_u64().unwrap_or(40);
    let mut rng = Rng::new(g["seed"].as_u64().unwrap_or(1) ^ 0xC14);
    let mut quads = Vec::new();
    let pred = |rng: &mut Rng| iri(&format!("http://e/p{}", rng.below(4)));
    let n = rng.range(1, 5);
    for i in 0..n {
        let subj = iri(&format!("http://e/s{}", i)); // distinct subjects unless the feature says otherwise
        let q = match feature {
            "plain-literals" => json!([subj, pred(&mut rng), rand_lit(&mut rng, 8, false), dflt()]),
            "long-literals" => json!([subj, pred(&mut rng), rand_lit(&mut rng, maxlit, true), dflt()]),
            "iri-objects" => json!([subj, pred(&mut rng), rand_iri(&mut rng), dflt()]),
            "shared-subject" => json!([iri("http://e/s0"), iri(&format!("http://e/p{}", i)), rand_lit(&mut rng, 6, false), dflt()]),
            "multi-object" => json!([iri("http://e/s0"), iri("http://e/p0"), rand_lit(&mut rng, 6, false), dflt()]),
            "named-graphs" => {
                let gr = match rng.below(3) { 0 => dflt(), 1 => iri(&format!("http://e/g{}", rng.below(2))), _ => bn(&format!("g{}", rng.below(2))) };
                json!([subj, pred(&mut rng), if rng.chance(1, 2) { rand_lit(&mut rng, maxlit, true) } else { rand_iri(&mut rng) }, gr])
            }
            "bnodes" => json!([bn(&format!("b{}", i)), pred(&mut rng), if rng.chance(1, 2) { bn(&format!("b{}", rng.below(3))) } else { rand_lit(&mut rng, 6, false) }, dflt()]),
            "quoted-triples" => {
                let inner = qt(rand_iri(&mut rng), pred(&mut rng), rand_iri(&mut rng));
                let inner = if rng.chance(1, 3) { qt(inner, pred(&mut rng), rand_iri(&mut rng)) } else { inner };
                if rng.chance(1, 2) { json!([inner, pred(&mut rng), rand_iri(&mut rng), dflt()]) } else { json!([subj, pred(&mut rng), inner, dflt()]) }
            }
            "qt-word-literal" => {
                let word = lit(&format!("w{}", rng.below(9)), &json!(["a", "0"]));
                let inner = qt(rand_iri(&mut rng), pred(&mut rng), word);
                if rng.chance(1, 2) { json!([inner, pred(&mut rng), rand_iri(&mut rng), dflt()]) } else { json!([subj, pred(&mut rng), inner, dflt()]) }
            }
            "qt-literal" => {
                let inner = qt(rand_iri(&mut rng), pred(&mut rng), rand_lit(&mut rng, maxlit.min(12), true));
                if rng.chance(1, 2) { json!([inner, pred(&mut rng), rand_iri(&mut rng), dflt()]) } else { json!([subj, pred(&mut rng), inner, dflt()]) }
            }
            f => panic!("unknown feature {f}"),
        };
        quads.push(q);
    }
    (quads, format!("feature={feature}"))
}

fn run_case(out: &mut Out, run: u64, case: &Value) {
    out.ev(json!({"ev":"reset","run":run,"case":case}));
    let fmt = case["fmt"].as_str().unwrap();
    let (quads, class) = expand(case);
    let mut lits = Vec::new();
    let mut qtlits = Vec::new();
    let src = SparqlDatabase::new();
    let mut src = src;
    for q in &quads {
        for i in 0..4 { collect_lits(&q[i], false, &mut lits, &mut qtlits); }
        let graph = if q[3]["k"] == "default" { GraphId::Default } else { GraphId::Named(encode(&src, &q[3])) };
        let quad = Quad { subject: encode(&src, &q[0]), predicate: encode(&src, &q[1]), object: encode(&src, &q[2]), graph };
        src.add_quad(quad);
    }
    let data = lexquads(&src);
    let r = guarded(|| {
        let text = match fmt { "nq" => src.generate_nquads(), "nt" => src.generate_ntriples(), "ttl" => src.generate_turtle(), f => panic!("bad fmt {f}") };
        let mut dst = SparqlDatabase::new();
        match fmt { "nq" => dst.parse_nquads_and_add(&text), "nt" => dst.parse_ntriples_and_add(&text), _ => dst.parse_turtle(&text) }
        (text, lexquads(&dst))
    });
    let hasmodel = case.get("hasmodel").and_then(|b| b.as_bool()).unwrap_or(false);
    let (mtext, mback) = if hasmodel { (case["mtext"].clone(), case["mback"].clone()) } else { (json!(""), json!([])) };
    match r {
        Ok((text, back)) => out.ev(json!({"ev":"roundtrip","fmt":fmt,"class":class,"lits":lits,"qtlits":qtlits,"data":data,"text":text,"back":back,"panic":false,
                                          "hasmodel":hasmodel,"mtext":mtext,"mback":mback})),
        Err(_) => out.ev(json!({"ev":"roundtrip","fmt":fmt,"class":class,"lits":lits,"qtlits":qtlits,"data":data,"text":"","back":[],"panic":true,
                                "hasmodel":hasmodel,"mtext":mtext,"mback":mback})),
    }
}

fn gen_cases(seed: u64, n: u64, maxlit: u64) -> Vec<Value> {
    let feats = ["plain-literals", "long-literals", "long-literals", "iri-objects", "shared-subject", "multi-object", "named-graphs", "bnodes",
                 "quoted-triples", "qt-word-literal", "qt-literal"];
    let fmts = ["nq", "nt", "ttl"];
    let mut rng = Rng::new(seed ^ 0x14C);
    (0..n).map(|i| json!({"fmt": fmts[(i % 3) as usize], "gen": {"feature": feats[((i / 3) % feats.len() as u64) as usize], "seed": rng.next() >> 12, "maxlit": maxlit}})).collect()
}

pub fn main(a: &Args) {
    let mut out = Out::create(a.req("out"));
    let cases = if let Some(f) = a.get("cases") { read_cases(f) } else { gen_cases(a.num("seed", 1), a.num("random", 100), a.num("maxlit", 40)) };
    for (i, c) in cases.iter().enumerate() { run_case(&mut out, i as u64 + 1, c); }
    out.finish();
}
