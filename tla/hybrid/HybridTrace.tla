----------------------------- MODULE HybridTrace -----------------------------
(***************************************************************************)
(* Trace validation for C08.  A trace is a concatenation of runs            *)
(*   reset(case) ; (hybrid | topk | compile)*                               *)
(* recorded from the real code (harness/src/c08.rs).  `reset` carries the   *)
(* lineage case (seeds, weights, DAG, root); TLC computes the true          *)
(* probability P of the root by world enumeration (HybridReq!TrueP).  Every *)
(* following event is one call of the real API on that case - possibly with *)
(* a scripted clock that passes every deadline from its j-th reading on -   *)
(* and is judged on its own against HybridReq (the events of a run are      *)
(* independent judgements, so validation does not stop at the first FAIL).  *)
(*   FAIL  <<"FAIL", run, line, api, symptom, j, lineage class>>            *)
(*   INFO  <<"INFO", run, "skipped">>      case outside the preconditions   *)
(*         <<"INFO", run, "skipped-config">>  configuration outside them    *)
(***************************************************************************)
EXTENDS HybridReq, TLC, Json, IOUtils

Rec == ndJsonDeserialize(IOEnv.TRACE)

VARIABLES l,      \* next trace line
          run,    \* id of the current run
          valid,  \* the case satisfies the preconditions
          P, S,   \* true probability of the root (scaled) and the scale
          cls     \* class of the lineage (for the signature of a finding)
vars == <<l, run, valid, P, S, cls>>

Ev == Rec[l]
CaseOf(e) == [den |-> e.den, seeds |-> e.seeds, nodes |-> e.nodes, root |-> e.root]

Say(t) == PrintT(t)

Class(c) == IF HasNegation(c) THEN (IF HasExclusive(c) THEN "negation+exclusive" ELSE "negation")
            ELSE IF HasExclusive(c) THEN "exclusive" ELSE "monotone-independent"

Init == l = 1 /\ run = 0 /\ valid = FALSE /\ P = -1 /\ S = 1 /\ cls = "-"

Reset ==
  /\ Ev.ev = "reset"
  /\ LET c == CaseOf(Ev)
         v == ValidCase(c)
     IN  /\ run' = Ev.run
         /\ valid' = v
         /\ P' = IF v THEN TrueP(c) ELSE -1
         /\ S' = IF v THEN Scale(c) ELSE 1
         /\ cls' = IF v THEN Class(c) ELSE "-"
         /\ IF v THEN TRUE ELSE Say(<<"INFO", Ev.run, "skipped">>)
         \* the recorder scales floats with its own copy of the scale: it must be ours
         /\ IF v /\ Scale(c) # Ev.scale THEN Say(<<"STUCK", "scale", Ev.run, Scale(c), Ev.scale>>) ELSE TRUE

Symptom(r, tn, td) ==
  IF ~(r.kind \in Kinds /\ r.decision \in Decisions) THEN "malformed-result"
  ELSE IF r.kind \in {"Exact", "Bounded", "LowerBound"} /\ ~(r.haslo /\ r.hashi) THEN "malformed-result"
  ELSE IF r.kind \in {"NeedsExact", "UnsafeApproximation"} /\ r.decision # "Indeterminate" THEN "decision-without-certificate"
  ELSE IF r.kind # "UnsafeApproximation" /\ ~Within(r, P)
       THEN CASE r.kind = "Exact"      -> "exact-differs-from-P"
              [] r.kind = "NeedsExact" -> "needsexact-bounds-exclude-P"
              [] OTHER                 -> "interval-excludes-P"
  ELSE IF r.decision = "Alert" /\ P * td < tn * S THEN "alert-below-threshold"
  ELSE IF r.decision = "NoAlert" /\ P * td >= tn * S THEN "noalert-at-or-above-threshold"
  ELSE "unclassified"

Hybrid ==
  /\ Ev.ev = "hybrid"
  /\ UNCHANGED <<run, valid, P, S, cls>>
  /\ IF ~valid THEN TRUE
     ELSE IF ~ValidConfig(Ev.cfg) THEN Say(<<"INFO", run, "skipped-config">>)
     ELSE IF Ev.panic THEN Say(<<"FAIL", run, l, "hybrid", "panic", Ev.j, cls>>)
     ELSE IF Ev.j = 0 /\ SoundResult(Ev.res, P, S, Ev.cfg.tn, Ev.cfg.td) THEN TRUE
     ELSE IF Ev.j > 0 /\ ExpiryNeverGuessed(Ev.res, P, S, Ev.cfg.tn, Ev.cfg.td) THEN TRUE
     ELSE Say(<<"FAIL", run, l, "hybrid", Symptom(Ev.res, Ev.cfg.tn, Ev.cfg.td), Ev.j, cls>>)

TopK ==
  /\ Ev.ev = "topk"
  /\ UNCHANGED <<run, valid, P, S, cls>>
  /\ IF ~valid THEN TRUE
     ELSE IF Ev.panic THEN Say(<<"FAIL", run, l, "topk", "panic", 0, cls>>)
     ELSE IF SoundTopK(Ev.res, P) THEN TRUE
     ELSE Say(<<"FAIL", run, l, "topk",
                IF ~(Ev.res.lo <= P /\ P <= Ev.res.hi) THEN "interval-excludes-P"
                ELSE IF ~(Ev.res.lblo <= P) THEN "lower-bound-above-P"
                ELSE "exhausted-but-not-exact", 0, cls>>)

Compile ==
  /\ Ev.ev = "compile"
  /\ UNCHANGED <<run, valid, P, S, cls>>
  /\ IF ~valid THEN TRUE
     ELSE IF Ev.panic THEN Say(<<"FAIL", run, l, "compile", "panic", Ev.j, cls>>)
     ELSE IF SoundCompile(Ev.res, P) THEN TRUE
     ELSE Say(<<"FAIL", run, l, "compile", "exact-differs-from-P", Ev.j, cls>>)

Next == /\ l <= Len(Rec)
        /\ l' = l + 1
        /\ (Reset \/ Hybrid \/ TopK \/ Compile)

Spec == Init /\ [][Next]_vars

Consumed == IF TLCGet("stats").diameter - 1 = Len(Rec) THEN TRUE
            ELSE PrintT(<<"STUCK", TLCGet("stats").diameter, Len(Rec)>>) /\ FALSE
=============================================================================
