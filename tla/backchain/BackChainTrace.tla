---------------------------- MODULE BackChainTrace ----------------------------
(***************************************************************************)
(* Trace validation for C18.  A trace is a concatenation of runs           *)
(*   reset(facts, rules, goal) ; goal(instances, nonground, panic) ; end   *)
(* recorded from the real Reasoner::backward_chaining (harness/src/c18.rs: *)
(* `instances` = the goal with resolve_term applied to its variables for   *)
(* every returned binding map; 0 where a variable stays unresolved).       *)
(*                                                                         *)
(* Requirement per call (DepthBound = the documented MAX_DEPTH):           *)
(*   Sound     every instance matches the goal and is in LFP(R, F)         *)
(*   Complete  every fact of TP^DepthBound(F) matching the goal is among   *)
(*             the instances                                               *)
(* Runs whose rule set is not safe are skipped (precondition).             *)
(* The instance is stored in the state by `reset` and judged from the      *)
(* state (TLC state values are normalised; see tla/repairs/RepairsTrace).  *)
(***************************************************************************)
EXTENDS BackChainReq, TLC, Json, IOUtils

CONSTANT DepthBound

Rec == ndJsonDeserialize(IOEnv.TRACE)

VARIABLES l, run, inst, bad
vars == <<l, run, inst, bad>>

Ev == Rec[l]

T3(x) == <<x[1], x[2], x[3]>>
FactsOf(sq) == {T3(sq[i]) : i \in 1..Len(sq)}
BodyOf(b) == [k \in 1..Len(b) |-> T3(b[k])]
RulesOf(rs) == [i \in 1..Len(rs) |-> [prem |-> BodyOf(rs[i].prem), concl |-> BodyOf(rs[i].concl)]]

Init == l = 1 /\ run = 0 /\ bad = FALSE
        /\ inst = [skip |-> TRUE, goal |-> <<1, 1, 1>>, F |-> {}, R |-> <<>>, hasmodel |-> FALSE, model |-> {}]

Reset ==
  /\ Ev.ev = "reset"
  /\ run' = Ev.run /\ bad' = FALSE
  /\ LET R == RulesOf(Ev.rules)
         safe == Safe(R)
     IN  /\ IF safe THEN TRUE ELSE PrintT(<<"INFO", Ev.run, "skipped">>)
         /\ inst' = [skip |-> ~safe, goal |-> T3(Ev.goal), F |-> FactsOf(Ev.facts), R |-> R,
                     hasmodel |-> Ev.hasmodel, model |-> FactsOf(Ev.model)]

Symptom(obs, m) ==
  LET g == inst.goal
      unsound == {f \in obs : ~(f \in m.lfp /\ Matches(g, f))}
      missing == {f \in m.st : Matches(g, f) /\ f \notin obs}
  IN  IF unsound # {}
        THEN (IF \E f \in unsound : f[1] = 0 \/ f[2] = 0 \/ f[3] = 0 THEN "answer-not-ground"
              ELSE IF \E f \in unsound : ~Matches(g, f) THEN "answer-not-an-instance-of-the-goal"
              ELSE "answer-not-entailed")
      ELSE IF missing \cap inst.F # {} THEN "stored-fact-matching-the-goal-not-answered"
      ELSE "entailed-fact-within-depth-bound-not-answered"

Goal ==
  /\ Ev.ev = "goal"
  /\ UNCHANGED <<run, inst>>
  /\ IF bad \/ inst.skip THEN UNCHANGED bad
     ELSE LET m   == Model(inst.R, inst.F, DepthBound)
              obs == FactsOf(Ev.instances)
              want == {f \in m.st : Matches(inst.goal, f)}
          IN  \* non-vacuity counters: derived facts in the model, expected answers, answers deeper than the bound
              /\ PrintT(<<"INFO", run, "goal", Cardinality(m.lfp \ inst.F), Cardinality(want),
                          Cardinality({f \in m.lfp \ m.st : Matches(inst.goal, f)})>>)
              /\ IF Ev.panic THEN PrintT(<<"FAIL", run, l, "panic">>) /\ bad' = TRUE
                 ELSE IF Sound(inst.goal, obs, m.lfp) /\ Complete(inst.goal, obs, m.st)
                   THEN /\ UNCHANGED bad
                        \* L2 cases carry the answer set predicted by the code-shaped model (SLDImpl)
                        /\ IF inst.hasmodel /\ inst.model # obs THEN PrintT(<<"MODELDIFF", run>>) ELSE TRUE
                   ELSE PrintT(<<"FAIL", run, l, Symptom(obs, m)>>) /\ bad' = TRUE

End == Ev.ev = "end" /\ UNCHANGED <<run, inst, bad>>

Next == l <= Len(Rec) /\ l' = l + 1 /\ (Reset \/ Goal \/ End)
Spec == Init /\ [][Next]_vars

Consumed == IF TLCGet("stats").diameter - 1 = Len(Rec) THEN TRUE
            ELSE PrintT(<<"STUCK", TLCGet("stats").diameter, Len(Rec)>>) /\ FALSE
=============================================================================
