------------------------------- MODULE SLDImpl -------------------------------
(***************************************************************************)
(* Code-shaped model of datalog/src/reasoning/backward_chaining.rs.        *)
(*                                                                         *)
(* Unlike the requirement module this one works with variable *names*: a   *)
(* name is a negative integer, -(k+1) stands for the engine-generated name *)
(* "v<k>" (v0 = -1, v1 = -2, ...), any other negative integer (-101 = X,   *)
(* -102 = Y, ...) for a name chosen by the user.  Binding maps are         *)
(* functions from names to terms, exactly like the HashMap<String, Term>   *)
(* of the code, and are threaded through the search together with the      *)
(* global renaming counter:                                                *)
(*                                                                         *)
(*   Resolve      resolve_term / substitute_term                           *)
(*   UnifyTerms   unify_terms (resolve both sides, then bind)              *)
(*   Rename       rename_rule_variables (premises first, then conclusions; *)
(*                fresh names v<counter>; FixRename = TRUE skips the names *)
(*                of the query's own variables as the fix does, FALSE is   *)
(*                the historic code in which a query variable called v<k>  *)
(*                is captured)                                             *)
(*   BC           backward_chaining_helper: facts first, then every rule   *)
(*                (renamed once per visit), every conclusion, the premises *)
(*                left to right, depth + 1, cut at depth > MaxDepth        *)
(*                                                                         *)
(* The search is a function of (facts, rules, goal), so it is written as   *)
(* recursive operators returning [res, ctr]; TLC evaluates it for every    *)
(* goal over a small universe (one state per goal and program).            *)
(***************************************************************************)
EXTENDS BackChainReq, SequencesExt, TLC

CONSTANTS MaxDepth, FixRename,
          Programs,      \* sequence of [facts |-> set of triples, rules |-> sequence of rules]
          GoalNames,     \* variable names a goal may use
          Consts, Preds  \* constants a goal may use in subject/object and predicate position

VARIABLES prog, goal, out
vars == <<prog, goal, out>>

Lt3(a, b) == \/ a[1] < b[1] \/ (a[1] = b[1] /\ a[2] < b[2]) \/ (a[1] = b[1] /\ a[2] = b[2] /\ a[3] < b[3])

RECURSIVE Resolve(_, _)
Resolve(t, b) == IF t < 0 /\ t \in DOMAIN b THEN Resolve(b[t], b) ELSE t

Put(b, v, t) == (v :> t) @@ b

UnifyTerms(t1, t2, u) ==
  IF ~u.ok THEN u
  ELSE LET a == Resolve(t1, u.b)
           c == Resolve(t2, u.b)
       IN  IF a > 0 /\ c > 0 THEN [ok |-> a = c, b |-> u.b]
           ELSE IF a < 0 /\ c > 0 THEN [ok |-> TRUE, b |-> Put(u.b, a, c)]
           ELSE IF a > 0 /\ c < 0 THEN [ok |-> TRUE, b |-> Put(u.b, c, a)]
           ELSE IF a # c THEN [ok |-> TRUE, b |-> Put(u.b, a, c)]
           ELSE u

UnifyPatterns(p1, p2, b) ==
  UnifyTerms(p1[3], p2[3], UnifyTerms(p1[2], p2[2], UnifyTerms(p1[1], p2[1], [ok |-> TRUE, b |-> b])))

Substitute(p, b) == <<Resolve(p[1], b), Resolve(p[2], b), Resolve(p[3], b)>>

\* ---- rename_rule_variables
Flat(body) == [i \in 1..(3 * Len(body)) |-> body[((i - 1) \div 3) + 1][((i - 1) % 3) + 1]]
FreshFrom(c, reserved) ==
  IF FixRename THEN CHOOSE k \in c..(c + Cardinality(reserved)) :
                        /\ -(k + 1) \notin reserved
                        /\ \A j \in c..(k - 1) : -(j + 1) \in reserved
  ELSE c
RECURSIVE RenFold(_, _, _, _)
RenFold(ts, i, st, reserved) ==
  IF i > Len(ts) THEN st
  ELSE IF ts[i] > 0 \/ ts[i] \in DOMAIN st.map THEN RenFold(ts, i + 1, st, reserved)
  ELSE LET k == FreshFrom(st.ctr, reserved)
       IN  RenFold(ts, i + 1, [map |-> (ts[i] :> -(k + 1)) @@ st.map, ctr |-> k + 1], reserved)
RenPat(p, m) == <<IF p[1] < 0 THEN m[p[1]] ELSE p[1], IF p[2] < 0 THEN m[p[2]] ELSE p[2], IF p[3] < 0 THEN m[p[3]] ELSE p[3]>>
Rename(rule, ctr, reserved) ==
  LET st == RenFold(Flat(rule.prem) \o Flat(rule.concl), 1, [map |-> <<>>, ctr |-> ctr], reserved)
  IN  [rule |-> [prem  |-> [k \in 1..Len(rule.prem) |-> RenPat(rule.prem[k], st.map)],
                 concl |-> [k \in 1..Len(rule.concl) |-> RenPat(rule.concl[k], st.map)]],
       ctr |-> st.ctr]

\* ---- backward_chaining_helper
FactSeq(F) == SetToSortSeq(F, Lt3)

RECURSIVE FactLoop(_, _, _, _)
FactLoop(fs, i, sub, b) ==
  IF i > Len(fs) THEN <<>>
  ELSE LET u == UnifyPatterns(sub, fs[i], b)
       IN  (IF u.ok THEN <<u.b>> ELSE <<>>) \o FactLoop(fs, i + 1, sub, b)

RECURSIVE BC(_, _, _, _, _), RuleLoop(_, _, _, _, _, _), ConclLoop(_, _, _, _, _, _, _), PremLoop(_, _, _, _, _, _), EachLoop(_, _, _, _, _, _)

\* P = [fs |-> fact sequence, rules |-> rule sequence, reserved |-> names of the query's variables]
BC(P, q, b, d, ctr) ==
  IF d > MaxDepth THEN [res |-> <<>>, ctr |-> ctr]
  ELSE LET sub == Substitute(q, b)
           rr  == RuleLoop(P, 1, sub, b, d, ctr)
       IN  [res |-> FactLoop(P.fs, 1, sub, b) \o rr.res, ctr |-> rr.ctr]

RuleLoop(P, i, sub, b, d, ctr) ==
  IF i > Len(P.rules) THEN [res |-> <<>>, ctr |-> ctr]
  ELSE LET rn   == Rename(P.rules[i], ctr, P.reserved)
           cr   == ConclLoop(P, 1, rn.rule, sub, b, d, rn.ctr)
           rest == RuleLoop(P, i + 1, sub, b, d, cr.ctr)
       IN  [res |-> cr.res \o rest.res, ctr |-> rest.ctr]

ConclLoop(P, j, rule, sub, b, d, ctr) ==
  IF j > Len(rule.concl) THEN [res |-> <<>>, ctr |-> ctr]
  ELSE LET u    == UnifyPatterns(rule.concl[j], sub, b)
           pr   == IF u.ok THEN PremLoop(P, 1, rule, <<u.b>>, d, ctr) ELSE [res |-> <<>>, ctr |-> ctr]
           rest == ConclLoop(P, j + 1, rule, sub, b, d, pr.ctr)
       IN  [res |-> pr.res \o rest.res, ctr |-> rest.ctr]

PremLoop(P, k, rule, results, d, ctr) ==
  IF k > Len(rule.prem) THEN [res |-> results, ctr |-> ctr]
  ELSE LET e == EachLoop(P, 1, rule.prem[k], results, d, ctr)
       IN  PremLoop(P, k + 1, rule, e.res, d, e.ctr)

EachLoop(P, n, prem, results, d, ctr) ==
  IF n > Len(results) THEN [res |-> <<>>, ctr |-> ctr]
  ELSE LET r    == BC(P, prem, results[n], d + 1, ctr)
           rest == EachLoop(P, n + 1, prem, results, d, r.ctr)
       IN  [res |-> r.res \o rest.res, ctr |-> rest.ctr]

\* Reasoner::backward_chaining + resolve_term on the goal (0 = not resolved to a constant)
Ground(t, b) == LET r == Resolve(t, b) IN IF r > 0 THEN r ELSE 0
Answers(p, g) ==
  LET P == [fs |-> FactSeq(p.facts), rules |-> p.rules, reserved |-> VarsOfPat(g)]
      r == BC(P, g, <<>>, 0, 0).res
  IN  {<<Ground(g[1], r[i]), Ground(g[2], r[i]), Ground(g[3], r[i])>> : i \in 1..Len(r)}

Goals == {<<s, p, o>> : s \in Consts \cup GoalNames, p \in Preds \cup GoalNames, o \in Consts \cup GoalNames}

\* one state per (program, goal): the search is evaluated in Init, `out` holds its result and
\* the requirement's model for that program
Init == /\ prog \in 1..Len(Programs)
        /\ goal \in Goals
        /\ out = [ans |-> Answers(Programs[prog], goal),
                  m   |-> Model(Programs[prog].rules, Programs[prog].facts, MaxDepth)]
Next == UNCHANGED vars
Spec == Init /\ [][Next]_vars

\* the programs are inside the property's precondition
ASSUME ProgramsSafe == \A i \in 1..Len(Programs) : Safe(Programs[i].rules)
SoundInv == Sound(goal, out.ans, out.m.lfp)
CompleteInv == Complete(goal, out.ans, out.m.st)
=============================================================================
