SPECIFICATION Spec
CONSTANTS
  Universe <- U4
  MaxFirings = 3
  Ops <- AllOps
  Rules <- RulesChain
  Query <- QueryQ
  FixDerived = TRUE
INVARIANTS EmissionIsFunctionOfStream Emit
CHECK_DEADLOCK FALSE
