SPECIFICATION Spec
CONSTANTS
  N = 3
  Den = 4
  EmitWeights <- EmitWeightsThorough
  Grid <- GridThorough
INVARIANTS Emit
CHECK_DEADLOCK FALSE
