SPECIFICATION Spec
CONSTANTS
  Sigma <- SigmaAll
  Cases <- NTSmall
  EscapeNT = FALSE
  DirectEncode = TRUE
  EmitDone = FALSE
INVARIANTS RoundTripPlain
CHECK_DEADLOCK FALSE
