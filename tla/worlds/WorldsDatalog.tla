--------------------------- MODULE WorldsDatalog ---------------------------
(***************************************************************************)
(* Datalog over triples, as far as C06 needs it: least model of positive   *)
(* rules and the single negative stratum the engine documents.             *)
(*                                                                         *)
(*   term     positive integer = constant, negative integer = variable     *)
(*   fact     <<s, p, o>> of constants                                     *)
(*   pattern  <<t1, t2, t3>> of terms                                      *)
(*   rule     [prem |-> Seq(pattern), neg |-> Seq(pattern),                *)
(*             concl |-> Seq(pattern)]                                     *)
(*   program  sequence of rules                                            *)
(***************************************************************************)
EXTENDS Integers, Sequences, FiniteSets

PatVars(p)  == {p[i] : i \in {j \in 1..3 : p[j] < 0}}
SeqVars(ps) == UNION {PatVars(ps[k]) : k \in 1..Len(ps)}
RuleVars(r) == SeqVars(r.prem)

\* the property's precondition on rules: every head / negated variable is bound by a positive premise
Safe(r) == /\ Len(r.prem) >= 1 /\ Len(r.concl) >= 1
           /\ SeqVars(r.concl) \subseteq SeqVars(r.prem)
           /\ SeqVars(r.neg) \subseteq SeqVars(r.prem)

\* a binding maps every variable of the rule to a constant, or to 0 = not bound yet
Matches(b, pat, f) ==
  \A i \in 1..3 :
     IF pat[i] > 0 THEN pat[i] = f[i]
     ELSE /\ (b[pat[i]] = 0 \/ b[pat[i]] = f[i])
          /\ \A j \in 1..3 : (pat[j] = pat[i]) => (f[j] = f[i])

Bind(b, pat, f) ==
  [v \in DOMAIN b |-> IF \E i \in 1..3 : pat[i] = v
                        THEN f[CHOOSE i \in 1..3 : pat[i] = v] ELSE b[v]]

RECURSIVE Join(_, _, _, _)
Join(prem, k, B, F) ==
  IF k > Len(prem) \/ B = {} THEN B
  ELSE Join(prem, k + 1,
            UNION {{Bind(b, prem[k], f) : f \in {g \in F : Matches(b, prem[k], g)}} : b \in B}, F)

\* all complete bindings of the positive body of r over the fact set F
Bindings(r, F) == Join(r.prem, 1, {[v \in RuleVars(r) |-> 0]}, F)

Subst(pat, b) == <<IF pat[1] > 0 THEN pat[1] ELSE b[pat[1]],
                   IF pat[2] > 0 THEN pat[2] ELSE b[pat[2]],
                   IF pat[3] > 0 THEN pat[3] ELSE b[pat[3]]>>

Heads(r, b)  == {Subst(r.concl[c], b) : c \in 1..Len(r.concl)}
Body(r, b)   == [k \in 1..Len(r.prem) |-> Subst(r.prem[k], b)]
NegBody(r, b) == {Subst(r.neg[k], b) : k \in 1..Len(r.neg)}

PosIdx(R) == {i \in 1..Len(R) : Len(R[i].neg) = 0}
NegIdx(R) == {i \in 1..Len(R) : Len(R[i].neg) > 0}

\* immediate consequences of the positive rules
TP(R, F) == F \cup UNION {UNION {Heads(R[i], b) : b \in Bindings(R[i], F)} : i \in PosIdx(R)}

RECURSIVE LFP(_, _)
LFP(R, F) == LET G == TP(R, F) IN IF G = F THEN F ELSE LFP(R, G)

\* one pass of the rules with negated atoms over the positive closure M
NegPass(R, M) ==
  UNION {UNION {Heads(R[i], b) : b \in {c \in Bindings(R[i], M) : NegBody(R[i], c) \cap M = {}}} : i \in NegIdx(R)}

\* the model the engine documents: positive least fixpoint (stratum 0), then the rules with
\* negation-as-failure once, their negated atoms read against the stratum-0 closure
Model(R, F) == LET M == LFP(R, F) IN M \cup NegPass(R, M)

\* Stratification under which that model is the perfect model and does not depend on the order
\* of the negative pass: bodies have constant predicates, and no predicate concluded by a rule
\* with negation occurs in any body.
BodyPreds(R) == UNION {{R[i].prem[k][2] : k \in 1..Len(R[i].prem)} \cup {R[i].neg[k][2] : k \in 1..Len(R[i].neg)} : i \in 1..Len(R)}
NegHeadPreds(R) == UNION {{R[i].concl[k][2] : k \in 1..Len(R[i].concl)} : i \in NegIdx(R)}
Stratified(R) ==
  NegIdx(R) # {} => /\ \A t \in BodyPreds(R) \cup NegHeadPreds(R) : t > 0
                    /\ BodyPreds(R) \cap NegHeadPreds(R) = {}
=============================================================================
