//! Seed-registry driver (growth of the hybrid family): random sequences of calls of the real
//! `shared::hybrid::SeedRegistry` public methods, one ndjson event per call at its return
//! (see tla/hybrid/SeedRegistryTrace.tla for the event list).  Probabilities are logged in
//! thousandths; 2000 / -5 / 7777 stand for the rejected values 2.0 / -0.005 / NaN.  The driver
//! only runs the code and logs: every expected reply and snapshot is computed by TLC.
use crate::util::*;
use serde_json::{json, Value};
use shared::hybrid::{EventKey, HybridError, SeedId, SeedKind, SeedRegistry, SeedSnapshot};
use shared::seed_spec::{ExclusiveChoice, SeedSpec};
use shared::triple::Triple;
use std::collections::HashMap;

const SPELL: [&str; 4] = ["{}", "<{}>", ":{}", " <:{}> "];

fn triple(n: u64) -> Triple {
    Triple { subject: n as u32, predicate: 1, object: n as u32 + 100 }
}

fn prob(p: i64) -> f64 {
    match p {
        7777 => f64::NAN,
        _ => p as f64 / 1000.0,
    }
}

fn key_json(k: &EventKey) -> Value {
    json!({"s": k.stream_iri, "t": k.event_time, "q": k.sequence})
}

fn snapshot_event(ev: &str, items: Vec<Value>, r: Result<SeedSnapshot, HybridError>, groups: &[u32]) -> Value {
    match r {
        Ok(s) => {
            let (recs, bytr, groups) = snapshot_json(&s, groups);
            json!({"ev": ev, "items": items, "ok": "t", "id": 0, "err": "", "recs": recs, "bytr": bytr, "groups": groups})
        }
        Err(e) => {
            let (ok, id, err) = reply(&Err(e));
            json!({"ev": ev, "items": items, "ok": ok, "id": id, "err": err, "recs": [], "bytr": [], "groups": []})
        }
    }
}

fn reply(r: &Result<SeedId, HybridError>) -> (Value, Value, Value) {
    match r {
        Ok(id) => (json!("t"), json!(id.get()), json!("")),
        Err(HybridError::UnknownSeed(id)) => (json!("f"), json!(id.get()), json!("UnknownSeed")),
        Err(HybridError::DuplicateSeedId(id)) => (json!("f"), json!(id.get()), json!("DuplicateSeedId")),
        Err(HybridError::InvalidProbability) => (json!("f"), json!(0), json!("InvalidProbability")),
        Err(HybridError::SeedIdExhausted) => (json!("f"), json!(0), json!("SeedIdExhausted")),
        Err(e) => (json!("f"), json!(0), json!(format!("{e:?}"))),
    }
}

fn snapshot_json(s: &SeedSnapshot, groups_seen: &[u32]) -> (Value, Value, Value) {
    let recs: Vec<Value> = s
        .records()
        .map(|r| {
            let kind: i64 = match r.kind {
                SeedKind::Independent => -1,
                SeedKind::ExclusiveGroup(g) => g as i64,
            };
            let ev = match &r.event {
                Some(k) => key_json(k),
                None => json!({"s": "-", "t": 0, "q": 0}),
            };
            json!({"id": r.id.get(), "tr": r.triple.subject, "p": (r.probability * 1000.0).round() as i64, "kind": kind, "ev": ev})
        })
        .collect();
    let mut bytr: Vec<(u32, Vec<u32>)> = s.triples().map(|(t, ids)| (t.subject, ids.iter().map(|i| i.get()).collect())).collect();
    bytr.sort();
    let bytr: Vec<Value> = bytr.into_iter().map(|(t, ids)| json!({"tr": t, "ids": ids})).collect();
    let mut groups = Vec::new();
    for g in groups_seen {
        if let Some(ids) = s.group(*g) {
            groups.push(json!({"g": g, "ids": ids.iter().map(|i| i.get()).collect::<Vec<u32>>()}));
        }
    }
    (json!(recs), json!(bytr), json!(groups))
}

pub fn main(a: &Args) {
    let n = a.num("random", 200);
    let seed = a.num("seed", 1);
    let steps = a.num("steps", 40);
    let mut out = Out::create(a.req("out"));
    // a registry that is only used as a source of SeedId values the registry under test may not know
    let mut donor = SeedRegistry::new();
    let donor_ids: Vec<SeedId> = (0..40).map(|i| donor.register_static(triple(1000 + i), 0.5).unwrap()).collect();
    let all_groups: Vec<u32> = vec![0, 1, 2, 7];
    let probs: [i64; 9] = [0, 1, 250, 500, 999, 1000, 2000, -5, 7777];
    for run in 1..=n {
        let mut rng = Rng::new(seed.wrapping_mul(1_000_003).wrapping_add(run));
        out.ev(json!({"ev": "reset", "run": run, "case": {"seed": seed, "run": run, "steps": steps}}));
        let mut reg = SeedRegistry::new();
        let mut keys: Vec<EventKey> = Vec::new();
        let mut known = 0usize; // identifiers handed out so far (only used to aim snapshot requests)
        let ntr = rng.range(2, 6);
        for _ in 0..steps {
            let p = if rng.chance(4, 5) { probs[rng.below(6) as usize] } else { probs[rng.below(9) as usize] };
            match rng.below(11) {
                0 | 1 => {
                    let norm = rng.range(1, 3);
                    let raw = SPELL[rng.below(4) as usize].replace("{}", &format!("s{norm}"));
                    let t = rng.below(4);
                    let k = reg.next_event_key(&raw, t as usize);
                    out.ev(json!({"ev": "key", "raw": raw, "norm": norm, "t": t, "got": key_json(&k)}));
                    keys.push(k);
                }
                2 | 3 | 4 => {
                    // an arrival seen before (fan-out to overlapping windows), a new one, or a hand-made key
                    let k = if !keys.is_empty() && rng.chance(3, 4) {
                        rng.pick(&keys).clone()
                    } else {
                        EventKey { stream_iri: format!("s{}", rng.range(1, 2)), event_time: rng.below(3) as usize, sequence: 100 + rng.below(3) }
                    };
                    let tr = rng.range(1, ntr);
                    let r = reg.register_occurrence(k.clone(), triple(tr), prob(p));
                    let (ok, id, err) = reply(&r);
                    if r.is_ok() { known = known.max(r.as_ref().unwrap().get() as usize + 1); }
                    out.ev(json!({"ev": "occ", "key": key_json(&k), "tr": tr, "p": p, "ok": ok, "id": id, "err": err}));
                    if !keys.contains(&k) { keys.push(k); }
                }
                5 | 6 => {
                    let tr = rng.range(1, ntr);
                    let r = reg.register_static(triple(tr), prob(p));
                    let (ok, id, err) = reply(&r);
                    if r.is_ok() { known = known.max(r.as_ref().unwrap().get() as usize + 1); }
                    out.ev(json!({"ev": "stat", "tr": tr, "p": p, "ok": ok, "id": id, "err": err}));
                }
                7 => {
                    let g = *rng.pick(&all_groups);
                    let tr = rng.range(1, ntr);
                    let r = reg.register_exclusive(g, triple(tr), prob(p));
                    let (ok, id, err) = reply(&r);
                    if r.is_ok() { known = known.max(r.as_ref().unwrap().get() as usize + 1); }
                    out.ev(json!({"ev": "excl", "g": g, "tr": tr, "p": p, "ok": ok, "id": id, "err": err}));
                }
                8 => {
                    let mut ids: Vec<SeedId> = Vec::new();
                    let want = rng.below(4);
                    for _ in 0..want {
                        let hi = if rng.chance(1, 6) { known + 3 } else { known.max(1) };
                        ids.push(donor_ids[(rng.below(hi as u64) as usize).min(39)]);
                    }
                    let req: Vec<u32> = ids.iter().map(|i| i.get()).collect();
                    match reg.snapshot_for_ids(ids) {
                        Ok(s) => {
                            let (recs, bytr, groups) = snapshot_json(&s, &all_groups);
                            out.ev(json!({"ev": "snap", "ids": req, "ok": "t", "id": 0, "err": "", "recs": recs, "bytr": bytr, "groups": groups}));
                        }
                        Err(e) => {
                            let (ok, id, err) = reply(&Err(e));
                            out.ev(json!({"ev": "snap", "ids": req, "ok": ok, "id": id, "err": err, "recs": [], "bytr": [], "groups": []}));
                        }
                    }
                }
                9 if rng.chance(1, 2) => {
                    // SeedSnapshot::from_seed_specs: caller-chosen identifiers (sometimes clashing), groups split over several specs
                    let mut specs: Vec<SeedSpec> = Vec::new();
                    let mut items: Vec<Value> = Vec::new();
                    for _ in 0..rng.range(0, 4) {
                        let pp = if rng.chance(9, 10) { probs[rng.below(6) as usize] } else { probs[rng.below(9) as usize] };
                        if rng.chance(1, 2) {
                            let (id, tr) = (rng.below(7), rng.range(1, ntr));
                            specs.push(SeedSpec::Independent { triple: triple(tr), prob: prob(pp), seed_id: id as u32 });
                            items.push(json!({"id": id, "tr": tr, "p": pp, "kind": -1}));
                        } else {
                            let g = *rng.pick(&all_groups);
                            let mut choices = Vec::new();
                            for _ in 0..rng.range(0, 3) {
                                let (id, tr) = (rng.below(7), rng.range(1, ntr));
                                let cp = probs[rng.below(6) as usize];
                                choices.push(ExclusiveChoice { triple: triple(tr), prob: prob(cp), choice_id: id as u32 });
                                items.push(json!({"id": id, "tr": tr, "p": cp, "kind": g}));
                            }
                            specs.push(SeedSpec::ExclusiveGroup { group_id: g, choices });
                        }
                    }
                    out.ev(snapshot_event("specs", items, SeedSnapshot::from_seed_specs(&specs), &all_groups));
                }
                9 => {
                    let mut m: HashMap<Triple, f64> = HashMap::new();
                    let mut chosen: Vec<(u64, i64)> = Vec::new();
                    for _ in 0..rng.range(0, 4) {
                        let tr = rng.range(1, ntr + 3);
                        let pp = if rng.chance(9, 10) { probs[rng.below(6) as usize] } else { probs[rng.below(9) as usize] };
                        if !chosen.iter().any(|(t, _)| *t == tr) { chosen.push((tr, pp)); m.insert(triple(tr), prob(pp)); }
                    }
                    let items: Vec<Value> = chosen.iter().map(|(tr, pp)| json!({"tr": tr, "p": pp})).collect();
                    out.ev(snapshot_event("pseeds", items, SeedSnapshot::from_probability_seeds(&m), &all_groups));
                }
                _ => {
                    let s = reg.snapshot_all();
                    let (recs, bytr, groups) = snapshot_json(&s, &all_groups);
                    out.ev(json!({"ev": "snapall", "recs": recs, "bytr": bytr, "groups": groups}));
                }
            }
        }
    }
    out.finish();
}
