------------------------------- MODULE Window -------------------------------
(***************************************************************************)
(* Code-shaped model of kolibrie::rsp::s2r::CSPARQLWindow (time-driven     *)
(* tick, any list of report strategies) together with the requirement C09  *)
(* states about what a consumer observes.                                  *)
(*                                                                         *)
(* One action, Add(id, t), is one call of add_to_window(item, t): scope(), *)
(* membership update / eviction, Report::report for every active window    *)
(* (strategies in list order, Iterator::all stops at the first that fails; *)
(* windows in HashMap iteration order - any order here), choice of the     *)
(* window to report, the app_time guard.  Ghost variables: stream / ids    *)
(* (timestamps and items pushed so far) and fired (what the consumer       *)
(* received).                                                              *)
(*                                                                         *)
(* A strategy is <<"close">> (OnWindowClose), <<"nonempty">>               *)
(* (NonEmptyContent), <<"periodic", p>> (Periodic(p)) or <<"change">>      *)
(* (OnContentChange: true iff the content equals the content this strategy *)
(* saw last, which it then replaces - as the code does).                   *)
(***************************************************************************)
EXTENDS Naturals, Integers, Sequences, FiniteSets, SequencesExt, TLC

CONSTANTS MaxTs,      \* timestamps are 0..MaxTs
          MaxLen,     \* stream length bound
          Widths,     \* set of widths explored
          Slides,     \* set of slides explored
          Strategies, \* set of strategy lists explored
          FixEvict    \* TRUE: windows that have not opened yet survive eviction (the repaired code)

VARIABLES width, slide, strat, active, appTime, lastChange, stream, ids, fired, flushed
vars == <<width, slide, strat, active, appTime, lastChange, stream, ids, fired, flushed>>

Has(name) == \E i \in 1..Len(strat) : strat[i][1] = name
ne == Has("nonempty")
HasClose == Has("close")
PlainClose == HasClose /\ \A i \in 1..Len(strat) : strat[i][1] \in {"close", "nonempty"}

CeilDiv(a, b) == (a + b - 1) \div b
Sat(x) == IF x < 0 THEN 0 ELSE x             \* f64 -> usize cast saturates at 0
MaxOf(S) == CHOOSE x \in S : \A y \in S : y <= x

\* scope(): the window opens considered for event time t (loop in scope())
ScopeOpens(t) ==
  LET csup  == CeilDiv(t, slide) * slide
      first == csup - width
  IN  {first} \cup {first + (k * slide) : k \in {j \in 1..(((t - first) \div slide) + 1) : first + (j * slide) <= t}}

Win(o) == [open |-> Sat(o), close |-> Sat(o + width), items |-> {}]
Key(w) == <<w.open, w.close>>

AfterScope(t) ==
  active \cup {Win(o) : o \in {p \in ScopeOpens(t) : \A w \in active : Key(w) # Key(Win(p))}}

\* ContentContainer::add: an item is kept once, with its latest timestamp
AddItem(items, id, t) ==
  LET old == {x \in items : x[1] = id}
  IN  (items \ old) \cup {<<id, MaxOf({t} \cup {x[2] : x \in old})>>}

\* Report::report(window, content, t): [ok, lc]; lc = <<>> (the initial last_change: an empty container with another
\* origin than any window's, equal to no content) or <<items>>
RECURSIVE ReportOne(_, _, _, _)
ReportOne(i, w, t, lc) ==
  IF i > Len(strat) THEN [ok |-> TRUE, lc |-> lc]
  ELSE LET s == strat[i] IN
       CASE s[1] = "close"    -> IF w.close <= t THEN ReportOne(i + 1, w, t, lc) ELSE [ok |-> FALSE, lc |-> lc]
         [] s[1] = "nonempty" -> IF w.items # {} THEN ReportOne(i + 1, w, t, lc) ELSE [ok |-> FALSE, lc |-> lc]
         [] s[1] = "periodic" -> IF t % s[2] = 0 THEN ReportOne(i + 1, w, t, lc) ELSE [ok |-> FALSE, lc |-> lc]
         [] OTHER             -> IF lc = <<w.items>> THEN ReportOne(i + 1, w, t, <<w.items>>) ELSE [ok |-> FALSE, lc |-> <<w.items>>]

RECURSIVE EvalSeq(_, _, _, _)
EvalSeq(sq, k, t, acc) ==
  IF k > Len(sq) THEN acc
  ELSE LET r == ReportOne(1, sq[k], t, acc.lc)
       IN  EvalSeq(sq, k + 1, t, [pass |-> IF r.ok THEN acc.pass \cup {sq[k]} ELSE acc.pass, lc |-> r.lc])

\* iteration orders that can make a difference: only OnContentChange carries state from one window to the next
Orders(S) == IF Has("change") THEN SetToSeqs(S) ELSE {SetToSeq(S)}

\* every possible outcome of one add_to_window(id, t): new active set, app_time, last_change and the report (<<>> = none)
AddOutcomes(id, t) ==
  LET scoped  == AfterScope(t)
      updated == {[w EXCEPT !.items = AddItem(@, id, t)] : w \in {v \in scoped : v.open <= t /\ t < v.close}}
      kept    == IF FixEvict THEN {v \in scoped : v.open > t} ELSE {}
  IN  {LET ev == EvalSeq(ord, 1, t, [pass |-> {}, lc |-> lastChange])
       IN  IF ev.pass # {} /\ t > appTime
           THEN LET mx == CHOOSE w \in ev.pass : \A v \in ev.pass : v.close <= w.close
                IN  [active |-> updated \cup kept, appTime |-> t, lc |-> ev.lc,
                     report |-> <<[idx |-> Len(stream) + 1, ts |-> t, close |-> mx.close, items |-> mx.items]>>]
           ELSE [active |-> updated \cup kept, appTime |-> appTime, lc |-> ev.lc, report |-> <<>>]
         : ord \in Orders(scoped)}

Apply(id, t, o) ==
  /\ stream' = Append(stream, t) /\ ids' = Append(ids, id)
  /\ active' = o.active /\ appTime' = o.appTime /\ lastChange' = o.lc
  /\ fired' = fired \o o.report
  /\ UNCHANGED <<width, slide, strat, flushed>>

Add(id, t) ==
  /\ Len(stream) < MaxLen
  /\ IF stream = <<>> THEN TRUE ELSE t >= stream[Len(stream)]
  /\ \E o \in AddOutcomes(id, t) : Apply(id, t, o)

\* flush() (called by RSPEngine::stop): one final report holding the merged contents of all windows that are still
\* active, if there is any item in them.  Not a window report in the sense of C09 (its content is not one interval);
\* specified here because the engine's last firing is produced by it.
Flush ==
  /\ flushed = <<>> /\ stream # <<>>
  /\ LET merged == UNION {w.items : w \in active}
     IN  flushed' = IF merged = {} THEN <<[items |-> {}, sent |-> FALSE]>> ELSE <<[items |-> merged, sent |-> TRUE]>>
  /\ UNCHANGED <<width, slide, strat, active, appTime, lastChange, stream, ids, fired>>

Init == /\ width \in Widths /\ slide \in Slides /\ strat \in Strategies
        /\ active = {} /\ appTime = 0 /\ lastChange = <<>> /\ stream = <<>> /\ ids = <<>> /\ fired = <<>> /\ flushed = <<>>

\* in the exhaustive instances every push is a new item
Next == (flushed = <<>> /\ \E t \in 0..MaxTs : Add(Len(stream) + 1, t)) \/ Flush
Spec == Init /\ [][Next]_vars

---------------------------------------------------------------------------
(* Requirement (C09), stated on the ghost variables only.                  *)

\* items (each once, with its latest in-interval timestamp) among the first n pushes with timestamp in [lo, hi)
ItemsBefore(lo, hi, n) ==
  LET occ == {j \in 1..n : lo <= stream[j] /\ stream[j] < hi}
  IN  {<<i, MaxOf({stream[j] : j \in {k \in occ : ids[k] = i}})>> : i \in {ids[j] : j \in occ}}
ItemsIn(lo, hi) == ItemsBefore(lo, hi, Len(stream))

\* the reported content is one aligned interval, as far as the stream had come when the report was made (a report is
\* made before the triggering item is added); with OnWindowClose the interval is closed, hence complete.
\* OnContentChange is the exception (model and code): a closed window that this strategy held back is evicted, re-created
\* empty by the next event with the same timestamp and may then be reported - nothing foreign, but items missing.  The
\* engine never configures this strategy; C09 is claimed for lists without it.
ContentExact ==
  \A k \in 1..Len(fired) :
     LET f == fired[k] IN
       /\ f.close % slide = 0
       /\ (HasClose => f.close <= f.ts)
       /\ f.items \subseteq ItemsBefore(f.close - width, f.close, f.idx - 1)
       /\ (~Has("change") => f.items = ItemsBefore(f.close - width, f.close, f.idx - 1))
       /\ (HasClose /\ ~Has("change") => f.items = ItemsIn(f.close - width, f.close))

\* what the individual strategies promise about every report
StrategyPost ==
  \A k \in 1..Len(fired) : \A i \in 1..Len(strat) :
     /\ (strat[i][1] = "periodic" => fired[k].ts % strat[i][2] = 0)
     /\ (strat[i][1] = "nonempty" => fired[k].items # {})

Monotone ==
  \A k \in 1..(Len(fired) - 1) :
     /\ fired[k].ts < fired[k + 1].ts
     /\ (HasClose => fired[k].close <= fired[k + 1].close)

Dense == \A i \in 1..(Len(stream) - 1) : stream[i + 1] - stream[i] <= slide

\* every interval that closes while the stream runs is reported exactly once
ExactlyOnce ==
  (PlainClose /\ Len(stream) >= 1 /\ Dense) =>
     \A c \in (stream[1] + 1)..stream[Len(stream)] :
        (c % slide = 0 /\ (ne => ItemsIn(c - width, c) # {})) =>
            Cardinality({k \in 1..Len(fired) : fired[k].close = c}) = 1

\* flush requirement: the merged content is exactly the items whose timestamp lies in a window that still contains the last
\* timestamp T, i.e. the items at or after the smallest aligned open o with o <= T < o + width
FlushExact ==
  flushed # <<>> =>
     LET T == stream[Len(stream)]
         opens == {o \in (0 - width)..T : (o + width) % slide = 0 /\ o <= T /\ T < o + width}
         expected == IF opens = {} THEN {} ELSE LET omin == CHOOSE o \in opens : \A p \in opens : o <= p IN ItemsIn(omin, T + 1)
     IN  flushed[1].items = expected /\ flushed[1].sent = (expected # {})

\* structural invariant of the code-shaped part: one window per key
UniqueKeys == \A v, w \in active : Key(v) = Key(w) => v = w

=============================================================================
