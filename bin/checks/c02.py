"""C02 - query answers do not depend on the plan the optimizer happens to choose.

For seeded (dataset, SELECT) pairs the harness lowers the query like the engine does, asks the
optimizer for a plan under fresh / stale / empty / adversarial statistics, rewrites the join nodes
of each plan to every (or a seeded sample of) assignment of {bind, hash, nested-loop}, expands star
joins, runs under rayon pools of several sizes, and repeats for permutations of the triple patterns
in the text.  TLC (tla/sparql/PlanTrace.tla) requires the recorded solution multiset of every
execution to equal Eval of the pattern (Sparql.tla) - hence equal to each other.
"""
import copy
import json
import os
import random
import time
import vlib
from vlib import log
from checks import sparqlgen as G
from checks.c01 import lexicals_of, LENIENT, _features

FAMILY = "sparql"
FEATS = [None, {"union"}, {"graph"}, {"graph", "union"}, {"values"}, {"sub", "order", "limit", "distinct"}, {"filter"}, {"values", "graph"}, {"sub"}, set()]


def permute_bgps(p, rng):
    p = copy.deepcopy(p)

    def walk(x):
        if x["t"] == "bgp":
            rng.shuffle(x["tps"])
        for e in x.get("ps", []):
            walk(e)
        if x["t"] in ("graph",):
            walk(x["p"])
        if x["t"] == "sub":
            walk(x["q"]["p"])
    walk(p)
    return p


def wide_dataset(rng, D, m, P):
    """Exactly D default-graph quads of which exactly m have predicate P, plus a few named-graph quads."""
    with_p = [(s_, P, o, "") for s_ in G.IRIS[:4] for o in G.IRIS[:5]]
    others = [(s_, p, o, "") for s_ in G.IRIS[:4] for p, objs in ((G.P_IRI[0], G.IRIS[:5]), (G.P_IRI[1], G.IRIS[:5]), (G.P_VAL, G.INTS), (G.P_LIT, G.LITS))
              if p != P for o in objs]
    quads = rng.sample(with_p, m) + rng.sample(others, D - m)
    quads += [(rng.choice(G.IRIS[:4]), rng.choice(G.PREDS[:2]), rng.choice(G.IRIS[:5]), rng.choice(G.GRAPHS[:2])) for _ in range(3)]
    return sorted(set(quads))


def big_dataset(rng, D):
    """Exactly D (<= 132) default-graph quads over 6 subjects, plus a few named-graph quads."""
    allq = [(s_, p, o, "") for s_ in G.IRIS for p, objs in ((G.P_IRI[0], G.IRIS), (G.P_IRI[1], G.IRIS), (G.P_VAL, G.INTS), (G.P_LIT, G.LITS)) for o in objs]
    quads = rng.sample(allq, D)
    quads += [(rng.choice(G.IRIS[:4]), rng.choice(G.PREDS[:2]), rng.choice(G.IRIS[:5]), rng.choice(G.GRAPHS[:2])) for _ in range(3)]
    return sorted(set(quads))


def gen_cases(seed, n, threads, max_assign):
    rng = random.Random(seed * 15485863 + 2)
    cases = []
    for i in range(n):
        quads = G.gen_dataset(rng, 16)
        g = G.Gen(rng, FEATS[i % len(FEATS)], quads)
        depth = rng.choice([1, 2, 2])
        if i % 3 == 1:
            k = (i // 3) % (len(G.Gen.OPS) ** 2)
            q = g.nested(G.Gen.OPS[k // len(G.Gen.OPS)], G.Gen.OPS[k % len(G.Gen.OPS)])
        else:
            q = g.select(depth)
        # more triple patterns per BGP than the C01 generator uses: joins are the subject here
        if rng.random() < 0.5:
            g.ctx = ""
            q["p"]["ps"].append(g.bgp(rng.choice([2, 3, 4])))
        if i % 8 == 3:
            q = G.twin_query(rng, quads, G.TWIN_KINDS[(i // 8) % len(G.TWIN_KINDS)])
        delhist = i % 8 == 1
        if delhist:
            # delete history + patterns with a variable predicate whose object (or subject) gets bound by the join: every index
            # permutation is read by some plan, so an index that a delete left stale shows as a disagreement between plans
            V, C = G.V, G.C
            shape = [[[V("a"), V("x"), V("b")], [V("b"), V("y"), V("c")]],
                     [[V("b"), V("y"), V("c")], [V("a"), V("x"), V("b")]],
                     [[V("a"), V("x"), V("b")], [V("c"), V("y"), V("b")]],
                     [[V("a"), V("x"), C(rng.choice(G.IRIS[:4]))], [V("a"), V("y"), V("c")]]][(i // 8) % 4]
            q = G.Gen(rng, set(), quads).select(1)
            q["p"] = {"t": "join", "ps": [{"t": "bgp", "tps": shape}]}
            q["star"], q["proj"], q["group"], q["from"], q["fromnamed"] = True, [], [], [], []
        if i % 8 == 5:
            # merged default graph: two or three FROM graphs (a triple may be in several of them: the merge is duplicate-free) and a
            # join whose patterns are generalised from the merged content, so that several left rows probe the same triple
            srcs = [G.GRAPHS[0], G.GRAPHS[1]] + ([""] if False else [])
            quads = sorted(set(quads) | {(s_, p_, o_, G.GRAPHS[(k + 1) % 2]) for k, (s_, p_, o_, g_) in enumerate(quads) if g_ == "" and k % 2 == 0})
            merged = sorted({(s_, p_, o_, "") for s_, p_, o_, g_ in quads if g_ in srcs})
            V, C = G.V, G.C
            preds = sorted({x[1] for x in merged if G.kind_of(x[2]) == "iri"}) or [G.P_IRI[0]]
            P, Q = rng.choice(preds), rng.choice(preds)
            shape = [[[V("a"), C(P), V("b")], [V("c"), C(P), V("b")]],
                     [[V("a"), C(P), V("b")], [V("b"), C(Q), V("c")]],
                     [[V("a"), V("x"), V("b")], [V("c"), V("y"), V("b")]],
                     [[V("a"), C(P), V("b")], [V("a"), C(Q), V("c")], [V("c"), V("x"), V("d")]]][(i // 8) % 4]
            q = G.Gen(rng, set(), merged).select(1)
            q["p"] = {"t": "join", "ps": [{"t": "bgp", "tps": shape}]}
            q["star"], q["proj"], q["group"], q["fromnamed"] = True, [], [], []
            q["from"] = srcs + ([G.GRAPHS[2]] if (i // 8) % 2 else [])
        wide = i % 8 == 7
        if wide:
            V, C = G.V, G.C
            if (i // 8) % 2 == 0:
                # big scans: every pattern matches D >= 128 default-graph quads (D odd), so whatever join order the optimizer picks,
                # the bind join's left input has D rows: more than BIND_JOIN_MIN_CHUNK (64) per worker of a 2-thread pool, with a remainder
                D = [131, 129, 131][(i // 16) % 3]
                quads = big_dataset(rng, D)
                q["p"] = {"t": "join", "ps": [{"t": "bgp", "tps": [[V("a"), V("b"), V("c")], [V("c"), V("d"), V("e")]]}]}
            else:
                # wide left side: the left input of the last join is the cross product of D * m rows (>= 64 * k with a remainder for
                # pools of k = 2 and 3 workers) when the optimizer keeps the selective third pattern for the end
                D, m = [(29, 7), (31, 7), (35, 7)][(i // 16) % 3]
                P = G.P_IRI[(i // 16) % 2]
                quads = wide_dataset(rng, D, m, P)
                third = [[V("a"), C(G.P_LIT), C(G.LITS[(i // 16) % 3])]] if (i // 16) % 2 else [[V("a"), C(G.P_VAL), V("f")]]
                q["p"] = {"t": "join", "ps": [{"t": "bgp", "tps": [[V("a"), V("b"), V("c")]]}, {"t": "bgp", "tps": [[V("d"), C(P), V("e")]]},
                                              {"t": "bgp", "tps": third}]}
            q["star"], q["proj"], q["from"], q["fromnamed"], q["group"] = True, [], [], [], []
        q["order"], q["limit"], q["distinct"] = [], -1, False
        qs = [q]
        for _ in range(2):
            q2 = copy.deepcopy(q)
            q2["p"] = permute_bgps(q["p"], rng)
            qs.append(q2)
        rng.shuffle(quads)
        k = max(1, int(len(quads) * 0.7))
        early, late = sorted(quads[:k]), quads[k:]
        late_del = [list(x) for x in early if x[3] == "" and rng.random() < (0.4 if delhist else 0.15) and not wide]
        if wide:
            qs = qs[:1]
        cases.append({"steps": G.setup_steps(early), "late": [list(x) for x in late], "late_del": late_del,
                      "texts": [G.pr_select(x) for x in qs], "threads": [t for t in threads if t <= 7] if wide else threads,
                      "max_assign": min(max_assign, 3) if wide else max_assign,
                      "pass": {"qs": qs}})
    return cases


def to_events(trace_path, out_path):
    runs = vlib.split_runs(vlib.read_ndjson(trace_path))
    events, meta = [], {}
    eid = 0
    for rid, ev in sorted(runs.items()):
        case = ev[0]["case"]
        for st in ev[1:]:
            eid += 1
            q = case["pass"]["qs"][st["text"]]
            lex = set()
            lexicals_of(st["quads"], lex)
            lexicals_of(st["sols"], lex)
            lexicals_of(q, lex)
            lex.discard("")
            kind, num, rank, canon = G.tables(lex, G.resource_terms(st["quads"]))
            events.append({"ev": "exec", "run": eid, "quads": st["quads"], "graphs": st["graphs"], "kind": kind, "num": num, "rank": rank,
                           "canon": canon, "q": q, "sols": st["sols"], "res": st["res"]})
            meta[eid] = {"case": case, "cfg": st["cfg"], "text": case["texts"][st["text"]], "nsols": len(st["sols"]), "err": st["err"], "res": st["res"], "ti": st["text"]}
    vlib.write_ndjson(out_path, events)
    return events, meta


def sig_for(v, m):
    if v.startswith("lenient:"):
        return "ExecutionEngine|expression error semantics (independent of the plan)|" + LENIENT[v.split(":")[1]]
    if v in ("panic", "err"):
        return f"ExecutionEngine|{v}|stats={m['cfg']['stats']} assign={m['cfg']['assign']}: {m['err'][:80]}"
    # which configuration dimension disagrees is part of the signature: join algorithms in the plan shape
    algos = sorted({a for a in ("bind", "hash", "nl", "star") if a + "(" in m["cfg"]["plan"] or (a == "star" and "star" in m["cfg"]["plan"])})
    return f"ExecutionEngine|plan uses {'+'.join(algos) or 'no join'}|solution multiset differs from the algebra under this configuration"


def validate(wd, trace, verdict, tag):
    evp = os.path.join(wd, tag + "-tlc.ndjson")
    events, meta = to_events(trace, evp)
    res = vlib.tlc_trace(FAMILY, "PlanTrace.tla", "PlanTrace.cfg", evp, tag=f"c02-{tag}", heap="12g", timeout=3300)
    failed = {}
    for f in res["fail"]:
        m = meta[f[0]]
        failed[f[0]] = f[1]
        case = dict(m["case"])
        verdict.violation(sig_for(f[1], m), {"driver": "c02", "case": case, "cfg": m["cfg"], "text": m["text"], "verdict": f[1], "err": m["err"]},
                          detail=f"{m['cfg']} {m['text'][:200]}")
    # independent of the algebra: all configurations of one case (incl. the permuted texts) must return the same multiset
    groups = {}
    for eid, m in meta.items():
        if m["res"] == "ok":
            groups.setdefault(id(m["case"]), []).append(eid)
    by_eid = {e["run"]: e for e in events}
    for eids in groups.values():
        canon = {}
        for eid in eids:
            key = json.dumps(sorted(json.dumps(r, sort_keys=True) for r in by_eid[eid]["sols"]))
            canon.setdefault(key, []).append(eid)
        if len(canon) > 1:
            minority = min(canon.values(), key=len)
            m = meta[minority[0]]
            explained = all((eid not in failed) or str(failed[eid]).startswith("lenient:") for eid in eids)
            sideways = any(str(failed.get(eid, "")).startswith("lenient:sideways") for eid in eids)
            failed.setdefault(minority[0], "configurations disagree")
            sig = ("ExecutionEngine|bind join vs hash / nested-loop join|the right-hand pattern of a bind join sees the left solution's bindings: join algorithms disagree"
                   if explained and sideways else
                   "ExecutionEngine|configurations of the same query return different solution multisets|" + m["cfg"]["stats"] + "/" + m["cfg"]["assign"].rstrip("0123456789"))
            verdict.violation(sig,
                              {"driver": "c02", "case": dict(m["case"]), "cfg": m["cfg"], "text": m["text"], "verdict": "configurations disagree"},
                              detail=f"{m['cfg']} vs {meta[max(canon.values(), key=len)[0]]['cfg']}")
    return events, meta, failed, res


def run(ctx):
    t0 = time.time()
    verdict = vlib.Verdict("C02", ctx.seed, ctx.tier)
    wd = vlib.workdir("c02")
    if ctx.replay:
        case = json.load(open(ctx.replay))["case"]["case"]
        vlib.write_ndjson(os.path.join(wd, "cases.ndjson"), [case])
        vlib.kverif(["c02", "--cases", os.path.join(wd, "cases.ndjson"), "--out", os.path.join(wd, "replay.ndjson"), "--seed", ctx.seed])
        validate(wd, os.path.join(wd, "replay.ndjson"), verdict, "replay")
        return verdict.finish()
    thorough = ctx.tier == "thorough"
    # L1: operational plan semantics (tla/sparql/Plan.tla): for every stable pattern of the menu, every dataset of the small
    # universe and every assignment of join algorithms, Exec(plan) = Eval(pattern); all-bind execution = the "sideways" reading;
    # negative control: every unstable pattern has a dataset on which the algorithms disagree (F-C02-bindjoin at design level)
    rc_, out_, _ = vlib._tlc(os.path.join(vlib.TLA, FAMILY), "MCPlan.tla", "MCPlan.cfg", 1, 900, env_extra={"JAVA_TOOL_OPTIONS": "-Xss512m"}, tag="c02-plan")
    plan = {t[0]: t[1:] for _tag, t in vlib._printed_tuples_any(out_, "PLAN")}
    if plan.get("Theorem") != [True] or plan.get("Sideways") != [True] or plan.get("Control") != [True]:
        import sys as _sys
        _sys.stdout.write(out_[-3000:])
        raise vlib.ToolError(f"Plan.tla theorem check did not come out as expected (design-level model, not a verdict): {plan}")
    l1_instances = plan["stable patterns"][-1]
    log(f"L1 Plan.tla: Exec(plan) = Eval(pattern) for {l1_instances} (stable pattern, dataset, join-algorithm assignment) instances; "
        f"all-bind = sideways reading; negative control (unstable patterns disagree) holds")
    n = 600 if thorough else 50
    cases = gen_cases(ctx.seed, n, [1, 2, 3, 4, 7, 16] if thorough else [1, 2, 3, 16], 27 if thorough else 9)
    vlib.write_ndjson(os.path.join(wd, "cases.ndjson"), cases)
    vlib.kverif(["c02", "--cases", os.path.join(wd, "cases.ndjson"), "--out", os.path.join(wd, "trace.ndjson"), "--seed", ctx.seed], timeout=3000)
    events, meta, failed, res = validate(wd, os.path.join(wd, "trace.ndjson"), verdict, "l3")
    log(f"judged {len(events)} executions of {n} queries x 3 pattern orders x 4 statistics x join assignments x thread pools: "
        f"{len(failed)} rejected, {len(res['info'])} skipped")
    rc = verdict.finish()
    dims = {"stats": {}, "assign": {}, "threads": {}}
    shapes = set()
    distinct = set()
    for eid, m in meta.items():
        for d in dims:
            k = str(m["cfg"][d])
            k = "sampled/enumerated" if d == "assign" and k[0] in "ar" and k[1:].isdigit() else k
            dims[d][k] = dims[d].get(k, 0) + 1
        shapes.add(m["cfg"]["plan"])
        if m["nsols"] > 0 and eid not in failed:
            distinct.add(vlib.case_hash([m["text"], m["cfg"]["plan"], m["cfg"]["stats"], m["cfg"]["threads"]]))
    smp = meta[max(1, len(meta) // 2)]
    cov = {"evaluations": len(events), "distinct_nontrivial": len(distinct),
           "rule": "one evaluation = one execution of a physical plan; distinct by (query text, plan shape, statistics, pool size); "
                   "non-trivial = accepted with a non-empty solution multiset",
           "samples": [{"text": smp["text"], "cfg": smp["cfg"], "solutions": smp["nsols"]}],
           "states": l1_instances, "transitions": l1_instances, "traces_validated_against_impl": len(events), "trace_states": res["states"],
           "configurations": dims, "executions_with_more_than_64_solutions": sum(1 for m in meta.values() if m["nsols"] > 64), "distinct_plan_shapes": len(shapes), "skipped": len(res["info"]), "rejected": len(failed)}
    vlib.write_evidence("C02", ctx.tier, ctx.seed, "model_checking", cov,
                        ["interleavings inside rayon are not controlled; pool size is a configuration axis only",
                         "join assignments are exhaustive up to max_assign per plan and seeded samples beyond",
                         "L1 (Plan.tla) is a theorem evaluated by TLC over a menu of 13 patterns x 64 datasets x 8 join-algorithm assignments (`states` = number of instances evaluated); it is a model of the executor, bound to the code only through L3"],
                        time.time() - t0, len(verdict.violations))
    return rc
