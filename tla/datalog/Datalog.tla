------------------------------- MODULE Datalog -------------------------------
(***************************************************************************)
(* Requirement module for C05: what the materialisation of a rule set over *)
(* a set of triples must contain, independent of any evaluation strategy.  *)
(*                                                                         *)
(*   term      a string (entity / predicate name, or a decimal numeral)    *)
(*   fact      <<s, p, o>> of terms                                        *)
(*   pattern   <<k, x>> : k = "c" constant x, k = "v" variable named x     *)
(*   atom      <<pattern, pattern, pattern>> - constants, repeated         *)
(*             variables and variable predicates in any position           *)
(*   filter    [var, op, kind, num, other] :                               *)
(*               kind "n":  value(var) op num     (numeric comparison)     *)
(*               kind "v":  var = other / var != other   (term identity)   *)
(*   rule      [prem, neg, flt, concl] : sequences of atoms / filters      *)
(*   program   sequence of rules (order carries no meaning here)           *)
(*                                                                         *)
(* Model(R, F) is the least fixpoint for programs without negation and the *)
(* stratified (perfect) model for programs whose negation is stratified    *)
(* with one negation stratum (Stratified).                                 *)
(***************************************************************************)
EXTENDS Naturals, Sequences, FiniteSets, TLC

Range(sq) == {sq[i] : i \in 1..Len(sq)}

\* ---- numerals ------------------------------------------------------------
NumStr == <<"0", "1", "2", "3", "4", "5", "6", "7", "8", "9", "10", "11", "12">>
IsNum(t) == \E i \in 1..Len(NumStr) : NumStr[i] = t
NumVal(t) == (CHOOSE i \in 1..Len(NumStr) : NumStr[i] = t) - 1

\* ---- syntax --------------------------------------------------------------
IsVar(t) == t[1] = "v"
VarsOfAtom(a) == {a[i][2] : i \in {j \in 1..3 : IsVar(a[j])}}
VarsOfAtoms(sq) == UNION {VarsOfAtom(sq[i]) : i \in 1..Len(sq)}

CmpOps == {">", "<", ">=", "<=", "=", "!="}

\* safe rule: at least one premise; every variable of a conclusion, of a negated atom
\* and of a filter is bound by a positive premise
Safe(r) ==
  LET pv == VarsOfAtoms(r.prem) IN
  /\ Len(r.prem) >= 1
  /\ VarsOfAtoms(r.concl) \subseteq pv
  /\ VarsOfAtoms(r.neg) \subseteq pv
  /\ \A i \in 1..Len(r.flt) :
        /\ r.flt[i].var \in pv
        /\ r.flt[i].op \in CmpOps
        /\ r.flt[i].kind \in {"n", "v"}
        /\ (r.flt[i].kind = "v") => (r.flt[i].other \in pv /\ r.flt[i].op \in {"=", "!="})

SafeProgram(R) == \A i \in 1..Len(R) : Safe(R[i])

\* ---- matching ------------------------------------------------------------
Empty == [v \in {} |-> ""]

\* extend substitution sg so that pattern t denotes the term x: a set with 0 or 1 elements
Bind(sg, t, x) ==
  IF t[1] = "c" THEN (IF t[2] = x THEN {sg} ELSE {})
  ELSE IF t[2] \in DOMAIN sg THEN (IF sg[t[2]] = x THEN {sg} ELSE {})
  ELSE {sg @@ (t[2] :> x)}

Unify(sg, a, f) ==
  UNION {UNION {Bind(s2, a[3], f[3]) : s2 \in Bind(s1, a[2], f[2])} : s1 \in Bind(sg, a[1], f[1])}

\* all substitutions (over exactly the variables of prem) that map every atom of prem into X
RECURSIVE MatchFrom(_, _, _, _)
MatchFrom(prem, i, S, X) ==
  IF i > Len(prem) \/ S = {} THEN S
  ELSE MatchFrom(prem, i + 1, UNION {Unify(sg, prem[i], f) : sg \in S, f \in X}, X)

Match(prem, X) == MatchFrom(prem, 1, {Empty}, X)

Val(t, sg) == IF t[1] = "c" THEN t[2] ELSE sg[t[2]]
Inst(a, sg) == <<Val(a[1], sg), Val(a[2], sg), Val(a[3], sg)>>

Cmp(op, a, b) ==
  CASE op = ">" -> a > b  [] op = "<" -> a < b  [] op = ">=" -> a >= b
    [] op = "<=" -> a <= b [] op = "=" -> a = b  [] op = "!=" -> a # b

FilterOK(sg, f) ==
  IF f.kind = "n" THEN IsNum(sg[f.var]) /\ Cmp(f.op, NumVal(sg[f.var]), f.num)
  ELSE IF f.op = "=" THEN sg[f.var] = sg[f.other] ELSE sg[f.var] # sg[f.other]

FiltersOK(sg, flt) == \A i \in 1..Len(flt) : FilterOK(sg, flt[i])

\* negation as failure against the fact set N
NegOK(sg, neg, N) == \A i \in 1..Len(neg) : Inst(neg[i], sg) \notin N

\* ---- immediate consequence and fixpoints ----------------------------------
Sat(r, X, N) == {sg \in Match(r.prem, X) : FiltersOK(sg, r.flt) /\ NegOK(sg, r.neg, N)}
Fire(r, X, N) == {Inst(r.concl[c], sg) : c \in 1..Len(r.concl), sg \in Sat(r, X, N)}

\* R a sequence of rules; negated atoms are looked up in the fixed set N
TP(R, X, N) == X \cup UNION {Fire(R[i], X, N) : i \in 1..Len(R)}

RECURSIVE LFP(_, _, _)
LFP(R, X, N) == LET Y == TP(R, X, N) IN IF Y = X THEN X ELSE LFP(R, Y, N)

Positive(R) == SelectSeq(R, LAMBDA r : Len(r.neg) = 0)
HasNeg(R) == \E i \in 1..Len(R) : Len(R[i].neg) > 0

\* closure under the rules without negation: decides every negated atom of a
\* stratified program
Stratum0(R, F) == LFP(Positive(R), F, {})

Model(R, F) == IF HasNeg(R) THEN LFP(R, F, Stratum0(R, F)) ELSE LFP(R, F, {})

\* ---- stratification: one stratum of negation -------------------------------
\* two patterns / atoms that can denote the same ground term / fact (variables renamed apart)
MayEq(t, u) == t[1] = "v" \/ u[1] = "v" \/ t[2] = u[2]
MayUnify(a, b) == \A i \in 1..3 : MayEq(a[i], b[i])

DependsOn(r, s) == \E i \in 1..Len(r.prem), j \in 1..Len(s.concl) : MayUnify(r.prem[i], s.concl[j])

\* rules of the upper stratum: rules with negation and every rule that can consume
\* (directly or not) what an upper-stratum rule concludes
RECURSIVE UpperFrom(_, _)
UpperFrom(R, S) ==
  LET T == S \cup {i \in 1..Len(R) : \E j \in S : DependsOn(R[i], R[j])}
  IN  IF T = S THEN S ELSE UpperFrom(R, T)
Upper(R) == UpperFrom(R, {i \in 1..Len(R) : Len(R[i].neg) > 0})

\* no negated atom can be concluded by a rule of the upper stratum: the truth of every
\* negated atom is settled by the negation-free rules below
Stratified(R) ==
  \A i \in 1..Len(R) : \A n \in 1..Len(R[i].neg) :
     \A j \in Upper(R) : \A c \in 1..Len(R[j].concl) : ~MayUnify(R[i].neg[n], R[j].concl[c])

\* ---- typing of numeric filters ---------------------------------------------
\* a numeric filter is only ever applied to numerals: every evaluation that derives nothing
\* outside the model M only sees matches of the premises in M (matching is monotone)
TypedOn(R, M) ==
  \A i \in 1..Len(R) :
     (\E k \in 1..Len(R[i].flt) : R[i].flt[k].kind = "n") =>
        \A sg \in Match(R[i].prem, M) :
           \A k \in 1..Len(R[i].flt) : (R[i].flt[k].kind = "n") => IsNum(sg[R[i].flt[k].var])

\* the quantifier of C05 (conjuncts are evaluated left to right: Model needs a safe program)
InScope(R, F) == SafeProgram(R) /\ Stratified(R) /\ TypedOn(R, Model(R, F))

\* ---- laws of the definitions (checked by TLC on all small programs) ---------
\* the model is supported and closed: it is a fixpoint of the reduct by itself (stable model)
StableModel(R, F) == LET M == Model(R, F) IN LFP(R, F, M) = M
=============================================================================
