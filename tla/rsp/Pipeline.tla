------------------------------- MODULE Pipeline -------------------------------
(***************************************************************************)
(* Code-shaped model of the single-window processor of rsp_engine.rs       *)
(* (create_window_processor!) with the SimpleR2R store, in MultiThread     *)
(* mode: the feeding thread sends window contents through a FIFO channel,  *)
(* the worker thread receives one and runs, step by step,                  *)
(*   Evict (remove the previous firing's raw items)                        *)
(*   Load  (add the current items; the repaired add() forgets a stale      *)
(*          derived fact that now arrives as raw data)                     *)
(*   Materialise (delete last cycle's derived facts, infer, add)           *)
(*   Answer (window query, stream operator, emission)                      *)
(* Feed and the worker steps interleave freely.  Requirement (Rsp.tla):    *)
(* the k-th emission is a function of the k-th and (k-1)-th content only.  *)
(* SingleThread mode is the schedule in which the worker runs to           *)
(* completion after every Feed, so the same invariant gives "multi =       *)
(* single under every schedule".                                           *)
(***************************************************************************)
EXTENDS Rsp

CONSTANTS Universe,     \* set of triples <<s, p, o>> the contents are drawn from
          MaxFirings,   \* number of window contents fed
          Ops,          \* subset of {"RSTREAM", "ISTREAM", "DSTREAM"}
          Rules,        \* sequence of rules [prem, concl]
          Query,        \* sequence of triple patterns
          FixDerived    \* TRUE = repaired SimpleR2R::add

VARIABLES op, fed, chan, pc, cur, store, prevRaw, derivedPrev, last, emitted
vars == <<op, fed, chan, pc, cur, store, prevRaw, derivedPrev, last, emitted>>

Init == /\ op \in Ops /\ fed = <<>> /\ chan = <<>> /\ pc = "idle" /\ cur = {}
        /\ store = {} /\ prevRaw = {} /\ derivedPrev = {} /\ last = {} /\ emitted = <<>>

Feed(K) == /\ Len(fed) < MaxFirings
           /\ fed' = Append(fed, K) /\ chan' = Append(chan, K)
           /\ UNCHANGED <<op, pc, cur, store, prevRaw, derivedPrev, last, emitted>>

Recv == /\ pc = "idle" /\ chan # <<>>
        /\ cur' = Head(chan) /\ chan' = Tail(chan) /\ pc' = "evict"
        /\ UNCHANGED <<op, fed, store, prevRaw, derivedPrev, last, emitted>>

Evict == /\ pc = "evict"
         /\ store' = store \ prevRaw /\ pc' = "load"
         /\ UNCHANGED <<op, fed, chan, cur, prevRaw, derivedPrev, last, emitted>>

Load == /\ pc = "load"
        /\ store' = store \cup cur /\ prevRaw' = cur
        /\ derivedPrev' = IF FixDerived THEN derivedPrev \ cur ELSE derivedPrev
        /\ pc' = "materialise"
        /\ UNCHANGED <<op, fed, chan, cur, last, emitted>>

Materialise ==
  /\ pc = "materialise"
  /\ LET base == store \ derivedPrev
         new  == LFP(Rules, base) \ base       \* infer_new_facts returns only new facts
     IN  store' = base \cup new /\ derivedPrev' = new
  /\ pc' = "answer"
  /\ UNCHANGED <<op, fed, chan, cur, prevRaw, last, emitted>>

Answer ==
  /\ pc = "answer"
  /\ LET rows == EvalBgp(Query, Len(Query), store)
     IN  emitted' = Append(emitted, EmitBag(op, rows, last)) /\ last' = DOMAIN rows
  /\ pc' = "idle"
  /\ UNCHANGED <<op, fed, chan, cur, store, prevRaw, derivedPrev>>

Next == (\E K \in SUBSET Universe : Feed(K)) \/ Recv \/ Evict \/ Load \/ Materialise \/ Answer
Spec == Init /\ [][Next]_vars

---------------------------------------------------------------------------
\* requirement: emission k depends on contents k and k-1 only (never on older firings or on the schedule)
PrevRows(k) == IF k = 1 THEN {} ELSE DOMAIN Rows(Query, Rules, fed[k - 1])
EmissionIsFunctionOfStream ==
  \A k \in 1..Len(emitted) : emitted[k] = EmitBag(op, Rows(Query, Rules, fed[k]), PrevRows(k))

\* at the moment of answering the store is exactly the window content plus what the rules derive from it
StoreIsCurrentWindow == pc = "answer" => store = Store(Rules, cur)

FifoOrder == Len(emitted) + Len(chan) + (IF pc = "idle" THEN 0 ELSE 1) = Len(fed)
=============================================================================
