//! Shared helpers: argument parsing, ndjson output, panic capture, RNG.
use serde_json::Value;
use std::collections::HashMap;
use std::fs::File;
use std::io::{BufRead, BufReader, BufWriter, Write};

pub struct Args {
    pub pos: Vec<String>,
    pub opt: HashMap<String, String>,
}

impl Args {
    pub fn parse(v: &[String]) -> Args {
        let mut pos = Vec::new();
        let mut opt = HashMap::new();
        let mut i = 0;
        while i < v.len() {
            if let Some(k) = v[i].strip_prefix("--") {
                if i + 1 < v.len() && !v[i + 1].starts_with("--") {
                    opt.insert(k.to_string(), v[i + 1].clone());
                    i += 2;
                } else {
                    opt.insert(k.to_string(), "true".to_string());
                    i += 1;
                }
            } else {
                pos.push(v[i].clone());
                i += 1;
            }
        }
        Args { pos, opt }
    }
    pub fn get(&self, k: &str) -> Option<&str> {
        self.opt.get(k).map(|s| s.as_str())
    }
    pub fn num(&self, k: &str, d: u64) -> u64 {
        self.get(k).and_then(|s| s.parse().ok()).unwrap_or(d)
    }
    pub fn req(&self, k: &str) -> &str {
        self.get(k).unwrap_or_else(|| {
            eprintln!("missing --{k}");
            std::process::exit(2)
        })
    }
}

pub struct Out {
    w: BufWriter<File>,
    pub n: usize,
    captured: Option<Vec<Value>>,
}

impl Out {
    pub fn create(path: &str) -> Out {
        let f = File::create(path).unwrap_or_else(|e| {
            eprintln!("cannot create {path}: {e}");
            std::process::exit(2)
        });
        Out { w: BufWriter::new(f), n: 0, captured: None }
    }
    /// buffer events in memory instead of writing them (see take_captured)
    pub fn capture(&mut self) {
        self.captured = Some(Vec::new());
    }
    pub fn take_captured(&mut self) -> Vec<Value> {
        self.captured.take().unwrap_or_default()
    }
    pub fn ev(&mut self, v: Value) {
        if let Some(c) = self.captured.as_mut() {
            c.push(v);
            self.n += 1;
            return;
        }
        serde_json::to_writer(&mut self.w, &v).unwrap();
        self.w.write_all(b"\n").unwrap();
        self.n += 1;
    }
    pub fn flush(&mut self) {
        self.w.flush().unwrap();
    }
    pub fn finish(mut self) {
        self.w.flush().unwrap();
    }
}

pub fn read_cases(path: &str) -> Vec<Value> {
    let f = File::open(path).unwrap_or_else(|e| {
        eprintln!("cannot open {path}: {e}");
        std::process::exit(2)
    });
    BufReader::new(f)
        .lines()
        .map(|l| l.unwrap())
        .filter(|l| !l.trim().is_empty())
        .map(|l| serde_json::from_str(&l).expect("bad json line"))
        .collect()
}

/// Run `f`, turning a panic of the code under test into data.
pub fn guarded<T>(f: impl FnOnce() -> T) -> Result<T, String> {
    let r = std::panic::catch_unwind(std::panic::AssertUnwindSafe(f));
    r.map_err(|e| {
        if let Some(s) = e.downcast_ref::<&str>() {
            s.to_string()
        } else if let Some(s) = e.downcast_ref::<String>() {
            s.clone()
        } else {
            "panic".to_string()
        }
    })
}

pub fn quiet_panics() {
    std::panic::set_hook(Box::new(|_| {}));
}

/// Small deterministic RNG (splitmix64) so traces are reproducible from VERIF_SEED
/// independently of the rand crate's algorithm choices.
#[derive(Clone)]
pub struct Rng(pub u64);
impl Rng {
    pub fn new(seed: u64) -> Rng {
        // mix the seed through the splitmix finaliser: without it the streams of nearby seeds are
        // shifted copies of each other (seed s+1 = seed s advanced by one draw)
        let mut z = seed.wrapping_add(0x1234_5678_9abc_def1);
        z = (z ^ (z >> 30)).wrapping_mul(0xBF58476D1CE4E5B9);
        z = (z ^ (z >> 27)).wrapping_mul(0x94D049BB133111EB);
        Rng(z ^ (z >> 31))
    }
    pub fn next(&mut self) -> u64 {
        self.0 = self.0.wrapping_add(0x9E3779B97F4A7C15);
        let mut z = self.0;
        z = (z ^ (z >> 30)).wrapping_mul(0xBF58476D1CE4E5B9);
        z = (z ^ (z >> 27)).wrapping_mul(0x94D049BB133111EB);
        z ^ (z >> 31)
    }
    pub fn below(&mut self, n: u64) -> u64 {
        if n == 0 { 0 } else { self.next() % n }
    }
    pub fn range(&mut self, lo: u64, hi: u64) -> u64 {
        lo + self.below(hi - lo + 1)
    }
    pub fn chance(&mut self, num: u64, den: u64) -> bool {
        self.below(den) < num
    }
    pub fn pick<'a, T>(&mut self, v: &'a [T]) -> &'a T {
        &v[self.below(v.len() as u64) as usize]
    }
    pub fn shuffle<T>(&mut self, v: &mut Vec<T>) {
        for i in (1..v.len()).rev() {
            let j = self.below(i as u64 + 1) as usize;
            v.swap(i, j);
        }
    }
}
