SPECIFICATION Spec
CONSTANTS
  MaxTs = 5
  MaxLen = 4
  Widths = {1,2,3,4}
  Slides = {1,2,3}
  Strategies <- StratMore
  FixEvict = TRUE
INVARIANTS Emit
CHECK_DEADLOCK FALSE
