SPECIFICATION Spec
CONSTANTS
  ChunkSize = 2
  MaxLines = 3
  Alphabet <- Lines
  Priors <- PriorSet
  Formats = {"n3"}
  ReencodeN3 = FALSE
  SharePrefixesN3 = TRUE
  EmitDone = FALSE
INVARIANTS AddsExactlyDoc
CHECK_DEADLOCK FALSE
