------------------------------- MODULE SdsReq -------------------------------
(***************************************************************************)
(* Requirement C12: what the materialised streaming dataset (SDS+) must be *)
(* at an evaluation time, independent of how it is maintained.             *)
(*                                                                         *)
(* A streaming dataset has windows W (sequence of [iri, alpha]), static    *)
(* graphs S (sequence of [iri, triples]) and output components O (set of   *)
(* IRIs).  An IRI is a sequence of segments; a component's predicates are  *)
(* the IRI followed by a one-segment local name ("window-annotated").      *)
(* The content of window i at an evaluation is a set of <<s, lp, o, a>>:   *)
(* triple (s, lp, o) with its latest arrival time a.                       *)
(*                                                                         *)
(*   Base(t)   alive annotated facts with their expiry: a + alpha > t for  *)
(*             window triples (expiry a + alpha), static facts never       *)
(*             expire (Inf)                                                *)
(*   Mat(t)    = LFP(R, alive facts), split per component by the longest   *)
(*             component IRI that prefixes the predicate                   *)
(*   Exp(f,t)  = max over derivation trees of f of the min over the leaf   *)
(*             expiries - the latest time until which some derivation of f *)
(*             stays fully supported.  Two definitions are given (threshold*)
(*             characterisation and (max,min) fixpoint); L1 checks that    *)
(*             they coincide, the trace specification uses the first.      *)
(***************************************************************************)
EXTENDS SdsDatalog, Integers

Inf == 1000000

MaxOf(S) == CHOOSE x \in S : \A y \in S : y <= x
MinOf(S) == CHOOSE x \in S : \A y \in S : x <= y

---------------------------------------------------------------------------
(* components and routing *)

IsProperPrefix(c, p) == Len(c) < Len(p) /\ \A i \in 1..Len(c) : c[i] = p[i]
Owners(p, comps) == {c \in comps : IsProperPrefix(c, p)}
HasOwner(p, comps) == Owners(p, comps) # {}
\* longest prefix wins
Owner(p, comps) == CHOOSE c \in Owners(p, comps) : \A d \in Owners(p, comps) : Len(d) <= Len(c)

Comps(W, S, O) == {W[i].iri : i \in 1..Len(W)} \cup {S[i].iri : i \in 1..Len(S)} \cup O

\* the configuration is one the property speaks about: distinct component IRIs, positive widths,
\* one-segment local names in static graphs (window contents are checked per step)
ConfigOK(W, S, O) ==
  /\ Cardinality(Comps(W, S, O)) = Len(W) + Len(S) + Cardinality(O)
  /\ \A c \in Comps(W, S, O) : Len(c) >= 1
  /\ \A i \in 1..Len(W) : W[i].alpha >= 1
  /\ \A i \in 1..Len(S) : \A x \in S[i].triples : Len(x[1]) = 1 /\ Len(x[2]) = 1 /\ Len(x[3]) = 1

\* rule sets over window-annotated predicates: safe, constant predicates that belong to a component
RulesOK(R, comps) ==
  \A r \in R :
     /\ Safe(r)
     /\ \A a \in SeqRange(r.body) \cup SeqRange(r.head) :
           /\ ~IsVar(a[2]) /\ HasOwner(a[2].x, comps)
           /\ \A i \in {1, 3} : Len(a[i].x) = 1

---------------------------------------------------------------------------
(* window-consistent histories (precondition of the property) *)

SameTriple(x, y) == x[1] = y[1] /\ x[2] = y[2] /\ x[3] = y[3]

\* prev/cur: sequences (one entry per window) of sets of <<s, lp, o, arrival>>
WindowConsistent(W, prevT, prev, t, cur) ==
  /\ t > prevT
  /\ \A i \in 1..Len(W) :
       /\ \A x \in cur[i] : Len(x[1]) = 1 /\ Len(x[2]) = 1 /\ Len(x[3]) = 1 /\ x[4] >= 0 /\ x[4] <= t
       \* a triple is listed once ...
       /\ \A x, y \in cur[i] : SameTriple(x, y) => x = y
       /\ \A x \in prev[i] :
            \* ... it stays listed until it expires ...
            /\ (x[4] + W[i].alpha > t) => \E y \in cur[i] : SameTriple(x, y)
            \* ... with its latest arrival time
            /\ \A y \in cur[i] : SameTriple(x, y) => y[4] >= x[4]

---------------------------------------------------------------------------
(* alive facts, from-scratch materialisation, expiry *)

Ann(iri, x) == <<x[1], iri \o x[2], x[3]>>

Entries(W, S, cur) ==
  UNION {{<<Ann(W[i].iri, x), x[4] + W[i].alpha>> : x \in cur[i]} : i \in 1..Len(W)}
  \cup UNION {{<<Ann(S[i].iri, x), Inf>> : x \in S[i].triples} : i \in 1..Len(S)}

\* [alive fact |-> expiry]
Base(W, S, cur, t) ==
  LET al == {e \in Entries(W, S, cur) : e[2] > t}
  IN  [f \in {e[1] : e \in al} |-> MaxOf({e[2] : e \in {d \in al : d[1] = f}})]

Mat(R, base) == LFP(R, DOMAIN base)
MatOf(M, c, comps) == {f \in M : HasOwner(f[2], comps) /\ Owner(f[2], comps) = c}

\* Exp by thresholds: f is supported until e iff f follows from the base facts that live until e.
\* Levels(R, base, E, acc): pairs <<e, LFP(R, {g : base[g] >= e})>> for e in E, computed from the
\* largest threshold downwards (the closure for a smaller threshold contains the previous one).
RECURSIVE Levels(_, _, _, _)
Levels(R, base, E, acc) ==
  IF E = {} THEN {}
  ELSE LET e   == MaxOf(E)
           lvl == LFP(R, acc \cup {f \in DOMAIN base : base[f] >= e})
       IN  {<<e, lvl>>} \cup Levels(R, base, E \ {e}, lvl)

ExpFromLevels(L, M) == [f \in M |-> MaxOf({l[1] : l \in {k \in L : f \in k[2]}})]

ExpThreshold(R, base) ==
  LET L == Levels(R, base, {base[f] : f \in DOMAIN base}, {})
  IN  ExpFromLevels(L, UNION {l[2] : l \in L})

\* Exp as the least fixpoint in the (max, min) semiring over all ground rule instances
ExpSemiringOn(R, base, M) ==
  LET D  == Derivs(R, M)
      t0 == [f \in M |-> IF f \in DOMAIN base THEN base[f] ELSE 0]
      RECURSIVE Fix(_)
      Fix(tag) ==
        LET nt == [f \in M |-> MaxOf({tag[f]} \cup {MinOf({tag[p] : p \in d[2]}) : d \in {dd \in D : dd[1] = f}})]
        IN  IF nt = tag THEN tag ELSE Fix(nt)
  IN  Fix(t0)
ExpSemiring(R, base) == ExpSemiringOn(R, base, Mat(R, base))

---------------------------------------------------------------------------
(* the requirement on one evaluation, stated on observations                *)
(*   inc   : set of <<component, s, annotated p, o, expiry>>  (incremental) *)
(*   naive : set of <<component, s, local p, o>>              (from scratch)*)
(* The first violated clause is named (used for classification only).       *)

IncFactsOf(inc, c) == {<<x[2], x[3], x[4]>> : x \in {y \in inc : y[1] = c}}
NaiveFactsOf(naive, c) == {<<x[2], c \o x[3], x[4]>> : x \in {y \in naive : y[1] = c}}

Judge(R, comps, base, inc, naive) ==
  LET ex  == ExpThreshold(R, base)
      M   == DOMAIN ex               \* = Mat(R, base)
      all == {<<x[2], x[3], x[4]>> : x \in inc}
      nal == {<<x[2], x[1] \o x[3], x[4]>> : x \in naive}
  IN  IF \E c \in {x[1] : x \in inc} : c \notin comps THEN "inc-unknown-component"
      ELSE IF all \ M # {} THEN "inc-extra-fact"
      ELSE IF M \ all # {} THEN "inc-missing-fact"
      ELSE IF \E c \in comps : IncFactsOf(inc, c) # MatOf(M, c, comps) THEN "inc-wrong-component"
      ELSE IF \E x \in inc : x[5] < ex[<<x[2], x[3], x[4]>>] THEN "inc-expiry-too-early"
      ELSE IF \E x \in inc : x[5] > ex[<<x[2], x[3], x[4]>>] THEN "inc-expiry-too-late"
      ELSE IF \E c \in {x[1] : x \in naive} : c \notin comps THEN "naive-unknown-component"
      ELSE IF nal \ M # {} THEN "naive-extra-fact"
      ELSE IF M \ nal # {} THEN "naive-missing-fact"
      ELSE IF \E c \in comps : NaiveFactsOf(naive, c) # MatOf(M, c, comps) THEN "naive-wrong-component"
      ELSE "ok"
=============================================================================
