SPECIFICATION Spec
CONSTANTS
  Wins <- MCWins
  Items <- MCItems
  Block <- MCBlock
  MaxFire = 2
  Policies <- AllPolicies
  SharedEvict = FALSE
INVARIANTS BlockAnswersFromOwnWindow
CHECK_DEADLOCK FALSE
