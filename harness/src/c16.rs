//! C16 driver: feeds request texts to the real parsers and records the outcome (ok + converted
//! syntax tree + number of unconsumed bytes, err, or panic).  The tree is converted, node by node,
//! into the JSON shape of tla/sparql/Sparql.tla; no normalisation is applied here.
use crate::util::*;
use kolibrie::parser::{parse_combined_query, parse_group_graph_pattern, parse_sparql_query};
use serde_json::{json, Value};
use shared::query::*;

thread_local! {
    /// prefix declarations of the request being converted (PREFIX prologue of parse_combined_query); a prefixed name is
    /// compared by the IRI it abbreviates
    static PREFIXES: std::cell::RefCell<std::collections::HashMap<String, String>> = std::cell::RefCell::new(std::collections::HashMap::new());
}

fn term(lexeme: &str) -> Value {
    let t = lexeme.trim();
    if let Some(v) = t.strip_prefix('?').or_else(|| t.strip_prefix('$')) {
        return json!(["v", v]);
    }
    if t.starts_with("_:") {
        return json!(["b", &t[2..]]);
    }
    if t.starts_with('<') && t.ends_with('>') && !t.starts_with("<<") {
        return json!(["c", &t[1..t.len() - 1]]);
    }
    if (t.starts_with('"') && t.ends_with('"') && t.len() >= 2) || (t.starts_with('\'') && t.ends_with('\'') && t.len() >= 2) {
        return json!(["c", &t[1..t.len() - 1]]);
    }
    if let Some((pfx, local)) = t.split_once(':') {
        let expanded = PREFIXES.with(|p| p.borrow().get(pfx).map(|ns| format!("{ns}{local}")));
        if let Some(iri) = expanded {
            return json!(["c", iri]);
        }
    }
    json!(["c", t])
}

fn arith(e: &ArithmeticExpression) -> Value {
    match e {
        ArithmeticExpression::Operand(o) => term(o),
        ArithmeticExpression::Add(l, r) => json!(["ar", "+", arith(l), arith(r)]),
        ArithmeticExpression::Subtract(l, r) => json!(["ar", "-", arith(l), arith(r)]),
        ArithmeticExpression::Multiply(l, r) => json!(["ar", "*", arith(l), arith(r)]),
        ArithmeticExpression::Divide(l, r) => json!(["ar", "/", arith(l), arith(r)]),
    }
}

/// Operand of a comparison: the parser keeps its text; the structure is the one parse_arithmetic_expression gives that text.
fn operand(text: &str) -> Value {
    match kolibrie::parser::parse_arithmetic_expression(text) {
        Ok((rest, e)) if rest.trim().is_empty() => arith(&e),
        _ => term(text),
    }
}

fn expr(e: &FilterExpression) -> Value {
    match e {
        FilterExpression::Comparison(l, op, r) => json!({"t":"cmp","l":operand(l),"op":op,"r":operand(r)}),
        FilterExpression::And(a, b) => json!({"t":"and","a":expr(a),"b":expr(b)}),
        FilterExpression::Or(a, b) => json!({"t":"or","a":expr(a),"b":expr(b)}),
        FilterExpression::Not(a) => json!({"t":"not","a":expr(a)}),
        FilterExpression::ArithmeticExpr(_) => json!({"t":"arith"}),
        FilterExpression::FunctionCall(n, a) => json!({"t":"call","name":n,"args":a}),
    }
}

fn pattern(p: &GroupGraphPattern) -> Value {
    match p {
        GroupGraphPattern::Unit => json!({"t":"unit"}),
        GroupGraphPattern::Bgp(tps) => json!({"t":"bgp","tps":tps.iter().map(|(s, p, o)| json!([term(s), term(p), term(o)])).collect::<Vec<_>>()}),
        GroupGraphPattern::Join(ps) => json!({"t":"join","ps":ps.iter().map(pattern).collect::<Vec<_>>()}),
        GroupGraphPattern::Union(ps) => json!({"t":"union","ps":ps.iter().map(pattern).collect::<Vec<_>>()}),
        GroupGraphPattern::Graph { name, pattern: inner } => json!({"t":"graph","name":term(name),"p":pattern(inner)}),
        GroupGraphPattern::Filter(e) => json!({"t":"filter","e":expr(e)}),
        GroupGraphPattern::Bind((f, args, out)) => json!({"t":"bind","fn":f,"args":args.iter().map(|a| term(a)).collect::<Vec<_>>(),"v":out.trim_start_matches(|c| c == '?' || c == '$')}),
        GroupGraphPattern::Values(v) => json!({"t":"values","vars":v.variables.iter().map(|x| x.trim_start_matches(|c| c == '?' || c == '$')).collect::<Vec<_>>(),
            "rows":v.values.iter().map(|r| r.iter().map(|x| match x { shared::query::Value::Undef => json!(["u", ""]), shared::query::Value::Term(t) => term(t) }).collect::<Vec<_>>()).collect::<Vec<_>>()}),
        GroupGraphPattern::SubQuery(sq) => json!({"t":"sub","q":select(&sq.query)}),
    }
}

fn nv(v: &str) -> &str { v.trim_start_matches(|c| c == '?' || c == '$') }

fn select(q: &SelectQuery) -> Value {
    let star = q.variables.len() == 1 && q.variables[0].0 == "*";
    let proj: Vec<Value> = if star { vec![] } else {
        q.variables.iter().map(|(k, v, a)| json!({"k":k,"v":nv(v),"as":nv(a.unwrap_or(v))})).collect()
    };
    json!({"distinct":q.distinct,"star":star,"proj":proj,
           "from":q.from.iter().map(|g| term(g)[1].clone()).collect::<Vec<_>>(),
           "fromnamed":q.from_named.iter().map(|g| term(g)[1].clone()).collect::<Vec<_>>(),
           "p":pattern(&q.pattern),"group":q.group_vars.iter().map(|v| nv(v)).collect::<Vec<_>>(),
           "order":q.order_conditions.iter().map(|c| json!({"v":nv(c.variable),"d":if c.direction == SortDirection::Desc {"desc"} else {"asc"}})).collect::<Vec<_>>(),
           "limit":q.limit.map(|l| l as i64).unwrap_or(-1)})
}

fn quads(qs: &[LexicalQuadPattern]) -> Value {
    json!(qs.iter().map(|q| json!([term(q.triple.0), term(q.triple.1), term(q.triple.2), q.graph.map(term).unwrap_or(json!(["c", ""]))])).collect::<Vec<_>>())
}

fn update(u: &UpdateOperation) -> Value {
    match u {
        UpdateOperation::InsertData(i) => json!({"form":"insert_data","del":[],"ins":quads(&i.quads),"where":{"t":"unit"}}),
        UpdateOperation::DeleteData(d) => json!({"form":"delete_data","del":quads(&d.quads),"ins":[],"where":{"t":"unit"}}),
        UpdateOperation::InsertWhere { insert, where_pattern } => json!({"form":"insert_where","del":[],"ins":quads(&insert.quads),"where":pattern(where_pattern)}),
        UpdateOperation::DeleteWhere { delete, where_pattern } => json!({"form":"delete_where","del":quads(&delete.quads),"ins":[],"where":pattern(where_pattern)}),
        UpdateOperation::DeleteInsertWhere { delete, insert, where_pattern } => json!({"form":"delete_insert_where","del":quads(&delete.quads),"ins":quads(&insert.quads),"where":pattern(where_pattern)}),
        UpdateOperation::DeleteWhereShorthand { delete, where_pattern } => json!({"form":"delete_where_short","del":quads(&delete.quads),"ins":[],"where":pattern(where_pattern)}),
    }
}

/// Nothing but white space and `#` comments (a comment runs to the end of the line: LF or CR) is left.
fn blank(mut rest: &str) -> bool {
    loop {
        rest = rest.trim_start();
        if rest.is_empty() { return true; }
        if !rest.starts_with('#') { return false; }
        rest = match rest.find(['\r', '\n']) { Some(i) => &rest[i..], None => "" };
    }
}

/// Outcome of one parser on one text: {"res":"ok"|"err"|"panic","rest":unconsumed bytes (after trimming whitespace/comments is the
/// caller's business: we report the raw remainder and whether it is blank),"kind":"select"|"update"|"group"|"none","tree":{..}}
fn run_parser(which: &str, text: &str) -> Value {
    PREFIXES.with(|p| p.borrow_mut().clear());
    let r = guarded(|| -> Value {
        match which {
            "combined" => match parse_combined_query(text) {
                Ok((rest, c)) => {
                    PREFIXES.with(|p| *p.borrow_mut() = c.prefixes.clone());
                    let (kind, tree) = match c.sparql.as_ref() {
                        Some(SparqlOperation::Select(q)) => ("select", select(q)),
                        Some(SparqlOperation::Update(u)) => ("update", update(u)),
                        None => ("none", json!({})),
                    };
                    json!({"res":"ok","rest":rest.len(),"restblank":blank(rest),"kind":kind,"tree":tree})
                }
                Err(_) => json!({"res":"err","rest":0,"restblank":true,"kind":"none","tree":{}}),
            },
            "select" => match parse_sparql_query(text) {
                Ok((rest, q)) => json!({"res":"ok","rest":rest.len(),"restblank":blank(rest),"kind":"select","tree":select(&q)}),
                Err(_) => json!({"res":"err","rest":0,"restblank":true,"kind":"none","tree":{}}),
            },
            _ => match parse_group_graph_pattern(text) {
                Ok((rest, p)) => json!({"res":"ok","rest":rest.len(),"restblank":blank(rest),"kind":"group","tree":pattern(&p)}),
                Err(_) => json!({"res":"err","rest":0,"restblank":true,"kind":"none","tree":{}}),
            },
        }
    });
    r.unwrap_or_else(|p| json!({"res":"panic","rest":0,"restblank":true,"kind":"none","tree":{},"panic":p}))
}

pub fn main(a: &Args) {
    let mut out = Out::create(a.req("out"));
    for (n, case) in read_cases(a.req("cases")).iter().enumerate() {
        let text = case["text"].as_str().unwrap_or("");
        let which = case["parser"].as_str().unwrap_or("combined");
        let mut ev = run_parser(which, text);
        ev["ev"] = json!("parse");
        ev["run"] = json!(n + 1);
        ev["parser"] = json!(which);
        ev["case"] = case.clone();
        out.ev(ev);
    }
    out.finish();
}
