SPECIFICATION Spec
CONSTANTS
  W <- MCW31
  S <- MCS
  O <- MCO
  Programs <- MCPrograms
  Pool <- MCPool
  MaxT = 6
  MaxSteps = 4
  LazyModes = {TRUE, FALSE}
  KeepHist = FALSE
  Variant = "code"
INVARIANTS GenConsistent FactsEqualNaive ExpiryIsMaxMin DefinitionsAgree
CHECK_DEADLOCK FALSE
