SPECIFICATION Spec
CONSTANTS
  Sigma <- SigmaAll
  Cases <- Thorough1
  EscapeNT = TRUE
  DirectEncode = TRUE
  EmitDone = TRUE
INVARIANTS RoundTripPlain Emit
CHECK_DEADLOCK FALSE
