---- MODULE MCEmit ----
(* L2 (spec -> implementation): every lineage of the small universe - all sets of     *)
(* proofs over 3 seeds, plain and negated, for a few weight vectors - is printed as a *)
(* case for the recording harness, together with the grid of valid configurations.    *)
EXTENDS HybridReq, TLC, Json
CONSTANTS N, Den, EmitWeights, Grid
VARIABLE e
EmitCase(Q, ng, w) ==
  LET c == DnfCase(Q, ng, w, N, Den)
  IN  [kind |-> "dag", den |-> c.den, seeds |-> [i \in 1..N |-> [id |-> 2 * i - 1, num |-> w[i], grp |-> 0]],
       nodes |-> c.nodes, root |-> c.root]
EmitWeightsQuick    == {<<1, 2, 3>>}
EmitWeightsThorough == {<<1, 2, 3>>, <<2, 2, 2>>, <<0, 3, 4>>}
\* the grid contains invalid combinations on purpose (kinit > kmax): ValidConfig filters them
GridQuick    == [kinit : {1, 2}, kmax : {1, 2, 4}, growth : {2}, tn : 0..4, td : {4},
                 band : {20000}, gain : {100}, nodes : {100000, 6}]
GridThorough == [kinit : {1, 2, 3}, kmax : {1, 2, 4, 64}, growth : {2, 3}, tn : 0..8, td : {8},
                 band : {0, 250000}, gain : {100, 1000000}, nodes : {100000, 6}]
Configs == {g \in Grid : ValidConfig(g)}
Init == e \in [pr : SUBSET (SUBSET (1..N)), neg : BOOLEAN, w : EmitWeights, grid : {FALSE}]
              \cup {[pr |-> {}, neg |-> FALSE, w |-> <<>>, grid |-> TRUE]}
Next == UNCHANGED e
Spec == Init /\ [][Next]_e
Emit == IF e.grid
        THEN PrintT(<<"REPLAY", ToJson([grid |-> SetToSeq(Configs)])>>)
        ELSE PrintT(<<"REPLAY", ToJson(EmitCase(e.pr, e.neg, e.w))>>)
====
