SPECIFICATION Spec
CONSTANTS
  Consts = {}
  NVars = 2
  Preds = {"p"}
  PVars = {"P"}
  MaxPrem = 2
  MaxConcl = 2
  MaxRules = 1
  NegAtoms = 0
  WithFilters = FALSE
  FConsts = {"a", "b"}
  FPreds = {"p", "q"}
  MaxFacts = 3
  Permute = FALSE
  Mode = "semi"
  Runs = 2
INVARIANTS ReachesModel OrderIndependent SecondRunEmpty NoDuplicates RoundsAreNew Sound SpecLaws Emit
CHECK_DEADLOCK FALSE
