---- MODULE MCMulti ----
EXTENDS MultiImpl
T(s, p, o) == <<s, p, o>>
MCWins == {"wa", "wb"}
\* both streams use the same predicate: the case in which a shared store leaks
MCItems == [w \in MCWins |-> IF w = "wa" THEN {T("a1", "p", "o1"), T("a2", "p", "o2")} ELSE {T("b1", "p", "o1")}]
MCBlock == [w \in MCWins |-> IF w = "wa" THEN << << <<"v","x">>, <<"c","p">>, <<"v","y">> >> >>
                                           ELSE << << <<"v","z">>, <<"c","p">>, <<"v","y">> >> >>]
AllPolicies == {"steal", "wait", "timeout-steal", "timeout-drop"}
====
