SPECIFICATION Spec
CONSTANTS
  N = 3
  Den = 4
  Weights <- WeightsThorough
  Thetas = {0, 1, 2, 3, 4}
  KSched <- KSchedThorough
  Bug = "none"
INVARIANTS DecisionSoundInv BoundsCertified ExpiryNeverGuesses MassAgrees
CHECK_DEADLOCK FALSE
