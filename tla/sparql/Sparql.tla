------------------------------- MODULE Sparql -------------------------------
(***************************************************************************)
(* Denotational semantics of the SELECT fragment Kolibrie supports, as the *)
(* SPARQL 1.1 algebra defines it: solution mappings are partial functions  *)
(* from variable names to lexical terms, results are bags (multisets).     *)
(*                                                                         *)
(* Syntax trees arrive as JSON (records / sequences):                      *)
(*   term     <<"v", name>> | <<"c", lexical>> | <<"u", "">> (UNDEF)       *)
(*   pattern  [t |-> "unit"] | [t |-> "bgp", tps |-> <<tp..>>]             *)
(*            [t |-> "join", ps |-> <<pattern..>>]   (a group: elements in *)
(*              order; filter elements scope over the whole group)        *)
(*            [t |-> "union", ps] | [t |-> "graph", name |-> term, p]      *)
(*            [t |-> "filter", e] | [t |-> "bind", args, v]                *)
(*            [t |-> "values", vars, rows] | [t |-> "sub", q |-> select]   *)
(*   expr     [t |-> "cmp", l, op, r] | "and"/"or" (a, b) | "not" (a)      *)
(*   select   [distinct, star, proj, from, fromnamed, p, group, order,     *)
(*             limit]   (limit -1 = none)                                  *)
(* X is the evaluation context: X.quads (set of <<s,p,o,g>>, g = "" for    *)
(* the default graph), X.graphs (existing named graphs), X.kind (lexical   *)
(* -> "iri" | "num" | "lit" | "bn"), X.num (lexical -> scaled integer),    *)
(* X.rank (lexical -> code point rank), X.lenient (set of relaxations).       *)
(***************************************************************************)
EXTENDS Naturals, Integers, Sequences, FiniteSets, FiniteSetsExt, TLC

IsVar(t) == t[1] = "v"
UNB == "~unbound~"

EmptyMap == [x \in {} |-> ""]
UnitBag  == [m \in {EmptyMap} |-> 1]
EmptyBag == [m \in {} |-> 0]

Compatible(a, b) == \A x \in (DOMAIN a) \cap (DOMAIN b) : a[x] = b[x]
Merge(a, b) == [x \in (DOMAIN a) \cup (DOMAIN b) |-> IF x \in DOMAIN a THEN a[x] ELSE b[x]]
Cnt(B, m) == IF m \in DOMAIN B THEN B[m] ELSE 0
SumOver(S, f(_)) == FoldSet(LAMBDA x, acc : acc + f(x), 0, S)
BagUnion(A, B) == [m \in (DOMAIN A) \cup (DOMAIN B) |-> Cnt(A, m) + Cnt(B, m)]
BagJoinGen(A, B) ==
  LET P == {p \in (DOMAIN A) \X (DOMAIN B) : Compatible(p[1], p[2])}
      M == {Merge(p[1], p[2]) : p \in P}
  IN  [m \in M |-> SumOver({p \in P : Merge(p[1], p[2]) = m}, LAMBDA p : A[p[1]] * B[p[2]])]
RestrictTo(m, V) == [x \in (DOMAIN m) \cap V |-> m[x]]
\* When all mappings of A bind the same variables DA and all of B the same DB (joins of triple patterns), a merged mapping m
\* comes from exactly one pair (m restricted to DA, m restricted to DB): the general definition, computed in |M| steps
\* instead of |M| * |P| (law BagJoinShortcut of MCLaws.tla checks the two against each other).
UniformDom(A) == Cardinality({DOMAIN m : m \in DOMAIN A}) = 1
BagJoin(A, B) ==
  IF UniformDom(A) /\ UniformDom(B)
  THEN LET DA == DOMAIN (CHOOSE m \in DOMAIN A : TRUE)
           DB == DOMAIN (CHOOSE m \in DOMAIN B : TRUE)
           P  == {p \in (DOMAIN A) \X (DOMAIN B) : Compatible(p[1], p[2])}
           M  == {Merge(p[1], p[2]) : p \in P}
       IN  [m \in M |-> A[RestrictTo(m, DA)] * B[RestrictTo(m, DB)]]
  ELSE BagJoinGen(A, B)
BagFilter(A, Ok(_)) == [m \in {x \in DOMAIN A : Ok(x)} |-> A[m]]
BagMap(A, F(_)) ==
  LET M == {F(m) : m \in DOMAIN A}
  IN  [n \in M |-> SumOver({m \in DOMAIN A : F(m) = n}, LAMBDA m : A[m])]
BagSize(A) == SumOver(DOMAIN A, LAMBDA m : A[m])

---------------------------------------------------------------------------
\* dataset views
DefaultView(X) == [def |-> {""}, named |-> X.graphs]
ViewOf(X, q) ==
  IF Len(q.from) = 0 /\ Len(q.fromnamed) = 0 THEN DefaultView(X)
  ELSE [def |-> {q.from[i] : i \in 1..Len(q.from)}, named |-> {q.fromnamed[i] : i \in 1..Len(q.fromnamed)}]

\* the RDF merge of the default-graph sources (a set: duplicate free), or one named graph
ActiveTriples(X, view, active) ==
  IF active = ""
    THEN {<<q[1], q[2], q[3]>> : q \in {r \in X.quads : r[4] \in view.def}}
    ELSE {<<q[1], q[2], q[3]>> : q \in {r \in X.quads : r[4] = active}}

MatchTriple(tp, t) ==
  /\ \A i \in 1..3 : IsVar(tp[i]) \/ tp[i][2] = t[i]
  /\ \A i, j \in 1..3 : (IsVar(tp[i]) /\ IsVar(tp[j]) /\ tp[i][2] = tp[j][2]) => t[i] = t[j]
TPVars(tp) == {tp[i][2] : i \in {j \in 1..3 : IsVar(tp[j])}}
TPMap(tp, t) == [x \in TPVars(tp) |-> t[CHOOSE i \in 1..3 : IsVar(tp[i]) /\ tp[i][2] = x]]
MatchTP(tp, T) == [m \in {TPMap(tp, t) : t \in {u \in T : MatchTriple(tp, u)}} |-> 1]

RECURSIVE EvalBgp(_, _, _)
EvalBgp(tps, k, T) == IF k = 0 THEN UnitBag ELSE BagJoin(EvalBgp(tps, k - 1, T), MatchTP(tps[k], T))

---------------------------------------------------------------------------
\* expressions: three-valued ("T", "F", "E") as SPARQL defines; the lenient mode is the
\* two-valued, untyped reading (errors become false at the leaves, non-numeric operands of an
\* ordering comparison count as 0, != is lexical) used only to classify observed deviations.
Val(t, m) == IF IsVar(t) THEN (IF t[2] \in DOMAIN m THEN m[t[2]] ELSE UNB) ELSE t[2]
KindOf(X, v) == IF v \in DOMAIN X.kind THEN X.kind[v] ELSE "lit"
IsNumV(X, v) == v \in DOMAIN X.num
NumOf(X, v) == IF v \in DOMAIN X.num THEN X.num[v] ELSE 0
B3(b) == IF b THEN "T" ELSE "F"

NumCmp(a, op, b) == CASE op = "<" -> a < b [] op = "<=" -> a <= b [] op = ">" -> a > b [] op = ">=" -> a >= b

Cmp(X, e, m) ==
  LET a == Val(e.l, m)
      b == Val(e.r, m)
  IN IF a = UNB \/ b = UNB THEN (IF "unbound" \in X.lenient THEN "F" ELSE "E")
     ELSE IF e.op = "=" THEN
            (IF a = b THEN "T"
             ELSE IF "types" \in X.lenient THEN "F"
             ELSE IF KindOf(X, a) \in {"num", "lit"} /\ KindOf(X, b) \in {"num", "lit"} /\ KindOf(X, a) # KindOf(X, b) THEN "E" ELSE "F")
     ELSE IF e.op = "!=" THEN
            (IF a = b THEN "F"
             ELSE IF "types" \in X.lenient THEN "T"
             ELSE IF KindOf(X, a) \in {"num", "lit"} /\ KindOf(X, b) \in {"num", "lit"} /\ KindOf(X, a) # KindOf(X, b) THEN "E" ELSE "T")
     ELSE IF "types" \in X.lenient THEN B3(NumCmp(NumOf(X, a), e.op, NumOf(X, b)))
     ELSE IF IsNumV(X, a) /\ IsNumV(X, b) /\ KindOf(X, a) = "num" /\ KindOf(X, b) = "num"
            THEN B3(NumCmp(X.num[a], e.op, X.num[b])) ELSE "E"

Not3(a) == CASE a = "T" -> "F" [] a = "F" -> "T" [] OTHER -> "E"
And3(a, b) == IF a = "F" \/ b = "F" THEN "F" ELSE IF a = "T" /\ b = "T" THEN "T" ELSE "E"
Or3(a, b) == IF a = "T" \/ b = "T" THEN "T" ELSE IF a = "F" /\ b = "F" THEN "F" ELSE "E"

RECURSIVE EvalExpr(_, _, _)
EvalExpr(X, e, m) ==
  CASE e.t = "cmp" -> Cmp(X, e, m)
    [] e.t = "and" -> And3(EvalExpr(X, e.a, m), EvalExpr(X, e.b, m))
    [] e.t = "or"  -> Or3(EvalExpr(X, e.a, m), EvalExpr(X, e.b, m))
    [] e.t = "not" -> Not3(EvalExpr(X, e.a, m))

\* BIND(CONCAT(args) AS ?v): every argument must be bound to a literal (strict); lexical forms are concatenated
RECURSIVE ConcatArgs(_, _, _)
ConcatArgs(args, k, m) == IF k = 0 THEN "" ELSE ConcatArgs(args, k - 1, m) \o Val(args[k], m)

BindOK(X, args, m) ==
  \A i \in 1..Len(args) :
     LET v == Val(args[i], m) IN v # UNB /\ (IsVar(args[i]) => KindOf(X, v) \in {"lit", "num"})

Extend(X, B, args, v) ==
  BagMap(B, LAMBDA m :
     IF "concat" \in X.lenient
       THEN Merge(m, [x \in {v} |-> ConcatArgs([i \in 1..Len(args) |-> IF Val(args[i], m) = UNB THEN <<"c", "">> ELSE args[i]], Len(args), m)])
       ELSE IF BindOK(X, args, m) THEN Merge(m, [x \in {v} |-> ConcatArgs(args, Len(args), m)]) ELSE m)

ValuesBag(vars, rows) ==
  LET RowMap(r) == [x \in {vars[i] : i \in {j \in 1..Len(vars) : r[j][1] # "u"}} |->
                       r[CHOOSE i \in 1..Len(vars) : vars[i] = x][2]]
      idx == 1..Len(rows)
      M == {RowMap(rows[i]) : i \in idx}
  IN  [m \in M |-> Cardinality({i \in idx : RowMap(rows[i]) = m})]

---------------------------------------------------------------------------
\* ordering of terms for ORDER BY: unbound < blank nodes < IRIs < literals; numbers by value,
\* other terms by code points (X.rank); a number and a plain literal are not comparable
\* (either order is acceptable: both Leq directions hold).
KRank(X, v) == IF v = UNB THEN 0 ELSE IF "order" \in X.lenient THEN 1
               ELSE LET k == KindOf(X, v) IN CASE k = "bn" -> 1 [] k = "iri" -> 2 [] OTHER -> 3
RankOf(X, v) == IF v \in DOMAIN X.rank THEN X.rank[v] ELSE 0
LeqTerm(X, a, b) ==
  IF KRank(X, a) # KRank(X, b) THEN KRank(X, a) < KRank(X, b)
  ELSE IF a = UNB THEN TRUE
  ELSE IF KindOf(X, a) = "num" /\ KindOf(X, b) = "num" THEN NumOf(X, a) <= NumOf(X, b)
  ELSE IF (KindOf(X, a) = "num" \/ KindOf(X, b) = "num") /\ "order" \notin X.lenient THEN TRUE
  ELSE RankOf(X, a) <= RankOf(X, b)
EqKey(X, a, b) == LeqTerm(X, a, b) /\ LeqTerm(X, b, a)

\* row r1 may precede row r2 under the order conditions (sequence of [v, d])
RECURSIVE MayPrecede(_, _, _, _, _)
MayPrecede(X, ord, k, m1, m2) ==
  IF k > Len(ord) THEN TRUE
  ELSE LET a == Val(<<"v", ord[k].v>>, m1)
           b == Val(<<"v", ord[k].v>>, m2)
           le == IF ord[k].d = "asc" THEN LeqTerm(X, a, b) ELSE LeqTerm(X, b, a)
           ge == IF ord[k].d = "asc" THEN LeqTerm(X, b, a) ELSE LeqTerm(X, a, b)
       IN  IF le /\ ~ge THEN TRUE ELSE IF ~le THEN FALSE ELSE MayPrecede(X, ord, k + 1, m1, m2)
StrictlyBefore(X, ord, m1, m2) == MayPrecede(X, ord, 1, m1, m2) /\ ~MayPrecede(X, ord, 1, m2, m1)

---------------------------------------------------------------------------
\* aggregates over a group (a bag of mappings): values are numeric by the generator's construction;
\* unbound inputs are skipped (SPARQL: an aggregate ignores error/unbound rows for SUM/MIN/MAX/AVG inputs)
AggInputs(X, G, v) == {m \in DOMAIN G : v \in DOMAIN m /\ IsNumV(X, m[v])}
AggSum(X, G, v) == SumOver(AggInputs(X, G, v), LAMBDA m : G[m] * X.num[m[v]])
AggCount(X, G, v) == SumOver(AggInputs(X, G, v), LAMBDA m : G[m])
AggMin(X, G, v) == LET S == {X.num[m[v]] : m \in AggInputs(X, G, v)} IN CHOOSE x \in S : \A y \in S : x <= y
AggMax(X, G, v) == LET S == {X.num[m[v]] : m \in AggInputs(X, G, v)} IN CHOOSE x \in S : \A y \in S : y <= x

\* An aggregate result is compared numerically: the observed lexical value o (X.num[o]) must satisfy
\* the defining equation.  AggOK returns whether lexical o is a correct value of aggregate a over G.
AggOK(X, G, a, o) ==
  LET n == AggCount(X, G, a.v) IN
  CASE a.k = "SUM" -> o # UNB /\ IsNumV(X, o) /\ X.num[o] = AggSum(X, G, a.v)
    [] a.k = "MIN" -> IF n = 0 THEN o = UNB ELSE o # UNB /\ IsNumV(X, o) /\ X.num[o] = AggMin(X, G, a.v)
    [] a.k = "MAX" -> IF n = 0 THEN o = UNB ELSE o # UNB /\ IsNumV(X, o) /\ X.num[o] = AggMax(X, G, a.v)
    [] a.k = "AVG" -> IF n = 0 THEN (IF "avg" \in X.lenient THEN o = UNB ELSE o # UNB /\ IsNumV(X, o) /\ X.num[o] = 0)
                      ELSE o # UNB /\ IsNumV(X, o) /\ X.num[o] * n = AggSum(X, G, a.v)

---------------------------------------------------------------------------
RECURSIVE Eval(_, _, _, _), EvalGroup(_, _, _, _, _, _), EvalUnion(_, _, _, _, _), SubSolutions(_, _, _, _), ApplyFilters(_, _, _, _)

\* variables a pattern can bind (used for SELECT * and for scope checks)
RECURSIVE PVars(_), PVarsSeq(_, _)
PVarsSeq(ps, k) == IF k = 0 THEN {} ELSE PVarsSeq(ps, k - 1) \cup PVars(ps[k])
SelVars(q) == IF q.star THEN PVars(q.p) ELSE {q.proj[i].as : i \in 1..Len(q.proj)}
PVars(p) ==
  CASE p.t = "unit" -> {}
    [] p.t = "bgp" -> UNION {TPVars(p.tps[i]) : i \in 1..Len(p.tps)}
    [] p.t = "join" -> PVarsSeq(p.ps, Len(p.ps))
    [] p.t = "union" -> PVarsSeq(p.ps, Len(p.ps))
    [] p.t = "graph" -> (IF IsVar(p.name) THEN {p.name[2]} ELSE {}) \cup PVars(p.p)
    [] p.t = "filter" -> {}
    [] p.t = "bind" -> {p.v}
    [] p.t = "values" -> {p.vars[i] : i \in 1..Len(p.vars)}
    [] p.t = "sub" -> SelVars(p.q)

Eval(X, p, view, active) ==
  CASE p.t = "unit"   -> UnitBag
    [] p.t = "bgp"    -> EvalBgp(p.tps, Len(p.tps), ActiveTriples(X, view, active))
    [] p.t = "join"   -> ApplyFilters(X, p.ps, Len(p.ps), EvalGroup(X, p.ps, Len(p.ps), view, active, UnitBag))
    [] p.t = "union"  -> EvalUnion(X, p.ps, Len(p.ps), view, active)
    [] p.t = "graph"  ->
         IF IsVar(p.name)
           THEN LET gs == {g \in view.named : g \in X.graphs}
                    One(g) == BagJoin(Eval(X, p.p, view, g), [m \in {[x \in {p.name[2]} |-> g]} |-> 1])
                    RECURSIVE Acc(_)
                    Acc(S) == IF S = {} THEN EmptyBag ELSE LET g == CHOOSE x \in S : TRUE IN BagUnion(One(g), Acc(S \ {g}))
                IN  Acc(gs)
           ELSE IF p.name[2] \in view.named /\ p.name[2] \in X.graphs THEN Eval(X, p.p, view, p.name[2]) ELSE EmptyBag
    [] p.t = "filter" -> BagFilter(UnitBag, LAMBDA m : EvalExpr(X, p.e, m) = "T")
    [] p.t = "bind"   -> Extend(X, UnitBag, p.args, p.v)
    [] p.t = "values" -> ValuesBag(p.vars, p.rows)
    [] p.t = "sub"    -> SubSolutions(X, p.q, view, active)

\* a group: elements left to right; BIND extends what precedes it; FILTERs are applied to the whole group
EvalGroup(X, ps, k, view, active, acc) ==
  IF k = 0 THEN acc
  ELSE LET before == EvalGroup(X, ps, k - 1, view, active, acc)
           e == ps[k]
       IN  CASE e.t = "filter" -> before
             [] e.t = "bind"   -> Extend(X, before, e.args, e.v)
             [] OTHER          -> BagJoin(before, Eval(X, e, view, active))

ApplyFilters(X, ps, k, B) ==
  IF k = 0 THEN B
  ELSE LET rest == ApplyFilters(X, ps, k - 1, B)
       IN  IF ps[k].t = "filter" THEN BagFilter(rest, LAMBDA m : EvalExpr(X, ps[k].e, m) = "T") ELSE rest

EvalUnion(X, ps, k, view, active) ==
  IF k = 0 THEN EmptyBag ELSE BagUnion(EvalUnion(X, ps, k - 1, view, active), Eval(X, ps[k], view, active))

\* "sideways" relaxation (classification only): the engine's bind join evaluates the right-hand pattern once per
\* left solution with that solution's bindings substituted, so a FILTER inside a nested group / UNION branch / GRAPH
\* child sees variables bound outside it.  EvalS threads the incoming bag through every operator; a subquery keeps
\* its own scope.  With the unit bag as input it differs from Eval only in that respect.
RECURSIVE EvalS(_, _, _, _, _), EvalGroupS(_, _, _, _, _, _), EvalUnionS(_, _, _, _, _, _)
EvalS(X, p, view, active, inc) ==
  CASE p.t = "unit"   -> inc
    [] p.t = "bgp"    -> BagJoin(inc, EvalBgp(p.tps, Len(p.tps), ActiveTriples(X, view, active)))
    [] p.t = "join"   -> ApplyFilters(X, p.ps, Len(p.ps), EvalGroupS(X, p.ps, Len(p.ps), view, active, inc))
    [] p.t = "union"  -> EvalUnionS(X, p.ps, Len(p.ps), view, active, inc)
    [] p.t = "graph"  ->
         IF IsVar(p.name)
           THEN LET gs == {g \in view.named : g \in X.graphs}
                    One(g) == EvalS(X, p.p, view, g, BagJoin(inc, [m \in {[x \in {p.name[2]} |-> g]} |-> 1]))
                    RECURSIVE Acc(_)
                    Acc(S) == IF S = {} THEN EmptyBag ELSE LET g == CHOOSE x \in S : TRUE IN BagUnion(One(g), Acc(S \ {g}))
                IN  Acc(gs)
           ELSE IF p.name[2] \in view.named /\ p.name[2] \in X.graphs THEN EvalS(X, p.p, view, p.name[2], inc) ELSE EmptyBag
    [] p.t = "filter" -> BagFilter(inc, LAMBDA m : EvalExpr(X, p.e, m) = "T")
    [] p.t = "bind"   -> Extend(X, inc, p.args, p.v)
    [] p.t = "values" -> BagJoin(inc, ValuesBag(p.vars, p.rows))
    [] p.t = "sub"    -> BagJoin(inc, SubSolutions(X, p.q, view, active))
EvalGroupS(X, ps, k, view, active, inc) ==
  IF k = 0 THEN inc
  ELSE LET before == EvalGroupS(X, ps, k - 1, view, active, inc)
           e == ps[k]
       IN  CASE e.t = "filter" -> before
             [] e.t = "bind"   -> Extend(X, before, e.args, e.v)
             [] OTHER          -> EvalS(X, e, view, active, before)
EvalUnionS(X, ps, k, view, active, inc) ==
  IF k = 0 THEN EmptyBag ELSE BagUnion(EvalUnionS(X, ps, k - 1, view, active, inc), EvalS(X, ps[k], view, active, inc))

---------------------------------------------------------------------------
\* SELECT: grouping/aggregation, projection, DISTINCT.  ORDER BY / LIMIT make the answer a set of
\* admissible sequences, handled by Accept below.  Full(q) is the bag of solutions before LIMIT,
\* projected on the output columns; for aggregates the aggregate columns are left out of the
\* mapping and validated against the observed value (AggOK).
HasAgg(q) == ~q.star /\ \E i \in 1..Len(q.proj) : q.proj[i].k # "VAR"
GroupKey(q, m) == [i \in 1..Len(q.group) |-> Val(<<"v", q.group[i]>>, m)]
Groups(q, B) == {GroupKey(q, m) : m \in DOMAIN B}
GroupBag(q, B, key) == BagFilter(B, LAMBDA m : GroupKey(q, m) = key)
PlainCols(q) == IF q.star THEN PVars(q.p) ELSE {q.proj[i].as : i \in {j \in 1..Len(q.proj) : q.proj[j].k = "VAR"}}

Solutions(X, q, view, active) == IF "sideways" \in X.lenient THEN EvalS(X, q.p, view, active, UnitBag) ELSE Eval(X, q.p, view, active)

\* for a subquery the result must be a definite bag: aggregates are materialised with exact
\* values, so a subquery aggregate is representable only if its value is a lexical in X.num's
\* domain; the generator restricts subquery aggregates to SUM/MIN/MAX over integers whose result
\* lexical is found in X.canon (canonical numeric lexicals, a subset of DOMAIN X.num).
AggValue(X, G, a) ==
  LET n == AggCount(X, G, a.v)
      s == CASE a.k = "SUM" -> AggSum(X, G, a.v) [] a.k = "MIN" -> (IF n = 0 THEN -1 ELSE AggMin(X, G, a.v))
             [] a.k = "MAX" -> (IF n = 0 THEN -1 ELSE AggMax(X, G, a.v)) [] OTHER -> -1
      c == {v \in X.canon : X.num[v] = s}
  IN  IF s = -1 \/ c = {} THEN UNB ELSE CHOOSE v \in c : TRUE

SubRowsDefinite(X, q, view, active) ==
  LET B == Solutions(X, q, view, active) IN
  IF HasAgg(q) \/ Len(q.group) > 0
    THEN LET keys == IF DOMAIN B = {} /\ Len(q.group) = 0 THEN {<<>>} ELSE Groups(q, B)
             Row(key) == LET G == GroupBag(q, B, key)
                             gm == [x \in {q.group[i] : i \in {j \in 1..Len(q.group) : key[j] # UNB}} |->
                                      key[CHOOSE i \in 1..Len(q.group) : q.group[i] = x]]
                             aggs == {i \in 1..Len(q.proj) : q.proj[i].k # "VAR"}
                             am == [x \in {q.proj[i].as : i \in {j \in aggs : AggValue(X, G, q.proj[j]) # UNB}} |->
                                      AggValue(X, G, q.proj[CHOOSE i \in aggs : q.proj[i].as = x])]
                         IN  Merge(gm, am)
         IN  [m \in {Row(k) : k \in keys} |-> Cardinality({k \in keys : Row(k) = m})]
    ELSE B

\* subquery solutions joined into the enclosing group.  ORDER BY + LIMIT inside a subquery is a
\* definite cut only if no tie crosses the boundary; SubCutDefinite says so and the trace spec
\* skips cases where it does not hold (counted, never a verdict).
Projected(X, q, B) == BagMap(B, LAMBDA m : RestrictTo(m, SelVars(q)))
Distinct(B) == [m \in DOMAIN B |-> 1]

SubFull(X, q, view, active) ==
  LET B == SubRowsDefinite(X, q, view, active) IN B

\* SPARQL applies ORDER BY to the solutions before projection, then projects, then DISTINCT, then LIMIT.
\* Cut chooses the first n rows; it is definite iff every kept row strictly precedes every dropped row (no tie
\* crosses the boundary).  With DISTINCT the order of the de-duplicated rows must be observable on the projected
\* columns, otherwise the cut is not definite.
Cut(X, q, B) ==
  LET P == Projected(X, q, B)
      keysProjected == \A i \in 1..Len(q.order) : q.order[i].v \in SelVars(q)
  IN
  IF q.distinct THEN
     LET D == Distinct(P) IN
     IF q.limit < 0 \/ BagSize(D) <= q.limit THEN [ok |-> TRUE, bag |-> D]
     ELSE LET kept == {m \in DOMAIN D : Cardinality({n \in DOMAIN D : StrictlyBefore(X, q.order, n, m)}) + 1 <= q.limit}
              dropped == (DOMAIN D) \ kept
              definite == /\ keysProjected
                          /\ Cardinality(kept) = q.limit
                          /\ \A a \in kept, b \in dropped : StrictlyBefore(X, q.order, a, b)
          IN  [ok |-> definite, bag |-> [m \in kept |-> 1]]
  ELSE
     IF q.limit < 0 \/ BagSize(B) <= q.limit THEN [ok |-> TRUE, bag |-> P]
     ELSE LET kept == {m \in DOMAIN B : SumOver({n \in DOMAIN B : StrictlyBefore(X, q.order, n, m)}, LAMBDA n : B[n]) + B[m] <= q.limit}
              dropped == (DOMAIN B) \ kept
              definite == /\ SumOver(kept, LAMBDA m : B[m]) = q.limit
                          /\ \A a \in kept, b \in dropped : StrictlyBefore(X, q.order, a, b)
          IN  [ok |-> definite, bag |-> Projected(X, q, [m \in kept |-> B[m]])]

SubSolutions(X, q, view, active) == Cut(X, q, SubFull(X, q, view, active)).bag

\* TRUE iff every subquery cut inside p is definite
RECURSIVE AllCutsDefinite(_, _, _, _), AllCutsSeq(_, _, _, _, _)
AllCutsSeq(X, ps, k, view, active) == k = 0 \/ (AllCutsSeq(X, ps, k - 1, view, active) /\ AllCutsDefinite(X, ps[k], view, active))
AllCutsDefinite(X, p, view, active) ==
  CASE p.t \in {"join", "union"} -> AllCutsSeq(X, p.ps, Len(p.ps), view, active)
    [] p.t = "graph" -> IF IsVar(p.name) THEN \A g \in {h \in view.named : h \in X.graphs} : AllCutsDefinite(X, p.p, view, g)
                        ELSE (p.name[2] \in view.named /\ p.name[2] \in X.graphs) => AllCutsDefinite(X, p.p, view, p.name[2])
    [] p.t = "sub" -> AllCutsDefinite(X, p.q.p, view, active) /\ Cut(X, p.q, SubFull(X, p.q, view, active)).ok
    [] OTHER -> TRUE

---------------------------------------------------------------------------
\* Acceptance of an observed row sequence for a top-level SELECT.
\* cols: sequence of output column names; rows: sequence of sequences of lexicals ("" = unbound).
\* an observed numeric lexical is read as the canonical lexical of its value ("-0" and "0" are the same number)
CanonVal(X, v) == IF v \in DOMAIN X.num /\ KindOf(X, v) = "num"
                    THEN LET c == {w \in X.canon : X.num[w] = X.num[v]} IN IF c = {} THEN v ELSE CHOOSE w \in c : TRUE
                    ELSE v
RowMapOfX(X, cols, r) == [x \in {cols[i] : i \in {j \in 1..Len(cols) : r[j] # ""}} |-> CanonVal(X, r[CHOOSE i \in 1..Len(cols) : cols[i] = x])]
RowMapOf(cols, r) == [x \in {cols[i] : i \in {j \in 1..Len(cols) : r[j] # ""}} |-> r[CHOOSE i \in 1..Len(cols) : cols[i] = x]]
SeqBag(sq) == LET S == {sq[i] : i \in 1..Len(sq)} IN
              IF Cardinality(S) = Len(sq) THEN [m \in S |-> 1]          \* no duplicates: the common case, linear
              ELSE [m \in S |-> Cardinality({i \in 1..Len(sq) : sq[i] = m})]
SubBag(A, B) == \A m \in DOMAIN A : Cnt(A, m) <= Cnt(B, m)

\* Without aggregates: expected full bag over the projected columns.
FullPlain(X, q) ==
  LET view == ViewOf(X, q)
      B == Solutions(X, q, view, "")
      P == Projected(X, q, B)
  IN  IF q.distinct THEN Distinct(P) ELSE P

AcceptPlain(X, q, cols, rows) ==
  LET obs  == [i \in 1..Len(rows) |-> RowMapOfX(X, cols, rows[i])]
      full == FullPlain(X, q)
      n    == BagSize(full)
      want == IF q.limit >= 0 /\ q.limit < n THEN q.limit ELSE n
      \* ORDER BY keys outside the projection cannot be observed in the rows: the sortedness clause
      \* is then checked on the projected keys only
      ord  == SelectSeq(q.order, LAMBDA c : c.v \in {cols[i] : i \in 1..Len(cols)})
      ordAll == Len(ord) = Len(q.order)
  IN  /\ Len(rows) = want
      /\ SubBag(SeqBag(obs), full)
      /\ (want = n => SeqBag(obs) = full)
      /\ ordAll => \A i \in 1..(Len(obs) - 1) : MayPrecede(X, ord, 1, obs[i], obs[i + 1])
      /\ (ordAll /\ want < n) =>      \* legal cut: no omitted row strictly precedes a kept one
            \A m \in DOMAIN full : Cnt(SeqBag(obs), m) < full[m] =>
                \A i \in 1..Len(obs) : ~StrictlyBefore(X, ord, m, obs[i])

\* With aggregates: one row per group; plain columns = group key, aggregate columns validated by AggOK.
AcceptAgg(X, q, cols, rows) ==
  LET view == ViewOf(X, q)
      B == Solutions(X, q, view, "")
      keys == IF DOMAIN B = {} /\ Len(q.group) = 0 THEN {<<>>} ELSE Groups(q, B)
      obs == [i \in 1..Len(rows) |-> RowMapOf(cols, rows[i])]
      KeyOfRow(m) == [i \in 1..Len(q.group) |-> Val(<<"v", q.group[i]>>, m)]
      plain == {q.proj[i].as : i \in {j \in 1..Len(q.proj) : q.proj[j].k = "VAR"}}
      aggs == {i \in 1..Len(q.proj) : q.proj[i].k # "VAR"}
      \* group keys must be observable: every group variable is projected
      keysVisible == \A i \in 1..Len(q.group) : q.group[i] \in plain
      n == Cardinality(keys)
      want == IF q.limit >= 0 /\ q.limit < n THEN q.limit ELSE n
      ord  == SelectSeq(q.order, LAMBDA c : c.v \in {cols[i] : i \in 1..Len(cols)})
  IN  /\ Len(rows) = want
      /\ keysVisible =>
           /\ \A i \in 1..Len(obs) : KeyOfRow(obs[i]) \in keys
           /\ \A i, j \in 1..Len(obs) : i # j => KeyOfRow(obs[i]) # KeyOfRow(obs[j])
           /\ \A i \in 1..Len(obs) : \A a \in aggs :
                 AggOK(X, GroupBag(q, B, KeyOfRow(obs[i])), q.proj[a], Val(<<"v", q.proj[a].as>>, obs[i]))
      /\ Len(ord) = Len(q.order) => \A i \in 1..(Len(obs) - 1) : MayPrecede(X, ord, 1, obs[i], obs[i + 1])

\* aggregates are judged only when every bound input value is numeric (the fragment's aggregates are numeric)
AggInputsNumeric(X, q) ==
  ~HasAgg(q) \/ LET B == Solutions(X, q, ViewOf(X, q), "") IN
                \A i \in {j \in 1..Len(q.proj) : q.proj[j].k # "VAR"} :
                   \A m \in DOMAIN B : q.proj[i].v \in DOMAIN m => IsNumV(X, m[q.proj[i].v])

Accept(X, q, cols, rows) == IF HasAgg(q) THEN AcceptAgg(X, q, cols, rows) ELSE AcceptPlain(X, q, cols, rows)

\* precondition of C01: FILTER / BIND mention only variables in scope of their own group
RECURSIVE ExprVars(_)
ExprVars(e) == CASE e.t = "cmp" -> {t[2] : t \in {u \in {e.l, e.r} : IsVar(u)}}
                 [] e.t = "not" -> ExprVars(e.a)
                 [] OTHER -> ExprVars(e.a) \cup ExprVars(e.b)
RECURSIVE InScope(_), InScopeSeq(_, _)
InScopeSeq(ps, k) == k = 0 \/ (InScopeSeq(ps, k - 1) /\ (ps[k].t \in {"filter", "bind"} \/ InScope(ps[k])))
InScope(p) ==
  CASE p.t = "join" ->
         /\ InScopeSeq(p.ps, Len(p.ps))
         /\ \A i \in 1..Len(p.ps) :
              /\ (p.ps[i].t = "filter" => ExprVars(p.ps[i].e) \subseteq PVarsSeq(p.ps, Len(p.ps)))
              /\ (p.ps[i].t = "bind" => {a[2] : a \in {b \in {p.ps[i].args[j] : j \in 1..Len(p.ps[i].args)} : IsVar(b)}} \subseteq PVarsSeq(p.ps, i - 1)
                                       /\ p.ps[i].v \notin PVarsSeq(p.ps, i - 1))
    [] p.t = "union" -> InScopeSeq(p.ps, Len(p.ps))
    [] p.t = "graph" -> InScope(p.p)
    [] p.t = "sub" -> InScope(p.q.p)
    [] OTHER -> TRUE
=============================================================================
