SPECIFICATION Spec
CONSTANTS
  Consts = {}
  NVars = 2
  Preds = {"p"}
  PVars = {}
  MaxPrem = 2
  MaxConcl = 1
  MaxRules = 2
  NegAtoms = 0
  WithFilters = FALSE
  FConsts = {"a", "b"}
  FPreds = {"p"}
  MaxFacts = 4
  Permute = FALSE
  Mode = "semi"
  Runs = 2
INVARIANTS ReachesModel OrderIndependent SecondRunEmpty NoDuplicates RoundsAreNew Sound SpecLaws Emit
CHECK_DEADLOCK FALSE
