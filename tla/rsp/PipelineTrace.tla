---------------------------- MODULE PipelineTrace ----------------------------
(***************************************************************************)
(* Trace validation for C10 (single-window continuous query).  Events of   *)
(* one run, in the global order of the log written under the store lock:   *)
(*   reset(q, rules, op, ref)  push*  ( fire(items) query(rows) emit* )*   *)
(*   stopped  end                                                          *)
(* Each firing must answer exactly Rows(q, rules, content of that firing)  *)
(* and the consumer must receive exactly EmitBag of it relative to the     *)
(* previous firing.  ref (when present) is the per-firing emission of the  *)
(* single-threaded run of the same stream: the multi-threaded run under    *)
(* its perturbed schedule must emit the same sequence of bags.             *)
(***************************************************************************)
EXTENDS Rsp, Json, IOUtils

Rec == ndJsonDeserialize(IOEnv.TRACE)
VARIABLES l, cfg, prev, cur, hist, bad
vars == <<l, cfg, prev, cur, hist, bad>>
ToSet(sq) == {sq[i] : i \in 1..Len(sq)}
NoFiring == [open |-> FALSE, K |-> {}, rows |-> EmptyBag, answered |-> FALSE, emits |-> <<>>]

Ev == Rec[l]
Fail(why) == PrintT(<<"FAIL", cfg.run, why, l>>)

\* close the firing in progress: the consumer saw exactly what the stream operator prescribes
CloseOK == ~cur.open \/ (cur.answered /\ SeqBag(cur.emits) = EmitBag(cfg.op, cur.rows, prev))
Closed == IF cur.open THEN Append(hist, SeqBag(cur.emits)) ELSE hist
PrevAfter == IF cur.open /\ cur.answered THEN DOMAIN cur.rows ELSE prev

Init == l = 1 /\ cfg = [run |-> 0, op |-> "RSTREAM", q |-> <<>>, rules |-> <<>>, hasref |-> FALSE, ref |-> <<>>]
        /\ prev = {} /\ cur = NoFiring /\ hist = <<>> /\ bad = FALSE

Reset == /\ Ev.ev = "reset"
         /\ cfg' = [run |-> Ev.run, op |-> Ev.case.spec.op, q |-> Ev.case.spec.q, rules |-> Ev.case.spec.rules,
                    hasref |-> Ev.case.spec.hasref, ref |-> Ev.case.spec.ref]
         /\ prev' = {} /\ cur' = NoFiring /\ hist' = <<>> /\ bad' = FALSE

Skip == /\ Ev.ev \in {"push", "stopped", "worker-exit", "coordinator-exit", "timeout"} /\ UNCHANGED <<cfg, prev, cur, hist, bad>>

Fire == /\ Ev.ev = "fire"
        /\ IF bad THEN UNCHANGED <<cfg, prev, cur, hist, bad>>
           ELSE IF ~CloseOK THEN Fail("emitted rows are not the stream operator's output") /\ bad' = TRUE /\ UNCHANGED <<cfg, prev, cur, hist>>
           ELSE /\ hist' = Closed /\ prev' = PrevAfter
                /\ cur' = [open |-> TRUE, K |-> {<<x.t[1], x.t[2], x.t[3]>> : x \in ToSet(Ev.items)},
                           rows |-> EmptyBag, answered |-> FALSE, emits |-> <<>>]
                /\ UNCHANGED <<cfg, bad>>

Query == /\ Ev.ev = "query"
         /\ IF bad THEN UNCHANGED <<cfg, prev, cur, hist, bad>>
            ELSE IF ~cur.open \/ cur.answered THEN Fail("query without firing") /\ bad' = TRUE /\ UNCHANGED <<cfg, prev, cur, hist>>
            ELSE IF SeqBag(Ev.rows) # Rows(cfg.q, cfg.rules, cur.K)
                   THEN Fail("answers differ from the query over exactly the current window") /\ bad' = TRUE /\ UNCHANGED <<cfg, prev, cur, hist>>
            ELSE cur' = [cur EXCEPT !.rows = SeqBag(Ev.rows), !.answered = TRUE] /\ UNCHANGED <<cfg, prev, hist, bad>>

Emit == /\ Ev.ev = "emit"
        /\ IF bad THEN UNCHANGED <<cfg, prev, cur, hist, bad>>
           ELSE IF ~cur.open THEN Fail("emission without firing") /\ bad' = TRUE /\ UNCHANGED <<cfg, prev, cur, hist>>
           ELSE cur' = [cur EXCEPT !.emits = Append(@, Ev.row)] /\ UNCHANGED <<cfg, prev, hist, bad>>

End == /\ Ev.ev = "end"
       /\ IF bad THEN TRUE
          ELSE IF Ev.panic THEN Fail("panic")
          ELSE IF ~CloseOK THEN Fail("emitted rows are not the stream operator's output")
          ELSE IF cfg.hasref /\ [i \in 1..Len(cfg.ref) |-> SeqBag(cfg.ref[i])] # Closed
                 THEN Fail("multi-threaded emission sequence differs from the single-threaded one")
          ELSE TRUE
       /\ UNCHANGED <<cfg, prev, cur, hist, bad>>

Hang == /\ Ev.ev = "hang"
        /\ (IF bad THEN TRUE ELSE Fail("deadlock"))
        /\ bad' = TRUE /\ UNCHANGED <<cfg, prev, cur, hist>>

BuildErr == Ev.ev = "builderr" /\ PrintT(<<"INFO", cfg.run, "builderr">>) /\ UNCHANGED <<cfg, prev, cur, hist, bad>>

Next == l <= Len(Rec) /\ l' = l + 1 /\ (Reset \/ Skip \/ Fire \/ Query \/ Emit \/ End \/ BuildErr \/ Hang)
Spec == Init /\ [][Next]_vars

Consumed == IF TLCGet("stats").diameter - 1 = Len(Rec) THEN TRUE
            ELSE PrintT(<<"STUCK", TLCGet("stats").diameter, Len(Rec)>>) /\ FALSE
=============================================================================
