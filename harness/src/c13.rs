//! C13 driver: renders abstract documents (prefix declarations, one triple per line, comment
//! and blank lines) in the line-oriented subset of N-Triples / N-Quads / Turtle / N3 / RDF-XML,
//! loads them with the REAL parse_* functions into a database with prior content and records
//! the lexical quads (decode_any over DatasetIndex::all_quads) before and after every load.
//!
//! The driver only writes documents and observes; what must be stored is computed by TLC from the
//! abstract document (tla/loader/LoaderTrace.tla).
//!
//! case: {"threads":T, "gen":{...}}                         (expanded deterministically, see `expand`)
//!    or {"threads":T, "prior":[[s,p,o,g]..], "dictpad":N, "loads":[{"fmt","terms","pfx","lines"}..]}
//! The rayon pool size is fixed per process, so the driver re-executes itself once per distinct
//! thread count (RAYON_NUM_THREADS) and concatenates the recordings.
use crate::util::*;
use kolibrie::sparql_database::SparqlDatabase;
use serde_json::{json, Value};
use shared::dataset_index::GraphId;
use std::collections::HashMap;

// ------------------------------------------------------------------ abstract terms / documents

#[derive(Clone, Debug, PartialEq)]
struct Term {
    k: String,  // iri | pn | bn | lit
    v: String,  // IRI / local name / label / literal value (unescaped)
    x: String,  // pn: prefix name; lit: language tag or datatype IRI; else ""
    t: String,  // lit: "" | "lang" | "dt"; else ""
    sh: String, // shape class (generator metadata, used for signatures only)
}

impl Term {
    fn json(&self) -> Value { json!({"k":self.k,"v":self.v,"x":self.x,"t":self.t,"sh":self.sh}) }
    fn from(v: &Value) -> Term {
        let g = |k: &str| v[k].as_str().unwrap_or("").to_string();
        Term { k: g("k"), v: g("v"), x: g("x"), t: g("t"), sh: g("sh") }
    }
}

#[derive(Clone)]
struct Load {
    fmt: String,
    terms: Vec<Term>,
    pfx: Vec<(String, String)>,
    lines: Vec<[u64; 5]>, // [kind, a, b, c, d]: 0 blank run(a), 1 comment run(a), 2 prefix(a), 3 triple(s,p,o,g)
    hasmodel: bool,
    model: Value,         // lexical triples predicted by the code-shaped model (L2), else []
}

fn esc_nt(v: &str) -> String {
    let mut s = String::new();
    for c in v.chars() {
        match c {
            '\\' => s.push_str("\\\\"),
            '"' => s.push_str("\\\""),
            '\n' => s.push_str("\\n"),
            '\r' => s.push_str("\\r"),
            '\t' => s.push_str("\\t"),
            o => s.push(o),
        }
    }
    s
}

fn esc_xml(v: &str) -> String {
    v.replace('&', "&amp;").replace('<', "&lt;").replace('>', "&gt;")
}

fn render_term(t: &Term) -> String {
    match t.k.as_str() {
        "iri" => format!("<{}>", t.v),
        "pn" => format!("{}:{}", t.x, t.v),
        "bn" => format!("_:{}", t.v),
        _ => {
            let body = format!("\"{}\"", esc_nt(&t.v));
            match t.t.as_str() {
                "lang" => format!("{}@{}", body, t.x),
                "dt" => format!("{}^^<{}>", body, t.x),
                _ => body,
            }
        }
    }
}

/// Text of the document in the given format, and its number of physical lines.
fn render(ld: &Load) -> String {
    let mut out = String::new();
    let xml = ld.fmt == "xml";
    if xml {
        out.push_str("<?xml version=\"1.0\"?>\n<rdf:RDF xmlns:rdf=\"http://www.w3.org/1999/02/22-rdf-syntax-ns#\"");
        for l in &ld.lines {
            if l[0] == 2 {
                let (n, i) = &ld.pfx[l[1] as usize - 1];
                out.push_str(&format!(" xmlns:{}=\"{}\"", n, esc_xml(i)));
            }
        }
        out.push_str(">\n");
    }
    for l in &ld.lines {
        match l[0] {
            0 => for _ in 0..l[1] { out.push('\n'); },
            1 => for i in 0..l[1] { out.push_str(&if xml { format!("<!-- c{} -->\n", i) } else { format!("# c{} <http://e/c> .\n", i) }); },
            2 => {
                if !xml {
                    let (n, i) = &ld.pfx[l[1] as usize - 1];
                    out.push_str(&format!("@prefix {}: <{}> .\n", n, i));
                }
            }
            _ => {
                let (s, p, o) = (&ld.terms[l[1] as usize - 1], &ld.terms[l[2] as usize - 1], &ld.terms[l[3] as usize - 1]);
                if xml {
                    let subj = match s.k.as_str() { "iri" => s.v.clone(), "pn" => format!("{}:{}", s.x, s.v), _ => format!("_:{}", s.v) };
                    let pq = if p.k == "pn" { format!("{}:{}", p.x, p.v) } else { p.v.clone() };
                    let body = match o.k.as_str() {
                        "iri" => format!("<{} rdf:resource=\"{}\"/>", pq, esc_xml(&o.v)),
                        "lit" => {
                            let attr = match o.t.as_str() {
                                "lang" => format!(" xml:lang=\"{}\"", o.x),
                                "dt" => format!(" rdf:datatype=\"{}\"", esc_xml(&o.x)),
                                _ => String::new(),
                            };
                            format!("<{}{}>{}</{}>", pq, attr, esc_xml(&o.v), pq)
                        }
                        "bn" => format!("<{} rdf:nodeID=\"{}\"/>", pq, o.v),
                        _ => format!("<{} rdf:resource=\"{}:{}\"/>", pq, o.x, o.v),
                    };
                    out.push_str(&format!("<rdf:Description rdf:about=\"{}\">{}</rdf:Description>\n", esc_xml(&subj), body));
                } else {
                    let mut line = format!("{} {} {}", render_term(s), render_term(p), render_term(o));
                    if l[4] != 0 && ld.fmt == "nq" {
                        line.push(' ');
                        line.push_str(&render_term(&ld.terms[l[4] as usize - 1]));
                    }
                    line.push_str(" .\n");
                    out.push_str(&line);
                }
            }
        }
    }
    if xml { out.push_str("</rdf:RDF>\n"); }
    out
}

// ------------------------------------------------------------------ observation

struct Lex { tab: Vec<String>, ix: HashMap<String, u64> }
impl Lex {
    fn new() -> Lex { Lex { tab: Vec::new(), ix: HashMap::new() } }
    fn id(&mut self, s: String) -> u64 {
        if let Some(i) = self.ix.get(&s) { return *i; }
        self.tab.push(s.clone());
        let i = self.tab.len() as u64;
        self.ix.insert(s, i);
        i
    }
}

/// Lexical quads of the database: decode_any over all_quads; an identifier the dictionary cannot
/// decode is reported as "?undecodable".
fn observe(db: &SparqlDatabase, lex: &mut Lex) -> Value {
    let dec = |id: u32| db.decode_any(id).unwrap_or_else(|| "?undecodable".to_string());
    let mut v = Vec::new();
    for q in db.dataset_index.all_quads() {
        let g = match q.graph { GraphId::Default => 0, GraphId::Named(g) => lex.id(dec(g)) };
        v.push(json!([lex.id(dec(q.subject)), lex.id(dec(q.predicate)), lex.id(dec(q.object)), g]));
    }
    json!(v)
}

fn do_load(db: &mut SparqlDatabase, fmt: &str, text: &str) {
    match fmt {
        "nt" => db.parse_ntriples_and_add(text),
        "nq" => db.parse_nquads_and_add(text),
        "ttl" => db.parse_turtle(text),
        "n3" => db.parse_n3(text),
        "xml" => db.parse_rdf(text),
        other => panic!("unknown format {other}"),
    }
}

// ------------------------------------------------------------------ case expansion (workload generator)

struct Doc { terms: Vec<Term>, ix: HashMap<String, u64>, pfx: Vec<(String, String)>, lines: Vec<[u64; 5]> }
impl Doc {
    fn new() -> Doc { Doc { terms: Vec::new(), ix: HashMap::new(), pfx: Vec::new(), lines: Vec::new() } }
    fn t(&mut self, t: Term) -> u64 {
        let key = format!("{}|{}|{}|{}", t.k, t.v, t.x, t.t);
        if let Some(i) = self.ix.get(&key) { return *i; }
        self.terms.push(t);
        let i = self.terms.len() as u64;
        self.ix.insert(key, i);
        i
    }
    fn prefix(&mut self, n: &str, i: &str) { self.pfx.push((n.to_string(), i.to_string())); self.lines.push([2, self.pfx.len() as u64, 0, 0, 0]); }
    fn load(self, fmt: &str) -> Load { Load { fmt: fmt.to_string(), terms: self.terms, pfx: self.pfx, lines: self.lines, hasmodel: false, model: json!([]) } }
}

fn mk(k: &str, v: &str, x: &str, t: &str, sh: &str) -> Term {
    Term { k: k.into(), v: v.into(), x: x.into(), t: t.into(), sh: sh.into() }
}

const NS: &str = "http://e/";
const OLDNS: &str = "http://old.example/";

/// The i-th term of a shape class.  Canonical stored forms of distinct (shape, i) are distinct.
fn shape_term(sh: &str, i: u64) -> Term {
    match sh {
        "iri" => mk("iri", &format!("{NS}s{i}"), "", "", sh),
        "iri-frag" => mk("iri", &format!("{NS}ns#f{i}"), "", "", sh),
        "iri-urn" => mk("iri", &format!("urn:x:u{i}"), "", "", sh),
        "pn" => mk("pn", &format!("s{i}"), "e", "", sh),
        "bn" => mk("bn", &format!("b{i}"), "", "", sh),
        "lit-plain" => match i % 5 {
            0 => mk("lit", &format!("w{i}"), "", "", sh),
            1 => mk("lit", &format!("two words {i}"), "", "", sh),
            2 => mk("lit", &format!("\u{e9}\u{2713}\u{1F600}{i}"), "", "", sh),
            3 => mk("lit", &format!("k:v{i}"), "", "", sh),
            _ => mk("lit", &format!("end{i}."), "", "", sh),
        },
        "lit-esc" => match i % 3 {
            0 => mk("lit", &format!("say \"hi\" {i}"), "", "", sh),
            1 => mk("lit", &format!("back\\slash{i}"), "", "", sh),
            _ => mk("lit", &format!("line1\nline2 {i}"), "", "", sh),
        },
        "lit-punct" => mk("lit", &format!("a ; b , c . {i}"), "", "", sh),
        "lit-hash" => mk("lit", &format!("no #{i}"), "", "", sh),
        "lit-xmlspecial" => mk("lit", &format!("x<y>{i} & z"), "", "", sh),
        "lit-empty" => mk("lit", "", "", "", sh),
        // language tags: plain, with a region subtag, with digits in a later subtag (BCP 47: es-419, de-1996)
        "lit-lang" => mk("lit", &format!("bonjour{i}"), ["fr", "en-GB", "es-419", "de-1996"][(i % 4) as usize], "lang", sh),
        "lit-dt" => mk("lit", &format!("{}", 5 + i), "http://www.w3.org/2001/XMLSchema#integer", "dt", sh),
        "lit-spaces" => mk("lit", &format!("a  b   c{i}"), "", "", sh),
        "lit-pnlike" => mk("lit", &format!("e:s{i}"), "", "", sh),
        other => panic!("unknown shape {other}"),
    }
}

/// Internal (stored) string of the core terms used for prior content: plain IRIs and word literals.
fn strs(v: &Value, k: &str) -> Vec<String> {
    v.get(k).and_then(|x| x.as_array()).map(|a| a.iter().filter_map(|s| s.as_str().map(|s| s.to_string())).collect()).unwrap_or_default()
}

struct Expanded { prior: Vec<[String; 4]>, dictpad: u64, loads: Vec<Load> }

fn pred(d: &mut Doc, fmt: &str, usepn: bool, j: u64) -> u64 {
    if fmt == "xml" || (usepn && (fmt == "ttl" || fmt == "n3")) { d.t(mk("pn", &format!("p{j}"), "e", "", "pn")) }
    else { d.t(mk("iri", &format!("{NS}p{j}"), "", "", "iri")) }
}

/// A document of exactly `nlines` abstract lines whose triples are pairwise distinct except for
/// deliberate repeats; lines next to multiples of 1000 always carry a triple of their own.
fn size_doc(rng: &mut Rng, fmt: &str, nlines: u64, g: &Value, prior: &[[String; 4]]) -> Load {
    let mut d = Doc::new();
    let usepn = g.get("pfx").and_then(|x| x.as_bool()).unwrap_or(false);
    let oshapes = { let v = strs(g, "oshapes"); if v.is_empty() { vec!["iri".to_string()] } else { v } };
    let sshapes = { let v = strs(g, "sshapes"); if v.is_empty() { vec!["iri".to_string()] } else { v } };
    let gshapes = strs(g, "gshapes");
    let needs_pfx = fmt == "xml" || (usepn && (fmt == "ttl" || fmt == "n3"));
    let mut budget = nlines;
    // "ns": namespace this document binds prefix e: to (a history load may bind it differently from
    // the document under test); "redecl": the document first binds e: elsewhere and re-declares it
    let ns = g.get("ns").and_then(|x| x.as_str()).unwrap_or(NS).to_string();
    if needs_pfx && fmt != "xml" && budget >= 3 && g.get("redecl").and_then(|x| x.as_bool()).unwrap_or(false) { d.prefix("e", OLDNS); budget -= 1; }
    if needs_pfx && budget >= 2 { d.prefix("e", &ns); budget -= 1; }
    else if needs_pfx { d.prefix("e", &ns); } // a 1-line document with a prefix has 2 lines; recorded as such
    let side = ((nlines as f64 * 1.5).sqrt().ceil() as u64) + 6;
    let np = 4u64;
    let universe = side * np * side;
    let a = { let mut a = (universe / 2 + 1 + rng.below(universe / 3 + 1)) | 1; while gcd(a, universe) != 1 { a += 2; } a };
    let b = rng.below(universe);
    // prior triples of the default graph that this document may repeat (object shape allowed in this family)
    let lit_ok = oshapes.iter().any(|s| s == "lit-plain");
    let shareable: Vec<&[String; 4]> = prior.iter().filter(|q| fmt != "xml" && q[3].is_empty() && (q[2].starts_with("http") || lit_ok)).collect();
    let mut fresh = 0u64;
    let mut emitted: Vec<[u64; 5]> = Vec::new();
    let mut phys = d.lines.len() as u64; // physical line number of the next line (0-based) for text formats
    while budget > 0 {
        let at_edge = { let m = (phys + 1) % 1000; m <= 1 || m == 999 };
        let r = rng.below(100);
        if !at_edge && r < 2 && budget >= 1 { let n = rng.range(1, budget.min(3)); d.lines.push([0, n, 0, 0, 0]); budget -= n; phys += n; continue; }
        if !at_edge && r < 4 && budget >= 1 { let n = rng.range(1, budget.min(2)); d.lines.push([1, n, 0, 0, 0]); budget -= n; phys += n; continue; }
        let line = if !at_edge && r < 9 && !emitted.is_empty() {
            *rng.pick(&emitted) // repeated triple (possibly from another chunk)
        } else if !at_edge && r < 14 && !shareable.is_empty() {
            // a triple that the prior content already has
            let q = (*rng.pick(&shareable)).clone();
            let o = if q[2].starts_with("http") { d.t(mk("iri", &q[2], "", "", "iri")) } else { d.t(mk("lit", &q[2], "", "", "lit-plain")) };
            let s = d.t(mk("iri", &q[0], "", "", "iri"));
            let p = d.t(mk("iri", &q[1], "", "", "iri"));
            [3, s, p, o, 0]
        } else {
            let idx = (a.wrapping_mul(fresh) + b) % universe; fresh += 1;
            let (si, pj, oi) = (idx % side, (idx / side) % np, idx / (side * np));
            let ssh = rng.pick(&sshapes).clone();
            let osh = rng.pick(&oshapes).clone();
            let s = d.t(shape_term(&ssh, si));
            let p = pred(&mut d, fmt, usepn, pj);
            let o = d.t(shape_term(&osh, oi));
            let gg = if fmt == "nq" && !gshapes.is_empty() && rng.chance(1, 2) { let gs = rng.pick(&gshapes).clone(); let t = shape_term(&gs, 900 + rng.below(3)); d.t(t) } else { 0 };
            [3, s, p, o, gg]
        };
        d.lines.push(line); emitted.push(line); budget -= 1; phys += 1;
    }
    d.load(fmt)
}

fn gcd(a: u64, b: u64) -> u64 { if b == 0 { a } else { gcd(b, a % b) } }

fn small_prior(rng: &mut Rng, n: u64, named: bool) -> Vec<[String; 4]> {
    let mut v = Vec::new();
    for i in 0..n {
        let o = if rng.chance(1, 2) { format!("{NS}s{}", rng.below(6)) } else { format!("w{}", rng.below(6)) };
        let g = if named && i % 3 == 2 { format!("{NS}s{}", 900 + rng.below(2)) } else { String::new() };
        v.push([format!("{NS}s{}", rng.below(6)), format!("{NS}p{}", rng.below(4)), o, g]);
    }
    v
}

fn expand(case: &Value) -> Expanded {
    if case.get("gen").is_none() {
        let prior = case.get("prior").and_then(|p| p.as_array()).map(|a| a.iter().map(|q| {
            let s = |i: usize| q[i].as_str().unwrap_or("").to_string();
            [s(0), s(1), s(2), s(3)]
        }).collect()).unwrap_or_default();
        let loads = case["loads"].as_array().expect("loads").iter().map(|l| Load {
            fmt: l["fmt"].as_str().unwrap().to_string(),
            terms: l["terms"].as_array().unwrap().iter().map(Term::from).collect(),
            pfx: l["pfx"].as_array().unwrap().iter().map(|p| (p[0].as_str().unwrap().to_string(), p[1].as_str().unwrap().to_string())).collect(),
            lines: l["lines"].as_array().unwrap().iter().map(|x| { let mut a = [0u64; 5]; for i in 0..5 { a[i] = x[i].as_u64().unwrap(); } a }).collect(),
            hasmodel: l.get("model").is_some(),
            model: l.get("model").cloned().unwrap_or(json!([])),
        }).collect();
        return Expanded { prior, dictpad: case.get("dictpad").and_then(|x| x.as_u64()).unwrap_or(0), loads };
    }
    let g = &case["gen"];
    let fmt = g["fmt"].as_str().unwrap_or("nt");
    let mut rng = Rng::new(g["seed"].as_u64().unwrap_or(1) ^ 0xC13);
    let kind = g["kind"].as_str().unwrap_or("size");
    let prior_kind = g["prior"].as_str().unwrap_or("empty");
    let (prior, dictpad, mut loads): (Vec<[String; 4]>, u64, Vec<Load>) = match prior_kind {
        "small" => (small_prior(&mut rng, 5, true), 0, vec![]),
        "large" => (small_prior(&mut rng, 40, true), 3000, vec![]),
        p if p.starts_with("load:") => {
            // history: the prior content comes from an earlier load in another format
            let f0 = &p[5..];
            let mut g0 = g.clone();
            g0["pfx"] = json!(f0 == "ttl" || f0 == "n3" || f0 == "xml");
            if g.get("altns").and_then(|x| x.as_bool()).unwrap_or(false) { g0["ns"] = json!(OLDNS); }
            g0["redecl"] = json!(false);
            g0["oshapes"] = json!(["iri"]); g0["sshapes"] = json!(["iri"]); g0["gshapes"] = json!([]);
            (vec![], 0, vec![size_doc(&mut rng, f0, g["n0"].as_u64().unwrap_or(40), &g0, &[])])
        }
        _ => (vec![], 0, vec![]),
    };
    match kind {
        "shape" => {
            // one shaped term in the given position followed by a plain line (detects swallowed neighbours)
            let sh = g["shape"].as_str().unwrap();
            let pos = g["pos"].as_str().unwrap_or("o");
            let mut d = Doc::new();
            let needs = fmt == "xml" || sh == "pn" || g.get("pfx").and_then(|x| x.as_bool()).unwrap_or(false);
            if needs { d.prefix("e", NS); }
            for i in 0..g.get("n").and_then(|x| x.as_u64()).unwrap_or(5) {
                let s = if pos == "s" { d.t(shape_term(sh, i)) } else { d.t(shape_term("iri", i)) };
                let p = if pos == "p" { d.t(shape_term(sh, 10 + i)) } else { pred(&mut d, fmt, needs, i) };
                let o = if pos == "o" { d.t(shape_term(sh, 20 + i)) } else { d.t(shape_term("iri", 20 + i)) };
                let gg = if pos == "g" { d.t(shape_term(sh, 30 + i)) } else { 0 };
                d.lines.push([3, s, p, o, gg]);
                let s2 = d.t(shape_term("iri", 40 + i));
                let p2 = pred(&mut d, fmt, needs, 2);
                let o2 = d.t(shape_term("iri", 50 + i));
                d.lines.push([3, s2, p2, o2, 0]);
            }
            loads.push(d.load(fmt));
        }
        _ => {
            let n = g["nlines"].as_u64().unwrap_or(10);
            loads.push(size_doc(&mut rng, fmt, n, g, &prior));
        }
    }
    Expanded { prior, dictpad, loads }
}

// ------------------------------------------------------------------ running

fn run_case(out: &mut Out, run: u64, case: &Value, threads: u64) {
    let ex = expand(case);
    let mut db = SparqlDatabase::new();
    for i in 0..ex.dictpad {
        db.dictionary.write().unwrap().encode(&format!("http://pad/{i}"));
    }
    for q in &ex.prior {
        if q[3].is_empty() { db.add_triple_parts(&q[0], &q[1], &q[2]); } else { db.add_quad_parts(&q[0], &q[1], &q[2], &q[3]); }
    }
    let mut lex = Lex::new();
    let pre0 = observe(&db, &mut lex);
    out.ev(json!({"ev":"reset","run":run,"threads":threads,"lex":lex.tab,"pre":pre0,"dictsize":db.dictionary.read().unwrap().next_id,"case":case}));
    for ld in &ex.loads {
        let text = render(ld);
        let nphys = text.lines().count();
        let mut lex = Lex::new();
        let pre = observe(&db, &mut lex);
        let r = guarded(|| do_load(&mut db, &ld.fmt, &text));
        let post = observe(&db, &mut lex);
        out.ev(json!({"ev":"load","fmt":ld.fmt,"threads":threads,"nphys":nphys,
            "terms": ld.terms.iter().map(|t| t.json()).collect::<Vec<_>>(),
            "pfx": ld.pfx.iter().map(|(n, i)| json!([n, i])).collect::<Vec<_>>(),
            "lines": ld.lines, "lex": lex.tab, "pre": pre, "post": post,
            "panic": r.is_err(), "hasmodel": ld.hasmodel, "model": ld.model}));
        if r.is_err() { break; }
    }
}

fn gen_cases(seed: u64, n: u64, maxlines: u64) -> Vec<Value> {
    let mut rng = Rng::new(seed ^ 0x13C);
    let fmts = ["nt", "nq", "ttl", "n3", "xml"];
    let mut v = Vec::new();
    for _ in 0..n {
        let fmt = *rng.pick(&fmts);
        let nlines = match rng.below(6) {
            0 => rng.range(1, 8),
            1 => rng.range(990, 1010).min(maxlines),
            2 => (rng.range(1, 4) * 1000 + rng.range(0, 12)).min(maxlines),
            3 => rng.range(1, 300),
            _ => rng.range(1, maxlines),
        };
        let prior = match rng.below(6) { 0 | 1 => "empty".to_string(), 2 | 3 => "small".to_string(), 4 => "large".to_string(), _ => format!("load:{}", rng.pick(&fmts)) };
        let threads = *rng.pick(&[1u64, 2, 2, 3, 4, 16]);
        v.push(json!({"threads":threads,"gen":{"kind":"size","fmt":fmt,"nlines":nlines,"prior":prior,"seed":rng.next() >> 12,
            "pfx": rng.chance(1, 2), "altns": rng.chance(1, 2), "redecl": rng.chance(1, 3), "n0": rng.range(3, 60),
            "oshapes": core_oshapes(fmt), "sshapes": ["iri"], "gshapes": if fmt == "nq" { json!(["iri"]) } else { json!([]) }}}));
    }
    v
}

/// Object shapes used in the size/prior/thread family: the shapes every loader is expected to store canonically.
fn core_oshapes(fmt: &str) -> Value {
    match fmt {
        "xml" => json!(["iri", "lit-plain"]),
        _ => json!(["iri", "lit-plain", "lit-esc", "lit-lang"]),
    }
}

pub fn main(a: &Args) {
    let out_path = a.req("out").to_string();
    if a.get("child").is_some() {
        // child: cases come as {"run":id,"case":{..}}; the pool size was fixed by the parent through the environment
        let threads = a.num("threads", 0);
        let mut out = Out::create(&out_path);
        for rc in read_cases(a.req("cases")) {
            run_case(&mut out, rc["run"].as_u64().unwrap(), &rc["case"], threads);
        }
        out.finish();
        return;
    }
    let cases = if let Some(f) = a.get("cases") { read_cases(f) } else { gen_cases(a.num("seed", 1), a.num("random", 20), a.num("maxlines", 2500)) };
    let mut groups: Vec<(u64, Vec<Value>)> = Vec::new();
    for (i, c) in cases.iter().enumerate() {
        let t = c.get("threads").and_then(|x| x.as_u64()).unwrap_or(2);
        let item = json!({"run": i + 1, "case": c});
        match groups.iter_mut().find(|(tt, _)| *tt == t) { Some((_, v)) => v.push(item), None => groups.push((t, vec![item])) }
    }
    let exe = std::env::current_exe().expect("current_exe");
    let mut children = Vec::new();
    for (t, items) in &groups {
        let cpath = format!("{out_path}.t{t}.cases");
        let opath = format!("{out_path}.t{t}.part");
        let mut o = Out::create(&cpath);
        for it in items { o.ev(it.clone()); }
        o.finish();
        let ch = std::process::Command::new(&exe)
            .args(["c13", "--child", "1", "--threads", &t.to_string(), "--cases", &cpath, "--out", &opath])
            .env("RAYON_NUM_THREADS", t.to_string())
            .spawn().expect("spawn child");
        children.push((ch, cpath, opath));
    }
    let mut all = Vec::new();
    for (mut ch, cpath, opath) in children {
        let st = ch.wait().expect("wait");
        if !st.success() { eprintln!("c13 child failed"); std::process::exit(2); }
        all.extend(std::fs::read(&opath).expect("part"));
        let _ = std::fs::remove_file(&cpath);
        let _ = std::fs::remove_file(&opath);
    }
    std::fs::write(&out_path, all).expect("write");
}
