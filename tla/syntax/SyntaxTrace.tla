----------------------------- MODULE SyntaxTrace -----------------------------
(***************************************************************************)
(* Trace validation for C16.  One event per (text, parser) pair:           *)
(*   parse(parser, res, rest, restblank, kind, tree, case)                 *)
(* where case = [text, fault, kind, tree] is what Syntax.tla printed.      *)
(* Un-faulted text: the parser accepts, consumes the whole input and the   *)
(* tree it returns has the same structure as the printed tree, modulo the  *)
(* documented normalisations (a group with one element is that element,    *)
(* adjacent triple blocks of one group form one basic graph pattern, empty *)
(* groups vanish from a join).  Faulted text: any outcome but a panic;     *)
(* the whole-input parser may accept only with everything consumed.        *)
(***************************************************************************)
EXTENDS Naturals, Sequences, FiniteSets, TLC, Json, IOUtils

Rec == ndJsonDeserialize(IOEnv.TRACE)
VARIABLE l

RECURSIVE NormP(_), NormQ(_), NormSeq(_, _), MergeInto(_, _)

\* append element e to the normalised element sequence acc (merging adjacent basic graph patterns, dropping units)
MergeInto(acc, e) ==
  IF e.t = "unit" THEN acc
  ELSE IF Len(acc) > 0 /\ acc[Len(acc)].t = "bgp" /\ e.t = "bgp"
         THEN [acc EXCEPT ![Len(acc)] = [t |-> "bgp", tps |-> acc[Len(acc)].tps \o e.tps]]
  ELSE Append(acc, e)

NormSeq(ps, k) == IF k = 0 THEN <<>> ELSE MergeInto(NormSeq(ps, k - 1), NormP(ps[k]))

NormP(p) ==
  CASE p.t = "join"   -> LET es == NormSeq(p.ps, Len(p.ps)) IN
                         IF Len(es) = 0 THEN [t |-> "unit"] ELSE IF Len(es) = 1 THEN es[1] ELSE [t |-> "join", ps |-> es]
    [] p.t = "union"  -> [t |-> "union", ps |-> [k \in 1..Len(p.ps) |-> NormP(p.ps[k])]]
    [] p.t = "graph"  -> [t |-> "graph", name |-> p.name, p |-> NormP(p.p)]
    [] p.t = "sub"    -> [t |-> "sub", q |-> NormQ(p.q)]
    [] p.t = "bgp"    -> [t |-> "bgp", tps |-> p.tps]
    [] p.t = "bind"   -> [t |-> "bind", args |-> p.args, v |-> p.v]
    [] p.t = "values" -> [t |-> "values", vars |-> p.vars, rows |-> p.rows]
    [] p.t = "filter" -> [t |-> "filter", e |-> p.e]
    [] OTHER          -> [t |-> "unit"]

NormQ(q) == [distinct |-> q.distinct, star |-> q.star, proj |-> IF q.star THEN <<>> ELSE q.proj, from |-> q.from, fromnamed |-> q.fromnamed,
             p |-> NormP(q.p), group |-> q.group, order |-> q.order, limit |-> q.limit]

NormU(op) == [form |-> op.form, del |-> op.del, ins |-> op.ins,
              \* DELETE WHERE has one block: its pattern is derived from the template, not written (the parser derives one GRAPH
              \* block per quad, the generator one per run of quads of the same graph - the same pattern); only the template is compared
              where |-> IF op.form \in {"insert_data", "delete_data", "delete_where_short"} THEN [t |-> "unit"] ELSE NormP(op.where)]

SameTree(e) ==
  /\ e.kind = e.case.kind
  /\ CASE e.kind = "select" -> NormQ(e.tree) = NormQ(e.case.tree)
        [] e.kind = "group" -> NormP(e.tree) = NormP(e.case.tree)
        [] OTHER -> NormU(e.tree) = NormU(e.case.tree)

Judge(e) ==
  IF e.res = "panic" THEN "panic"
  ELSE IF e.case.fault = ""
         THEN (IF e.res # "ok" THEN "valid text rejected"
               ELSE IF ~e.restblank THEN "input not consumed"
               ELSE IF ~SameTree(e) THEN "different structure" ELSE "ok")
  ELSE IF e.parser = "select" /\ e.res = "ok" /\ e.rest # 0 THEN "accepted without consuming the input" ELSE "ok"

Step == LET e == Rec[l] v == Judge(e) IN IF v = "ok" THEN TRUE ELSE PrintT(<<"FAIL", e.run, v>>)

Init == l = 1
Next == l <= Len(Rec) /\ Step /\ l' = l + 1
Spec == Init /\ [][Next]_l

Consumed == IF TLCGet("stats").diameter - 1 = Len(Rec) THEN TRUE
            ELSE PrintT(<<"STUCK", TLCGet("stats").diameter, Len(Rec)>>) /\ FALSE
=============================================================================
