------------------------------- MODULE MCQuads -------------------------------
(* Edge emission for spec -> implementation replay: every transition of Quads.tla  *)
(* (bounded) is printed once as JSON.  `act` is hidden from the fingerprint (VIEW). *)
EXTENDS Quads, Json, TLC
CONSTANT MaxQuads
VARIABLE act
Bound == Cardinality(quads) <= MaxQuads
EInit == Init /\ act = [op |-> "init"]
ENext == \/ \E q \in AllQuad : \/ Insert(q) /\ act' = [op |-> "insert", q |-> q]
                               \/ Delete(q) /\ act' = [op |-> "delete", q |-> q]
         \/ \E g \in Graphs : \/ CreateGraph(g) /\ act' = [op |-> "create", g |-> g]
                              \/ ClearGraph(g) /\ act' = [op |-> "clearg", g |-> g]
                              \/ DropGraph(g) /\ act' = [op |-> "drop", g |-> g]
         \/ Clear /\ act' = [op |-> "clear"]
         \/ Rebuild /\ act' = [op |-> "rebuild"]
ESpec == EInit /\ [][ENext]_<<quads, catalog, act>>
View == <<quads, catalog>>
Emit == PrintT(<<"REPLAY", ToJson([from |-> [q |-> quads, c |-> catalog], act |-> act',
                                   to |-> [q |-> quads', c |-> catalog']])>>)
=============================================================================
