SPECIFICATION LSpecBad
CONSTANTS
  Seeds = {1, 2}
  MaxNodes = 7
INVARIANT LInv
PROPERTY Grows
CHECK_DEADLOCK FALSE
