------------------------------- MODULE Window -------------------------------
(***************************************************************************)
(* Code-shaped model of kolibrie::rsp::s2r::CSPARQLWindow (time-driven     *)
(* tick, report strategy OnWindowClose [+ NonEmptyContent]) together with  *)
(* the requirement C09 states about what a consumer observes.              *)
(*                                                                         *)
(* One action, Add(t), is one call of add_to_window(item, t): scope(),     *)
(* membership update / eviction, choice of the window to report, the       *)
(* app_time guard.  Ghost variables: stream (timestamps pushed so far;     *)
(* item i is the i-th push) and fired (what the consumer received).        *)
(***************************************************************************)
EXTENDS Naturals, Integers, Sequences, FiniteSets, TLC

CONSTANTS MaxTs,      \* timestamps are 0..MaxTs
          MaxLen,     \* stream length bound
          Widths,     \* set of widths explored
          Slides,     \* set of slides explored
          NeModes,    \* subset of BOOLEAN: TRUE = report strategy additionally contains NonEmptyContent
          FixEvict    \* TRUE: windows that have not opened yet survive eviction (the repaired code)

VARIABLES width, slide, ne, active, appTime, stream, fired, flushed
vars == <<width, slide, ne, active, appTime, stream, fired, flushed>>

CeilDiv(a, b) == (a + b - 1) \div b
Sat(x) == IF x < 0 THEN 0 ELSE x             \* f64 -> usize cast saturates at 0

\* scope(): the window opens considered for event time t (loop in scope())
ScopeOpens(t) ==
  LET csup  == CeilDiv(t, slide) * slide
      first == csup - width
  IN  {first} \cup {first + (k * slide) : k \in {j \in 1..(MaxTs + width) : first + (j * slide) <= t}}

Win(o) == [open |-> Sat(o), close |-> Sat(o + width), items |-> {}]
Key(w) == <<w.open, w.close>>

AfterScope(t) ==
  active \cup {Win(o) : o \in {p \in ScopeOpens(t) : \A w \in active : Key(w) # Key(Win(p))}}

Reportable(w, t) == w.close <= t /\ (ne => w.items # {})

Add(t) ==
  /\ Len(stream) < MaxLen
  /\ IF stream = <<>> THEN TRUE ELSE t >= stream[Len(stream)]
  /\ LET id      == Len(stream) + 1
         scoped  == AfterScope(t)
         updated == {[w EXCEPT !.items = @ \cup {<<id, t>>}] : w \in {v \in scoped : v.open <= t /\ t < v.close}}
         kept    == IF FixEvict THEN {v \in scoped : v.open > t} ELSE {}
         cand    == {w \in scoped : Reportable(w, t)}
     IN  /\ stream' = Append(stream, t)
         /\ active' = updated \cup kept
         /\ IF cand # {} /\ t > appTime
              THEN LET mx == CHOOSE w \in cand : \A v \in cand : v.close <= w.close
                   IN  /\ appTime' = t
                       /\ fired' = Append(fired, [idx |-> id, ts |-> t, close |-> mx.close, items |-> mx.items])
              ELSE UNCHANGED <<appTime, fired>>
  /\ UNCHANGED <<width, slide, ne, flushed>>

\* flush() (called by RSPEngine::stop): one final report holding the merged contents of all windows that are still
\* active, if there is any item in them.  Not a window report in the sense of C09 (its content is not one interval);
\* specified here because the engine's last firing is produced by it.
Flush ==
  /\ flushed = <<>> /\ stream # <<>>
  /\ LET merged == UNION {w.items : w \in active}
     IN  flushed' = IF merged = {} THEN <<[items |-> {}, sent |-> FALSE]>> ELSE <<[items |-> merged, sent |-> TRUE]>>
  /\ UNCHANGED <<width, slide, ne, active, appTime, stream, fired>>

Init == /\ width \in Widths /\ slide \in Slides /\ ne \in NeModes
        /\ active = {} /\ appTime = 0 /\ stream = <<>> /\ fired = <<>> /\ flushed = <<>>

Next == (flushed = <<>> /\ \E t \in 0..MaxTs : Add(t)) \/ Flush
Spec == Init /\ [][Next]_vars

---------------------------------------------------------------------------
(* Requirement (C09), stated on the ghost variables only.                  *)

ItemsIn(lo, hi) == {<<i, stream[i]>> : i \in {j \in 1..Len(stream) : lo <= stream[j] /\ stream[j] < hi}}

ContentExact ==
  \A k \in 1..Len(fired) :
     LET f == fired[k] IN
       /\ f.close % slide = 0
       /\ f.close <= f.ts
       /\ f.items = ItemsIn(f.close - width, f.close)

Monotone ==
  \A k \in 1..(Len(fired) - 1) :
     /\ fired[k].ts < fired[k + 1].ts
     /\ fired[k].close <= fired[k + 1].close

Dense == \A i \in 1..(Len(stream) - 1) : stream[i + 1] - stream[i] <= slide

\* every interval that closes while the stream runs is reported exactly once
ExactlyOnce ==
  (Len(stream) >= 1 /\ Dense) =>
     \A c \in (stream[1] + 1)..stream[Len(stream)] :
        (c % slide = 0 /\ (ne => ItemsIn(c - width, c) # {})) =>
            Cardinality({k \in 1..Len(fired) : fired[k].close = c}) = 1

\* flush requirement: the merged content is exactly the items whose timestamp lies in a window that still contains the last
\* timestamp T, i.e. the items at or after the smallest aligned open o with o <= T < o + width
FlushExact ==
  flushed # <<>> =>
     LET T == stream[Len(stream)]
         opens == {o \in (0 - width)..T : (o + width) % slide = 0 /\ o <= T /\ T < o + width}
         expected == IF opens = {} THEN {} ELSE LET omin == CHOOSE o \in opens : \A p \in opens : o <= p IN ItemsIn(omin, T + 1)
     IN  flushed[1].items = expected /\ flushed[1].sent = (expected # {})

\* structural invariant of the code-shaped part: one window per key
UniqueKeys == \A v, w \in active : Key(v) = Key(w) => v = w

=============================================================================
