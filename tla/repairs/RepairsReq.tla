------------------------------ MODULE RepairsReq ------------------------------
(***************************************************************************)
(* Requirement module for C19: inconsistency-tolerant query answering.     *)
(*                                                                         *)
(* A fact is a triple <<s, p, o>> of positive integers.  A pattern is a    *)
(* triple of terms: positive integer = constant, negative integer =        *)
(* variable.  An integrity constraint is a non-empty sequence of patterns  *)
(* (its body): a fact set S violates it when some substitution maps every  *)
(* pattern of the body into S.  Everything is an operator over explicit    *)
(* arguments (F facts, C sequence of constraint bodies) so that the        *)
(* code-shaped module, the model-checking module and the trace             *)
(* specification evaluate exactly the same definitions.                    *)
(***************************************************************************)
EXTENDS Integers, Sequences, FiniteSets

ToSet(sq) == {sq[i] : i \in 1..Len(sq)}

VarsOfPat(p) == {p[i] : i \in {j \in 1..3 : p[j] < 0}}
VarsOf(body) == UNION {VarsOfPat(body[i]) : i \in 1..Len(body)}

\* A partial substitution is a function from the variables of the body to
\* Nat with 0 = unbound; Bind threads a success flag.
Bind(sub, t, c) ==
  IF ~sub.ok THEN sub
  ELSE IF t > 0 THEN [ok |-> t = c, m |-> sub.m]
  ELSE IF sub.m[t] = 0 THEN [ok |-> TRUE, m |-> [sub.m EXCEPT ![t] = c]]
  ELSE [ok |-> sub.m[t] = c, m |-> sub.m]

MatchFact(m, p, f) == Bind(Bind(Bind([ok |-> TRUE, m |-> m], p[1], f[1]), p[2], f[2]), p[3], f[3])

\* all substitutions that map body[k..] into S and extend one of subs
RECURSIVE Extend(_, _, _, _)
Extend(subs, body, k, S) ==
  IF k > Len(body) \/ subs = {} THEN subs
  ELSE LET cand == {MatchFact(m, body[k], f) : m \in subs, f \in S}
       IN  Extend({r.m : r \in {c \in cand : c.ok}}, body, k + 1, S)

Solutions(body, S) == Extend({[v \in VarsOf(body) |-> 0]}, body, 1, S)

Matches(pat, f) == MatchFact([v \in VarsOfPat(pat) |-> 0], pat, f).ok

\* the property's precondition on constraints: every body has at least one atom
WellFormed(C) == \A i \in 1..Len(C) : Len(C[i]) >= 1

Consistent(S, C) == \A i \in 1..Len(C) : Solutions(C[i], S) = {}

(***************************************************************************)
(* Conflicts of F: the images of the constraint bodies under the           *)
(* substitutions into F.  A subset S of F is consistent iff it contains no *)
(* conflict (LawConflicts below: for S \subseteq F this is the same as     *)
(* Consistent(S, C)); the subset-level definitions are written over the    *)
(* conflicts so that the bodies are matched once per instance.             *)
(***************************************************************************)
Subst(m, p) == <<IF p[1] > 0 THEN p[1] ELSE m[p[1]], IF p[2] > 0 THEN p[2] ELSE m[p[2]], IF p[3] > 0 THEN p[3] ELSE m[p[3]]>>
Image(m, body) == {Subst(m, body[k]) : k \in 1..Len(body)}
Conflicts(F, C) == UNION {{Image(m, C[i]) : m \in Solutions(C[i], F)} : i \in 1..Len(C)}
Free(S, K) == \A k \in K : ~(k \subseteq S)          \* S contains no conflict of K

ConsistentSubsets(F, C) == LET K == Conflicts(F, C) IN {S \in SUBSET F : Free(S, K)}

\* the repairs: subset-maximal consistent subsets of F
Repairs(F, C) ==
  LET K  == Conflicts(F, C)
      CS == {S \in SUBSET F : Free(S, K)}
  IN  {S \in CS : \A T \in CS : ~(S \subseteq T /\ S # T)}

\* facts that hold in every repair, and the answers to a goal pattern
InEvery(F, C) == LET Rs == Repairs(F, C) IN {f \in F : \A R \in Rs : f \in R}
AnswerFacts(goal, F, C) == {f \in InEvery(F, C) : Matches(goal, f)}

\* minimal conflict sets and the facts not involved in any conflict
MinimalConflicts(F, C) ==
  LET K == Conflicts(F, C)
      IS == {S \in SUBSET F : ~Free(S, K)}
  IN  {S \in IS : \A T \in IS : ~(T \subseteq S /\ T # S)}
ConflictFree(F, C) == F \ UNION MinimalConflicts(F, C)

(***************************************************************************)
(* Laws of the requirement (checked by TLC for every small instance in     *)
(* MCRepairs): the conflict formulation agrees with matching the bodies in *)
(* the subset itself; consistency is anti-monotone, so one-fact extensions *)
(* decide maximality; the minimal conflict sets are the minimal conflicts; *)
(* a fact is in every repair iff it is in no minimal conflict set (the     *)
(* property's "facts not involved in any conflict are always answered" is  *)
(* the <= direction); there is always at least one repair.                 *)
(***************************************************************************)
LawConflicts(F, C) == \A S \in SUBSET F : Consistent(S, C) <=> Free(S, Conflicts(F, C))
LawLocalMaximality(F, C) ==
  LET K == Conflicts(F, C)
  IN  Repairs(F, C) = {S \in SUBSET F : Free(S, K) /\ \A f \in F \ S : ~Free(S \cup {f}, K)}
LawMinimalConflicts(F, C) ==
  LET K == Conflicts(F, C) IN MinimalConflicts(F, C) = {k \in K : \A k2 \in K : ~(k2 \subseteq k /\ k2 # k)}
LawConflictFree(F, C) == InEvery(F, C) = ConflictFree(F, C)
LawSomeRepair(F, C) == Repairs(F, C) # {}
Laws(F, C) == /\ LawConflicts(F, C) /\ LawLocalMaximality(F, C) /\ LawMinimalConflicts(F, C)
              /\ LawConflictFree(F, C) /\ LawSomeRepair(F, C)

\* Evaluation forms used where many instances are judged (trace validation); equal to the
\* definitions above by LawLocalMaximality / LawMinimalConflicts.
RepairsE(F, K) == {S \in SUBSET F : Free(S, K) /\ \A f \in F \ S : ~Free(S \cup {f}, K)}
InEveryE(F, K) == LET Rs == RepairsE(F, K) IN {f \in F : \A R \in Rs : f \in R}
ConflictFreeE(F, K) == F \ UNION {k \in K : \A k2 \in K : ~(k2 \subseteq k /\ k2 # k)}
=============================================================================
