"""Common machinery for /verif/bin/check.

Layers (DESIGN.md section 2):
  L1  tlc_mc()      exhaustive TLC run of a code-shaped model against its requirement
  L2  tlc_emit()    behaviours printed by TLC (REPLAY lines) -> cases for the Rust harness
  L3  tlc_trace()   ndjson trace recorded from the real code -> TLC trace specification

Exit codes of a check: 0 held (possibly KNOWN-FINDING lines), 1 VIOLATION, 2 tool error.
"""
import hashlib
import json
import os
import re
import shutil
import subprocess
import sys
import time

ROOT = os.path.dirname(os.path.dirname(os.path.abspath(__file__)))
TLA = os.path.join(ROOT, "tla")
WORK = os.path.join(ROOT, "work")
HARNESS = os.path.join(ROOT, "harness")
KVERIF = os.path.join(HARNESS, "target", "debug", "kverif")
EVID = os.path.join(ROOT, "evidence")
REPLAYS = os.path.join(ROOT, "replays")
FINDINGS = os.path.join(ROOT, "known_findings.json")
JAR = "/opt/veriftools/tla/tla2tools.jar:/opt/veriftools/tla/CommunityModules-deps.jar"


class ToolError(Exception):
    pass


def log(*a):
    print(*a, flush=True)


def workdir(name):
    d = os.path.join(WORK, name)
    shutil.rmtree(d, ignore_errors=True)
    os.makedirs(d, exist_ok=True)
    return d


# --------------------------------------------------------------------------- build

def build_harness():
    """Build the harness against /repo's current working tree (hooks on)."""
    t0 = time.time()
    env = dict(os.environ)
    env["CARGO_NET_OFFLINE"] = "true"
    # a background sweep started with `vp run --with-repo` works on snapshots of /verif and /repo: point the
    # snapshot's harness at the repo snapshot (never done in /verif itself, whose checks must build from /repo)
    snap = os.environ.get("VP_RUN_REPO")
    if snap and ROOT.startswith("/root/.vp/runs/") and os.path.isdir(snap):
        ct = os.path.join(HARNESS, "Cargo.toml")
        txt = open(ct).read()
        if '"/repo/' in txt:
            open(ct, "w").write(txt.replace('"/repo/', '"' + snap.rstrip("/") + "/"))
    lock = os.path.join(HARNESS, "Cargo.lock")
    if not os.path.exists(lock):
        shutil.copy(os.path.join(os.environ.get("KOLIBRIE_REPO", "/repo"), "Cargo.lock"), lock)
    # serialise concurrent builds (several checks may be started at once)
    import fcntl
    os.makedirs(WORK, exist_ok=True)
    with open(os.path.join(WORK, ".build.lock"), "w") as lk:
        fcntl.flock(lk, fcntl.LOCK_EX)
        p = subprocess.run(["cargo", "build", "--offline", "--quiet"], cwd=HARNESS, env=env,
                           stdout=subprocess.PIPE, stderr=subprocess.STDOUT, text=True)
    if p.returncode != 0:
        sys.stdout.write(p.stdout[-6000:])
        raise ToolError("harness build failed (not a verdict)")
    return time.time() - t0


def kverif(args, timeout=3600, env_extra=None):
    env = dict(os.environ)
    env.setdefault("RUST_BACKTRACE", "0")
    if env_extra:
        env.update(env_extra)
    p = subprocess.run([KVERIF] + [str(a) for a in args], stdout=subprocess.PIPE, stderr=subprocess.STDOUT,
                       text=True, timeout=timeout, env=env)
    if p.returncode != 0:
        sys.stdout.write(p.stdout[-4000:])
        raise ToolError("harness driver failed: kverif " + " ".join(map(str, args[:3])))
    return p.stdout


def kverif_restartable(driver, cases_path, out_path, extra=None, timeout=3600):
    """Run a driver that exits with status 3 after recording a hung case: restart it behind that case until all cases ran."""
    ncases = sum(1 for l in open(cases_path) if l.strip())
    skip, parts = 0, []
    while skip < ncases:
        part = f"{out_path}.r{len(parts)}"
        env = dict(os.environ)
        env.setdefault("RUST_BACKTRACE", "0")
        p = subprocess.run([KVERIF, driver, "--cases", cases_path, "--out", part, "--skip", str(skip)] + [str(x) for x in (extra or [])],
                           stdout=subprocess.PIPE, stderr=subprocess.STDOUT, text=True, timeout=timeout, env=env)
        parts.append(part)
        if p.returncode == 0:
            break
        if p.returncode != 3:
            sys.stdout.write(p.stdout[-3000:])
            raise ToolError(f"harness driver failed: kverif {driver} (exit {p.returncode})")
        done = 0
        last_run = None
        for line in open(part):
            if '"ev":"reset"' in line[:40] or line.startswith('{"case"'):
                try:
                    last_run = json.loads(line).get("run", last_run)
                except ValueError:
                    pass
        if last_run is None or last_run <= skip:
            raise ToolError("driver reported a hang but recorded no case")
        skip = last_run          # run numbers are 1-based case indices
    with open(out_path, "w") as out:
        for part in parts:
            with open(part) as f:
                out.write(f.read())
            os.remove(part)


# --------------------------------------------------------------------------- TLC

def _tlc(tla_dir, module, cfg, workers, timeout, env_extra=None, extra=None, tag="tlc", heap=None):
    meta = workdir("meta-" + tag)
    # modules shared between families (Sparql.tla, ...) are found through the TLA-Library path
    java = ["java", "-XX:+UseParallelGC", "-DTLA-Library=" + os.path.join(TLA, "sparql")]
    if heap:
        java.append("-Xmx" + heap)
    cmd = ["timeout", str(timeout)] + java + ["-cp", JAR, "tlc2.TLC", "-workers", str(workers),
                                              "-metadir", meta, "-cleanup", "-noGenerateSpecTE",
                                              "-config", cfg] + (extra or []) + [module]
    env = dict(os.environ)
    if env_extra:
        env.update(env_extra)
    t0 = time.time()
    p = subprocess.run(cmd, cwd=tla_dir, stdout=subprocess.PIPE, stderr=subprocess.STDOUT, text=True, env=env)
    shutil.rmtree(meta, ignore_errors=True)
    return p.returncode, p.stdout, time.time() - t0


_STATS = re.compile(r"(\d+) states generated, (\d+) distinct states found")


def parse_stats(out):
    m = None
    for m in _STATS.finditer(out):
        pass
    if not m:
        return 0, 0
    return int(m.group(1)), int(m.group(2))


def tlc_mc(family, module, cfg, workers=8, timeout=1800, coverage=True, tag=None, expect_violation=None):
    """Exhaustive model check.  Returns dict(states, distinct, violated, out, uncovered)."""
    extra = ["-coverage", "1"] if coverage else []
    rc, out, wall = _tlc(os.path.join(TLA, family), module, cfg, workers, timeout, extra=extra,
                         tag=tag or (family + "-" + cfg), env_extra={"JAVA_TOOL_OPTIONS": "-Xss512m"})
    gen, dist = parse_stats(out)
    violated = None
    m = re.search(r"Error: Invariant (\S+) is violated", out)
    if m:
        violated = m.group(1)
    m2 = re.search(r"Error: Action property (\S+) is violated|Temporal properties were violated", out)
    if m2 and not violated:
        violated = m2.group(1) or "temporal"
    if rc == 124:
        raise ToolError(f"TLC timeout on {family}/{cfg}")
    if violated is None and "Model checking completed. No error has been found." not in out:
        sys.stdout.write(out[-5000:])
        raise ToolError(f"TLC failed on {family}/{module} {cfg}")
    # vacuity: top-level actions of the spec module never taken
    uncovered = []
    for m in re.finditer(r"^<(\w+) line .*?>: (\d+):(\d+)", out, re.M):
        if int(m.group(3)) == 0 and m.group(1) not in ("Init",):
            uncovered.append(m.group(1))
    return dict(generated=gen, states=dist, transitions=gen, violated=violated, out=out, uncovered=sorted(set(uncovered)), wall=wall)


def apalache_check(family, module, args, timeout=1200, tag="apalache"):
    """apalache-mc check ... (symbolic, bounded in set cardinality but not in values).  Returns "ok" | "error" (a counterexample
    was found); anything else (type error, timeout, crash) is a ToolError."""
    outdir = os.path.join(workdir("apalache"), tag)
    cmd = ["timeout", str(timeout), "apalache-mc", "check", f"--out-dir={outdir}"] + list(args) + [module]
    t0 = time.time()
    p = subprocess.run(cmd, cwd=os.path.join(TLA, family), stdout=subprocess.PIPE, stderr=subprocess.STDOUT, text=True)
    out = p.stdout
    shutil.rmtree(outdir, ignore_errors=True)
    if "The outcome is: NoError" in out:
        return "ok", time.time() - t0
    if "The outcome is: Error" in out:
        return "error", time.time() - t0
    sys.stdout.write(out[-3000:])
    raise ToolError(f"apalache-mc failed on {family}/{module} {' '.join(args)} (exit {p.returncode})")


def tlc_emit(family, module, cfg, workers=8, timeout=1800, tag=None):
    """Run TLC and collect the JSON behaviours it prints as <<"REPLAY", "...">>."""
    rc, out, wall = _tlc(os.path.join(TLA, family), module, cfg, workers, timeout,
                         tag=tag or (family + "-emit"), env_extra={"JAVA_TOOL_OPTIONS": "-Xss512m"})
    if rc == 124:
        raise ToolError(f"TLC timeout on {family}/{cfg}")
    if "Model checking completed. No error has been found." not in out and "Finished in" not in out:
        sys.stdout.write(out[-5000:])
        raise ToolError(f"TLC failed on {family}/{module} {cfg}")
    cases = []
    for line in out.splitlines():
        if line.startswith('<<"REPLAY", '):
            body = line[len('<<"REPLAY", '):-2]
            cases.append(json.loads(json.loads(body)))
    gen, dist = parse_stats(out)
    return cases, dict(generated=gen, states=dist, wall=wall)


def tlc_simulate(family, module, cfg, num, depth, env, timeout=1800, tag=None):
    """TLC -simulate: collect the JSON objects printed as <<"REPLAY", "...">> (one or more per behaviour)."""
    rc, out, wall = _tlc(os.path.join(TLA, family), module, cfg, 1, timeout, tag=tag or (family + "-sim"),
                         env_extra=dict(env, JAVA_TOOL_OPTIONS="-Xss512m"), extra=["-simulate", f"num={num}", "-depth", str(depth)])
    if rc == 124:
        raise ToolError(f"TLC simulation timeout on {family}/{cfg}")
    cases = []
    for line in out.splitlines():
        if line.startswith('<<"REPLAY", '):
            cases.append(json.loads(json.loads(line[len('<<"REPLAY", '):-2])))
    if not cases:
        sys.stdout.write(out[-4000:])
        raise ToolError(f"TLC simulation of {family}/{module} produced no behaviour")
    return cases, dict(wall=wall)


CHUNK_BYTES = 24 * 1024 * 1024


def tlc_trace(family, module, cfg, trace, timeout=3600, tag=None, heap="4g", defines=None):
    """Validate a recorded ndjson trace; large traces are split (at run boundaries when the trace has `reset` events,
    at event boundaries otherwise - events of such traces are judged independently) and validated by up to 3 JVMs."""
    size = os.path.getsize(trace)
    if size <= CHUNK_BYTES:
        return _tlc_trace_one(family, module, cfg, trace, timeout, tag, heap, defines)
    parts, cur, cur_bytes = [], [], 0
    has_reset = False
    with open(trace) as f:
        for line in f:
            # keys are written in sorted order: a big "case" object may precede "ev"
            is_reset = '"ev":"reset"' in line or '"ev": "reset"' in line      # serde_json / json.dumps spelling
            has_reset = has_reset or is_reset
            if cur and cur_bytes >= CHUNK_BYTES and (is_reset or not has_reset):
                parts.append(cur)
                cur, cur_bytes = [], 0
            cur.append(line)
            cur_bytes += len(line)
    if cur:
        parts.append(cur)
    paths = []
    for i, lines in enumerate(parts):
        pth = f"{trace}.part{i}"
        with open(pth, "w") as f:
            f.writelines(lines)
        paths.append(pth)
    import concurrent.futures
    out = dict(fail=[], modeldiff=[], info=[], states=0, wall=0.0, out="")
    with concurrent.futures.ThreadPoolExecutor(max_workers=3) as ex:
        futs = [ex.submit(_tlc_trace_one, family, module, cfg, pth, timeout, f"{tag or family}-p{i}", heap, defines) for i, pth in enumerate(paths)]
        for fu in futs:
            r = fu.result()
            for k in ("fail", "modeldiff", "info"):
                out[k] += r[k]
            out["states"] += r["states"]
            out["wall"] += r["wall"]
    for pth in paths:
        os.remove(pth)
    return out


def _tlc_trace_one(family, module, cfg, trace, timeout=3600, tag=None, heap="4g", defines=None):
    """Validate a recorded ndjson trace.  Returns dict(fail, modeldiff, info, consumed, states)."""
    env = {"TRACE": trace,
           "JAVA_TOOL_OPTIONS": "-Xss1g -Dtlc2.tool.queue.IStateQueue=StateDeque"}
    if defines:
        env.update(defines)
    rc, out, wall = _tlc(os.path.join(TLA, family), module, cfg, 1, timeout, env_extra=env,
                         tag=tag or (family + "-trace"), heap=heap)
    if rc == 124:
        raise ToolError(f"TLC trace validation timeout ({family}/{module})")
    fails, diffs, infos, stuck = [], [], [], []
    for tag_, body in _printed_tuples(out):
        if tag_ == "FAIL":
            fails.append(body)
        elif tag_ == "MODELDIFF":
            diffs.append(body)
        elif tag_ == "INFO":
            infos.append(body)
        elif tag_ == "STUCK":
            stuck.append(body)
    ok = "Model checking completed. No error has been found." in out
    if stuck or not ok:
        sys.stdout.write(out[-6000:])
        raise ToolError(f"trace specification {family}/{module} did not consume the trace "
                        f"(modelling or tooling error, not a verdict): {stuck[:1]}")
    gen, dist = parse_stats(out)
    return dict(fail=fails, modeldiff=diffs, info=infos, states=dist, wall=wall, out=out)


def _printed_tuples(out):
    """Tuples printed by PrintT whose first element is a tag string; TLC wraps long tuples over several lines."""
    res = []
    for m in re.finditer(r'<<\s*"(FAIL|MODELDIFF|INFO|STUCK)"', out):
        depth, i = 0, m.start()
        while i < len(out) - 1:
            two = out[i:i + 2]
            if two == "<<":
                depth += 1
                i += 2
                continue
            if two == ">>":
                depth -= 1
                i += 2
                if depth == 0:
                    break
                continue
            if out[i] == '"':
                j = i + 1
                while j < len(out) and out[j] != '"':
                    j += 2 if out[j] == "\\" else 1
                i = j + 1
                continue
            i += 1
        text = " ".join(out[m.start():i].split())
        res.append((m.group(1), _tuple(text)))
    return res


def _printed_tuples_any(out, tag):
    """Like _printed_tuples for an arbitrary tag string: list of (tag, [elements after the tag])."""
    res = []
    for m in re.finditer(r'<<\s*"' + re.escape(tag) + '"', out):
        end = out.find(">>", m.start())
        text = " ".join(out[m.start():end + 2].split())
        res.append((tag, _tuple(text)))
    return res


def _tuple(line):
    """Parse a TLC-printed tuple of strings / numbers, e.g. <<"FAIL", 12, "x">>."""
    body = line.strip()[2:-2]
    parts = []
    for tok in re.findall(r'"(?:[^"\\]|\\.)*"|-?\d+|TRUE|FALSE', body):
        if tok.startswith('"'):
            parts.append(json.loads(tok))
        elif tok in ("TRUE", "FALSE"):
            parts.append(tok == "TRUE")
        else:
            parts.append(int(tok))
    return parts[1:]


# --------------------------------------------------------------------------- traces

def read_ndjson(path):
    with open(path) as f:
        return [json.loads(l) for l in f if l.strip()]


def write_ndjson(path, events):
    with open(path, "w") as f:
        for e in events:
            f.write(json.dumps(e, separators=(",", ":")) + "\n")


def split_runs(events):
    """Group a trace into runs; a run starts at a `reset` event and is keyed by its `run` field."""
    runs, cur = {}, None
    for e in events:
        if e.get("ev") == "reset":
            cur = e["run"]
            runs[cur] = []
        if cur is not None:
            runs[cur].append(e)
    return runs


def case_hash(obj):
    return hashlib.sha1(json.dumps(obj, sort_keys=True).encode()).hexdigest()[:16]


# --------------------------------------------------------------------------- findings / verdict

def load_findings(prop):
    if not os.path.exists(FINDINGS):
        return []
    with open(FINDINGS) as f:
        data = json.load(f)
    return [e for e in data.get("findings", []) if e.get("property") == prop]


class Verdict:
    """Collects violations, folds the ones matching a listed known finding, prints the lines
    the interface asks for and yields the exit code."""

    def __init__(self, prop, seed, tier):
        self.prop, self.seed, self.tier = prop, seed, tier
        self.known = [e for e in load_findings(prop) if e.get("status") == "known"]
        self.known_hits = {}
        self.violations = []
        self.notes = []

    def violation(self, signature, case, detail=""):
        """signature: stable string naming site/trigger/symptom; case: JSON-able replay content."""
        for k in self.known:
            if k.get("signature") == signature:
                self.known_hits.setdefault(k["id"], []).append(case)
                return
        self.violations.append((signature, case, detail))

    def finish(self):
        for k in self.known:
            n = len(self.known_hits.get(k["id"], []))
            # every listed finding is printed on every run; the count says whether this run's exploration hit it
            log(f"KNOWN-FINDING: property={self.prop} {k['id']}: {k['text']} [{n} case(s) this run]")
            if not n:
                self.notes.append(f"known finding {k['id']} was not reproduced in this run")
        if not self.violations:
            return 0
        os.makedirs(REPLAYS, exist_ok=True)
        seen = set()
        for sig, case, detail in self.violations:
            if sig in seen:
                continue
            seen.add(sig)
            name = f"{self.prop}-{self.tier}-{self.seed}-{case_hash([sig, case])}.json"
            path = os.path.join(REPLAYS, name)
            with open(path, "w") as f:
                json.dump({"property": self.prop, "signature": sig, "detail": detail, "case": case}, f, indent=1)
            log(f"VIOLATION property={self.prop} replay={path}")
            log(f"  signature: {sig} {detail}")
        return 1


def write_evidence(prop, tier, seed, level, coverage, assumptions, wall, violations):
    os.makedirs(EVID, exist_ok=True)
    ev = {"property_id": prop, "tier": tier, "seed": int(seed), "level": level, "coverage": coverage,
          "assumptions": assumptions, "wall_s": round(wall, 2), "violations": int(violations)}
    with open(os.path.join(EVID, prop + ".json"), "w") as f:
        json.dump(ev, f, indent=1)
