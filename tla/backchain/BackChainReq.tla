----------------------------- MODULE BackChainReq -----------------------------
(***************************************************************************)
(* Requirement module for C18: backward chaining answers.                  *)
(*                                                                         *)
(* A fact is a triple <<s, p, o>> of positive integers; a pattern is a     *)
(* triple of terms (positive = constant, negative = variable; a variable   *)
(* may stand in the predicate position).  A rule is a record               *)
(* [prem, concl] of two non-empty sequences of patterns; it is safe when   *)
(* every variable of a conclusion occurs in a premise.  Variables are      *)
(* identified by number here: what the variables are *called* in the       *)
(* engine is a dimension of the test cases, the requirement is the same    *)
(* for every naming.                                                       *)
(*                                                                         *)
(*   TP(R, S)        immediate consequence: S plus every conclusion        *)
(*                   instance whose premises are in S                      *)
(*   Stage(R, F, k)  TP^k(F): the facts with a derivation of height <= k   *)
(*   LFP(R, F)       the least model                                       *)
(*   Sound(...)      every answer instance is an instance of the goal and  *)
(*                   a fact of the least model (in particular ground)      *)
(*   Complete(...,D) every fact of TP^D(F) matching the goal is answered   *)
(***************************************************************************)
EXTENDS Integers, Sequences, FiniteSets

VarsOfPat(p) == {p[i] : i \in {j \in 1..3 : p[j] < 0}}
VarsOf(body) == UNION {VarsOfPat(body[i]) : i \in 1..Len(body)}

\* partial substitution: function from the variables to Nat, 0 = unbound
Bind(sub, t, c) ==
  IF ~sub.ok THEN sub
  ELSE IF t > 0 THEN [ok |-> t = c, m |-> sub.m]
  ELSE IF sub.m[t] = 0 THEN [ok |-> TRUE, m |-> [sub.m EXCEPT ![t] = c]]
  ELSE [ok |-> sub.m[t] = c, m |-> sub.m]

MatchFact(m, p, f) == Bind(Bind(Bind([ok |-> TRUE, m |-> m], p[1], f[1]), p[2], f[2]), p[3], f[3])

RECURSIVE Extend(_, _, _, _)
Extend(subs, body, k, S) ==
  IF k > Len(body) \/ subs = {} THEN subs
  ELSE LET p    == body[k]
           \* facts that agree with the constants of the pattern (cheap pre-selection)
           Sp   == {f \in S : (p[1] < 0 \/ p[1] = f[1]) /\ (p[2] < 0 \/ p[2] = f[2]) /\ (p[3] < 0 \/ p[3] = f[3])}
           cand == {MatchFact(m, p, f) : m \in subs, f \in Sp}
       IN  Extend({r.m : r \in {c \in cand : c.ok}}, body, k + 1, S)

\* all substitutions of the body's variables that map every pattern of the body into S
Solutions(body, S) == Extend({[v \in VarsOf(body) |-> 0]}, body, 1, S)

Subst(m, p) == <<IF p[1] > 0 THEN p[1] ELSE m[p[1]], IF p[2] > 0 THEN p[2] ELSE m[p[2]], IF p[3] > 0 THEN p[3] ELSE m[p[3]]>>

Matches(pat, f) == MatchFact([v \in VarsOfPat(pat) |-> 0], pat, f).ok

SafeRule(r) == Len(r.prem) >= 1 /\ Len(r.concl) >= 1 /\ VarsOf(r.concl) \subseteq VarsOf(r.prem)
Safe(R) == \A i \in 1..Len(R) : SafeRule(R[i])

\* R is a sequence of rules
Derive(r, S) == {Subst(m, r.concl[j]) : m \in Solutions(r.prem, S), j \in 1..Len(r.concl)}
TP(R, S) == S \cup UNION {Derive(R[i], S) : i \in 1..Len(R)}

RECURSIVE Stage(_, _, _)
Stage(R, F, k) == IF k = 0 THEN F ELSE TP(R, Stage(R, F, k - 1))

RECURSIVE Close(_, _)
Close(R, S) == LET n == TP(R, S) IN IF n = S THEN S ELSE Close(R, n)
LFP(R, F) == Close(R, F)

\* both in one pass: [lfp, st] with st = TP^D(F)
RECURSIVE CloseD(_, _, _, _, _)
CloseD(R, S, k, D, st) ==
  LET n == TP(R, S)
  IN  IF n = S THEN [lfp |-> S, st |-> IF k <= D THEN S ELSE st]
      ELSE CloseD(R, n, k + 1, D, IF k + 1 = D THEN n ELSE st)
Model(R, F, D) == CloseD(R, F, 0, D, F)

Sound(goal, obs, lfp) == \A f \in obs : f \in lfp /\ Matches(goal, f)
Complete(goal, obs, st) == \A f \in st : Matches(goal, f) => f \in obs

(***************************************************************************)
(* Laws (checked by TLC on every instance of MCBackChain): the one-pass    *)
(* evaluation equals the definitions; stages grow and stay inside the      *)
(* least model; the least model is closed and contained in every closed    *)
(* superset of F over the active domain.                                   *)
(***************************************************************************)
LawOnePass(R, F, D) == LET m == Model(R, F, D) IN m.lfp = LFP(R, F) /\ m.st = Stage(R, F, D)
LawStages(R, F, D) == \A k \in 0..D : Stage(R, F, k) \subseteq Stage(R, F, k + 1) /\ Stage(R, F, k) \subseteq LFP(R, F)
LawClosed(R, F) == TP(R, LFP(R, F)) = LFP(R, F) /\ F \subseteq LFP(R, F)
LawLeast(R, F, Universe) == \A M \in SUBSET Universe : (F \subseteq M /\ TP(R, M) = M) => LFP(R, F) \subseteq M
=============================================================================
