---- MODULE MCWindow ----
EXTENDS Window, Json
\* strategy lists of the exhaustive instances (a cfg file cannot hold tuples)
StratDefault == { << <<"close">> >>, << <<"close">>, <<"nonempty">> >> }
StratMore == { << <<"nonempty">>, <<"close">> >>, << <<"close">>, <<"periodic", 2>> >>, << <<"periodic", 2>> >>, << <<"nonempty">> >>,
               << <<"periodic", 3>>, <<"nonempty">>, <<"close">> >>,
               << <<"close">>, <<"change">> >>, << <<"change">>, <<"close">> >>, << <<"nonempty">>, <<"change">> >> }
StratAll == StratDefault \cup StratMore

\* Behaviour emission for spec -> implementation replay: one JSON line per
\* complete stream (every prefix's firings are contained in it).
Emit == (Len(stream) = MaxLen /\ flushed # <<>>) =>
          PrintT(<<"REPLAY", ToJson([w |-> width, s |-> slide, strat |-> strat, stream |-> stream, flush |-> flushed[1],
                     fired |-> [k \in 1..Len(fired) |->
                        [idx |-> fired[k].idx, ts |-> fired[k].ts, close |-> fired[k].close,
                         items |-> fired[k].items]]])>>)
====
