"""C18 - backward chaining returns only entailed answers, and all shallow ones.

L1  tla/backchain/SLDImpl.tla (code-shaped backward_chaining.rs: explicit variable names, binding
    maps with resolve, global renaming counter, per-visit rule renaming, depth cut) against
    tla/backchain/BackChainReq.tla (Sound: instances in LFP(R,F); Complete: every fact of
    TP^MaxDepth(F) matching the goal is answered) for every goal over a small universe whose
    variables are called X, Y (names used inside the rules) or v0, v1, ... (names the engine
    generates).  Negative control: the model of the historic renaming (no reserved names)
    violates CompleteInv (capture of a goal variable called v<k>).
L2  every (program, goal) of L1 with the answer set predicted by SLDImpl is executed on the real
    Reasoner::backward_chaining; BackChainTrace.tla judges the requirement and reports
    MODELDIFF where the code differs from the code-shaped model.
L3  seeded random programs (chains around the depth bound, stratified programs with arbitrary
    term shapes, linear recursion over cyclic graphs) x goal shapes x three naming schemes,
    validated by BackChainTrace.tla (TLC computes LFP and TP^10).
"""
import json
import os
import re
import time
import vlib
from vlib import log

FAMILY = "backchain"
USER_NAMES = {-101: "X", -102: "Y", -103: "Z", -104: "W"}


def name_of(code):
    return USER_NAMES.get(code) or f"v{-code - 1}"


def to_case(b):
    """TLC instance (variable names as negative codes) -> driver case (variables by index + name lists)."""
    gmap, names, goal = {}, [], []
    for t in b["goal"]:
        if t < 0:
            if t not in gmap:
                gmap[t] = -(len(names) + 1)
                names.append(name_of(t))
            goal.append(gmap[t])
        else:
            goal.append(t)
    while len(names) < 3:
        names.append("U%d" % len(names))
    rules = []
    for r in b["rules"]:
        rules.append({k: [[(t if t > 0 else t + 100) for t in p] for p in r[k]] for k in ("prem", "concl")})
    scheme = "engine" if any(re.fullmatch(r"v\d+", n) for n in names) else "rule"
    return {"cls": "tlc", "scheme": scheme, "facts": b["facts"], "rules": rules, "goal": goal, "names": names,
            "rnames": ["X", "Y", "Z", "W"], "hasmodel": True, "model": b["answers"]}


def sig_for(reset_ev, fail):
    """site | trigger class | symptom.  fail = [run, line, symptom]"""
    case = reset_ev["case"]
    nvars = len({t for t in case["goal"] if t < 0})
    names = [n for n, _ in zip(case.get("names", ["A", "B", "C"]), range(nvars))]
    engine_like = any(re.fullmatch(r"v\d+", n) for n in names)
    recursive = any(p[1] < 0 or p[1] in {c[1] for r2 in case["rules"] for c in r2["concl"]}
                    for r in case["rules"] for p in r["prem"])
    trig = f"goal-vars={nvars},{'named-like-engine-variables(v<k>)' if engine_like else 'other-names'},{'recursive' if recursive else 'non-recursive'}-rules"
    return f"Reasoner::backward_chaining|{trig}|{fail[2]}"


def limited_kverif(args, timeout):
    """Run the driver with a bounded address space and wall time: a blow-up of the engine's exhaustive search
    must not take the machine down.  Both limits end in a ToolError (never a verdict)."""
    import resource
    import subprocess
    soft, hard = resource.getrlimit(resource.RLIMIT_AS)
    resource.setrlimit(resource.RLIMIT_AS, (8 << 30, hard))
    try:
        return vlib.kverif(args, timeout=timeout)
    except subprocess.TimeoutExpired:
        raise vlib.ToolError("harness driver timed out: kverif " + " ".join(map(str, args[:3])))
    finally:
        resource.setrlimit(resource.RLIMIT_AS, (soft, hard))


def part_seed(seed, part):
    """util::Rng streams of nearby seeds are shifted copies of each other (state0 = seed * golden + c), which makes
    the cases of seed s and s+1 largely identical; spread the (seed, part) pairs over the 56-bit range instead."""
    import hashlib
    return int(hashlib.sha1(f"C18:{seed}:{part}".encode()).hexdigest()[:14], 16)


def validate(trace_path, verdict, tag):
    res = vlib.tlc_trace(FAMILY, "BackChainTrace.tla", "BackChainTrace.cfg", trace_path, tag=f"c18-{tag}", heap="6g")
    runs = vlib.split_runs(vlib.read_ndjson(trace_path))
    failed = {}
    for f in res["fail"]:
        failed.setdefault(f[0], f)
    for rid, f in sorted(failed.items()):
        ev = runs[rid]
        verdict.violation(sig_for(ev[0], f), {"driver": "c18", "case": ev[0]["case"], "failing_line": f[1],
                                               "observed": ev[1].get("instances")}, detail=f[2])
    drift = [d[0] for d in res["modeldiff"] if d[0] not in failed]
    # non-trivial (counters printed by the trace specification): the least model has a derived fact and
    # at least one answer is expected
    res["nontrivial"] = {i[0] for i in res["info"] if len(i) >= 5 and i[1] == "goal" and i[2] > 0 and i[3] > 0}
    return runs, failed, drift, res


def case_key(ev):
    return vlib.case_hash({k: ev[0]["case"].get(k) for k in ("facts", "rules", "goal", "names")})


def run(ctx):
    t0 = time.time()
    verdict = vlib.Verdict("C18", ctx.seed, ctx.tier)
    wd = vlib.workdir("c18")
    if ctx.replay:
        case = json.load(open(ctx.replay))["case"]["case"]
        vlib.write_ndjson(os.path.join(wd, "cases.ndjson"), [case])
        vlib.kverif(["c18", "--cases", os.path.join(wd, "cases.ndjson"), "--out", os.path.join(wd, "replay.ndjson")])
        validate(os.path.join(wd, "replay.ndjson"), verdict, "replay")
        return verdict.finish()

    thorough = ctx.tier == "thorough"
    # L1
    mc = vlib.tlc_mc(FAMILY, "MCBackChain.tla", "MC_thorough.cfg" if thorough else "MC_quick.cfg", workers=8, coverage=False)
    log(f"L1 SLDImpl vs BackChainReq: {mc['states']} (program, goal) instances, violated={mc['violated']}")
    if mc["states"] == 0 and not mc["violated"]:
        raise vlib.ToolError("vacuity: L1 explored no instance")
    neg = vlib.tlc_mc(FAMILY, "MCBackChain.tla", "MC_unfixed.cfg", workers=4, coverage=False, tag="c18-neg")
    if neg["violated"] != "CompleteInv":
        raise vlib.ToolError("non-vacuity check failed: the historic renaming (no reserved names) no longer violates CompleteInv in the model")

    # L2: the instances of L1 with the model's predicted answers -> real code
    inst, st = vlib.tlc_emit(FAMILY, "MCBackChain.tla", "MC_emit_thorough.cfg" if thorough else "MC_emit_quick.cfg")
    cases = [to_case(b) for b in inst]
    vlib.write_ndjson(os.path.join(wd, "l2cases.ndjson"), cases)
    limited_kverif(["c18", "--cases", os.path.join(wd, "l2cases.ndjson"), "--out", os.path.join(wd, "l2.ndjson")], 900)
    runs2, failed2, drift2, res2 = validate(os.path.join(wd, "l2.ndjson"), verdict, "l2")
    log(f"L2 replayed {len(cases)} TLC instances on the real code: {len(failed2)} rejected, {len(drift2)} differ from the code-shaped model only")

    # L3
    n3 = 20000 if thorough else 600
    runs3, failed3, infos, tstates = {}, {}, list(res2["info"]), res2["states"]
    distinct_nt = {case_key(runs2[r]) for r in res2["nontrivial"]}
    parts = 8 if thorough else 1
    for part in range(parts):
        path = os.path.join(wd, f"l3-{part}.ndjson")
        try:
            limited_kverif(["c18", "--random", n3 // parts, "--seed", part_seed(ctx.seed, part), "--out", path], 1800)
        except vlib.ToolError as e:
            # the engine did not survive the random programs (crash / memory / time): a tool error, unless the
            # replay layer has already shown violations on the real code - those are reported
            if not verdict.violations:
                raise
            log(f"L3 part {part} not recorded ({e}); reporting the violations found so far")
            break
        r, f, _d, res = validate(path, verdict, f"l3-{part}")
        for k, v in r.items():
            runs3[(part, k)] = v
        for k, v in f.items():
            failed3[(part, k)] = v
        infos += res["info"]
        tstates += res["states"]
        distinct_nt |= {case_key(r[k]) for k in res["nontrivial"]}
    log(f"L3 validated {len(runs3)} random (program, goal, naming) cases: {len(failed3)} rejected")

    if mc["violated"] and not (failed2 or failed3):
        raise vlib.ToolError(f"L1 {mc['violated']} violated in the model but not reproduced on the code: model out of date")
    if drift2 and not verdict.violations:
        log(f"MODEL-DRIFT: {len(drift2)} instances where the code differs from SLDImpl.tla while the requirement holds "
            f"(update the code-shaped model); not a verdict")

    rc = verdict.finish()
    allruns = list(runs2.values()) + list(runs3.values())
    goal_infos = [i for i in infos if len(i) >= 5 and i[1] == "goal"]
    skipped = sum(1 for i in infos if len(i) >= 2 and i[1] == "skipped")
    beyond = sum(1 for i in goal_infos if i[4] > 0)
    schemes = {}
    for ev in allruns:
        schemes[ev[0]["case"].get("scheme", "?")] = schemes.get(ev[0]["case"].get("scheme", "?"), 0) + 1
    s3 = runs3[sorted(runs3)[1]] if len(runs3) > 1 else list(runs2.values())[0]
    cov = {
        "states": mc["states"], "transitions": mc["generated"],
        "traces_validated_against_impl": len(allruns),
        "samples": [{"case": s3[0]["case"], "instances": s3[1]["instances"][:8]},
                    {"tlc_instance": inst[len(inst) // 2]}],
        "evaluations": len(allruns), "distinct_nontrivial": len(distinct_nt),
        "rule": "one evaluation = one call of Reasoner::backward_chaining judged by TLC (Sound against LFP, Complete against TP^10); "
                "distinct by hash of (facts, rules, goal, variable names); non-trivial = the least model has a derived fact and the "
                "goal has at least one expected answer (counted by the trace specification)",
        "exhaustive": True,
        "l1_constants": "MC_thorough.cfg" if thorough else "MC_quick.cfg",
        "l1_negative_control": "MC_unfixed.cfg violates CompleteInv",
        "l2_instances": len(cases), "l3_cases": len(runs3), "model_drift": len(drift2),
        "cases_per_naming_scheme": schemes,
        "cases_with_answers_deeper_than_the_bound": beyond,
        "skipped_outside_precondition": skipped, "trace_states": tstates,
    }
    vlib.write_evidence("C18", ctx.tier, ctx.seed, "model_checking", cov,
                        ["safe positive rules without filters (backward chaining ignores filters and negative premises); ground facts; no quoted triples",
                         "depth bound = MAX_DEPTH = 10 of backward_chaining_helper: facts with a derivation of height <= 10 (TP^10) must be answered; "
                         "deeper entailed facts may or may not be answered (only soundness is required of them)",
                         "L3 programs are restricted to linear recursion over graphs of out-degree <= 2 so that the engine's exhaustive SLD search stays small",
                         "answers are compared as sets of goal instances (multiplicity/order of binding maps is not part of the property)",
                         "L1/L2 exhaustive only for the programs and goal universe of MCBackChain.tla"],
                        time.time() - t0, len(verdict.violations))
    return rc
