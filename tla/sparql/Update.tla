------------------------------- MODULE Update -------------------------------
(***************************************************************************)
(* SPARQL Update (the six forms Kolibrie supports) over the dataset of     *)
(* Sparql.tla, and the frame conditions of the string entry points (C03,   *)
(* C17).                                                                   *)
(*                                                                         *)
(* An operation is [form, del, ins, where]; del / ins are sequences of     *)
(* quad templates <<s, p, o, g>> whose components are terms <<"v", name>>, *)
(* <<"c", lexical>> (graph <<"c", "">> = default graph) or <<"b", label>>  *)
(* (template blank node).                                                  *)
(*                                                                         *)
(* Semantics (SPARQL 1.1 Update 3.1.3): the WHERE pattern is evaluated     *)
(* once on the pre-state; D and I are the unions of the instantiated       *)
(* templates over all solution occurrences; blank nodes of the INSERT      *)
(* template are fresh per solution occurrence; quads with an unbound       *)
(* variable or an illegal term position are not produced;                  *)
(* quads' = (quads \ D) \cup I.                                            *)
(***************************************************************************)
EXTENDS Sparql

\* occurrences of the solution bag: each mapping as often as its multiplicity
Occ(M) == UNION {{<<m, i>> : i \in 1..M[m]} : m \in DOMAIN M}
FreshName(occ, label) == "~fresh~" \o ToString(occ) \o "~" \o label

TVal(t, m, occ) ==
  CASE t[1] = "v" -> (IF t[2] \in DOMAIN m THEN m[t[2]] ELSE UNB)
    [] t[1] = "b" -> FreshName(occ, t[2])
    [] OTHER -> t[2]

\* legal term kinds per quad position (RDF: no literal subject / predicate / graph name)
LegalAt(X, t, v, pos) ==
  IF t[1] = "b" THEN pos \in {1, 3}
  ELSE LET k == KindOf(X, v) IN
       CASE pos = 1 -> k \in {"iri", "bn"}
         [] pos = 2 -> k = "iri"
         [] pos = 3 -> TRUE
         [] pos = 4 -> v = "" \/ k = "iri"

InstQuad(X, tq, m, occ) ==
  LET v == [i \in 1..4 |-> TVal(tq[i], m, occ)] IN
  IF \E i \in 1..4 : v[i] = UNB \/ ~LegalAt(X, tq[i], v[i], i) THEN {} ELSE {<<v[1], v[2], v[3], v[4]>>}

InstAll(X, tmpl, M) ==
  UNION {UNION {InstQuad(X, tmpl[k], occ[1], occ) : k \in 1..Len(tmpl)} : occ \in Occ(M)}

Labels(tmpl) == {tmpl[k][i][2] : k \in 1..Len(tmpl), i \in {1, 3}} \cap
                {x \in {tmpl[k][i][2] : k \in 1..Len(tmpl), i \in {1, 3}} :
                    \E k \in 1..Len(tmpl) : \E i \in {1, 3} : tmpl[k][i][1] = "b" /\ tmpl[k][i][2] = x}
FreshSyms(tmpl, M) == {FreshName(occ, b) : occ \in Occ(M), b \in Labels(tmpl)}

Solutions0(X, op) ==
  IF op.form \in {"insert_data", "delete_data"} THEN UnitBag
  ELSE IF "sideways" \in X.lenient THEN EvalS(X, op.where, DefaultView(X), "", UnitBag) ELSE Eval(X, op.where, DefaultView(X), "")

Effect(X, op) ==
  LET M == Solutions0(X, op)
      D == InstAll(X, op.del, M)
      I == InstAll(X, op.ins, M)
  IN  [quads  |-> (X.quads \ D) \cup I,
       graphs |-> X.graphs \cup {q[4] : q \in {r \in I : r[4] # ""}},
       deleted  |-> Cardinality(D \cap X.quads),
       inserted |-> Cardinality(I \ (X.quads \ D)),
       I |-> I]

\* The observed post-state must equal the expected one up to a renaming of the fresh blank nodes.  Searching a
\* bijection is factorial in the number of fresh nodes, so the comparison uses one round of colour refinement:
\* the quads without fresh nodes must be equal, and the bags of "signatures" of the fresh nodes (the quads a fresh
\* node occurs in, with itself written "*" and any other fresh node written "+") must be equal.  This is exact
\* for templates whose blank nodes are not linked to each other through chains of more than one quad, and never
\* rejects a correct post-state (a documented, sound approximation of isomorphism).
TermsOf(Q) == UNION {{q[1], q[2], q[3], q[4]} : q \in Q}
Sig(f, Q, F) == {[i \in 1..4 |-> IF q[i] = f THEN "*" ELSE IF q[i] \in F THEN "+" ELSE q[i]] : q \in {r \in Q : f \in {r[1], r[3]}}}
SigBag(Q, F) == LET S == {Sig(f, Q, F) : f \in F} IN [sg \in S |-> Cardinality({f \in F : Sig(f, Q, F) = sg})]
NoFresh(Q, F) == {q \in Q : q[1] \notin F /\ q[3] \notin F}

MatchesPost(X, op, postQuads, postGraphs, obsFresh, checkCounts, ins, del) ==
  LET E == Effect(X, op)
      symF == FreshSyms(op.ins, Solutions0(X, op)) \cap TermsOf(E.I)
  IN  /\ postGraphs = E.graphs
      /\ (checkCounts => ins = E.inserted /\ del = E.deleted)
      /\ Cardinality(symF) = Cardinality(obsFresh)
      /\ NoFresh(E.quads, symF) = NoFresh(postQuads, obsFresh)
      /\ SigBag(E.quads, symF) = SigBag(postQuads, obsFresh)
=============================================================================
