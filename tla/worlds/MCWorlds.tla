------------------------------ MODULE MCWorlds ------------------------------
(***************************************************************************)
(* Model-checking instance of TagPropagationImpl: every program of one or  *)
(* two rules from a pool (copy, inverse, transitive, chain, shared         *)
(* evidence, constants, two conclusions, negation-as-failure with a top    *)
(* predicate) x every choice of certain / uncertain input facts from small *)
(* pools.  Terms: individuals 1..3, predicates 5 (p), 6 (q), 7 (top).      *)
(* Emit prints every terminal state as a case for the replay on the real   *)
(* code (L2), with the model's scaled probabilities under MCNum / MCDen.   *)
(***************************************************************************)
EXTENDS TagPropagationImpl, Json

x == -1  y == -2  z == -3
Rl(prem, neg, concl) == [prem |-> prem, neg |-> neg, concl |-> concl]

Pool == <<
  Rl(<< <<x,5,y>> >>, <<>>, << <<x,6,y>> >>),                         \* 1 copy p -> q
  Rl(<< <<x,6,y>> >>, <<>>, << <<x,5,y>> >>),                         \* 2 copy q -> p (mutual recursion with 1)
  Rl(<< <<x,5,y>>, <<y,5,z>> >>, <<>>, << <<x,5,z>> >>),              \* 3 transitive
  Rl(<< <<x,5,y>> >>, <<>>, << <<y,5,x>> >>),                         \* 4 symmetric
  Rl(<< <<x,5,y>>, <<x,6,z>> >>, <<>>, << <<x,6,1>> >>),              \* 5 shared evidence, constant head
  Rl(<< <<x,5,y>>, <<y,6,z>> >>, <<>>, << <<x,6,z>> >>),              \* 6 chain
  Rl(<< <<x,5,2>> >>, <<>>, << <<x,6,2>>, <<2,5,x>> >>),              \* 7 constant in body, two conclusions
  Rl(<< <<x,5,x>> >>, <<>>, << <<x,6,x>> >>),                         \* 8 repeated variable
  Rl(<< <<x,5,y>> >>, << <<x,6,y>> >>, << <<x,7,y>> >>),              \* 9 NAF
  Rl(<< <<x,5,y>>, <<y,5,z>> >>, << <<z,6,x>> >>, << <<x,7,z>> >>)    \* 10 NAF over a join
>>

ProgsOver(S) == {<<Pool[i]>> : i \in S} \cup {<<Pool[i], Pool[j]>> : <<i, j>> \in {p \in S \X S : p[1] < p[2]}}
              \cup {<<Pool[p[1]], Pool[p[2]], Pool[p[3]]>> : p \in {q \in S \X S \X S : q[1] < q[2] /\ q[2] < q[3] /\ q[3] >= 9}}

ProgsQuick    == ProgsOver({1, 2, 3, 5, 9})
ProgsThorough == ProgsOver(1..10)

UPoolQuick == {<<1,5,2>>, <<2,5,1>>, <<1,6,2>>}
UPoolThorough == {<<1,5,2>>, <<2,5,3>>, <<3,5,1>>, <<1,6,2>>, <<2,6,2>>}
CPool == {<<2,5,2>>, <<2,6,3>>}

SubsetsUpTo(S, n) == {T \in SUBSET S : Cardinality(T) <= n}
USetsQuick    == SubsetsUpTo(UPoolQuick, 3)
USetsThorough == SubsetsUpTo(UPoolThorough, 4)
CSets == SUBSET CPool

\* programs of the negative control (MC_noretrigger.cfg): rule 2 (q -> p) improves the tag of a known p-fact
\* after a consumer of that fact has already used the old tag; only delta_improved brings the consumer back
ProgsControl == {<<Pool[2], Pool[1], Rl(<< <<x,5,y>> >>, <<>>, << <<y,6,x>> >>)>>, <<Pool[2], Pool[4]>>, <<Pool[2], Pool[3]>>}

\* probabilities used for the prediction attached to emitted cases
MCDen == 8
MCNum(f) == 1 + ((f[1] * 3 + f[2] + f[3] * 5) % 7)

ModelP(f) == LET wt == WorldWeights(U, [u \in U |-> MCNum(u)], MCDen)
             IN  FoldSet(LAMBDA W, acc : acc + wt[W], 0, Get(tags, f))

Emit == pc = "done" =>
  PrintT(<<"REPLAY", ToJson([rules |-> R,
                             certain |-> SetToSeq(C),
                             seeds |-> [i \in 1..Cardinality(U) |-> LET u == SetToSeq(U)[i] IN <<u[1], u[2], u[3], MCNum(u)>>],
                             den |-> MCDen,
                             model |-> [i \in 1..Cardinality(known) |-> LET f == SetToSeq(known)[i] IN <<f[1], f[2], f[3], ModelP(f)>>]])>>)
=============================================================================
