------------------------------- MODULE Syntax -------------------------------
(***************************************************************************)
(* The concrete syntax of the supported SPARQL fragment as a printer state *)
(* machine (C16).  PrintCase(case) is the token sequence of a syntax tree of   *)
(* Sparql.tla / Update.tla; "alt" tokens mark equivalent spellings         *)
(* (';' and ',' abbreviations, optional WHERE, ASC(?x) for ?x).  One       *)
(* action emits one token: it chooses the separator (space, newline, tab,  *)
(* CR LF, a lone CR, a comment line ended by LF / CR LF / CR, or nothing   *)
(* next to a bracket; the text may end in a comment), the spelling of a    *)
(* keyword (any letter case) and resolves an alternative.  Fault actions   *)
(* (at most one per text) truncate the text, drop or duplicate a token, or *)
(* insert a multi-byte character between two tokens, or end the text       *)
(* inside a token (cut escape sequence, open string).  A finished state    *)
(* holds one request text; TLC -simulate produces as many as asked.        *)
(* Trees, the rendering of terms, keyword spellings and the multi-byte     *)
(* characters come from the case file (JSON).                              *)
(***************************************************************************)
EXTENDS Naturals, Integers, Sequences, FiniteSets, TLC, Json, IOUtils

Cases == ndJsonDeserialize(IOEnv.CASES)      \* [kind |-> "select"|"update", tree, txt (lexical -> text)]
Aux   == JsonDeserialize(IOEnv.AUX)          \* [kw (keyword -> spellings), mb (multi-byte strings), seps, comments]

KW(s) == <<[k |-> "kw", s |-> s]>>
SY(s) == <<[k |-> "sym", s |-> s]>>
TM(s) == <<[k |-> "term", s |-> s]>>
ALT(a, b) == <<[k |-> "alt", a |-> a, b |-> b]>>

RECURSIVE Cat(_, _, _)
Cat(F(_), sq, k) == IF k = 0 THEN <<>> ELSE Cat(F, sq, k - 1) \o F(sq[k])

\* the variable sigil of this text: ?x and $x are the same variable (the case file chooses, key "~sigil")
Sg(txt) == IF "~sigil" \in DOMAIN txt THEN txt["~sigil"] ELSE "?"
Render(txt, t) == CASE t[1] = "v" -> Sg(txt) \o t[2] [] t[1] = "u" -> "UNDEF" [] t[1] = "b" -> "_:" \o t[2] [] OTHER -> txt[t[2]]

TP(txt, tp) == TM(Render(txt, tp[1])) \o TM(Render(txt, tp[2])) \o TM(Render(txt, tp[3]))

RECURSIVE BgpToks(_, _, _)
BgpToks(txt, tps, k) ==
  IF k = 1 THEN TP(txt, tps[1])
  ELSE BgpToks(txt, tps, k - 1) \o
       (IF tps[k][1] = tps[k - 1][1]
          THEN ALT(SY(".") \o TP(txt, tps[k]),
                   IF tps[k][2] = tps[k - 1][2] THEN SY(",") \o TM(Render(txt, tps[k][3]))
                   ELSE SY(";") \o TM(Render(txt, tps[k][2])) \o TM(Render(txt, tps[k][3])))
          ELSE SY(".") \o TP(txt, tps[k]))

\* operand of a comparison: a term, or <<"ar", op, left, right>> with op one of + - * /.  The grammar is left-associative
\* with * / binding tighter: the left operand needs brackets when it binds weaker, the right operand when it does not
\* bind tighter; redundant brackets are an equivalent spelling.
Prec(op) == IF op \in {"+", "-"} THEN 1 ELSE 2
RECURSIVE OperandBody(_, _, _)
OperandBody(txt, t, minprec) ==
  IF t[1] # "ar" THEN TM(Render(txt, t))
  ELSE LET p == Prec(t[2])
           body == OperandBody(txt, t[3], p) \o SY(t[2]) \o OperandBody(txt, t[4], p + 1)
       IN  IF p < minprec THEN SY("(") \o body \o SY(")") ELSE body
\* redundant brackets are offered around the whole operand only: an alternative at every nesting level would double the
\* token list per level (a tree with a few deep operands then has tens of thousands of tokens and TLC's simulation crawls)
OperandToks(txt, t, minprec) ==
  IF t[1] # "ar" THEN TM(Render(txt, t))
  ELSE ALT(OperandBody(txt, t, minprec), SY("(") \o OperandBody(txt, t, 1) \o SY(")"))

RECURSIVE ExprToks(_, _)
ExprToks(txt, e) ==
  CASE e.t = "cmp" -> OperandToks(txt, e.l, 1) \o SY(e.op) \o OperandToks(txt, e.r, 1)
    [] e.t = "not" -> SY("!") \o SY("(") \o ExprToks(txt, e.a) \o SY(")")
    [] e.t = "and" -> SY("(") \o ExprToks(txt, e.a) \o SY(")") \o SY("&&") \o SY("(") \o ExprToks(txt, e.b) \o SY(")")
    [] e.t = "or"  -> SY("(") \o ExprToks(txt, e.a) \o SY(")") \o SY("||") \o SY("(") \o ExprToks(txt, e.b) \o SY(")")

RECURSIVE Commas(_, _, _)
Commas(txt, args, k) == IF k = 1 THEN TM(Render(txt, args[1])) ELSE Commas(txt, args, k - 1) \o SY(",") \o TM(Render(txt, args[k]))

RECURSIVE ElemToks(_, _), GroupToks(_, _), SelectToks(_, _), UnionToks(_, _, _), ElemsToks(_, _, _)

ElemsToks(txt, ps, k) == IF k = 0 THEN <<>> ELSE ElemsToks(txt, ps, k - 1) \o ElemToks(txt, ps[k])
GroupToks(txt, p) == SY("{") \o ElemsToks(txt, p.ps, Len(p.ps)) \o SY("}")
UnionToks(txt, ps, k) == IF k = 1 THEN GroupToks(txt, ps[1]) ELSE UnionToks(txt, ps, k - 1) \o KW("UNION") \o GroupToks(txt, ps[k])

ElemToks(txt, p) ==
  CASE p.t = "bgp"    -> BgpToks(txt, p.tps, Len(p.tps)) \o SY(".")
    [] p.t = "join"   -> GroupToks(txt, p)
    [] p.t = "union"  -> UnionToks(txt, p.ps, Len(p.ps))
    [] p.t = "graph"  -> KW("GRAPH") \o TM(Render(txt, p.name)) \o GroupToks(txt, p.p)
    [] p.t = "filter" -> KW("FILTER") \o SY("(") \o ExprToks(txt, p.e) \o SY(")")
    [] p.t = "bind"   -> KW("BIND") \o SY("(") \o TM("CONCAT") \o SY("(") \o Commas(txt, p.args, Len(p.args)) \o SY(")") \o KW("AS") \o TM(Sg(txt) \o p.v) \o SY(")")
    [] p.t = "values" ->
         IF Len(p.vars) = 1
           THEN KW("VALUES") \o TM(Sg(txt) \o p.vars[1]) \o SY("{") \o Cat(LAMBDA r : TM(Render(txt, r[1])), p.rows, Len(p.rows)) \o SY("}")
           ELSE KW("VALUES") \o SY("(") \o Cat(LAMBDA v : TM(Sg(txt) \o v), p.vars, Len(p.vars)) \o SY(")") \o SY("{") \o
                Cat(LAMBDA r : SY("(") \o Cat(LAMBDA x : TM(Render(txt, x)), r, Len(r)) \o SY(")"), p.rows, Len(p.rows)) \o SY("}")
    [] p.t = "sub"    -> SY("{") \o SelectToks(txt, p.q) \o SY("}")
    [] p.t = "unit"   -> SY("{") \o SY("}")

ProjToks(txt, x) == IF x.k = "VAR" THEN TM(Sg(txt) \o x.v) ELSE KW(x.k) \o SY("(") \o TM(Sg(txt) \o x.v) \o SY(")") \o KW("AS") \o TM(Sg(txt) \o x.as)
OrderToks(txt, c) == IF c.d = "desc" THEN KW("DESC") \o SY("(") \o TM(Sg(txt) \o c.v) \o SY(")")
                     ELSE ALT(TM(Sg(txt) \o c.v), KW("ASC") \o SY("(") \o TM(Sg(txt) \o c.v) \o SY(")"))

SelectToks(txt, q) ==
  KW("SELECT") \o (IF q.distinct THEN KW("DISTINCT") ELSE <<>>) \o
  (IF q.star THEN SY("*") ELSE Cat(LAMBDA x : ProjToks(txt, x), q.proj, Len(q.proj))) \o
  Cat(LAMBDA g : KW("FROM") \o TM("<" \o g \o ">"), q.from, Len(q.from)) \o
  Cat(LAMBDA g : KW("FROM") \o KW("NAMED") \o TM("<" \o g \o ">"), q.fromnamed, Len(q.fromnamed)) \o
  ALT(KW("WHERE"), <<>>) \o GroupToks(txt, q.p) \o
  (IF Len(q.group) > 0 THEN KW("GROUP") \o KW("BY") \o Cat(LAMBDA v : TM(Sg(txt) \o v), q.group, Len(q.group)) ELSE <<>>) \o
  (IF Len(q.order) > 0 THEN KW("ORDER") \o KW("BY") \o Cat(LAMBDA c : OrderToks(txt, c), q.order, Len(q.order)) ELSE <<>>) \o
  (IF q.limit >= 0 THEN KW("LIMIT") \o TM(ToString(q.limit)) ELSE <<>>)

\* quad templates: consecutive quads of the same graph share one GRAPH block (as the tree generator groups them)
RECURSIVE TmplToks(_, _, _)
QuadTriple(txt, q) == TM(Render(txt, q[1])) \o TM(Render(txt, q[2])) \o TM(Render(txt, q[3])) \o SY(".")
TmplToks(txt, qs, k) ==
  IF k > Len(qs) THEN <<>>
  ELSE LET g == qs[k][4]
           RECURSIVE Run(_)
           Run(j) == IF j <= Len(qs) /\ qs[j][4] = g THEN Run(j + 1) ELSE j
           e == Run(k)
           inner == Cat(LAMBDA q : QuadTriple(txt, q), SubSeq(qs, k, e - 1), e - k)
       IN  (IF g = <<"c", "">> THEN inner ELSE KW("GRAPH") \o TM(Render(txt, g)) \o SY("{") \o inner \o SY("}")) \o TmplToks(txt, qs, e)

Block(txt, qs) == SY("{") \o TmplToks(txt, qs, 1) \o SY("}")
UpdateToks(txt, op) ==
  CASE op.form = "insert_data" -> KW("INSERT") \o KW("DATA") \o Block(txt, op.ins)
    [] op.form = "delete_data" -> KW("DELETE") \o KW("DATA") \o Block(txt, op.del)
    [] op.form = "delete_where_short" -> KW("DELETE") \o KW("WHERE") \o Block(txt, op.del)
    [] op.form = "insert_where" -> KW("INSERT") \o Block(txt, op.ins) \o KW("WHERE") \o GroupToks(txt, op.where)
    [] op.form = "delete_where" -> KW("DELETE") \o Block(txt, op.del) \o KW("WHERE") \o GroupToks(txt, op.where)
    [] op.form = "delete_insert_where" -> KW("DELETE") \o Block(txt, op.del) \o KW("INSERT") \o Block(txt, op.ins) \o KW("WHERE") \o GroupToks(txt, op.where)

\* PREFIX prologue: when the case declares one (key "~prefix" = namespace abbreviated as e:), the IRIs of that namespace are
\* spelled as prefixed names in txt and the declaration is printed first
Prologue(txt) == IF "~prefix" \in DOMAIN txt THEN KW("PREFIX") \o TM("e:") \o TM("<" \o txt["~prefix"] \o ">") ELSE <<>>
PrintCase(c) == Prologue(c.txt) \o
                (CASE c.kind = "select" -> SelectToks(c.txt, c.tree) [] c.kind = "group" -> GroupToks(c.txt, c.tree) [] OTHER -> UpdateToks(c.txt, c.tree))

---------------------------------------------------------------------------
VARIABLES i,        \* index of the case being printed
          toks,     \* tokens still to emit
          text,     \* text emitted so far
          prev,     \* previous token's text ("" at the start)
          fault,    \* "" or a description of the injected fault
          fat,      \* faulty specification: the fault is injected once at most this many tokens remain (0 = never);
                    \* chosen with the case, so that faults are spread evenly over the text instead of piling up at its start
          done
vars == <<i, toks, text, prev, fault, fat, done>>

Brackets == {"{", "}", "(", ")"}
\* punctuation that needs no white space around it: "?o." "30." "?a;<p>" are complete tokens followed by the mark
Tight == {".", ";", ","}
\* ... except after a prefixed name or a blank-node label: "e:i2." would be read as the one name e:i2. followed by what comes
\* next ("e:i2.GRAPH" is a legal local name, "_:x._" a legal label).  The case file lists these spellings (key "~pn").
PNames(txt) == IF "~pn" \in DOMAIN txt THEN {txt["~pn"][k] : k \in 1..Len(txt["~pn"])} ELSE {}
Seps(a, b) == (IF a = "" THEN {""} ELSE {}) \cup {Aux.seps[k] : k \in 1..Len(Aux.seps)} \cup
              {Aux.comments[k] : k \in 1..Len(Aux.comments)} \cup
              (IF (a \in Brackets \/ b \in Brackets \/ a \in Tight \/ b \in Tight) /\ ~(b = "." /\ a \in PNames(Cases[i].txt))
                 THEN {""} ELSE {})
Spellings(t) == IF t.k = "kw" THEN {Aux.kw[t.s][k] : k \in 1..Len(Aux.kw[t.s])} ELSE {t.s}

Init == /\ i \in 1..Len(Cases) /\ toks = PrintCase(Cases[i]) /\ text = "" /\ prev = "" /\ fault = "" /\ fat = 0 /\ done = FALSE
\* the fault position is chosen by the first step, not by the initial state: TLC's simulator keeps every initial state in
\* memory, and (case, position) pairs with their token lists are quadratic in the length of the texts
FaultyInit == /\ i \in 1..Len(Cases) /\ toks = PrintCase(Cases[i]) /\ text = "" /\ prev = "" /\ fault = "" /\ done = FALSE
              /\ fat = -1
ChooseFat == /\ fat = -1 /\ fat' \in 1..Len(toks) /\ UNCHANGED <<i, toks, text, prev, fault, done>>
Due == fault = "" /\ fat > 0 /\ Len(toks) <= fat      \* the fault must be injected now

Resolve == /\ ~done /\ fat # -1 /\ toks # <<>> /\ Head(toks).k = "alt"
           /\ \E c \in {"a", "b"} : toks' = (IF c = "a" THEN Head(toks).a ELSE Head(toks).b) \o Tail(toks)
           /\ UNCHANGED <<i, text, prev, fault, fat, done>>

EmitTok == /\ ~done /\ fat # -1 /\ toks # <<>> /\ Head(toks).k # "alt" /\ ~Due
           /\ \E sp \in Spellings(Head(toks)) : \E sep \in Seps(prev, Head(toks).s) :
                text' = text \o sep \o sp
           /\ prev' = Head(toks).s /\ toks' = Tail(toks)
           /\ UNCHANGED <<i, fault, fat, done>>

Finish == /\ ~done /\ fat # -1 /\ toks = <<>>
          /\ \E tail \in {"", " ", "\n"} \cup {Aux.tails[k] : k \in 1..Len(Aux.tails)} : text' = text \o tail
          /\ done' = TRUE /\ UNCHANGED <<i, toks, prev, fault, fat>>

\* ---- faults (at most one per text)
Truncate == /\ ~done /\ Due /\ Len(toks) > 0 /\ prev # ""
            /\ fault' = "truncate" /\ toks' = <<>> /\ UNCHANGED <<i, text, prev, fat, done>>
DropTok  == /\ ~done /\ Due /\ Len(toks) > 0 /\ Head(toks).k # "alt"
            /\ fault' = "drop " \o Head(toks).s /\ toks' = Tail(toks) /\ UNCHANGED <<i, text, prev, fat, done>>
DupTok   == /\ ~done /\ Due /\ Len(toks) > 0 /\ Head(toks).k # "alt"
            /\ fault' = "duplicate " \o Head(toks).s /\ toks' = <<Head(toks)>> \o toks /\ UNCHANGED <<i, text, prev, fat, done>>
Multibyte == /\ ~done /\ Due /\ Len(toks) > 0
             /\ \E k \in 1..Len(Aux.mb) : toks' = TM(Aux.mb[k]) \o toks
             /\ fault' = "multibyte" /\ UNCHANGED <<i, text, prev, fat, done>>

\* the text ends inside a token: a literal or IRI cut in the middle of an escape sequence, an unterminated string, a
\* lone sigil (Aux.cuts)
\* ... where a term is expected (so that the parser gets as far as the cut token)
CutInside == /\ ~done /\ Due /\ Len(toks) > 0 /\ prev # "" /\ Head(toks).k = "term"
             /\ \E k \in 1..Len(Aux.cuts) : \E sep \in {" ", "\n"} : text' = text \o sep \o Aux.cuts[k]
             /\ fault' = "cut inside a token" /\ toks' = <<>> /\ UNCHANGED <<i, prev, fat, done>>

\* a term with a malformed escape sequence in the middle of the text: \u / \U windows cut short by a multi-byte character, by a
\* non-hex letter or by the closing bracket, surrogates, unknown escapes (Aux.badterms); the rest of the text follows
BadTerm == /\ ~done /\ Due /\ Len(toks) > 0 /\ Head(toks).k = "term"
           /\ \E k \in 1..Len(Aux.badterms) : toks' = TM(Aux.badterms[k]) \o Tail(toks)
           /\ fault' = "term with a malformed escape" /\ UNCHANGED <<i, text, prev, fat, done>>

Next == Resolve \/ EmitTok \/ Finish
FaultyNext == ChooseFat \/ Next \/ Truncate \/ DropTok \/ DupTok \/ Multibyte \/ CutInside \/ BadTerm
Spec == Init /\ [][Next]_vars
FaultySpec == FaultyInit /\ [][FaultyNext]_vars

\* emission of finished texts (an "invariant" that prints)
EmitDone == done => PrintT(<<"REPLAY", ToJson([i |-> i, text |-> text, fault |-> fault])>>)
=============================================================================
