"""C03 - SPARQL Update applies exactly the standard effect, atomically.

Requirement: tla/sparql/Update.tla (Effect: WHERE once on the pre-state, D and I from all solution
occurrences, fresh blank nodes per occurrence, quads' = (quads \\ D) u I, counts = actual change).
Seeded histories of the six update forms (plus rejected operations, SELECTs and malformed requests
interleaved) are executed through every update entry point of the real engine; TLC judges every
request from the recorded lexical dataset before and after it (tla/sparql/UpdateTrace.tla).
"""
import json
import time
import vlib
from vlib import log
from checks import updcommon as U

MIX = {"update": 12, "reject": 2, "select": 1, "readonly": 1, "alias": 1, "fuzzed": 1, "malformed": 1}
MINE = {"update", "reject"}


def sig_for(m, v):
    if v.startswith("lenient:"):
        from checks.c01 import LENIENT
        return "execute_update|WHERE expression error semantics|" + LENIENT[v.split(":")[1]]
    form = ""
    if m["cls"] == "update":
        form = m["case"]["steps"][m["step"]]["meta"]["op"]["form"]
    return f"execute_update|{m['cls']}:{form or m['why']}|ep={m['ep']}|{v}"


def judge(events, meta, res, verdict, only=MINE):
    failed = {}
    for f in res["fail"]:
        m = meta[f[0]]
        if m["cls"] not in only:
            continue
        failed[f[0]] = f[1]
        verdict.violation(sig_for(m, f[1]), {"driver": "sparql", "case": U.prefix_case(m["case"], m["step"]), "verdict": f[1], "request": m["text"], "ep": m["ep"], "res": m["res"], "err": m["err"]},
                          detail=m["text"][:160])
    return failed


def run(ctx):
    t0 = time.time()
    verdict = vlib.Verdict("C03", ctx.seed, ctx.tier)
    wd = vlib.workdir("c03")
    if ctx.replay:
        case = json.load(open(ctx.replay))["case"]["case"]
        events, meta, res = U.replay_case(wd, case, "c03-replay")
        judge(events, meta, res, verdict)
        return verdict.finish()
    thorough = ctx.tier == "thorough"
    nh, nops = (400, 60) if thorough else (40, 40)
    events, meta, res = U.run_histories(wd, ctx.seed, nh, nops, MIX, "c03")
    failed = judge(events, meta, res, verdict)
    mine = [e for e in events if e["cls"] in MINE]
    skipped = len(res["info"])
    log(f"judged {len(events)} requests in {nh} histories ({len(mine)} update / rejected operations): {len(failed)} rejected by the specification, {skipped} skipped")
    rc = verdict.finish()
    distinct, per_form = set(), {}
    for e in mine:
        changed = sorted(map(tuple, e["pre"]["quads"])) != sorted(map(tuple, e["post"]["quads"])) or e["pre"]["graphs"] != e["post"]["graphs"]
        if e["cls"] == "update" and changed:
            distinct.add(vlib.case_hash([e["op"], e["pre"]]))
            per_form[e["op"]["form"]] = per_form.get(e["op"]["form"], 0) + 1
    smp = next(e for e in mine if e["cls"] == "update" and e["pre"]["quads"] != e["post"]["quads"])
    cov = {"evaluations": len(mine), "distinct_nontrivial": len(distinct),
           "rule": "seeded histories over a 14-term universe, 3 named graphs + 1 new graph; distinct by (operation tree, pre-state); "
                   "non-trivial = a valid update that changed the dataset",
           "samples": [{"request": meta[smp["run"]]["text"], "ep": smp["ep"], "pre": smp["pre"], "post": smp["post"], "ins": smp["ins"], "del": smp["del"]}],
           "states": res["states"], "transitions": res["states"], "traces_validated_against_impl": nh,
           "changing_updates_per_form": per_form, "rejected_requests": sum(1 for e in mine if e["cls"] == "reject"), "skipped": skipped}
    vlib.write_evidence("C03", ctx.tier, ctx.seed, "model_checking", cov,
                        ["each request is judged against the dataset recorded before it (no accumulated model state)",
                         "fresh blank nodes are matched by a bijection TLC searches; at most 6 per request by construction",
                         "legal term positions use the lexical kind tables computed in Python"],
                        time.time() - t0, len(verdict.violations))
    return rc
