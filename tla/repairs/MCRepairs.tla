------------------------------ MODULE MCRepairs ------------------------------
EXTENDS RepairSearchImpl, Json

\* constraint sets explored in L1 / emitted for L2 (variables -1,-2,-3; predicates 11,12)
K1 == << << <<-1, 11, -2>>, <<-1, 12, -2>> >> >>                                   \* p and q disjoint
K2 == << << <<-1, 11, -1>> >> >>                                                   \* single atom: p irreflexive
K3 == << << <<-1, 11, -2>>, <<-2, 11, -1>> >> >>                                   \* p antisymmetric (also no loops)
K4 == << << <<-1, 11, -2>>, <<-1, 12, -2>> >>, << <<-1, 12, -2>>, <<-2, 12, -3>> >> >>  \* two constraints, chain
K5 == << << <<-1, 11, -2>>, <<-2, 11, -3>>, <<-1, 12, -3>> >> >>                   \* ternary body
K6 == << << <<-1, 11, 1>>, <<-1, 12, -2>> >> >>                                    \* constant in the body
K7 == << << <<1, -1, 2>>, <<2, -1, 1>> >> >>                                       \* variable predicate
MCConSets == <<K1, K2, K3, K4, K5, K6, K7>>
MCConSetsSmall == <<K1, K3, K4, K5>>

\* L2: every (F, C) of the instance with the requirement's repairs and answers
Emit == (pc = "loop" /\ seen = {}) =>
          PrintT(<<"REPLAY", ToJson([facts |-> F, cons |-> C,
                                      repairs |-> Repairs(F, C), answers |-> InEvery(F, C)])>>)
\* Init only: no transitions are needed for emission
ESpec == Init /\ [][FALSE]_vars
=============================================================================
