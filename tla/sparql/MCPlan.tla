------------------------------- MODULE MCPlan -------------------------------
(* TLC instance of the Plan theorem: a menu of patterns x every dataset over a small universe x every
   assignment of join algorithms to the join nodes of the lowered plan. *)
EXTENDS Plan


Vv(n) == <<"v", n>>
Cc(x) == <<"c", x>>
TPat(s, p, o) == <<s, p, o>>
B(tps) == [t |-> "bgp", tps |-> tps]
J(ps) == [t |-> "join", ps |-> ps]
U(ps) == [t |-> "union", ps |-> ps]
Gr(n, p) == [t |-> "graph", name |-> n, p |-> p]
F(e) == [t |-> "filter", e |-> e]
Eq(l, r) == [t |-> "cmp", l |-> l, op |-> "=", r |-> r]
Ne(l, r) == [t |-> "cmp", l |-> l, op |-> "!=", r |-> r]
Not(e) == [t |-> "not", a |-> e]
Vals(vs, rows) == [t |-> "values", vars |-> vs, rows |-> rows]
Bnd(args, v) == [t |-> "bind", args |-> args, v |-> v]

xPy == TPat(Vv("x"), Cc("p"), Vv("y"))
yPz == TPat(Vv("y"), Cc("p"), Vv("z"))
xQy == TPat(Vv("x"), Cc("q"), Vv("y"))
zQy == TPat(Vv("z"), Cc("q"), Vv("y"))
aPb == TPat(Cc("a"), Cc("p"), Vv("y"))

Menu == <<
  J(<<B(<<xPy, yPz>>)>>),                                                     \* chain
  J(<<B(<<xPy, zQy>>)>>),                                                     \* join on ?y over two predicates
  J(<<B(<<xPy>>), B(<<xQy>>), B(<<aPb>>)>>),                                  \* three scans, two joins
  J(<<B(<<xPy>>), U(<<J(<<B(<<xQy>>)>>), J(<<B(<<zQy>>)>>)>>)>>),             \* union as right operand
  J(<<B(<<xPy>>), J(<<B(<<zQy>>), F(Ne(Vv("z"), Cc("a")))>>)>>),              \* nested group with a stable filter
  J(<<B(<<xPy>>), Gr(Cc("g"), J(<<B(<<zQy>>)>>))>>),                          \* fixed graph as right operand
  J(<<B(<<xPy>>), Gr(Vv("gv"), J(<<B(<<xQy>>)>>))>>),                         \* GRAPH ?g as right operand
  J(<<B(<<xPy>>), Vals(<<"y">>, << <<Cc("a")>>, <<Cc("b")>> >>)>>),           \* VALUES without UNDEF
  J(<<B(<<xPy>>), Vals(<<"y">>, << <<Cc("a")>>, <<<<"u", "">>>> >>)>>),       \* VALUES with UNDEF, no filter: still stable
  J(<<B(<<xPy>>), Bnd(<<Vv("y"), Cc("k")>>, "n"), B(<<zQy>>)>>),              \* BIND between two joins
  J(<<F(Eq(Vv("x"), Vv("z"))), B(<<xPy>>), B(<<zQy>>)>>),                     \* group filter over both operands
  \* ---- not stable: a filter of a nested group mentions a variable the group does not always bind
  J(<<B(<<xPy>>), J(<<U(<<J(<<B(<<zQy>>)>>), J(<<B(<<xQy>>)>>)>>), F(Eq(Vv("x"), Cc("a")))>>)>>),
  J(<<B(<<xPy>>), J(<<B(<<zQy>>), Vals(<<"x">>, << <<Cc("a")>>, <<<<"u", "">>>> >>), F(Not(Eq(Vv("x"), Cc("a"))))>>)>>)
>>

Universe == {<<"a", "p", "b">>, <<"b", "p", "b">>, <<"a", "q", "b">>, <<"b", "q", "b">>}
Algs == {"bind", "hash"}       \* "nl" executes like "hash" in Exec (both evaluate the right side from the unit mapping)

CtxOf(d, gd) == [quads |-> {<<t[1], t[2], t[3], "">> : t \in d} \cup {<<t[1], t[2], t[3], "g">> : t \in gd},
        graphs |-> {"g"}, kind |-> [x \in {"a", "b", "g", "ak", "bk"} |-> IF x \in {"ak", "bk"} THEN "lit" ELSE "iri"],
        num |-> [x \in {} |-> 0], rank |-> [x \in {} |-> 0], canon |-> {}, lenient |-> {}]

\* the join-algorithm assignment encoded by an integer: join node i uses "bind" iff bit i-1 is 0
AsgOf(code) == [i \in 1..8 |-> IF (code \div (2 ^ (i - 1))) % 2 = 0 THEN "bind" ELSE "hash"]

Holds(kk, d, gd, code) ==
  LET X == CtxOf(d, gd) IN
  Exec(X, LowerP(Menu[kk], AsgOf(code), 1).plan, DefaultView(X), "", UnitBag) = Eval(X, Menu[kk], DefaultView(X), "")

AllBindIsSideways(kk, d, gd) ==
  LET X == CtxOf(d, gd) IN
  Exec(X, LowerP(Menu[kk], AsgOf(0), 1).plan, DefaultView(X), "", UnitBag) = EvalS(X, Menu[kk], DefaultView(X), "", UnitBag)

Datasets == SUBSET Universe
GDatasets == SUBSET {<<"a", "q", "b">>, <<"b", "q", "a">>}
StableIdx == {i \in 1..Len(Menu) : StableP(Menu[i])}
UnstableIdx == (1..Len(Menu)) \ StableIdx

\* the theorem, for every stable pattern of the menu, every dataset and every join-algorithm assignment
Theorem == \A kk \in StableIdx : \A d \in Datasets : \A gd \in GDatasets : \A code \in 0..7 : Holds(kk, d, gd, code)
\* all-bind execution is the "sideways" reading of Sparql.tla, for every pattern (stable or not)
Sideways == \A kk \in 1..Len(Menu) : \A d \in Datasets : \A gd \in GDatasets : AllBindIsSideways(kk, d, gd)
\* negative control: every unstable pattern of the menu has a dataset on which two assignments disagree with the algebra
Control == /\ UnstableIdx # {}
           /\ \A kk \in UnstableIdx : \E d \in Datasets : \E gd \in GDatasets : \E code \in 0..7 : ~Holds(kk, d, gd, code)
Instances == Cardinality(StableIdx) * Cardinality(Datasets) * Cardinality(GDatasets) * 8

ASSUME PrintT(<<"PLAN", "stable patterns", Cardinality(StableIdx), "unstable", Cardinality(UnstableIdx), "instances", Instances>>)
ASSUME PrintT(<<"PLAN", "Theorem", Theorem>>)
ASSUME PrintT(<<"PLAN", "Sideways", Sideways>>)
ASSUME PrintT(<<"PLAN", "Control", Control>>)

VARIABLE dummy
Spec == dummy = 0 /\ [][UNCHANGED dummy]_dummy
=============================================================================
