---------------------------- MODULE SeedRegistry ----------------------------
(***************************************************************************)
(* Growth of the hybrid family (DESIGN.md section 4, "seed registry"):     *)
(* shared/src/hybrid.rs `SeedRegistry` / `SeedSnapshot` as a state machine.*)
(* One operator per public method, written in the order of the code's      *)
(* early returns (validate probability, look up, allocate, insert).  The   *)
(* registry is one value `reg`; every method is a function                 *)
(*     (reg, arguments) |-> [reg |-> reg', ret |-> reply]                  *)
(* so that the trace specification (SeedRegistryTrace.tla) applies the     *)
(* very same operators to the recorded calls.                              *)
(*                                                                         *)
(* Probabilities are integers (thousandths); a value outside 0..1000       *)
(* stands for any f64 rejected by validate_probability (NaN, <0, >1).      *)
(* kind = -1 is SeedKind::Independent, kind = g >= 0 is ExclusiveGroup(g). *)
(* NoEv is the `event: None` of static and exclusive seeds.                *)
(***************************************************************************)
EXTENDS Integers, FiniteSets, Sequences, TLC

CONSTANTS Triples,     \* triples that may be registered
          Keys,        \* event keys (already normalised) that may be presented
          Groups,      \* exclusive-group numbers
          Probs,       \* probabilities that may be passed (some invalid)
          MaxId        \* largest identifier (u32::MAX in the code)

NoEv  == [s |-> "-", t |-> 0, q |-> 0]
Empty == [x \in {} |-> 0]
Valid(p) == p \in 0..1000

EmptyReg == [nextId |-> 0, nextSeq |-> 0, records |-> Empty, byEvent |-> Empty,
             staticIds |-> Empty, groups |-> Empty]

Ok(id)   == [ok |-> TRUE,  id |-> id, err |-> ""]
Err(e)   == [ok |-> FALSE, id |-> 0,  err |-> e]
ErrId(e, id) == [ok |-> FALSE, id |-> id, err |-> e]
Same(R, r) == [reg |-> R, ret |-> r]

Put(f, k, v) == [x \in DOMAIN f \cup {k} |-> IF x = k THEN v ELSE f[x]]

\* next_event_key: the sequence number is the registry's, the stream name arrives normalised
NextEventKey(R, stream, time) ==
  [reg |-> [R EXCEPT !.nextSeq = @ + 1], key |-> [s |-> stream, t |-> time, q |-> R.nextSeq]]

RegisterOccurrence(R, k, t, p) ==
  IF ~Valid(p) THEN Same(R, Err("InvalidProbability"))
  ELSE IF k \in DOMAIN R.byEvent THEN Same(R, Ok(R.byEvent[k]))     \* same arrival: same identity, record untouched
  ELSE IF R.nextId > MaxId THEN Same(R, Err("SeedIdExhausted"))
  ELSE [reg |-> [R EXCEPT !.nextId = @ + 1,
                          !.byEvent = Put(@, k, R.nextId),
                          !.records = Put(@, R.nextId, [triple |-> t, p |-> p, kind |-> -1, ev |-> k])],
        ret |-> Ok(R.nextId)]

RegisterStatic(R, t, p) ==
  IF ~Valid(p) THEN Same(R, Err("InvalidProbability"))
  ELSE IF t \in DOMAIN R.staticIds
       THEN LET id == R.staticIds[t] IN
            [reg |-> [R EXCEPT !.records = IF id \in DOMAIN @ THEN [@ EXCEPT ![id].p = p] ELSE @],
             ret |-> Ok(id)]
  ELSE IF R.nextId > MaxId THEN Same(R, Err("SeedIdExhausted"))
  ELSE [reg |-> [R EXCEPT !.nextId = @ + 1,
                          !.staticIds = Put(@, t, R.nextId),
                          !.records = Put(@, R.nextId, [triple |-> t, p |-> p, kind |-> -1, ev |-> NoEv])],
        ret |-> Ok(R.nextId)]

RegisterExclusive(R, g, t, p) ==
  IF ~Valid(p) THEN Same(R, Err("InvalidProbability"))
  ELSE IF R.nextId > MaxId THEN Same(R, Err("SeedIdExhausted"))
  ELSE [reg |-> [R EXCEPT !.nextId = @ + 1,
                          !.records = Put(@, R.nextId, [triple |-> t, p |-> p, kind |-> g, ev |-> NoEv]),
                          !.groups = Put(@, g, (IF g \in DOMAIN @ THEN @[g] ELSE {}) \cup {R.nextId})],
        ret |-> Ok(R.nextId)]

\* insert_explicit (private; reached through SeedSnapshot::from_seed_specs on a fresh registry): the caller names the
\* identifier; a taken identifier is refused, the counter moves past the largest identifier seen
InsertExplicit(R, id, t, p, kind) ==
  IF ~Valid(p) THEN Same(R, Err("InvalidProbability"))
  ELSE IF id \in DOMAIN R.records THEN Same(R, ErrId("DuplicateSeedId", id))
  ELSE [reg |-> [R EXCEPT !.nextId = IF @ > id + 1 THEN @ ELSE id + 1,
                          !.records = Put(@, id, [triple |-> t, p |-> p, kind |-> kind, ev |-> NoEv]),
                          !.groups = IF kind >= 0 THEN Put(@, kind, (IF kind \in DOMAIN @ THEN @[kind] ELSE {}) \cup {id}) ELSE @],
        ret |-> Ok(id)]

\* SeedSnapshot::from_seed_specs: the items (an Independent spec, or the choices of an ExclusiveGroup spec in order)
\* are inserted one by one into a fresh registry; the first refusal is the result
RECURSIVE InsertAll(_, _)
InsertAll(R, items) ==
  IF items = <<>> THEN [reg |-> R, ret |-> Ok(0)]
  ELSE LET o == InsertExplicit(R, items[1].id, items[1].tr, items[1].p, items[1].kind) IN
       IF o.ret.ok THEN InsertAll(o.reg, Tail(items)) ELSE [reg |-> R, ret |-> o.ret]
FromSeedSpecs(items) == InsertAll(EmptyReg, items)

\* SeedSnapshot::from_probability_seeds: static registration in the order of the triples
RECURSIVE StaticAll(_, _)
StaticAll(R, items) ==
  IF items = <<>> THEN [reg |-> R, ret |-> Ok(0)]
  ELSE LET o == RegisterStatic(R, items[1].tr, items[1].p) IN
       IF o.ret.ok THEN StaticAll(o.reg, Tail(items)) ELSE [reg |-> R, ret |-> o.ret]

\* ---- snapshots: the set of identifiers a snapshot holds
MinOf(S) == CHOOSE x \in S : \A y \in S : x <= y
Expand(R, ids) ==
  ids \cup UNION {IF R.records[i].kind >= 0 /\ R.records[i].kind \in DOMAIN R.groups THEN R.groups[R.records[i].kind] ELSE {}
                  : i \in ids}
SnapshotForIds(R, ids) ==
  LET unknown == ids \ DOMAIN R.records IN
  IF unknown # {} THEN [ret |-> ErrId("UnknownSeed", MinOf(unknown)), ids |-> {}]
  ELSE [ret |-> Ok(0), ids |-> Expand(R, ids) \cap DOMAIN R.records]
SnapshotAll(R) == [ret |-> Ok(0), ids |-> DOMAIN R.records]

\* what a snapshot over `ids` must expose
SnapRecords(R, ids)  == {[id |-> i, triple |-> R.records[i].triple, p |-> R.records[i].p, kind |-> R.records[i].kind,
                          ev |-> R.records[i].ev] : i \in ids}
SnapByTriple(R, ids) == {[triple |-> t, ids |-> {i \in ids : R.records[i].triple = t}]
                          : t \in {R.records[i].triple : i \in ids}}
SnapGroups(R, ids)   == {[g |-> g, ids |-> {i \in ids : R.records[i].kind = g}]
                          : g \in {R.records[i].kind : i \in ids} \ {-1}}

\* ---- requirement (what users of hybrid reasoning rely on)
IdsBelowNext(R)   == DOMAIN R.records \subseteq 0..(R.nextId - 1)
EventsDistinct(R) == /\ \A a, b \in DOMAIN R.byEvent : a # b => R.byEvent[a] # R.byEvent[b]
                     /\ \A a \in DOMAIN R.byEvent : R.byEvent[a] \in DOMAIN R.records /\ R.records[R.byEvent[a]].ev = a
StaticsDistinct(R) == /\ \A a, b \in DOMAIN R.staticIds : a # b => R.staticIds[a] # R.staticIds[b]
                      /\ \A a \in DOMAIN R.staticIds :
                           LET r == R.records[R.staticIds[a]] IN r.triple = a /\ r.ev = NoEv /\ r.kind = -1
GroupsExact(R)    == /\ \A g \in DOMAIN R.groups : R.groups[g] = {i \in DOMAIN R.records : R.records[i].kind = g}
                     /\ \A i \in DOMAIN R.records : R.records[i].kind >= 0 => R.records[i].kind \in DOMAIN R.groups
ProbsValid(R)     == \A i \in DOMAIN R.records : Valid(R.records[i].p)
\* a snapshot never separates the members of an exclusive group
SnapshotsClosed(R) ==
  \A ids \in SUBSET DOMAIN R.records :
     LET s == SnapshotForIds(R, ids).ids IN
     /\ ids \subseteq s
     /\ \A i \in s : R.records[i].kind >= 0 => {j \in DOMAIN R.records : R.records[j].kind = R.records[i].kind} \subseteq s
     /\ \A i \in s \ ids : \E j \in ids : R.records[j].kind >= 0 /\ R.records[j].kind = R.records[i].kind   \* nothing else
RegOK(R) == IdsBelowNext(R) /\ EventsDistinct(R) /\ StaticsDistinct(R) /\ GroupsExact(R) /\ ProbsValid(R)

\* identities are for the life of the process: never recycled, never re-pointed
Extends(R, S) ==
  /\ S.nextId >= R.nextId /\ S.nextSeq >= R.nextSeq
  /\ DOMAIN R.records \subseteq DOMAIN S.records
  /\ \A i \in DOMAIN R.records : /\ S.records[i].triple = R.records[i].triple
                                 /\ S.records[i].kind = R.records[i].kind
                                 /\ S.records[i].ev = R.records[i].ev
  /\ \A k \in DOMAIN R.byEvent : k \in DOMAIN S.byEvent /\ S.byEvent[k] = R.byEvent[k]
  /\ \A t \in DOMAIN R.staticIds : t \in DOMAIN S.staticIds /\ S.staticIds[t] = R.staticIds[t]

\* ---- the state machine
VARIABLES reg, ret
vars == <<reg, ret>>

Init == reg = EmptyReg /\ ret = Ok(0)
Apply(o) == reg' = o.reg /\ ret' = o.ret
Occ   == \E k \in Keys, t \in Triples, p \in Probs : Apply(RegisterOccurrence(reg, k, t, p))
Stat  == \E t \in Triples, p \in Probs : Apply(RegisterStatic(reg, t, p))
Excl  == \E g \in Groups, t \in Triples, p \in Probs : Apply(RegisterExclusive(reg, g, t, p))
Expl  == \E id \in 0..MaxId, k \in Groups \cup {-1}, t \in Triples, p \in Probs : Apply(InsertExplicit(reg, id, t, p, k))
Snap  == \E ids \in SUBSET (0..MaxId + 1) : ret' = SnapshotForIds(reg, ids).ret /\ UNCHANGED reg
Next  == Occ \/ Stat \/ Excl \/ Expl \/ Snap
Spec  == Init /\ [][Next]_vars

Inv          == RegOK(reg) /\ SnapshotsClosed(reg)
NeverReused  == [][Extends(reg, reg')]_vars
\* a reply that names an identifier names a registered one; an error leaves the registry as it was
ReplySound   == [][(ret'.ok /\ reg' # reg => ret'.id \in DOMAIN reg'.records) /\ (~ret'.ok => reg' = reg)]_vars
=============================================================================
