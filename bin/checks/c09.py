"""C09 - a time window reports exactly the stream items of one aligned interval.

L1  tla/window/Window.tla (code-shaped CSPARQLWindow) against the requirement invariants,
    exhaustive over small streams/widths/slides.
L2  every complete behaviour of a smaller instance is printed by TLC, replayed on the real
    CSPARQLWindow (callback / channel / WindowRunner) and the recording is validated.
L3  seeded random long streams recorded from the real code, validated by WindowTrace.tla
    against the requirement (existential choice of the aligned interval per firing).
"""
import os
import time
import vlib
from vlib import log

FAMILY = "window"


def sig_for(run_events):
    r = run_events[0]
    shape = "width<slide" if r["w"] < r["s"] else ("width=k*slide" if r["w"] % r["s"] == 0 else "width>slide,non-multiple")
    return f"CSPARQLWindow::add_to_window|{shape}|nonempty={r['nonempty']}|firings-not-aligned-intervals"


def validate(ctx, trace_path, verdict, tag):
    res = vlib.tlc_trace(FAMILY, "WindowTrace.tla", "WindowTrace.cfg", trace_path, tag=f"c09-{tag}")
    runs = vlib.split_runs(vlib.read_ndjson(trace_path))
    failed = {f[0] for f in res["fail"]}
    for rid in sorted(failed):
        ev = runs[rid]
        verdict.violation(sig_for(ev), {"driver": "c09", "case": ev[0]["case"], "observed": ev[1:-1]})
    drift = [d[0] for d in res["modeldiff"] if d[0] not in failed]
    return runs, failed, drift, res


def nontrivial(ev):
    # a run is non-trivial when at least one firing carried at least one item
    return any(f["items"] for e in ev if e["ev"] in ("add", "flush") for f in e["fired"])


def run(ctx):
    t0 = time.time()
    verdict = vlib.Verdict("C09", ctx.seed, ctx.tier)
    wd = vlib.workdir("c09")
    if ctx.replay:
        import json
        case = json.load(open(ctx.replay))["case"]["case"]
        vlib.write_ndjson(os.path.join(wd, "cases.ndjson"), [case])
        vlib.kverif(["c09", "--cases", os.path.join(wd, "cases.ndjson"), "--out", os.path.join(wd, "replay.ndjson")])
        validate(ctx, os.path.join(wd, "replay.ndjson"), verdict, "replay")
        return verdict.finish()

    thorough = ctx.tier == "thorough"
    # L1
    mc = vlib.tlc_mc(FAMILY, "MCWindow.tla", "MC_thorough.cfg" if thorough else "MC_quick.cfg", workers=8)
    log(f"L1 Window model: {mc['states']} distinct states, violated={mc['violated']}")
    if mc["uncovered"]:
        raise vlib.ToolError(f"vacuity: actions never taken in L1: {mc['uncovered']}")
    # L1b: the model without the eviction repair must violate ExactlyOnce (non-vacuity of the invariant)
    neg = vlib.tlc_mc(FAMILY, "MCWindow.tla", "MC_unfixed.cfg", workers=4, coverage=False, tag="c09-neg")
    if neg["violated"] != "ExactlyOnce":
        raise vlib.ToolError("non-vacuity check failed: historic eviction no longer violates ExactlyOnce in the model")

    # L2: TLC behaviours -> real code
    behaviours, st = vlib.tlc_emit(FAMILY, "MCWindow.tla", "MC_emit_thorough.cfg" if thorough else "MC_emit_quick.cfg")
    kinds = ["callback", "channel", "runner"]
    cases = []
    for n, b in enumerate(behaviours):
        cases.append({"w": b["w"], "s": b["s"], "nonempty": b["nonempty"], "kind": kinds[n % 3],
                      "items": [[i + 1, t] for i, t in enumerate(b["stream"])], "hasmodel": True,
                      "model": [{"ts": f["ts"], "items": f["items"]} for f in b["fired"]],
                      "mflush": {"items": b["flush"]["items"]}})
    vlib.write_ndjson(os.path.join(wd, "l2cases.ndjson"), cases)
    vlib.kverif(["c09", "--cases", os.path.join(wd, "l2cases.ndjson"), "--out", os.path.join(wd, "l2.ndjson")])
    runs2, failed2, drift2, res2 = validate(ctx, os.path.join(wd, "l2.ndjson"), verdict, "l2")
    log(f"L2 replayed {len(cases)} TLC behaviours: {len(failed2)} rejected, {len(drift2)} differ from the code-shaped model only")

    # L3: random long streams
    n3 = 6000 if thorough else 600
    vlib.kverif(["c09", "--random", n3, "--seed", ctx.seed, "--maxlen", 80 if thorough else 50, "--out", os.path.join(wd, "l3.ndjson")])
    runs3, failed3, drift3, res3 = validate(ctx, os.path.join(wd, "l3.ndjson"), verdict, "l3")
    log(f"L3 validated {len(runs3)} recorded runs: {len(failed3)} rejected")

    if mc["violated"] and not (failed2 or failed3):
        raise vlib.ToolError(f"L1 invariant {mc['violated']} violated in the model but not reproduced on the code: model out of date")
    if drift2 and not verdict.violations:
        log(f"MODEL-DRIFT: {len(drift2)} behaviours where the code differs from Window.tla while the requirement holds "
            f"(update the code-shaped model); not a verdict")

    rc = verdict.finish()
    allruns = list(runs2.values()) + list(runs3.values())
    distinct = {vlib.case_hash(ev[0]["case"]) for ev in allruns if nontrivial(ev)}
    sample = runs3[sorted(runs3)[0]]
    cov = {
        "states": mc["states"], "transitions": mc["generated"],
        "traces_validated_against_impl": len(allruns),
        "samples": [{"case": sample[0]["case"], "observed": sample[1:-1][:6]},
                    {"tlc_behaviour": behaviours[len(behaviours) // 2]}],
        "evaluations": len(allruns), "distinct_nontrivial": len(distinct),
        "rule": "L2: every complete behaviour of the emit instance; L3: seeded random streams (width<slide, multiples, "
                "non-multiples, duplicate items/timestamps, gaps). Distinct by hash of (w,s,strategy,consumer kind,stream); "
                "non-trivial = at least one firing with a non-empty content.",
        "exhaustive": True,
        "l1_constants": "MC_thorough.cfg" if thorough else "MC_quick.cfg",
        "l2_behaviours": len(cases), "l3_runs": len(runs3), "model_drift": len(drift2),
        "trace_states": res2["states"] + res3["states"],
    }
    vlib.write_evidence("C09", ctx.tier, ctx.seed, "model_checking", cov,
                        ["in-order streams (the property's precondition) - the generator never emits a decreasing timestamp",
                         "L1 exhaustive only within the constants of the cfg; beyond them evidence is trace validation of sampled runs",
                         "Tick::TimeDriven; report strategies OnWindowClose and OnWindowClose+NonEmptyContent"],
                        time.time() - t0, len(verdict.violations))
    return rc
