"""Seeded generator of datasets and SELECT / UPDATE syntax trees with a printer to SPARQL text.

The syntax tree (JSON, see tla/sparql/Sparql.tla) is what TLC evaluates; the printed text is what
the real engine parses and executes.  Nothing here computes an answer.
"""
import random

NS = "http://e/"
IRIS = [NS + f"i{k}" for k in range(1, 7)]
P_IRI = [NS + "p1", NS + "p2"]
P_LIT = NS + "pl"
P_VAL = NS + "val"
PREDS = P_IRI + [P_LIT, P_VAL]
LITS = ["l1", "l2", "l3"]
INTS = ["1", "2", "3", "5", "10", "12", "-4"]   # multi-digit and negative: numeric vs lexical comparison differ
GRAPHS = [NS + "g1", NS + "g2", NS + "g3"]      # g3 is created empty
UNKNOWN_GRAPH = NS + "g9"                        # never created by any generated request
VARS = ["a", "b", "c", "d"]
SCALE = 27720                                    # lcm(1..12): AVG of <= 12 integers is exact


def kind_of(lex):
    if lex.startswith("_:"):
        return "bn"
    if lex.startswith("http://") or lex.startswith("urn:"):
        return "iri"
    try:
        float(lex)
        return "num"
    except ValueError:
        return "lit"


def render(lex):
    k = kind_of(lex)
    if k == "iri":
        return f"<{lex}>"
    if k == "num":
        return lex
    if k == "bn":
        return lex
    return '"' + lex.replace("\\", "\\\\").replace('"', '\\"') + '"'


def V(name):
    return ["v", name]


def C(lex):
    return ["c", lex]


def dollar(text):
    """The same request with every variable written with the $ sigil (an equivalent spelling in SPARQL)."""
    import re
    return re.sub(r'<[^<>\s]*>|"(?:[^"\\]|\\.)*"|\?([A-Za-z_][A-Za-z0-9_]*)', lambda m: m.group(0) if m.group(1) is None else "$" + m.group(1), text)


def with_prefix(text):
    """The same request with a PREFIX prologue and the IRIs of the namespace written as prefixed names."""
    import re
    body = re.sub(r'"(?:[^"\\]|\\.)*"|<' + re.escape(NS) + r'([A-Za-z0-9_]+)>', lambda m: m.group(0) if m.group(1) is None else "e:" + m.group(1), text)
    return "PREFIX e: <" + NS + "> " + body


def tr(t):
    return "?" + t[1] if t[0] == "v" else ("UNDEF" if t[0] == "u" else render(t[1]))


# ----------------------------------------------------------------------------- datasets

def gen_dataset(rng, nmax=14):
    quads = set()
    n = rng.randint(6, nmax)
    while len(quads) < n:
        g = rng.choice(["", "", GRAPHS[0], GRAPHS[1]])
        s = rng.choice(IRIS[:4])
        r = rng.random()
        if r < 0.5:
            quads.add((s, rng.choice(P_IRI), rng.choice(IRIS[:5]), g))
        elif r < 0.7:
            quads.add((s, P_VAL, rng.choice(INTS), g))
        else:
            quads.add((s, P_LIT, rng.choice(LITS), g))
    # a triple duplicated across graphs (default + named, and named + named)
    q = rng.choice(sorted(quads))
    quads.add((q[0], q[1], q[2], ""))
    quads.add((q[0], q[1], q[2], GRAPHS[0]))
    if rng.random() < 0.5:
        quads.add((q[0], q[1], q[2], GRAPHS[1]))
    return sorted(quads)


def setup_steps(quads, graphs=GRAPHS):
    """Requests that build the dataset through the engine's own update path + empty graph identities."""
    steps = []
    by_g = {}
    for s, p, o, g in quads:
        by_g.setdefault(g, []).append((s, p, o))
    body = []
    for g, ts in sorted(by_g.items()):
        inner = " ".join(f"{render(s)} {render(p)} {render(o)} ." for s, p, o in ts)
        body.append(inner if g == "" else f"GRAPH <{g}> {{ {inner} }}")
    if body:
        steps.append({"k": "update", "ep": "update", "text": "INSERT DATA { " + " ".join(body) + " }"})
    for g in graphs:
        steps.append({"k": "create", "g": g})
    return steps


# ----------------------------------------------------------------------------- patterns

class Gen:
    """Syntax-tree generator.  Triple patterns are obtained by generalising quads that really are in
    the dataset (a term is consistently replaced by one variable within a SELECT scope), so that most
    generated queries have non-empty answers; a fraction stays purely random."""

    def __init__(self, rng, features=None, quads=None):
        self.rng = rng
        self.fresh = 0
        self.features = features  # None = everything
        self.quads = quads or []
        self.assign = {}          # term -> variable (witness assignment of the current scope)
        self.ctx = ""             # graph the current patterns are evaluated in ("" = default)

    def on(self, f):
        return self.features is None or f in self.features

    def var(self):
        return self.rng.choice(VARS)

    def random_tp(self, bias_var=None):
        r = self.rng
        s = V(bias_var) if bias_var and r.random() < 0.6 else (V(self.var()) if r.random() < 0.9 else C(r.choice(IRIS[:4])))
        k = r.random()
        if k < 0.08:
            p = V(self.var())
            o = V(self.var()) if r.random() < 0.7 else C(r.choice(IRIS))
        elif k < 0.55:
            p = C(r.choice(P_IRI))
            o = V(self.var()) if r.random() < 0.9 else C(r.choice(IRIS[:5]))
        elif k < 0.8:
            p = C(P_VAL)
            o = V(self.var()) if r.random() < 0.93 else C(r.choice(INTS))
        else:
            p = C(P_LIT)
            o = V(self.var()) if r.random() < 0.9 else C(r.choice(LITS))
        return [s, p, o]

    def gen_term(self, term, pvar):
        """Generalise one term of a real quad: reuse its variable, introduce one, or keep the constant."""
        r = self.rng
        if term in self.assign:
            return V(self.assign[term]) if r.random() < 0.85 else C(term)
        if r.random() < pvar:
            free = [v for v in VARS if v not in self.assign.values()]
            if free:
                v = r.choice(free)
                self.assign[term] = v
                return V(v)
        return C(term)

    def bgp(self, n=None):
        r = self.rng
        n = n or r.choice([1, 1, 2, 2, 3])
        pool = [q for q in self.quads if q[3] == self.ctx]
        if not pool or r.random() < 0.15:
            tps, last = [], None
            for _ in range(n):
                t = self.random_tp(last)
                tps.append(t)
                vs = [x[1] for x in t if x[0] == "v"]
                last = r.choice(vs) if vs else None
            return {"t": "bgp", "tps": tps}
        tps, used = [], set(self.assign)
        for _ in range(n):
            linked = [q for q in pool if used & {q[0], q[2]}]
            q = r.choice(linked if linked and r.random() < 0.8 else pool)
            tp = [self.gen_term(q[0], 0.85), self.gen_term(q[1], 0.1), self.gen_term(q[2], 0.8)]
            tps.append(tp)
            used |= {q[0], q[2]}
        return {"t": "bgp", "tps": tps}

    def pvars(self, p):
        t = p["t"]
        if t == "bgp":
            return {x[1] for tp in p["tps"] for x in tp if x[0] == "v"}
        if t in ("join", "union"):
            out = set()
            for e in p["ps"]:
                out |= self.pvars(e)
            return out
        if t == "graph":
            return ({p["name"][1]} if p["name"][0] == "v" else set()) | self.pvars(p["p"])
        if t == "bind":
            return {p["v"]}
        if t == "values":
            return set(p["vars"])
        if t == "sub":
            q = p["q"]
            return self.pvars(q["p"]) if q["star"] else {x["as"] for x in q["proj"]}
        return set()

    def expr(self, scope, depth=0):
        r = self.rng
        scope = sorted(scope)
        k = r.random()
        if depth < 2 and k < 0.2:
            return {"t": r.choice(["and", "or"]), "a": self.expr(scope, depth + 1), "b": self.expr(scope, depth + 1)}
        if depth < 2 and k < 0.3:
            return {"t": "not", "a": self.expr(scope, depth + 1)}
        v = V(r.choice(scope))
        inv = {x: t for t, x in self.assign.items()}
        k = r.random()
        if v[1] in inv and k < 0.5:
            w = inv[v[1]]
            if kind_of(w) == "num":
                return {"t": "cmp", "l": v, "op": r.choice(["<=", ">=", "=", "<", ">", "!="]), "r": C(r.choice([w, w, r.choice(INTS)]))}
            return {"t": "cmp", "l": v, "op": r.choice(["=", "=", "!="]), "r": C(w)}
        k = r.random()
        if k < 0.35:
            return {"t": "cmp", "l": v, "op": r.choice(["=", "!="]), "r": C(r.choice(IRIS))}
        if k < 0.5 and len(scope) > 1:
            return {"t": "cmp", "l": v, "op": r.choice(["=", "!="]), "r": V(r.choice(scope))}
        if k < 0.6:
            return {"t": "cmp", "l": v, "op": r.choice(["=", "!="]), "r": C(r.choice(LITS))}
        return {"t": "cmp", "l": v, "op": r.choice(["<", "<=", ">", ">=", "=", "!="]), "r": C(r.choice(INTS))}

    def values(self):
        r = self.rng
        nv = r.choice([1, 1, 2])
        vs = r.sample(VARS, nv)
        inv = {v: t for t, v in self.assign.items()}
        rows = []
        for i in range(r.randint(1, 3)):
            row = []
            for v in vs:
                k = r.random()
                if i == 0 and v in inv and k < 0.8:
                    row.append(C(inv[v]))
                else:
                    row.append(["u", ""] if k < 0.2 else C(r.choice(IRIS[:4] if k < 0.7 else INTS + LITS)))
            rows.append(row)
        if r.random() < 0.15:
            rows.append(list(rows[0]))      # duplicate row: multiplicity matters
        return {"t": "values", "vars": vs, "rows": rows}

    def group(self, depth, top=False):
        """A group graph pattern: sequence of elements (join node)."""
        r = self.rng
        n = r.choice([1, 2, 2, 3]) if depth > 0 else r.choice([1, 1, 2])
        els = []
        for i in range(n):
            k = r.random()
            if depth <= 0 or k < 0.45:
                els.append(self.bgp())
            elif k < 0.6 and self.on("union"):
                els.append({"t": "union", "ps": [self.group(depth - 1) for _ in range(r.choice([2, 2, 3]))]})
            elif k < 0.75 and self.on("graph"):
                gname = r.choice(GRAPHS[:2] + GRAPHS)
                name = V("g") if r.random() < 0.5 else C(gname)
                if name[0] == "c" and r.random() < 0.12:
                    gname = UNKNOWN_GRAPH              # a graph name nothing ever created: no solutions, and no side effect
                    name = C(gname)
                saved = self.ctx
                self.ctx = gname
                els.append({"t": "graph", "name": name, "p": self.group(depth - 1)})
                self.ctx = saved
            elif k < 0.83 and self.on("values"):
                els.append(self.values())
            elif k < 0.9 and self.on("sub"):
                saved = dict(self.assign)
                els.append({"t": "sub", "q": self.select(depth - 1, sub=True)})
                self.assign = saved
            elif k < 0.94:
                els.append(self.group(depth - 1))
            else:
                els.append(self.bgp())
        # BIND: arguments from variables bound by what precedes it, fresh output variable
        if self.on("bind") and r.random() < 0.2:
            pos = r.randint(1, len(els))
            before = set()
            for e in els[:pos]:
                before |= self.pvars(e)
            if before:
                self.fresh += 1
                args = [V(r.choice(sorted(before)))]
                if r.random() < 0.6:
                    args.append(C(r.choice(["x", "-y"])))
                if r.random() < 0.3:
                    args.insert(0, C("k"))
                els.insert(pos, {"t": "bind", "args": args, "v": f"n{self.fresh}"})
        # FILTERs: anywhere in the group, over variables of the whole group
        if self.on("filter"):
            scope = set()
            for e in els:
                scope |= self.pvars(e)
            while scope and r.random() < 0.3:
                els.insert(r.randint(0, len(els)), {"t": "filter", "e": self.expr(scope)})
        return {"t": "join", "ps": els}

    # ---- systematic operator nesting: every operator inside every other one (both orders arise from the pair list)
    OPS = ["union", "graphv", "graphc", "sub", "group", "values", "bind", "filter"]

    def wrap(self, op, inner):
        """A group whose main element is operator `op` applied to / placed next to the group `inner`."""
        r = self.rng
        if op == "union":
            return {"t": "join", "ps": [{"t": "union", "ps": [inner, self.group(0)]}]}
        if op in ("graphv", "graphc"):
            gname = r.choice(GRAPHS[:2])
            saved, self.ctx = self.ctx, gname
            body = inner if op == "graphc" and r.random() < 0.5 else inner
            self.ctx = saved
            return {"t": "join", "ps": [{"t": "graph", "name": V("g") if op == "graphv" else C(gname), "p": body}]}
        if op == "sub":
            pv = sorted(self.pvars(inner))
            q = {"distinct": r.random() < 0.3, "star": not pv or r.random() < 0.3, "proj": [], "from": [], "fromnamed": [], "p": inner, "group": [], "order": [], "limit": -1}
            if not q["star"]:
                q["proj"] = [{"k": "VAR", "v": c, "as": c} for c in r.sample(pv, r.randint(1, min(2, len(pv))))]
                hidden = [v for v in pv if v not in {x["v"] for x in q["proj"]}]
                if hidden and not q["distinct"] and r.random() < 0.6:
                    # ORDER BY a variable that is not projected, with a LIMIT that cuts: the sort must happen before the projection
                    q["order"] = [{"v": r.choice(hidden), "d": r.choice(["asc", "desc"])}]
                    q["limit"] = r.choice([1, 1, 2, 3])
            return {"t": "join", "ps": [{"t": "sub", "q": q}]}
        if op == "group":
            return {"t": "join", "ps": [inner, self.bgp(1)]}
        if op == "values":
            return {"t": "join", "ps": [self.values()] + inner["ps"]}
        if op == "bind":
            pv = sorted(self.pvars(inner))
            if not pv:
                return inner
            self.fresh += 1
            return {"t": "join", "ps": inner["ps"] + [{"t": "bind", "args": [V(r.choice(pv)), C("x")], "v": f"n{self.fresh}"}]}
        scope = self.pvars(inner)
        if not scope:
            return inner
        ps = list(inner["ps"])
        ps.insert(r.randint(0, len(ps)), {"t": "filter", "e": self.expr(scope)})
        return {"t": "join", "ps": ps}

    def nested(self, outer, inner):
        """select over  [bgp] outer( [bgp] inner( [bgp] ) )  with the graph context followed for data-driven patterns"""
        r = self.rng

        def ctx_of(op):
            return r.choice(GRAPHS[:2]) if op in ("graphv", "graphc") else None
        co, ci = ctx_of(outer), ctx_of(inner)
        saved = self.ctx
        if co:
            self.ctx = co
        if ci:
            self.ctx = ci
        core = {"t": "join", "ps": [self.bgp(r.choice([1, 2]))]}
        mid = self.wrap(inner, core)
        if ci and inner in ("graphv", "graphc"):
            mid["ps"][0]["name"] = V("g") if inner == "graphv" else C(ci)
        self.ctx = co or saved
        if r.random() < 0.6:
            mid = {"t": "join", "ps": [self.bgp(1)] + mid["ps"]}
        top = self.wrap(outer, mid)
        if co and outer in ("graphv", "graphc"):
            top["ps"][0]["name"] = V("g") if outer == "graphv" else C(co)
        self.ctx = saved
        if r.random() < 0.5:
            top = {"t": "join", "ps": [self.bgp(1)] + top["ps"]}
        pv = sorted(self.pvars(top))
        q = {"distinct": False, "star": True, "proj": [], "from": [], "fromnamed": [], "p": top, "group": [], "order": [], "limit": -1}
        if pv and r.random() < 0.5:
            q["star"] = False
            q["proj"] = [{"k": "VAR", "v": c, "as": c} for c in r.sample(pv, r.randint(1, min(3, len(pv))))]
        return q

    def select(self, depth, sub=False):
        r = self.rng
        p = self.group(depth, top=not sub)
        pv = sorted(self.pvars(p))
        q = {"distinct": False, "star": False, "proj": [], "from": [], "fromnamed": [], "p": p, "group": [], "order": [], "limit": -1}
        k = r.random()
        numvars = sorted({tp[2][1] for tp in _all_tps(p) if tp[1] == C(P_VAL) and tp[2][0] == "v"})
        if self.on("agg") and numvars and k < (0.25 if sub else 0.15):
            v = r.choice(numvars)
            gv = [x for x in pv if x != v]
            grp = r.sample(gv, min(len(gv), r.choice([0, 1, 1, 2])))
            q["group"] = grp
            q["proj"] = [{"k": "VAR", "v": g, "as": g} for g in grp]
            kinds = ["SUM", "MIN", "MAX"] if sub else ["SUM", "MIN", "MAX", "AVG"]
            for kd in r.sample(kinds, r.choice([1, 1, 2])):
                self.fresh += 1
                q["proj"].append({"k": kd, "v": v, "as": f"t{self.fresh}"})
            if r.random() < 0.4:
                q["order"] = [{"v": x["as"], "d": r.choice(["asc", "desc"])} for x in r.sample(q["proj"], 1)]
            return q
        if not pv or r.random() < 0.15:
            q["star"] = True
        else:
            cols = r.sample(pv, r.randint(1, min(3, len(pv))))
            q["proj"] = [{"k": "VAR", "v": c, "as": c} for c in cols]
        if self.on("distinct") and r.random() < 0.3:
            q["distinct"] = True
        outv = pv if q["star"] else [x["as"] for x in q["proj"]]
        # a subquery may be ordered by variables it does not project (ORDER BY applies before projection)
        keyv = pv if (sub and not q["distinct"] and r.random() < 0.5) else outv
        if self.on("order") and keyv and r.random() < (0.5 if sub else 0.35):
            ks = r.sample(keyv, min(len(keyv), r.choice([1, 1, 2])))
            q["order"] = [{"v": x, "d": r.choice(["asc", "desc"])} for x in ks]
        if self.on("limit") and r.random() < (0.35 if q["order"] else 0.15):
            q["limit"] = r.randint(0, 4)
        if not sub and self.on("from") and r.random() < 0.2:
            gs = GRAPHS[:]
            q["from"] = r.sample(gs + [UNKNOWN_GRAPH], r.choice([0, 1, 2]))
            q["fromnamed"] = r.sample(gs, r.choice([0, 1, 2, 3]))
        return q


TWIN_KINDS = ["filter-const", "filter-op", "values-rows", "graph-name", "bind-const", "bgp-const", "sub-distinct", "sub-proj", "sub-limit", "sub-order"]


def twin_query(rng, quads, kind):
    """SELECT * over the UNION (or join) of two groups that are identical except for ONE detail deep inside (a constant,
    an operator, a VALUES row, a graph name, a subquery modifier).  Whatever is keyed or cached by the shape of a sub-plan
    must still tell the two apart."""
    dq = [q for q in quads if q[3] == "" and kind_of(q[2]) == "iri"] or [(IRIS[0], P_IRI[0], IRIS[1], "")]
    s_, p_, o_, _g = rng.choice(dq)
    objs = sorted({q[2] for q in quads if q[1] == p_ and q[3] == ""} | {IRIS[4]})
    o2 = rng.choice([x for x in objs if x != o_] or [IRIS[5]])
    base = {"t": "bgp", "tps": [[V("a"), C(p_), V("b")]]}

    def sub(distinct=False, proj=("a",), order=(), limit=-1):
        return {"t": "sub", "q": {"distinct": distinct, "star": False, "proj": [{"k": "VAR", "v": v, "as": v} for v in proj], "from": [], "fromnamed": [],
                                  "group": [], "p": {"t": "join", "ps": [base]}, "order": [{"v": v, "d": d} for v, d in order], "limit": limit}}
    if kind == "filter-const":
        A, B = [base, {"t": "filter", "e": {"t": "cmp", "l": V("b"), "op": "=", "r": C(o_)}}], [base, {"t": "filter", "e": {"t": "cmp", "l": V("b"), "op": "=", "r": C(o2)}}]
    elif kind == "filter-op":
        A, B = [base, {"t": "filter", "e": {"t": "cmp", "l": V("b"), "op": "=", "r": C(o_)}}], [base, {"t": "filter", "e": {"t": "cmp", "l": V("b"), "op": "!=", "r": C(o_)}}]
    elif kind == "values-rows":
        A, B = [base, {"t": "values", "vars": ["b"], "rows": [[C(o_)]]}], [base, {"t": "values", "vars": ["b"], "rows": [[C(o2)], [C(o_)]]}]
    elif kind == "graph-name":
        gb = {"t": "bgp", "tps": [[V("a"), V("c"), V("b")]]}
        A, B = [{"t": "graph", "name": C(GRAPHS[0]), "p": {"t": "join", "ps": [gb]}}], [{"t": "graph", "name": C(GRAPHS[1]), "p": {"t": "join", "ps": [gb]}}]
    elif kind == "bind-const":
        A, B = [base, {"t": "bind", "args": [V("b"), C("k1")], "v": "n1"}], [base, {"t": "bind", "args": [V("b"), C("k2")], "v": "n1"}]
    elif kind == "bgp-const":
        A, B = [{"t": "bgp", "tps": [[V("a"), C(p_), C(o_)]]}], [{"t": "bgp", "tps": [[V("a"), C(p_), C(o2)]]}]
    elif kind == "sub-distinct":
        A, B = [sub(False, ("b",))], [sub(True, ("b",))]
    elif kind == "sub-proj":
        A, B = [sub(False, ("a",))], [sub(False, ("b",))]
    elif kind == "sub-limit":
        A, B = [sub(False, ("a", "b"), (("a", "asc"), ("b", "asc")), 1)], [sub(False, ("a", "b"), (("a", "asc"), ("b", "asc")), 2)]
    else:
        A, B = [sub(False, ("a", "b"), (("a", "asc"), ("b", "asc")), 1)], [sub(False, ("a", "b"), (("a", "desc"), ("b", "desc")), 1)]
    ga, gb_ = {"t": "join", "ps": A}, {"t": "join", "ps": B}
    if rng.random() < 0.3:
        ga, gb_ = gb_, ga
    p = {"t": "join", "ps": [{"t": "union", "ps": [ga, gb_]}]}
    return {"distinct": False, "star": True, "proj": [], "from": [], "fromnamed": [], "group": [], "order": [], "limit": -1, "p": p}


def _all_tps(p):
    t = p["t"]
    if t == "bgp":
        return list(p["tps"])
    if t in ("join", "union"):
        return [x for e in p["ps"] for x in _all_tps(e)]
    if t == "graph":
        return _all_tps(p["p"])
    return []      # a subquery's inner variables are not in scope outside it


# ----------------------------------------------------------------------------- printer

def pr_expr(e):
    t = e["t"]
    if t == "cmp":
        return f"{tr(e['l'])} {e['op']} {tr(e['r'])}"
    if t == "not":
        return f"!({pr_expr(e['a'])})"
    op = "&&" if t == "and" else "||"
    return f"({pr_expr(e['a'])}) {op} ({pr_expr(e['b'])})"


def pr_elem(p):
    t = p["t"]
    if t == "unit":
        return "{ }"
    if t == "bgp":
        return " ".join(f"{tr(s)} {tr(pp)} {tr(o)} ." for s, pp, o in p["tps"])
    if t == "join":
        return "{ " + pr_group(p) + " }"
    if t == "union":
        return " UNION ".join("{ " + pr_group(b) + " }" for b in p["ps"])
    if t == "graph":
        return f"GRAPH {tr(p['name'])} {{ {pr_group(p['p'])} }}"
    if t == "filter":
        return f"FILTER({pr_expr(p['e'])})"
    if t == "bind":
        return "BIND(CONCAT(" + ", ".join(tr(a) for a in p["args"]) + f") AS ?{p['v']})"
    if t == "values":
        if len(p["vars"]) == 1:
            return f"VALUES ?{p['vars'][0]} {{ " + " ".join(tr(r[0]) for r in p["rows"]) + " }"
        return "VALUES (" + " ".join("?" + v for v in p["vars"]) + ") { " + " ".join("(" + " ".join(tr(x) for x in r) + ")" for r in p["rows"]) + " }"
    if t == "sub":
        return "{ " + pr_select(p["q"]) + " }"
    raise ValueError(t)


def pr_group(p):
    assert p["t"] == "join"
    return " ".join(pr_elem(e) for e in p["ps"])


def pr_select(q):
    s = "SELECT "
    if q["distinct"]:
        s += "DISTINCT "
    if q["star"]:
        s += "*"
    else:
        s += " ".join(("?" + x["v"]) if x["k"] == "VAR" else f"{x['k']}(?{x['v']}) AS ?{x['as']}" for x in q["proj"])
    for g in q["from"]:
        s += f" FROM <{g}>"
    for g in q["fromnamed"]:
        s += f" FROM NAMED <{g}>"
    s += " WHERE { " + pr_group(q["p"]) + " }"
    if q["group"]:
        s += " GROUP BY " + " ".join("?" + v for v in q["group"])
    if q["order"]:
        s += " ORDER BY " + " ".join((f"DESC(?{c['v']})" if c["d"] == "desc" else f"?{c['v']}") for c in q["order"])
    if q["limit"] >= 0:
        s += f" LIMIT {q['limit']}"
    return s


def star_cols(p, out=None):
    """Column order of SELECT *: first appearance in the pattern (presentation only)."""
    out = [] if out is None else out

    def push(v):
        if v not in out:
            out.append(v)
    t = p["t"]
    if t == "bgp":
        for tp in p["tps"]:
            for x in tp:
                if x[0] == "v":
                    push(x[1])
    elif t in ("join", "union"):
        for e in p["ps"]:
            star_cols(e, out)
    elif t == "graph":
        if p["name"][0] == "v":
            push(p["name"][1])
        star_cols(p["p"], out)
    elif t == "bind":
        push(p["v"])
    elif t == "values":
        for v in p["vars"]:
            push(v)
    elif t == "sub":
        q = p["q"]
        if q["star"]:
            star_cols(q["p"], out)
        else:
            for x in q["proj"]:
                push(x["as"])
    return out


def cols_of(q):
    return star_cols(q["p"]) if q["star"] else [x["as"] for x in q["proj"]]


# ----------------------------------------------------------------------------- lexical tables for TLC

def resource_terms(quads):
    """Terms that occur as subject, predicate or graph name of a stored quad: they are IRIs or blank nodes whatever they look like."""
    out = set()
    for q in quads:
        out.update([q[0], q[1]])
        if len(q) > 3 and q[3]:
            out.add(q[3])
    return out


def tables(lexicals, resources=()):
    """kind / num (scaled integer) / rank (code point order) / canon tables over the given lexical forms."""
    lex = set(lexicals) | {str(k) for k in range(-40, 101)}
    kind, num = {}, {}
    for x in lex:
        k = kind_of(x)
        if x in resources and k not in ("iri", "bn"):
            k = "iri"
        kind[x] = k
        if k == "num":
            f = float(x)
            sc = f * SCALE
            if abs(sc - round(sc)) < 1e-6 and abs(sc) < 2 ** 31 - 1:
                num[x] = int(round(sc))
    rank = {x: i + 1 for i, x in enumerate(sorted(lex))}
    canon = sorted(x for x in num if x == str(int(float(x))) and num[x] % SCALE == 0)
    return kind, num, rank, canon


# ----------------------------------------------------------------------------- updates

DEFAULT_G = ["c", ""]
NEW_GRAPH = NS + "g4"


def pr_tmpl(quads):
    by = {}
    for s, p, o, g in quads:
        by.setdefault(tuple(g), []).append((s, p, o))
    out = []
    for g, ts in by.items():
        inner = " ".join(f"{trb(s)} {trb(p)} {trb(o)} ." for s, p, o in ts)
        out.append(inner if g == ("c", "") else f"GRAPH {trb(list(g))} {{ {inner} }}")
    return " ".join(out)


def trb(t):
    return "_:" + t[1] if t[0] == "b" else tr(t)


def pr_update(op):
    f = op["form"]
    if f == "insert_data":
        return "INSERT DATA { " + pr_tmpl(op["ins"]) + " }"
    if f == "delete_data":
        return "DELETE DATA { " + pr_tmpl(op["del"]) + " }"
    if f == "delete_where_short":
        return "DELETE WHERE { " + pr_tmpl(op["del"]) + " }"
    w = " WHERE { " + pr_group(op["where"]) + " }"
    if f == "insert_where":
        return "INSERT { " + pr_tmpl(op["ins"]) + " }" + w
    if f == "delete_where":
        return "DELETE { " + pr_tmpl(op["del"]) + " }" + w
    return "DELETE { " + pr_tmpl(op["del"]) + " } INSERT { " + pr_tmpl(op["ins"]) + " }" + w


def where_of_quads(quads):
    """DELETE WHERE shorthand: the quad block is also the WHERE pattern."""
    by = {}
    for s, p, o, g in quads:
        by.setdefault(tuple(g), []).append([s, p, o])
    ps = []
    for g, tps in by.items():
        b = {"t": "bgp", "tps": tps}
        ps.append(b if g == ("c", "") else {"t": "graph", "name": list(g), "p": {"t": "join", "ps": [b]}})
    return {"t": "join", "ps": ps}


class UpdGen:
    def __init__(self, rng, pool):
        self.rng = rng
        self.pool = list(pool)      # quads seen so far (bias only, not an oracle)

    def cquad(self, existing=False):
        r = self.rng
        if existing and self.pool and r.random() < 0.8:
            s, p, o, g = r.choice(self.pool)
        else:
            s = r.choice(IRIS[:4])
            k = r.random()
            p, o = (r.choice(P_IRI), r.choice(IRIS[:5])) if k < 0.5 else ((P_VAL, r.choice(INTS)) if k < 0.75 else (P_LIT, r.choice(LITS)))
            g = r.choice(["", "", GRAPHS[0], GRAPHS[1], NEW_GRAPH if r.random() < 0.3 else GRAPHS[2]])
        return [C(s), C(p), C(o), C(g)]

    def template(self, scope, insert):
        r = self.rng
        scope = sorted(scope)
        out = []
        for _ in range(r.choice([1, 1, 2])):
            def pick(pos):
                k = r.random()
                if scope and k < 0.7:
                    return V(r.choice(scope))
                if insert and pos in (0, 2) and k < 0.8:
                    return ["b", r.choice(["x", "y"])]
                return C(r.choice(IRIS[:5])) if pos != 1 else C(r.choice(P_IRI))
            s, o = pick(0), pick(2)
            p = V(r.choice(scope)) if scope and r.random() < 0.15 else C(r.choice(PREDS))
            k = r.random()
            g = DEFAULT_G if k < 0.5 else (V("g") if "g" in scope and k < 0.8 else C(r.choice(GRAPHS + [NEW_GRAPH])))
            out.append([s, p, o, g])
        return out

    def op(self):
        r = self.rng
        k = r.random()
        if k < 0.2:
            qs = [self.cquad() for _ in range(r.choice([1, 2, 3]))]
            self.pool += [(q[0][1], q[1][1], q[2][1], q[3][1]) for q in qs]
            return {"form": "insert_data", "del": [], "ins": qs, "where": {"t": "unit"}}
        if k < 0.35:
            return {"form": "delete_data", "del": [self.cquad(True) for _ in range(r.choice([1, 2]))], "ins": [], "where": {"t": "unit"}}
        if k < 0.5:
            # DELETE WHERE shorthand: generalise existing quads
            g = Gen(r, None, self.pool)
            quads = []
            for _ in range(r.choice([1, 1, 2])):
                gname = r.choice(["", "", GRAPHS[0], GRAPHS[1]])
                g.ctx = gname
                b = g.bgp(1)
                gt = DEFAULT_G if gname == "" else (V("g") if r.random() < 0.3 else C(gname))
                quads.append(b["tps"][0] + [gt])
            return {"form": "delete_where_short", "del": quads, "ins": [], "where": where_of_quads(quads)}
        g = Gen(r, {"union", "graph", "filter", "values", "sub", "order", "limit", "distinct"}, self.pool)
        if r.random() < 0.08:
            # the same solution several times (UNION branches that bind the same values) and a template with a blank node:
            # every occurrence of a solution gets its own fresh node
            p = C(r.choice(P_IRI))
            b = {"t": "bgp", "tps": [[V("a"), p, V("b")]]}
            where = {"t": "join", "ps": [{"t": "union", "ps": [{"t": "join", "ps": [b]}, {"t": "join", "ps": [b]}]}]}
            return {"form": "insert_where", "del": [], "ins": [[V("a"), C(P_IRI[1]), ["b", "x"], DEFAULT_G], [["b", "x"], C(P_LIT), C(r.choice(LITS)), DEFAULT_G]], "where": where}
        if r.random() < 0.15:
            # self-referential swap
            p = C(r.choice(P_IRI))
            where = {"t": "join", "ps": [{"t": "bgp", "tps": [[V("a"), p, V("b")]]}]}
            return {"form": "delete_insert_where", "del": [[V("a"), p, V("b"), DEFAULT_G]], "ins": [[V("b"), p, V("a"), DEFAULT_G]], "where": where}
        if r.random() < 0.3:
            ops = [o for o in Gen.OPS if o != "bind"]
            where = g.nested(r.choice(ops), r.choice(ops))["p"]
        else:
            where = g.group(r.choice([0, 1, 1, 2]))
        scope = g.pvars(where)
        form = r.choice(["insert_where", "delete_where", "delete_insert_where"])
        op = {"form": form, "del": [], "ins": [], "where": where}
        if form != "insert_where":
            op["del"] = self.template(scope, False)
        if form != "delete_where":
            op["ins"] = self.template(scope, True)
        return op

    def rejected(self):
        """Requests every update entry point must refuse (text, why)."""
        r = self.rng
        k = r.randint(0, 5)
        if k == 0:
            return "INSERT DATA { ?s <http://e/p1> <http://e/i1> . }", "variable in INSERT DATA"
        if k == 1:
            return "DELETE DATA { _:b <http://e/p1> <http://e/i1> . }", "blank node in DELETE DATA"
        if k == 2:
            return "DELETE { _:b <http://e/p1> ?o . } WHERE { ?s <http://e/p1> ?o . }", "blank node in DELETE template"
        if k == 3:
            return "DELETE WHERE { _:b <http://e/p1> ?o . }", "blank node in DELETE WHERE"
        if k == 4:
            return 'INSERT DATA { GRAPH "l1" { <http://e/i1> <http://e/p1> <http://e/i2> . } }', "literal graph name"
        return "DELETE DATA { <http://e/i1> <http://e/p1> ?o . }", "variable in DELETE DATA"


GARBAGE = ["", " ", "{", "}", "SELECT", "SELECT WHERE", "INSERT DATA {", "DELETE WHERE", "é", "SELECT é", "SELECT ?s WHERE { ?s é ?o }",
           "SELECT ?s WHERE { ?s ?p ?o } é", " ", "INSERT DATA { <a> <b> \"é }", "SELECT * WHERE { ?s ?p ?o ", "😀😀😀",
           "PREFIX : <http://e/> SELECT", "SELECT ?s WHERE { GRAPH { ?s ?p ?o } }", "DROP ALL", "ASK { ?s ?p ?o }", "﻿SELECT * WHERE { }",
           "SELECT ?s WHERE { ?s <http://e/p1> \"é", "SELECT ?s WHERE { ?s ?p ex:caf%C3%A", "DELETE DATA { GRAPH ex:g%4", "PREFIX ex: <http://e/> SELECT ?s WHERE { ?s ex:p%4", "SELECT ?s WHERE { ?s ?p ?東京都 ?q }",
           "SELECT ?s WHERE { ?名前 ?p ?値 ?q }", "SELECT ?s WHERE { ?s <http://e/\\u00eé> ?o }", "SELECT ?s WHERE { ?s <http://e/\\U000000e€> ?o }",
           "INSERT DATA { <http://e/i1> <http://e/\\u00é> <http://e/i2> . }", "SELECT ?s FROM <http://e/\\u0é> WHERE { ?s ?p ?o }", "INSERT DATA { <http://e/i1> <http://e/p1> 'é' . } é", "LOAD <x>", "select ☃ where {}"]
MULTIBYTE = ["é", "✓", "😀", " ", "﻿", "ß"]


def fuzz(rng, text):
    """Structured faults on a valid request: returns (mutated text, fault description)."""
    toks = text.split(" ")
    k = rng.randint(0, 10)
    i = rng.randrange(len(toks))
    if k == 10:
        # the request ends inside a token: a prefixed name cut in the middle of a %HH escape, an open string, a lone sigil ...
        cut = rng.choice(["ex:a%4", "ex:caf%C3%A", "ex:g%", ":x%e", "ex:", '"abc', "'", "<http://e/i", "?", "$", "_:", '"l1"^^', '"l1"@', "1.", "-", "<<"])
        return " ".join(toks[:max(1, i)] + [cut]), f"text ends inside a token after token {max(1, i) - 1}"
    if k >= 8:
        # a \u / \U escape whose digit window is cut short by a multi-byte character, a non-hex letter or the end of the
        # token, inside an IRI or a literal (or, failing that, any token)
        cand = [j for j, t in enumerate(toks) if (t.startswith("<") and t.endswith(">") and len(t) > 2) or (t.startswith('"') and len(t) > 2)] or [i]
        j = rng.choice(cand)
        t = toks[j]
        u, n = rng.choice([("\\u", 4), ("\\U", 8)])
        esc = u + "".join(rng.choice("0e9aF") for _ in range(rng.randint(0, n - 1))) + rng.choice(MULTIBYTE + ["g", "", "é"])
        at = rng.randint(1, max(1, len(t) - 1))
        if rng.random() < 0.3:
            return " ".join(toks[:j] + [t[:at] + esc]), f"text ends inside a unicode escape in token {j}"
        return " ".join(toks[:j] + [t[:at] + esc + t[at:]] + toks[j + 1:]), f"broken unicode escape inside token {j}"
    if k == 0:
        return " ".join(toks[:i]), f"truncate after token {i}"
    if k == 1:
        return " ".join(toks[:i] + toks[i + 1:]), f"drop token {i}"
    if k == 2:
        return " ".join(toks[:i] + [toks[i]] + toks[i:]), f"duplicate token {i}"
    if k == 3:
        ch = rng.choice(MULTIBYTE)
        return " ".join(toks[:i] + [ch] + toks[i:]), f"multibyte char at gap {i}"
    if k == 4:
        ch = rng.choice(MULTIBYTE)
        t = toks[i]
        j = rng.randint(0, len(t))
        return " ".join(toks[:i] + [t[:j] + ch + t[j:]] + toks[i + 1:]), f"multibyte char inside token {i}"
    if k == 5:
        cut = rng.randint(0, len(text))
        return text[:cut], f"truncate at char {cut}"
    if k == 6:
        j = rng.randrange(len(toks))
        toks[i], toks[j] = toks[j], toks[i]
        return " ".join(toks), f"swap tokens {i},{j}"
    return text.replace("{", "", 1) if rng.random() < 0.5 else text.replace("}", "", 1), "remove a brace"
