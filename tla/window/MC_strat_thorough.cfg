SPECIFICATION Spec
CONSTANTS
  MaxTs = 9
  MaxLen = 6
  Widths = {1,2,3,4,5}
  Slides = {1,2,3}
  Strategies <- StratMore
  FixEvict = TRUE
INVARIANTS ContentExact StrategyPost Monotone ExactlyOnce UniqueKeys FlushExact
CHECK_DEADLOCK FALSE
