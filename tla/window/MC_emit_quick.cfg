SPECIFICATION Spec
CONSTANTS
  MaxTs = 6
  MaxLen = 4
  Widths = {1,2,3,4}
  Slides = {1,2,3}
  NeModes = {TRUE, FALSE}
  FixEvict = TRUE
INVARIANTS Emit
CHECK_DEADLOCK FALSE
