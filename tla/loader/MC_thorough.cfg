SPECIFICATION Spec
CONSTANTS
  ChunkSize = 2
  MaxLines = 6
  Alphabet <- LinesThorough
  Priors <- PriorSet
  Formats = {"nt", "n3", "ttl"}
  ReencodeN3 = TRUE
  SharePrefixesN3 = TRUE
  EmitDone = FALSE
INVARIANTS AddsExactlyDoc DictionaryBijective PriorKept
CHECK_DEADLOCK FALSE
