"""C16 - the query parser is total and faithful (for the structured request family).

tla/syntax/Syntax.tla is the concrete syntax as a printer state machine over the syntax trees of
Sparql.tla / Update.tla: TLC -simulate prints each generated tree many times with nondeterministic
separators (spaces, newlines, tabs, CR LF, comment lines, nothing next to brackets), keyword case and
equivalent spellings, and - in the faulty specification - with one injected fault.  Every text goes
through parse_combined_query, parse_sparql_query and parse_group_graph_pattern; TLC
(tla/syntax/SyntaxTrace.tla) requires acceptance, full consumption and the same structure for
un-faulted texts, and no panic for faulted ones.
"""
import json
import os
import random
import time
import vlib
from vlib import log
from checks import sparqlgen as G
from checks.c01 import lexicals_of, _features

FAMILY = "syntax"
KWS = ["PREFIX", "SELECT", "DISTINCT", "FROM", "NAMED", "WHERE", "GROUP", "BY", "ORDER", "DESC", "ASC", "LIMIT", "UNION", "GRAPH", "FILTER", "BIND",
       "AS", "VALUES", "INSERT", "DELETE", "DATA", "SUM", "MIN", "MAX", "AVG"]


def forms(k):
    return [k, k.lower(), k.capitalize(), "".join(c.lower() if i % 2 else c for i, c in enumerate(k))]


AUX = {"kw": {k: forms(k) for k in KWS}, "mb": ["é", "✓", "😀", " ", "﻿"],
       "seps": [" ", "\n", "\t", "  ", "\r\n", "\r"], "comments": [" # c\n", " #\n", "\n# SELECT { \n", " # c\r", " # } LIMIT 1\r\n", "\r# é\r"],
       "tails": [" # done", "\n#", "\r"],
       "badterms": ["<urn:\\u006é>", "<urn:\\U0001F64€>", "<http://e/\\u00é9>", "<http://e/\\u00zz>", "<http://e/\\ud800>", "<http://e/\\U0011FFFF>", "<http://e/\\u00>",
                    '"x\\u00é y"', "'\\U0001F6😀'", '"\\q"', '"a\\u+041"', "e:caf%C3%é", "e:a%4g", "e:a%", '"l1"@é', '"5"^^<http://e/\\u00é>', "?é\\u00", "_:b\\u00é"],
       "cuts": ["e:a%4", "e:caf%C3%A", "ex:g%", ":x%e", "e:", '"x\\u00E', "'x\\U0001F6", '"\\u', '"a\\', '"abc', "'", '<http://e/\\u00', '<http://e/\\U0000000', '<http://e/i', '"x\\u00é', "?", "$", "_:", '"l1"^^', '"l1"@',
                '"""abc', "<<", "<< <http://e/i1>", "1.", "-", "+", "1e", "\\"]}
# variable names outside ASCII (SPARQL VARNAME admits letters and digits of any script), and ones that end in a digit / underscore
NAMES = [{"a": "é", "b": "café", "c": "x中", "d": "ß2", "g": "g"}, {"a": "a_1", "b": "B", "c": "ça", "d": "d9", "g": "gé"},
         {"a": "ñandú", "b": "b", "c": "Ω", "d": "x_", "g": "γ"}]


def rename_vars(x, m):
    """Consistent renaming of the variables of a tree (terms ["v", name], projection / group / order / bind / values names)."""
    if isinstance(x, list):
        if len(x) == 2 and x[0] == "v" and isinstance(x[1], str):
            return ["v", m.get(x[1], x[1])]
        return [rename_vars(y, m) for y in x]
    if isinstance(x, dict):
        out = {}
        for k, v in x.items():
            if k in ("v", "as") and isinstance(v, str):
                out[k] = m.get(v, v)
            elif k in ("vars", "group") and isinstance(v, list):
                out[k] = [m.get(y, y) for y in v]
            else:
                out[k] = rename_vars(v, m)
        return out
    return x


# token forms of the scanners (sparql_quoted_literal, sparql_numeric_literal, sparql_iri): (lexical the parser must report, spelling)
# a quoted literal without suffix is reported without its quotes (escape sequences kept as written); every other token as written
EXOTIC_OBJ = [('say \\"hi\\"', '"say \\"hi\\""'), ("x # y", '"x # y"'), ("a } b { c", '"a } b { c"'), ("?v", '"?v"'), ("<b>", '"<b>"'),
              ("semi ; colon . dot , comma", '"semi ; colon . dot , comma"'), ("l1", "'l1'"), ("it's", '"it\'s"'), ('tab\\tnew\\nline', '"tab\\tnew\\nline"'),
              ("\u00e9\u2713", '"\u00e9\u2713"'), ('"l1"@en', '"l1"@en'), ('"l1"@en-GB', '"l1"@en-GB'),
              ('"5"^^<http://www.w3.org/2001/XMLSchema#integer>', '"5"^^<http://www.w3.org/2001/XMLSchema#integer>'),
              ("1.5", "1.5"), ("-2.50", "-2.50"), ("true", "true"), ("false", "false"), ("SELECT", '"SELECT"'), ("UNION {", '"UNION {"')]
EXOTIC_IRI = ["http://e/a#frag", "http://e/a?x=1&y=2", "urn:x:y", "mailto:a@b.c", "http://e/\u00e9", "http://e/a.b;c,d"]


def exotic_terms(x, rng, txt, pos=None):
    """Replace some constants of a tree by terms that stress the token scanners; txt collects their spellings."""
    if isinstance(x, list):
        if len(x) == 2 and x[0] == "c" and isinstance(x[1], str):
            if pos == "o" and rng.random() < 0.3:
                lex, sp = rng.choice(EXOTIC_OBJ)
                txt[lex] = sp
                return ["c", lex]
            if pos in ("s", "p", "o", "g") and x[1].startswith("http://") and rng.random() < 0.2:
                lex = rng.choice(EXOTIC_IRI)
                txt[lex] = "<" + lex + ">"
                return ["c", lex]
            return x
        if len(x) in (3, 4) and all(isinstance(t, list) and len(t) == 2 and t[0] in ("v", "c", "b", "u") for t in x):
            return [exotic_terms(t, rng, txt, "spog"[k]) for k, t in enumerate(x)]      # a triple pattern / quad template
        return [exotic_terms(y, rng, txt, pos) for y in x]
    if isinstance(x, dict):
        if x.get("t") == "bind":
            return x          # arguments of BIND(CONCAT(..)) are variables and plain string literals in the supported fragment
        if x.get("t") == "values":
            return dict(x, rows=[[exotic_terms(t, rng, txt, "o") for t in row] for row in x["rows"]])
        if x.get("t") == "graph":
            return dict(x, name=exotic_terms(x["name"], rng, txt, "g"), p=exotic_terms(x["p"], rng, txt))
        return {k: exotic_terms(v, rng, txt) for k, v in x.items()}
    return x


def arith(rng, scope, depth):
    if depth == 0 or rng.random() < 0.25:
        return G.V(rng.choice(scope)) if scope and rng.random() < 0.5 else G.C(rng.choice(["1", "2", "3", "5", "10"]))
    return ["ar", rng.choice(["+", "-", "-", "*", "/"]), arith(rng, scope, depth - 1), arith(rng, scope, depth - 1)]


def add_arith(x, rng, scope):
    """Replace operands of some comparisons by arithmetic expressions (chains of + - * / in every nesting)."""
    if isinstance(x, list):
        return [add_arith(y, rng, scope) for y in x]
    if isinstance(x, dict):
        if x.get("t") == "cmp" and rng.random() < 0.7:
            y = dict(x)
            side = rng.choice(["l", "r", "both"])
            if side in ("l", "both"):
                y["l"] = ["ar", rng.choice(["+", "-", "-", "*", "/"]), arith(rng, scope, 2), arith(rng, scope, 2)]
            if side in ("r", "both"):
                y["r"] = arith(rng, scope, 3)
            return y
        return {k: add_arith(v, rng, scope) for k, v in x.items()}
    return x


def gen_trees(seed, n):
    rng = random.Random(seed * 32452843 + 16)
    cases = []
    for i in range(n):
        quads = G.gen_dataset(rng)
        if i % 4 == 3:
            tree, kind = G.UpdGen(rng, quads).op(), "update"
        elif i % 4 == 2:
            tree, kind = G.Gen(rng, None, quads).group(rng.choice([1, 2])), "group"
        else:
            tree, kind = G.Gen(rng, None, quads).select(rng.choice([1, 2, 3])), "select"
        if i % 3 == 1:
            tree = add_arith(tree, rng, ["a", "b", "c", "d"])
        if i % 5 >= 3:
            tree = rename_vars(tree, NAMES[(i // 5) % len(NAMES)])
        extra = {}
        if i % 4 != 1:
            tree = exotic_terms(tree, rng, extra)
            if kind == "update" and tree.get("form") == "delete_where_short":
                tree["where"] = G.where_of_quads(tree["del"])      # the short form has one block: pattern = template
        lex = set()
        lexicals_of(tree, lex)
        txt = {x: G.render(x) for x in lex}
        txt.update(extra)
        # names after which a dot is not a statement end but part of the name: blank-node labels (and prefixed names, below)
        txt["~pn"] = ["_:x", "_:y"]
        if i % 6 == 5:
            txt["~sigil"] = "$"
        if i % 7 == 3 and kind != "group":
            # a PREFIX prologue: IRIs of the namespace are written as prefixed names (only parse_combined_query reads a prologue)
            txt["~prefix"] = G.NS
            pn = []
            for x in list(txt):
                if x.startswith(G.NS) and x[len(G.NS):].isalnum():
                    txt[x] = "e:" + x[len(G.NS):]
                    pn.append(txt[x])
            txt["~pn"] = txt["~pn"] + pn
        cases.append({"kind": kind, "tree": tree, "txt": txt})
    return cases


def sig_for(m, why):
    if why == "panic":
        return f"parser {m['parser']}|{m['case']['fault'] or 'valid text'}|panic"
    return f"parser {m['parser']}|{m['case']['kind']}|{why}"


def run(ctx):
    t0 = time.time()
    verdict = vlib.Verdict("C16", ctx.seed, ctx.tier)
    wd = vlib.workdir("c16")
    tp = os.path.join(wd, "trace.ndjson")
    if ctx.replay:
        case = json.load(open(ctx.replay))["case"]["case"]
        vlib.write_ndjson(os.path.join(wd, "cases.ndjson"), [case])
    else:
        thorough = ctx.tier == "thorough"
        ntrees, nclean, nfaulty = (400, 10000, 10000) if thorough else (120, 1000, 1000)
        trees = gen_trees(ctx.seed, ntrees)
        vlib.write_ndjson(os.path.join(wd, "trees.ndjson"), trees)
        json.dump(AUX, open(os.path.join(wd, "aux.json"), "w"))
        env = {"CASES": os.path.join(wd, "trees.ndjson"), "AUX": os.path.join(wd, "aux.json")}
        # TLC interns every string value it ever builds (each step of each candidate successor extends `text`): a simulation of
        # more than a few million states exhausts the heap and crawls.  Hence one JVM per 2000 behaviours.
        def simulate(cfg, total, tag):
            out = []
            for k in range(0, total, 2000):
                part, _ = vlib.tlc_simulate(FAMILY, "Syntax.tla", cfg, min(2000, total - k), 600, env, tag=f"{tag}-{k // 2000}", timeout=900)
                out += part
            return out
        clean = simulate("Sim_clean.cfg", nclean, "c16-clean")
        faulty = simulate("Sim_faulty.cfg", nfaulty, "c16-faulty")
        seen, cases = set(), []
        for b in clean + faulty:
            t = trees[b["i"] - 1]
            if (b["text"], b["fault"]) in seen:
                continue
            seen.add((b["text"], b["fault"]))
            parsers = {"select": ["combined", "select"], "update": ["combined"], "group": ["group"]}[t["kind"]]
            if "~prefix" in t["txt"]:
                parsers = ["combined"]
            for p in parsers:
                cases.append({"text": b["text"], "parser": p, "fault": b["fault"], "kind": t["kind"], "tree": t["tree"], "i": b["i"]})
        vlib.write_ndjson(os.path.join(wd, "cases.ndjson"), cases)
    vlib.kverif(["c16", "--cases", os.path.join(wd, "cases.ndjson"), "--out", tp])
    res = vlib.tlc_trace(FAMILY, "SyntaxTrace.tla", "SyntaxTrace.cfg", tp, tag="c16-trace", heap="8g", timeout=3000)
    events = vlib.read_ndjson(tp)
    meta = {e["run"]: e for e in events}
    failed = {}
    for f in res["fail"]:
        m = meta[f[0]]
        failed[f[0]] = f[1]
        verdict.violation(sig_for(m, f[1]), {"driver": "c16", "case": m["case"], "verdict": f[1], "parsed": m["tree"], "res": m["res"]}, detail=repr(m["case"]["text"][:160]))
    nclean_ev = sum(1 for e in events if e["case"]["fault"] == "")
    log(f"judged {len(events)} (text, parser) pairs: {nclean_ev} un-faulted, {len(events) - nclean_ev} faulted; {len(failed)} rejected")
    rc = verdict.finish()
    if ctx.replay:
        return rc
    distinct = {vlib.case_hash([e["case"]["text"], e["parser"]]) for e in events if e["res"] == "ok" and e["case"]["fault"] == ""}
    outcomes = {}
    for e in events:
        k = ("faulted:" + e["case"]["fault"].split(" ")[0] if e["case"]["fault"] else "clean") + "/" + e["res"]
        outcomes[k] = outcomes.get(k, 0) + 1
    smp = [e for e in events if e["case"]["fault"] == ""][:1] + [e for e in events if e["case"]["fault"]][:1]
    cov = {"evaluations": len(events), "distinct_nontrivial": len(distinct),
           "rule": "texts printed by TLC -simulate from seeded syntax trees (SELECT, group patterns, the six update forms); distinct by (text, parser); "
                   "non-trivial = an un-faulted text that was accepted and compared structurally",
           "samples": [{"text": e["case"]["text"], "fault": e["case"]["fault"], "parser": e["parser"], "res": e["res"]} for e in smp],
           "states": res["states"], "transitions": res["states"], "traces_validated_against_impl": len(events),
           "outcomes": outcomes, "trees": len({e["case"]["i"] for e in events})}
    vlib.write_evidence("C16", ctx.tier, ctx.seed, "exploration", cov,
                        ["the first sentence of C16 quantifies over all byte strings; this check covers the structured family only: printings of generated "
                         "trees and single structured faults (truncation, dropped / duplicated token, multi-byte character between tokens) - DESIGN.md section 6",
                         "multi-byte characters inside tokens and arbitrary garbage are exercised by the C17 check's request mutator, not here",
                         "term rendering, keyword spellings and separators come from a table written by the Python driver"],
                        time.time() - t0, len(verdict.violations))
    return rc
