------------------------------- MODULE Terms -------------------------------
(***************************************************************************)
(* Constant-level vocabulary of the C15 requirement.                       *)
(*                                                                         *)
(* An identifier is a pair <<tag, n>>: tag 0 = plain term, tag 1 = quoted  *)
(* triple (the driver splits the u32 into its high bit and the low 31      *)
(* bits, so nothing here depends on how identifiers are numbered).         *)
(* <<2, 0>> stands for the default graph in the graph position of a quad.  *)
(*                                                                         *)
(* Identifier maps are relations (sets of pairs):                          *)
(*   enc  \subseteq Str \X Id           string        |-> plain id         *)
(*   qenc \subseteq (Id \X Id \X Id) \X Id   components |-> quoted id      *)
(* A database value is a record [enc, qenc, quads, graphs, seeds]:         *)
(*   quads  set of <<s, p, o, g>> of identifiers (g = DefaultG or plain)   *)
(*   graphs set of identifiers of named graphs (also empty ones)           *)
(*   seeds  set of << <<s, p, o>>, permille >>                             *)
(* Its denotation Lex(db) is purely lexical; quoted triples are rendered   *)
(* structurally as "<< s p o >>" (injective for strings without blanks).   *)
(***************************************************************************)
EXTENDS Naturals, Sequences, FiniteSets, TLC

IsPlain(id) == id[1] = 0
IsQ(id)     == id[1] = 1
DefaultG    == <<2, 0>>

Has(r, k)  == \E p \in r : p[1] = k
Get(r, k)  == (CHOOSE p \in r : p[1] = k)[2]
Ran(r)     == {p[2] : p \in r}
Dom(r)     == {p[1] : p \in r}
HasV(r, v) == \E p \in r : p[2] = v
Inv(r, v)  == (CHOOSE p \in r : p[2] = v)[1]
Flip(r)    == {<<p[2], p[1]>> : p \in r}
Functional(r) == \A p, q \in r : p[1] = q[1] => p = q
Injective(r)  == \A p, q \in r : p[2] = q[2] => p = q
Bij(r)        == Functional(r) /\ Injective(r)

---------------------------------------------------------------------------
(* Return values of the encoders: an existing key keeps its identifier, a  *)
(* new key gets an identifier of the right range that is not in use.       *)
EncodeOK(enc, s, id)  == IF Has(enc, s)  THEN id = Get(enc, s)  ELSE IsPlain(id) /\ ~HasV(enc, id)
QEncodeOK(qenc, t, id) == IF Has(qenc, t) THEN id = Get(qenc, t) ELSE IsQ(id) /\ ~HasV(qenc, id)

Known(enc, qenc, id) == HasV(enc, id) \/ HasV(qenc, id)

\* quoted identifiers whose quoted components are all in S
Grounded(qenc, S) == {p[2] : p \in {r \in qenc : \A i \in 1..3 : IsQ(r[1][i]) => r[1][i] \in S}}
RECURSIVE GroundFix(_, _, _)
GroundFix(qenc, S, k) == IF k = 0 THEN S ELSE GroundFix(qenc, Grounded(qenc, S), k - 1)
\* nesting is well founded: every component is a handed-out identifier and no quoted
\* triple contains itself, directly or indirectly
WellFounded(enc, qenc) ==
  /\ \A p \in qenc : \A i \in 1..3 : Known(enc, qenc, p[1][i])
  /\ GroundFix(qenc, {}, Cardinality(qenc)) = Ran(qenc)

RECURSIVE Renderable(_, _, _), Render(_, _, _)
Renderable(enc, qenc, id) ==
  IF IsQ(id)
    THEN HasV(qenc, id) /\ LET t == Inv(qenc, id) IN \A i \in 1..3 : Renderable(enc, qenc, t[i])
    ELSE HasV(enc, id)
\* DecodeTerm: the recursive rendering of Dictionary::decode_term / SparqlDatabase::decode_any
Render(enc, qenc, id) ==
  IF IsQ(id)
    THEN LET t == Inv(qenc, id)
         IN  "<< " \o Render(enc, qenc, t[1]) \o " " \o Render(enc, qenc, t[2]) \o " " \o Render(enc, qenc, t[3]) \o " >>"
    ELSE Inv(enc, id)

\* one dictionary + quoted store is a stable bijection
DictOK(enc, qenc) ==
  /\ Bij(enc) /\ Bij(qenc)
  /\ \A p \in enc : IsPlain(p[2])
  /\ \A p \in qenc : IsQ(p[2])
  /\ WellFounded(enc, qenc)

---------------------------------------------------------------------------
(* Lexical denotation of a database.                                       *)
R(db, id)  == Render(db.enc, db.qenc, id)
RG(db, g)  == IF g = DefaultG THEN "" ELSE R(db, g)
LexQuads(db)  == {<<R(db, q[1]), R(db, q[2]), R(db, q[3]), RG(db, q[4])>> : q \in db.quads}
LexGraphs(db) == {R(db, g) : g \in db.graphs}
LexQuoted(db) == {R(db, p[2]) : p \in db.qenc}
LexSeeds(db)  == {<<R(db, x[1][1]), R(db, x[1][2]), R(db, x[1][3]), x[2]>> : x \in db.seeds}
Lex(db) == [quads |-> LexQuads(db), graphs |-> LexGraphs(db), quoted |-> LexQuoted(db), seeds |-> LexSeeds(db)]

\* every identifier used by the database is one that its dictionary handed out
Closed(db) ==
  /\ \A q \in db.quads : /\ \A i \in 1..3 : Known(db.enc, db.qenc, q[i])
                         /\ (q[4] = DefaultG \/ HasV(db.enc, q[4]))
  /\ \A g \in db.graphs : HasV(db.enc, g)
  /\ \A x \in db.seeds : \A i \in 1..3 : Known(db.enc, db.qenc, x[1][i])
  /\ \A q \in db.quads : q[4] # DefaultG => q[4] \in db.graphs      \* content implies identity (C04)

DbOK(db) == DictOK(db.enc, db.qenc) /\ Closed(db)

SeedKeys(ls) == {<<x[1], x[2], x[3]>> : x \in ls}

(* The union requirement, on denotations.  Quads, graph identities (also of *)
(* empty graphs) and quoted terms are exactly the set unions.  Seeds: every *)
(* seeded triple of either side is seeded in the result with a probability  *)
(* one of the sides gave it (if both sides seed the same lexical triple     *)
(* differently the union of the two maps is not a map; either value is      *)
(* accepted), nothing else is seeded, one probability per triple.           *)
UnionOK(la, lb, lo) ==
  /\ lo.quads  = la.quads \cup lb.quads
  /\ lo.graphs = la.graphs \cup lb.graphs
  /\ lo.quoted = la.quoted \cup lb.quoted
  /\ lo.seeds \subseteq la.seeds \cup lb.seeds
  /\ SeedKeys(lo.seeds) = SeedKeys(la.seeds) \cup SeedKeys(lb.seeds)
  /\ \A x, y \in lo.seeds : SeedKeys({x}) = SeedKeys({y}) => x = y

(* Dictionary::merge / QuotedTripleStore::merge.  Two identifier maps can   *)
(* be merged into one bijection exactly when they agree: a key they share   *)
(* has the same identifier in both and an identifier they share has the     *)
(* same key.  This is the (unstated) precondition of merge; under it the    *)
(* result must be the union of the two relations.                           *)
Compatible(r1, r2) == Bij(r1 \cup r2)
MergeOK(r1, r2, out) == out = r1 \cup r2
=============================================================================
