----------------------------- MODULE UpdateImpl -----------------------------
(***************************************************************************)
(* Code-shaped model of Kolibrie's update executor (execute_query.rs:      *)
(* execute_update_operation, execute_modify, instantiate_templates,        *)
(* allocate_blank_node, apply_mutations), one action per step of the code: *)
(*                                                                         *)
(*   Where      the WHERE pattern is evaluated once; the solution sequence *)
(*              is kept (pend = occurrences still to instantiate)          *)
(*   InstDel    the DELETE template is instantiated for every solution     *)
(*              (lookup only, no dictionary change)                        *)
(*   InstIns    one solution at a time: every blank-node label of the      *)
(*              INSERT template gets a node from the process-wide counter, *)
(*              skipping lexical forms the dictionary already knows        *)
(*   Reject     instantiation fails (Err) - before any mutation            *)
(*   ApplyDel   one quad of the deletion set is removed, counted if it was *)
(*              present                                                    *)
(*   ApplyIns   one quad of the insertion set is added, counted if it was  *)
(*              absent; a named graph is catalogued                        *)
(*                                                                         *)
(* Variant selects the code ("code") or one of the classic mistakes the    *)
(* requirement (Update!Effect) must tell apart - the negative controls:    *)
(*   "where-twice"     the INSERT template is instantiated from a second   *)
(*                     evaluation of WHERE after the deletions             *)
(*   "insert-first"    insertions are applied before deletions             *)
(*   "shared-bnode"    one blank node per label for the whole operation    *)
(*   "count-requested" the counts are the sizes of the two sets            *)
(*   "no-skip"         the allocator does not skip known lexical forms     *)
(*   "late-reject"     the deletions are applied before the failure of the *)
(*                     INSERT instantiation is noticed                     *)
(*   "dedup-solutions" equal solutions of the WHERE multiset are           *)
(*                     instantiated once (one blank node instead of n)     *)
(***************************************************************************)
EXTENDS Update

CONSTANTS Variant,
          Datasets,     \* set of [quads, graphs] records (initial datasets)
          Ops,          \* set of operations [form, del, ins, where, fails]; fails = instantiation returns Err
          KindTab,      \* lexical kind table (function term -> "iri" | "bn" | "lit" | "num")
          BlankPrefix,  \* lexical prefix of allocated nodes, e.g. "_:u"
          MaxCtr

VARIABLES quads, graphs, pre, op, pc, pend, D, I, bmap, ctr, fresh, nd, ni
vars == <<quads, graphs, pre, op, pc, pend, D, I, bmap, ctr, fresh, nd, ni>>

Ctx(q, g) == [quads |-> q, graphs |-> g, kind |-> KindTab, num |-> [x \in {} |-> 0], rank |-> [x \in {} |-> 0],
              canon |-> {}, lenient |-> {}]

AllocName(n, label) == BlankPrefix \o ToString(n) \o "-" \o label
Known == TermsOf(quads) \cup TermsOf(pre.quads)      \* lexical forms the dictionary knows (terms are never forgotten)

\* the counter value the allocator settles on, starting from c
RECURSIVE NextFree(_, _, _)
NextFree(c, label, known) ==
  IF Variant # "no-skip" /\ AllocName(c, label) \in known /\ c < MaxCtr THEN NextFree(c + 1, label, known) ELSE c

TInit ==
  /\ \E d \in Datasets : quads = d.quads /\ graphs = d.graphs /\ pre = d
  /\ op \in Ops
  /\ pc = "where" /\ pend = {} /\ D = {} /\ I = {} /\ bmap = <<>> /\ ctr \in {1, 2} /\ fresh = {} /\ nd = 0 /\ ni = 0

\* "dedup-solutions": equal solutions of the multiset are instantiated once
OccOf(M) == IF Variant = "dedup-solutions" THEN {<<m, 1>> : m \in DOMAIN M} ELSE Occ(M)
Where ==
  /\ pc = "where"
  /\ pend' = OccOf(Solutions0(Ctx(quads, graphs), op))
  /\ pc' = "instdel"
  /\ UNCHANGED <<quads, graphs, pre, op, D, I, bmap, ctr, fresh, nd, ni>>

InstDel ==
  /\ pc = "instdel"
  /\ D' = InstAll(Ctx(quads, graphs), op.del, Solutions0(Ctx(pre.quads, pre.graphs), op))
  /\ pc' = IF Variant = "where-twice" THEN "applydel" ELSE "instins"
  /\ UNCHANGED <<quads, graphs, pre, op, pend, I, bmap, ctr, fresh, nd, ni>>

\* blank nodes of one solution: labels in a fixed order, each from the counter
RECURSIVE AllocAll(_, _, _, _)
AllocAll(labels, c, known, acc) ==
  IF labels = {} THEN [map |-> acc, ctr |-> c, names |-> {acc[b] : b \in DOMAIN acc}]
  ELSE LET b == CHOOSE x \in labels : TRUE
           n == NextFree(c, b, known)
       IN  AllocAll(labels \ {b}, n + 1, known \cup {AllocName(n, b)}, (b :> AllocName(n, b)) @@ acc)

TValI(t, m, bm) ==
  CASE t[1] = "v" -> (IF t[2] \in DOMAIN m THEN m[t[2]] ELSE UNB)
    [] t[1] = "b" -> bm[t[2]]
    [] OTHER -> t[2]
InstQuadI(X, tq, m, bm) ==
  LET v == [i \in 1..4 |-> TValI(tq[i], m, bm)] IN
  IF \E i \in 1..4 : v[i] = UNB \/ ~LegalAt(X, tq[i], v[i], i) THEN {} ELSE {<<v[1], v[2], v[3], v[4]>>}

InstIns ==
  /\ pc = "instins"
  /\ IF op.fails
     THEN /\ pc' = IF Variant = "late-reject" THEN "applydel-then-reject" ELSE "rejected"
          /\ UNCHANGED <<quads, graphs, pre, op, pend, D, I, bmap, ctr, fresh, nd, ni>>
     ELSE IF pend = {}
     THEN /\ pc' = IF Variant \in {"insert-first", "where-twice"} THEN "applyins" ELSE "applydel"
          /\ UNCHANGED <<quads, graphs, pre, op, pend, D, I, bmap, ctr, fresh, nd, ni>>
     ELSE \E occ \in pend :
            LET labels == Labels(op.ins)
                reuse  == Variant = "shared-bnode" /\ DOMAIN bmap = labels /\ labels # {}
                al     == IF reuse THEN [map |-> bmap, ctr |-> ctr, names |-> {}]
                          ELSE AllocAll(labels, ctr, Known \cup fresh, <<>>)
                X      == Ctx(quads, graphs)
            IN  /\ I' = I \cup UNION {InstQuadI(X, op.ins[k], occ[1], al.map) : k \in 1..Len(op.ins)}
                /\ bmap' = al.map /\ ctr' = al.ctr /\ fresh' = fresh \cup al.names
                /\ pend' = pend \ {occ}
                /\ UNCHANGED <<quads, graphs, pre, op, pc, D, nd, ni>>

ApplyDel ==
  /\ pc \in {"applydel", "applydel-then-reject"}
  /\ IF D = {}
     THEN /\ pc' = CASE pc = "applydel-then-reject" -> "rejected"
                     [] Variant = "where-twice" -> "where2"
                     [] Variant = "insert-first" -> "done"
                     [] OTHER -> "applyins"
          /\ UNCHANGED <<quads, graphs, pre, op, pend, D, I, bmap, ctr, fresh, nd, ni>>
     ELSE \E q \in D :
            /\ D' = D \ {q}
            /\ quads' = quads \ {q}
            /\ nd' = IF q \in quads \/ Variant = "count-requested" THEN nd + 1 ELSE nd
            /\ UNCHANGED <<graphs, pre, op, pc, pend, I, bmap, ctr, fresh, ni>>

\* only in the "where-twice" variant: solutions for the INSERT template come from the dataset after the deletions
Where2 ==
  /\ pc = "where2"
  /\ pend' = Occ(Solutions0(Ctx(quads, graphs), op))
  /\ pc' = "instins"
  /\ UNCHANGED <<quads, graphs, pre, op, D, I, bmap, ctr, fresh, nd, ni>>

ApplyIns ==
  /\ pc = "applyins"
  /\ IF I = {}
     THEN /\ pc' = IF Variant = "insert-first" THEN "applydel" ELSE "done"
          /\ UNCHANGED <<quads, graphs, pre, op, pend, D, I, bmap, ctr, fresh, nd, ni>>
     ELSE \E q \in I :
            /\ I' = I \ {q}
            /\ quads' = quads \cup {q}
            /\ graphs' = IF q[4] # "" THEN graphs \cup {q[4]} ELSE graphs
            /\ ni' = IF q \notin quads \/ Variant = "count-requested" THEN ni + 1 ELSE ni
            /\ UNCHANGED <<pre, op, pc, pend, D, bmap, ctr, fresh, nd>>

Next == Where \/ InstDel \/ InstIns \/ ApplyDel \/ Where2 \/ ApplyIns
Spec == TInit /\ [][Next]_vars

(* ------------------------------------------------------------------------ *)
(* The requirement, evaluated where the operation returns.                  *)
ObsFresh == fresh \cap TermsOf(quads)
EffectHolds ==
  pc = "done" => MatchesPost(Ctx(pre.quads, pre.graphs), op, quads, graphs, ObsFresh, TRUE, ni, nd)
RejectedUnchanged ==
  pc = "rejected" => quads = pre.quads /\ graphs = pre.graphs
\* a node handed out by the allocator is new to the database
FreshIsFresh == fresh \cap TermsOf(pre.quads) = {}
=============================================================================
