SPECIFICATION Spec
CONSTANTS
  Universe <- U3
  MaxFirings = 3
  Ops <- AllOps
  Rules <- RulesPQ
  Query <- QueryQ
  FixDerived = TRUE
INVARIANTS EmissionIsFunctionOfStream Emit
CHECK_DEADLOCK FALSE
