------------------------------ MODULE PlanTrace ------------------------------
(***************************************************************************)
(* Trace validation for C02.  Every event is one execution of the WHERE    *)
(* pattern of a SELECT under one configuration of the optimizer/executor   *)
(* (statistics, join-algorithm assignment, star-join expansion, thread     *)
(* pool, textual order of the triple patterns).  The recorded solution     *)
(* multiset - complete lexical bindings - must equal Eval of the pattern   *)
(* whatever the configuration was.                                         *)
(***************************************************************************)
EXTENDS Sparql, Json, IOUtils

Rec == ndJsonDeserialize(IOEnv.TRACE)
VARIABLE l
ToSet(sq) == {sq[i] : i \in 1..Len(sq)}

Ctx(e, len) == [quads |-> {<<q[1], q[2], q[3], q[4]>> : q \in ToSet(e.quads)}, graphs |-> ToSet(e.graphs),
                kind |-> e.kind, num |-> e.num, rank |-> e.rank, canon |-> ToSet(e.canon), lenient |-> len]

\* a JSON object is a record = a function over its keys: exactly a solution mapping
Same(e, len) == LET X == Ctx(e, len) IN SeqBag(e.sols) = Solutions(X, e.q, ViewOf(X, e.q), "")

Relaxations == {{"unbound"}, {"types"}, {"concat"}, {"order"}, {"unbound", "types", "concat", "order"}, {"sideways"},
                {"sideways", "unbound", "types", "concat", "order"}}

Judge(e) ==
  LET X == Ctx(e, {}) IN
  IF e.res # "ok" THEN e.res
  ELSE IF ~InScope(e.q.p) THEN "skip-scope"
  ELSE IF ~AllCutsDefinite(X, e.q.p, ViewOf(X, e.q), "") THEN "skip-cut"
  ELSE IF Same(e, {}) THEN "ok"
  ELSE IF Same(e, {"unbound"}) THEN "lenient:unbound"
  ELSE IF Same(e, {"types"}) THEN "lenient:types"
  ELSE IF Same(e, {"concat"}) THEN "lenient:concat"
  ELSE IF Same(e, {"order"}) THEN "lenient:order"
  ELSE IF Same(e, {"unbound", "types", "concat", "order"}) THEN "lenient:several"
  ELSE IF Same(e, {"sideways"}) THEN "lenient:sideways"
  ELSE IF Same(e, {"sideways", "unbound", "types", "concat", "order"}) THEN "lenient:sideways+"
  ELSE IF \E L \in Relaxations : ~AllCutsDefinite(Ctx(e, L), e.q.p, ViewOf(Ctx(e, L), e.q), "") THEN "skip-cut"
  ELSE "wrong"

Step ==
  LET e == Rec[l]
      v == Judge(e)
  IN  CASE v = "ok" -> TRUE
        [] v \in {"skip-scope", "skip-cut"} -> PrintT(<<"INFO", e.run, v>>)
        [] OTHER -> PrintT(<<"FAIL", e.run, v>>)

Init == l = 1
Next == l <= Len(Rec) /\ Step /\ l' = l + 1
Spec == Init /\ [][Next]_l

Consumed == IF TLCGet("stats").diameter - 1 = Len(Rec) THEN TRUE
            ELSE PrintT(<<"STUCK", TLCGet("stats").diameter, Len(Rec)>>) /\ FALSE
=============================================================================
