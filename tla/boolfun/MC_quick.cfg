SPECIFICATION ISpec
CONSTANTS
  VarIds = {0,1}
  PosW = {1}
  Kinds = {0,1}
  MaxOps = 4
  MaxHandles = 5
  FillCacheOnFailure = FALSE
CONSTRAINT Bound
INVARIANTS TypeOK Canonical ConstantsFixed CacheSound ExhaustionPreserves WmcComplement GradIsDerivative ModelsLaw
PROPERTY Refines
CHECK_DEADLOCK FALSE
