--------------------------------- MODULE Rsp ---------------------------------
(***************************************************************************)
(* Requirement for continuous queries (C10, C11): what a firing of a       *)
(* window must answer and what the stream operator must emit.              *)
(*   Store(R, K)   = least fixpoint of the rules R over the window content *)
(*                   K (raw triples) - nothing else                        *)
(*   Rows(Q, R, K) = solutions of the window's basic graph pattern Q over  *)
(*                   Store(R, K)                                           *)
(*   Emit(op, rows, prev) = RSTREAM: all rows; ISTREAM: rows not in the    *)
(*                   previous firing's answer; DSTREAM: previous answers   *)
(*                   that vanished (each once)                             *)
(* Triple patterns / terms / bags are those of Sparql.tla.                 *)
(***************************************************************************)
EXTENDS Sparql

InstTP(tp, m) == <<Val(tp[1], m), Val(tp[2], m), Val(tp[3], m)>>

\* immediate consequences of one rule [prem, concl] over fact set F
RuleCons(r, F) ==
  LET sols == DOMAIN EvalBgp(r.prem, Len(r.prem), F)
  IN  UNION {{InstTP(r.concl[k], m) : k \in 1..Len(r.concl)} : m \in sols}

TPStep(R, F) == F \cup UNION {RuleCons(R[i], F) : i \in 1..Len(R)}

RECURSIVE LFP(_, _)
LFP(R, F) == LET G == TPStep(R, F) IN IF G = F THEN F ELSE LFP(R, G)

Store(R, K) == LFP(R, K)
Rows(Q, R, K) == EvalBgp(Q, Len(Q), Store(R, K))

EmitBag(op, rows, prev) ==
  CASE op = "RSTREAM" -> rows
    [] op = "ISTREAM" -> [m \in {x \in DOMAIN rows : x \notin prev} |-> rows[m]]
    [] op = "DSTREAM" -> [m \in prev \ DOMAIN rows |-> 1]
=============================================================================
