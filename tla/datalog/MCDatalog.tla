------------------------------ MODULE MCDatalog ------------------------------
(***************************************************************************)
(* Instances of SemiNaiveImpl for exhaustive checking and for behaviour    *)
(* emission (spec -> implementation replay).  The program family is all    *)
(* safe, canonically named programs built from the constants below.        *)
(***************************************************************************)
EXTENDS Naturals, Sequences, FiniteSets, TLC, Json

CONSTANTS Consts,     \* constants usable in subject / object position of rule atoms
          NVars,      \* rules use the variables X, Y, Z (the first NVars), named in order of first occurrence
          Preds,      \* predicate constants
          PVars,      \* predicate variables (set of names, may be empty)
          MaxPrem, MaxConcl, MaxRules,
          NegAtoms,   \* 0 or 1: rules may carry one negated atom
          WithFilters,\* TRUE: a rule may carry one filter (numeric on Vars[2], or Vars[1] != Vars[2])
          FConsts,    \* terms of the facts
          FPreds,     \* predicates of the facts
          MaxFacts,
          Permute, Mode, Runs

Vars == SubSeq(<<"X", "Y", "Z">>, 1, NVars)
SO == {<<"c", c>> : c \in Consts} \cup {<<"v", Vars[i]>> : i \in 1..Len(Vars)}
PR == {<<"c", p>> : p \in Preds} \cup {<<"v", x>> : x \in PVars}
Atoms == {<<s, p, o>> : s \in SO, p \in PR, o \in SO}

SeqsUpTo(S, lo, hi) == UNION {[1..n -> S] : n \in lo..hi}

\* variables in order of first occurrence must be Vars[1], Vars[2], ... (one representative per renaming)
TermsOf(sq) == [k \in 1..(3 * Len(sq)) |-> sq[((k - 1) \div 3) + 1][((k - 1) % 3) + 1]]
VarIdx(x) == IF \E i \in 1..Len(Vars) : Vars[i] = x THEN CHOOSE i \in 1..Len(Vars) : Vars[i] = x ELSE 0
Canonical(prem) ==
  LET ts == TermsOf(prem) IN
  \A k \in 1..Len(ts) :
     (ts[k][1] = "v" /\ VarIdx(ts[k][2]) > 1) =>
        \E j \in 1..(k - 1) : ts[j][1] = "v" /\ VarIdx(ts[j][2]) = VarIdx(ts[k][2]) - 1

D == INSTANCE Datalog

Filters == IF WithFilters /\ Len(Vars) >= 2
             THEN {[var |-> Vars[2], op |-> ">", kind |-> "n", num |-> 1, other |-> "-"],
                   [var |-> Vars[1], op |-> "!=", kind |-> "v", num |-> 0, other |-> Vars[2]]}
             ELSE {}

RuleSet ==
  {r \in [prem : {p \in SeqsUpTo(Atoms, 1, MaxPrem) : Canonical(p)},
          neg : SeqsUpTo(Atoms, 0, NegAtoms),
          flt : {<<>>} \cup {<<f>> : f \in Filters},
          concl : SeqsUpTo(Atoms, 1, MaxConcl)] : D!Safe(r)}

Programs == SeqsUpTo(RuleSet, 1, MaxRules)

FactUniverse == {<<s, p, o>> : s \in FConsts, p \in FPreds, o \in FConsts}
FactSets == {F \in SUBSET FactUniverse : Cardinality(F) <= MaxFacts}

VARIABLES prog, R, base, all, known, startIdx, stratum, pc, run, rounds, goal

INSTANCE SemiNaiveImpl

\* one JSON line per (program, fact set): the rounds predicted by the code-shaped model
Emit == (pc = "done" /\ run = 1) =>
          PrintT(<<"REPLAY", ToJson([rules |-> prog, facts |-> SeqOf(base),
                                     model |-> [i \in 1..Len(rounds) |-> SeqOf(rounds[i])]])>>)
=============================================================================
