------------------------------ MODULE DictCode ------------------------------
(***************************************************************************)
(* Code-shaped operators (no variables) transcribing                       *)
(*   shared::dictionary::Dictionary         {encode, decode, merge}        *)
(*   shared::quoted_triple_store::QuotedTripleStore {encode, decode, merge}*)
(*   kolibrie::sparql_database::{reencode_term_id, SparqlDatabase::union}  *)
(* with the data the code keeps: two hash maps kept in lock-step and a     *)
(* monotone counter per store.                                             *)
(*   dictionary   [s2i, i2s, next]    s2i: str -> id,  i2s: id -> str      *)
(*   quoted store [c2i, i2c, next]    c2i: <<s,p,o>> -> id, i2c: inverse   *)
(*   database     [d, q, quads, named, seeds]   seeds: <<s,p,o>> -> permille*)
(* Maps are relations (sets of pairs, functional by construction of Put).  *)
(***************************************************************************)
EXTENDS Terms

Max(a, b) == IF a >= b THEN a ELSE b
Put(r, k, v)   == {p \in r : p[1] # k} \cup {<<k, v>>}          \* HashMap::insert
OrInsert(r, k, v) == IF Has(r, k) THEN r ELSE r \cup {<<k, v>>}  \* entry(k).or_insert(v)

NewDict == [s2i |-> {}, i2s |-> {}, next |-> 0]
NewQts  == [c2i |-> {}, i2c |-> {}, next |-> 0]       \* next counts from QUOTED_TRIPLE_ID_BIT: tag 1, offset 0
NewDb   == [d |-> NewDict, q |-> NewQts, quads |-> {}, named |-> {}, seeds |-> {}]

\* Dictionary::encode
EncI(d, s) ==
  IF Has(d.s2i, s) THEN [d |-> d, id |-> Get(d.s2i, s)]
  ELSE LET id == <<0, d.next>>
       IN  [d |-> [s2i |-> Put(d.s2i, s, id), i2s |-> Put(d.i2s, id, s), next |-> d.next + 1], id |-> id]

\* QuotedTripleStore::encode
QEncI(q, t) ==
  IF Has(q.c2i, t) THEN [q |-> q, id |-> Get(q.c2i, t)]
  ELSE LET id == <<1, q.next>>
       IN  [q |-> [c2i |-> Put(q.c2i, t, id), i2c |-> Put(q.i2c, id, t), next |-> q.next + 1], id |-> id]

\* Dictionary::merge: or_insert on both maps independently, counter = max
RECURSIVE OrInsertAll(_, _)
OrInsertAll(r, add) ==
  IF add = {} THEN r
  ELSE LET p == CHOOSE x \in add : TRUE IN OrInsertAll(OrInsert(r, p[1], p[2]), add \ {p})

MergeI(d, o) == [s2i |-> OrInsertAll(d.s2i, o.s2i), i2s |-> OrInsertAll(d.i2s, o.i2s), next |-> Max(d.next, o.next)]
\* QuotedTripleStore::merge: iterates other.id_to_components only
QMergeI(q, o) == [i2c |-> OrInsertAll(q.i2c, o.i2c), c2i |-> OrInsertAll(q.c2i, Flip(o.i2c)), next |-> Max(q.next, o.next)]

\* the relations the requirement speaks about
EncOf(db)  == db.d.s2i
QEncOf(db) == db.q.c2i
AbsDb(db)  == [enc |-> db.d.s2i, qenc |-> db.q.c2i, quads |-> db.quads, graphs |-> db.named, seeds |-> db.seeds]
\* the two maps of each store are each other's inverse and the counter is above every id
LockStep(db) ==
  /\ db.d.i2s = Flip(db.d.s2i) /\ db.q.i2c = Flip(db.q.c2i)
  /\ \A p \in db.d.s2i : p[2][2] < db.d.next
  /\ \A p \in db.q.c2i : p[2][2] < db.q.next

---------------------------------------------------------------------------
(* reencode_term_id(id, source dict, source quoted, target dict, target    *)
(* quoted, translated_ids).  st = [d, q, c] is the mutable target state;   *)
(* the result is [st, id].  A missing source entry panics in the code;     *)
(* here it yields the identifier <<3, 0>> (never produced otherwise).      *)
Panic == <<3, 0>>
RECURSIVE Reenc(_, _, _)
Reenc(id, B, st) ==
  IF Has(st.c, id) THEN [st |-> st, id |-> Get(st.c, id)]
  ELSE IF IsQ(id)
    THEN IF ~Has(B.q.i2c, id) THEN [st |-> st, id |-> Panic]
         ELSE LET t  == Get(B.q.i2c, id)
                  r1 == Reenc(t[1], B, st)
                  r2 == Reenc(t[2], B, r1.st)
                  r3 == Reenc(t[3], B, r2.st)
                  e  == QEncI(r3.st.q, <<r1.id, r2.id, r3.id>>)
              IN  [st |-> [d |-> r3.st.d, q |-> e.q, c |-> Put(r3.st.c, id, e.id)], id |-> e.id]
    ELSE IF ~Has(B.d.i2s, id) THEN [st |-> st, id |-> Panic]
         ELSE LET e == EncI(st.d, Get(B.d.i2s, id))
              IN  [st |-> [d |-> e.d, q |-> st.q, c |-> Put(st.c, id, e.id)], id |-> e.id]

MinId(S) == CHOOSE x \in S : \A y \in S : x[2] <= y[2]

\* the two pre-passes of union(): every dictionary id, then every quoted id, ascending
RECURSIVE ReencSorted(_, _, _)
ReencSorted(S, B, st) ==
  IF S = {} THEN st ELSE LET m == MinId(S) IN ReencSorted(S \ {m}, B, Reenc(m, B, st).st)

\* translate one quad / seed triple through the cache (threading the target state)
ReencTriple(t, B, st) ==
  LET r1 == Reenc(t[1], B, st)
      r2 == Reenc(t[2], B, r1.st)
      r3 == Reenc(t[3], B, r2.st)
  IN  [st |-> r3.st, t |-> <<r1.id, r2.id, r3.id>>]

ReencQuad(qd, B, st) ==
  LET r == ReencTriple(<<qd[1], qd[2], qd[3]>>, B, st)
      g == IF qd[4] = DefaultG THEN [st |-> r.st, id |-> DefaultG] ELSE Reenc(qd[4], B, r.st)
  IN  [st |-> g.st, q |-> <<r.t[1], r.t[2], r.t[3], g.id>>]

\* DatasetIndex::insert_quad registers the named graph
InsQuad(o, qd) == [o EXCEPT !.quads = @ \cup {qd}, !.named = IF qd[4] = DefaultG THEN @ ELSE @ \cup {qd[4]}]

\* u = [st, o]: target dictionary state and the output being assembled
RECURSIVE UGraphs(_, _, _), UQuads(_, _, _), USeeds(_, _, _)
UGraphs(S, B, u) ==
  IF S = {} THEN u
  ELSE LET g == CHOOSE x \in S : TRUE
           r == Reenc(g, B, u.st)
       IN  UGraphs(S \ {g}, B, [st |-> r.st, o |-> [u.o EXCEPT !.named = @ \cup {r.id}]])
UQuads(S, B, u) ==
  IF S = {} THEN u
  ELSE LET qd == CHOOSE x \in S : TRUE
           r  == ReencQuad(qd, B, u.st)
       IN  UQuads(S \ {qd}, B, [st |-> r.st, o |-> InsQuad(u.o, r.q)])
USeeds(S, B, u) ==
  IF S = {} THEN u
  ELSE LET x == CHOOSE y \in S : TRUE
           r == ReencTriple(x[1], B, u.st)
       IN  USeeds(S \ {x}, B, [st |-> r.st, o |-> [u.o EXCEPT !.seeds = Put(@, r.t, x[2])]])

\* SparqlDatabase::union(self = A, other = B) as one function
UnionStart(A) == [d |-> A.d, q |-> A.q, c |-> {}]
UnionI(A, B) ==
  LET s1 == ReencSorted(Dom(B.d.i2s), B, UnionStart(A))
      s2 == ReencSorted(Dom(B.q.i2c), B, s1)
      o0 == [quads |-> A.quads, named |-> A.named, seeds |-> A.seeds]
      u1 == UGraphs(B.named, B, [st |-> s2, o |-> o0])
      u2 == UQuads(B.quads, B, u1)
      u3 == USeeds(B.seeds, B, u2)
  IN  [d |-> u3.st.d, q |-> u3.st.q, quads |-> u3.o.quads, named |-> u3.o.named, seeds |-> u3.o.seeds]
=============================================================================
