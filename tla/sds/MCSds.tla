------------------------------- MODULE MCSds -------------------------------
(***************************************************************************)
(* Small universe for the exhaustive runs of SdsImpl and for behaviour     *)
(* emission (spec -> implementation replay).                               *)
(* Two windows, one static graph, two output components (one nested in the *)
(* other, so that longest-prefix routing matters), three stream triples,   *)
(* four programs: chain + cross-window join, recursion inside a window     *)
(* component joined with static data, two derivations of one fact, static  *)
(* join + chain into the nested output.                                    *)
(***************************************************************************)
EXTENDS SdsImpl, Json

C(x) == [k |-> "c", x |-> x]
V(n) == [k |-> "v", x |-> <<n>>]
a == <<"a">>  b == <<"b">>  c == <<"c">>
P(comp, l) == C(comp \o <<l>>)
w1 == <<"w1">>  w2 == <<"w2">>  g == <<"g">>  o == <<"o">>  on == <<"o", "r">>

MCW(a1, a2) == <<[iri |-> w1, alpha |-> a1], [iri |-> w2, alpha |-> a2]>>
MCW23 == MCW(2, 3)
MCW31 == MCW(3, 1)
MCW12 == MCW(1, 2)
MCS == <<[iri |-> g, triples |-> {<<b, <<"k">>, c>>}]>>
MCO == {o, on}
MCPool == <<{<<a, <<"p">>, b>>, <<b, <<"p">>, c>>}, {<<b, <<"q">>, c>>}>>
MCPool4 == <<{<<a, <<"p">>, b>>, <<b, <<"p">>, c>>}, {<<b, <<"q">>, c>>, <<c, <<"q">>, a>>}>>

Rule(body, head) == [body |-> body, head |-> head]
x == V("x")  y == V("y")  z == V("z")

\* chain and cross-window join
P1 == << Rule(<< <<x, P(w1, "p"), y>> >>, << <<x, P(o, "q"), y>> >>),
         Rule(<< <<x, P(o, "q"), y>>, <<y, P(w2, "q"), z>> >>, << <<x, P(on, "s"), z>> >>) >>
\* recursion inside a window component, then a join with static data
P2 == << Rule(<< <<x, P(w1, "p"), y>>, <<y, P(w1, "p"), z>> >>, << <<x, P(w1, "p"), z>> >>),
         Rule(<< <<x, P(w1, "p"), y>>, <<z, P(g, "k"), y>> >>, << <<x, P(o, "q"), z>> >>) >>
\* two derivations of the same fact from different windows, and a consequence of it
P3 == << Rule(<< <<x, P(w1, "p"), y>> >>, << <<x, P(o, "q"), y>> >>),
         Rule(<< <<x, P(w2, "q"), y>> >>, << <<x, P(o, "q"), y>> >>),
         Rule(<< <<x, P(o, "q"), y>> >>, << <<y, P(on, "s"), x>> >>) >>
\* static join, chain into the nested output, two conclusions
P4 == << Rule(<< <<x, P(g, "k"), y>>, <<x, P(w2, "q"), y>> >>, << <<x, P(o, "q"), y>> >>),
         Rule(<< <<x, P(o, "q"), y>>, <<z, P(w1, "p"), x>> >>, << <<z, P(on, "s"), y>>, <<z, P(w2, "q"), y>> >>) >>
MCPrograms == <<P1, P2, P3, P4>>

\* one JSON line per maximal history: the case for the Rust driver plus the model's prediction
Emit ==
  (KeepHist /\ (Len(hist) = MaxSteps \/ t = MaxT)) =>
     PrintT(<<"REPLAY", ToJson(
        [windows |-> W,
         static  |-> S,
         outputs |-> O,
         rules   |-> Programs[prog],
         steps   |-> [k \in 1..Len(hist) |-> [t |-> hist[k].t, win |-> hist[k].win]],
         hasmodel |-> TRUE,
         model   |-> [k \in 1..Len(hist) |-> hist[k].inc]])>>)
=============================================================================
