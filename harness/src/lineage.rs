//! Lineage-store driver (growth of the hybrid family): random sequences of `literal` / `not` / `and` / `or` on the
//! real `shared::hybrid::LineageStore`, one ndjson event per call (see tla/hybrid/LineageStoreTrace.tla).
//! The driver only runs the code and logs; handles, nodes and denotations are computed by TLC.
use crate::util::*;
use serde_json::{json, Value};
use shared::hybrid::{LineageId, LineageNode, LineageStore, SeedId, SeedRegistry};
use shared::triple::Triple;

fn node_json(n: &LineageNode) -> Value {
    let ids = |v: &Vec<LineageId>| v.iter().map(|i| i.get()).collect::<Vec<u32>>();
    match n {
        LineageNode::False => json!({"k": "F", "s": 0, "c": []}),
        LineageNode::True => json!({"k": "T", "s": 0, "c": []}),
        LineageNode::Literal(s) => json!({"k": "lit", "s": s.get(), "c": []}),
        LineageNode::And(c) => json!({"k": "and", "s": 0, "c": ids(c)}),
        LineageNode::Or(c) => json!({"k": "or", "s": 0, "c": ids(c)}),
        LineageNode::Not(c) => json!({"k": "not", "s": 0, "c": [c.get()]}),
    }
}

pub fn main(a: &Args) {
    let n = a.num("random", 300);
    let seed = a.num("seed", 1);
    let steps = a.num("steps", 14);
    let mut out = Out::create(a.req("out"));
    let mut reg = SeedRegistry::new();
    let mut seeds: Vec<SeedId> = (0..3).map(|i| reg.register_static(Triple { subject: i, predicate: 1, object: i }, 0.5).unwrap()).collect();
    seeds.push(reg.register_exclusive(0, Triple { subject: 3, predicate: 1, object: 3 }, 0.5).unwrap());
    let snapshot = reg.snapshot_all();
    let b = |x: bool| if x { "t" } else { "f" };
    for run in 1..=n {
        let mut rng = Rng::new(seed.wrapping_mul(7_000_003).wrapping_add(run));
        out.ev(json!({"ev": "reset", "run": run, "case": {"seed": seed, "run": run, "steps": steps}}));
        let mut st = LineageStore::new();
        let mut known: Vec<LineageId> = vec![LineageId::FALSE, LineageId::TRUE];
        let nseeds = rng.range(2, 4);
        for _ in 0..steps {
            let (ev, id) = match rng.below(8) {
                0 | 1 => {
                    let s = seeds[rng.below(nseeds) as usize];
                    let id = st.literal(s);
                    (json!({"ev": "lit", "seed": s.get()}), id)
                }
                2 | 3 => {
                    let x = *rng.pick(&known);
                    let id = st.not(x);
                    (json!({"ev": "not", "x": x.get()}), id)
                }
                k => {
                    // operands prefer recent handles and non-constants; now and then a constant, a repetition, no operand
                    let cnt = if rng.chance(1, 12) { rng.below(2) } else { rng.range(2, 4) };
                    let mut items: Vec<LineageId> = Vec::new();
                    for _ in 0..cnt {
                        let pick = if known.len() > 2 && rng.chance(5, 6) { known[2 + rng.below(known.len() as u64 - 2) as usize] } else { *rng.pick(&known) };
                        items.push(pick);
                    }
                    let raw: Vec<u32> = items.iter().map(|i| i.get()).collect();
                    if k < 6 { let id = st.and(items); (json!({"ev": "and", "items": raw}), id) } else { let id = st.or(items); (json!({"ev": "or", "items": raw}), id) }
                }
            };
            if !known.contains(&id) { known.push(id); }
            let mut e = ev;
            e["id"] = json!(id.get());
            e["len"] = json!(st.len());
            e["node"] = node_json(st.node(id));
            let m = st.metadata(id, &snapshot);
            e["meta"] = json!({"neg": b(m.has_negation), "excl": b(m.has_exclusive_group), "cyc": b(m.has_cycle), "mono": b(m.monotone)});
            out.ev(e);
        }
    }
    out.finish();
}
