SPECIFICATION Spec
CONSTANTS
  MaxDepth = 10
  FixRename = FALSE
  Programs <- MCProgramsSmall
  GoalNames <- MCGoalNames
  Consts = {1, 2, 3}
  Preds = {21, 22}
INVARIANTS SoundInv CompleteInv
CHECK_DEADLOCK FALSE
