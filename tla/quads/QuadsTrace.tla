----------------------------- MODULE QuadsTrace -----------------------------
(***************************************************************************)
(* Trace validation for C04.  Events recorded from the real DatasetIndex / *)
(* SparqlDatabase:                                                         *)
(*   reset(run, target)                                                    *)
(*   op(op, q|g, ret, all, graphs, reads)   one per store API call         *)
(* After every call the recorded return value, the complete sorted quad    *)
(* snapshot, the graph listing and a selection of read calls (any lookup   *)
(* shape) must equal the value of the corresponding operator of Quads.tla  *)
(* on the abstract state.  A mismatch prints FAIL and the rest of the run  *)
(* is skipped.                                                             *)
(***************************************************************************)
EXTENDS Quads, Json, IOUtils, TLC

Rec == ndJsonDeserialize(IOEnv.TRACE)

VARIABLES l, run, bad
vars == <<quads, catalog, l, run, bad>>

ToSet(sq) == {sq[i] : i \in 1..Len(sq)}
Q4(x) == <<x[1], x[2], x[3], x[4]>>
T3(x) == <<x[1], x[2], x[3]>>

Lt4(a, b) == \/ a[1] < b[1]
             \/ a[1] = b[1] /\ a[2] < b[2]
             \/ a[1] = b[1] /\ a[2] = b[2] /\ a[3] < b[3]
             \/ a[1] = b[1] /\ a[2] = b[2] /\ a[3] = b[3] /\ a[4] < b[4]

\* a result list denotes a set "each once"
Once(sq) == Cardinality(ToSet(sq)) = Len(sq)

Ev == Rec[l]

\* expected return value ("t" / "f" / "-" when the API returns nothing) and post-state
Exp(e) ==
  LET q == IF e.op \in {"insert", "delete"} THEN Q4(e.q) ELSE <<0, 0, 0, 0>>
      g == IF e.op \in {"create", "clearg", "drop"} THEN e.g ELSE 0
      B(b) == IF b THEN "t" ELSE "f"
  IN CASE e.op = "insert"  -> [ret |-> B(InsertRet(q)), qs |-> InsertQuads(q), cat |-> InsertCatalog(q)]
       [] e.op = "delete"  -> [ret |-> B(DeleteRet(q)), qs |-> DeleteQuads(q), cat |-> catalog]
       [] e.op = "create"  -> [ret |-> B(CreateRet(g)), qs |-> quads, cat |-> CreateCatalog(g)]
       [] e.op = "clearg"  -> [ret |-> "-", qs |-> ClearGraphQuads(g), cat |-> catalog]
       [] e.op = "drop"    -> IF GraphExists(g)
                                THEN [ret |-> "t", qs |-> ClearGraphQuads(g), cat |-> DropCatalog(g)]
                                ELSE [ret |-> "f", qs |-> quads, cat |-> catalog]
       [] e.op = "clear"   -> [ret |-> "-", qs |-> {}, cat |-> {}]
       [] e.op = "rebuild" -> [ret |-> "-", qs |-> quads, cat |-> catalog]

\* one logged read call against the operator of the requirement module, evaluated on (qs, cat)
ReadOK(r, qs, cat) ==
  LET R == INSTANCE Quads WITH quads <- qs, catalog <- cat
      a == r.a
  IN CASE r.k = "qg"  -> Once(r.r) /\ {Q4(x) : x \in ToSet(r.r)} = R!QueryGraph(a[1], a[2], a[3], a[4])
       [] r.k = "qn"  -> Once(r.r) /\ {Q4(x) : x \in ToSet(r.r)} = R!QueryNamed(a[1], a[2], a[3], ToSet(r.vis))
       [] r.k = "qq"  -> Once(r.r) /\ {Q4(x) : x \in ToSet(r.r)} = R!QueryQuadsAny(a[1], a[2], a[3])
       [] r.k = "qm"  -> Once(r.r) /\ {T3(x) : x \in ToSet(r.r)} = R!QueryMerged(ToSet(r.srcs), a[1], a[2], a[3])
       [] r.k = "has" -> (r.b = "t") = R!Contains(<<a[1], a[2], a[3], a[4]>>)
       [] r.k = "gft" -> Once(r.r) /\ ToSet(r.r) = R!GraphsForTriple(a[1], a[2], a[3])
       [] r.k = "len" -> r.n = R!LenGraph(a[1])
       [] r.k = "ex"  -> (r.b = "t") = R!GraphExists(a[1])

ObsOK(e, qs, cat) ==
  /\ ToSet(e.all) = {<<x[1], x[2], x[3], x[4]>> : x \in qs}                 \* all_quads: complete ...
  /\ Len(e.allraw) = Len(e.all)
  /\ \A i \in 1..(Len(e.allraw) - 1) : Lt4(e.allraw[i], e.allraw[i + 1])   \* ... sorted (on identifiers), each once
  /\ Len(e.graphs) = Cardinality(cat) + 1 /\ e.graphs[1] = 0                \* graphs(): default first,
  /\ ToSet(e.graphs) = cat \cup {0}                                         \* exactly the catalog,
  /\ Len(e.graphsraw) = Len(e.graphs)
  /\ \A i \in 1..(Len(e.graphsraw) - 1) : e.graphsraw[i] < e.graphsraw[i + 1] \* sorted (on identifiers)
  /\ \A i \in 1..Len(e.reads) : ReadOK(e.reads[i], qs, cat)

TInit == quads = {} /\ catalog = {} /\ l = 1 /\ run = 0 /\ bad = FALSE

Reset == /\ Ev.ev = "reset"
         /\ quads' = {} /\ catalog' = {} /\ run' = Ev.run /\ bad' = FALSE

Op == /\ Ev.ev = "op"
      /\ IF bad THEN UNCHANGED <<quads, catalog, run, bad>>
         ELSE LET x == Exp(Ev) IN
              IF (Ev.ret = x.ret \/ Ev.ret = "-") /\ ObsOK(Ev, x.qs, x.cat)
                THEN quads' = x.qs /\ catalog' = x.cat /\ UNCHANGED <<run, bad>>
                ELSE /\ PrintT(<<"FAIL", run, l, Ev.op>>)
                     /\ bad' = TRUE /\ UNCHANGED <<quads, catalog, run>>

Next2 == l <= Len(Rec) /\ l' = l + 1 /\ (Reset \/ Op)
TSpec == TInit /\ [][Next2]_vars

Consumed == IF TLCGet("stats").diameter - 1 = Len(Rec) THEN TRUE
            ELSE PrintT(<<"STUCK", TLCGet("stats").diameter, Len(Rec)>>) /\ FALSE
=============================================================================
