SPECIFICATION Spec
CONSTANTS
  Sigma <- SigmaAll
  Cases <- QuickCases
  EscapeNT = TRUE
  DirectEncode = TRUE
  EmitDone = TRUE
INVARIANTS RoundTripPlain Emit
CHECK_DEADLOCK FALSE
