"""C04 - every read path of the store agrees with the set of quads written.

L1  tla/quads/QuadsImpl.tla (four nested indexes + catalog, pruned like the code) refines
    tla/quads/Quads.tla; invariants IndexesAgree, NoEmptyLevels, ReadsAgree, CatalogCovers.
L2  every transition of Quads.tla (bounded) is printed by TLC; a greedy walk covering every
    edge is executed on a real DatasetIndex and on a SparqlDatabase; the recording is validated.
L3  seeded random histories on both targets, validated by QuadsTrace.tla.
"""
import collections
import json
import os
import time
import vlib
from vlib import log

FAMILY = "quads"
U_L2 = {"s": [1, 2], "p": [2], "o": [1, 2], "g": [7, 8]}   # term 2 occurs as subject, predicate and object


def skey(st):
    return json.dumps([sorted(st["q"]), sorted(st["c"])])


def edge_cover(edges, maxwalk):
    """Greedy walks from the initial state covering every edge at least once."""
    out = collections.defaultdict(list)
    for e in edges:
        out[skey(e["from"])].append((e["act"], skey(e["to"])))
    init = skey({"q": [], "c": []})
    todo = {k: list(range(len(v))) for k, v in out.items()}
    remaining = sum(len(v) for v in todo.values())
    walks, cur_walk, cur = [], [], init

    def path_to_work(src):
        # BFS to the nearest state that still has an untraversed out-edge
        prev = {src: None}
        dq = collections.deque([src])
        while dq:
            x = dq.popleft()
            if todo.get(x):
                path = []
                while prev[x] is not None:
                    px, act = prev[x]
                    path.append((act, x))
                    x = px
                return list(reversed(path))
            for act, y in out.get(x, []):
                if y not in prev:
                    prev[y] = (x, act)
                    dq.append(y)
        return None

    while remaining:
        if len(cur_walk) >= maxwalk:
            walks.append(cur_walk)
            cur_walk, cur = [], init
        if todo.get(cur):
            i = todo[cur].pop()
            act, nxt = out[cur][i]
            cur_walk.append(act)
            cur = nxt
            remaining -= 1
        else:
            p = path_to_work(cur)
            if p is None:
                walks.append(cur_walk)
                cur_walk, cur = [], init
                p = path_to_work(cur)
                if p is None:
                    break
            for act, nxt in p:
                cur_walk.append(act)
                cur = nxt
    if cur_walk:
        walks.append(cur_walk)
    return walks


def sig_for(ev, failing_op):
    return f"DatasetIndex|target={ev[0]['target']}|after={failing_op}|read-path-or-return-value-disagrees-with-quad-set"


def validate(trace_path, verdict, tag):
    res = vlib.tlc_trace(FAMILY, "QuadsTrace.tla", "QuadsTrace.cfg", trace_path, tag=f"c04-{tag}", heap="8g")
    runs = vlib.split_runs(vlib.read_ndjson(trace_path))
    failed = {}
    for f in res["fail"]:
        failed.setdefault(f[0], f)
    for rid, f in sorted(failed.items()):
        ev = runs[rid]
        verdict.violation(sig_for(ev, f[2]), {"driver": "c04", "case": ev[0]["case"], "failing_line": f[1], "op": f[2]})
    return runs, failed, res


def run(ctx):
    t0 = time.time()
    verdict = vlib.Verdict("C04", ctx.seed, ctx.tier)
    wd = vlib.workdir("c04")
    if ctx.replay:
        case = json.load(open(ctx.replay))["case"]["case"]
        vlib.write_ndjson(os.path.join(wd, "cases.ndjson"), [case])
        vlib.kverif(["c04", "--cases", os.path.join(wd, "cases.ndjson"), "--out", os.path.join(wd, "replay.ndjson")])
        validate(os.path.join(wd, "replay.ndjson"), verdict, "replay")
        return verdict.finish()

    thorough = ctx.tier == "thorough"
    mc = vlib.tlc_mc(FAMILY, "QuadsImpl.tla", "MC_thorough.cfg" if thorough else "MC_quick.cfg", workers=8)
    log(f"L1 QuadsImpl refines Quads: {mc['states']} distinct states ({mc['generated']} transitions), violated={mc['violated']}")
    if mc["uncovered"]:
        raise vlib.ToolError(f"vacuity: actions never taken in L1: {mc['uncovered']}")

    # L0: the requirement module's invariant is inductive for arbitrary identifiers (Apalache; sets bounded in cardinality only)
    base, w1 = vlib.apalache_check(FAMILY, "ApQuads.tla", ["--cinit=ConstInit", "--init=Init", "--inv=IndInv", "--length=0"], tag="c04-base")
    step, w2 = vlib.apalache_check(FAMILY, "ApQuads.tla", ["--cinit=ConstInit", "--init=IndInit", "--inv=IndInv", "--length=1"], tag="c04-step")
    ctl, w3 = vlib.apalache_check(FAMILY, "ApQuads.tla", ["--cinit=ConstInit", "--init=IndInit", "--next=NextBroken", "--inv=IndInv", "--length=1"], tag="c04-ctl")
    if (base, step, ctl) != ("ok", "ok", "error"):
        raise vlib.ToolError(f"Apalache: TypeOK /\\ CatalogCovers is not inductive for Quads.tla (base={base}, step={step}) or the broken DROP is not "
                             f"rejected (control={ctl}): the requirement module is wrong, not a verdict")
    log(f"L0 Apalache: TypeOK /\\ CatalogCovers is an inductive invariant of Quads.tla for arbitrary identifiers (base {w1:.0f}s, step {w2:.0f}s); "
        f"a DROP that keeps the quads is rejected ({w3:.0f}s)")

    edges, st = vlib.tlc_emit(FAMILY, "MCQuads.tla", "MC_emit_thorough.cfg" if thorough else "MC_emit_quick.cfg")
    walks = edge_cover(edges, 600)
    nreads = 10 if thorough else 6
    cases = []
    for i, w in enumerate(walks):
        for target in ("index", "db"):
            cases.append({"target": target, "u": U_L2, "ops": w, "seed": ctx.seed * 1000 + i, "reads": nreads})
    vlib.write_ndjson(os.path.join(wd, "l2cases.ndjson"), cases)
    vlib.kverif(["c04", "--cases", os.path.join(wd, "l2cases.ndjson"), "--out", os.path.join(wd, "l2.ndjson")])
    runs2, failed2, res2 = validate(os.path.join(wd, "l2.ndjson"), verdict, "l2")
    steps2 = sum(len(r) - 1 for r in runs2.values())
    log(f"L2 edge cover: {len(edges)} spec transitions, {len(walks)} walks x 2 targets, {steps2} steps replayed, {len(failed2)} runs rejected")

    n3, ops3 = (400, 400) if thorough else (40, 150)
    vlib.kverif(["c04", "--random", n3, "--ops", ops3, "--reads", nreads, "--seed", ctx.seed, "--out", os.path.join(wd, "l3.ndjson")])
    runs3, failed3, res3 = validate(os.path.join(wd, "l3.ndjson"), verdict, "l3")
    steps3 = sum(len(r) - 1 for r in runs3.values())
    log(f"L3 random histories: {len(runs3)} runs, {steps3} steps, {len(failed3)} rejected")

    if mc["violated"] and not (failed2 or failed3):
        raise vlib.ToolError(f"L1 {mc['violated']} violated in the model but not reproduced on the code: model out of date")

    rc = verdict.finish()
    # distinct / non-trivial: an operation step that changed the dataset (snapshot or graph list differs from the previous step)
    distinct = set()
    evaluations = 0
    for runs in (runs2, runs3):
        for ev in runs.values():
            prev = ([], [0])
            for e in ev[1:]:
                evaluations += 1
                cur = (e["all"], e["graphs"])
                if cur != prev:
                    distinct.add(vlib.case_hash([ev[0]["target"], prev, e["op"], e["q"], e["g"]]))
                prev = cur
    s3 = runs3[sorted(runs3)[0]]
    cov = {
        "states": mc["states"], "transitions": mc["generated"],
        "traces_validated_against_impl": len(runs2) + len(runs3),
        "samples": [{"target": s3[0]["target"], "first_steps": [{k: e[k] for k in ("op", "q", "g", "ret", "all", "graphs")} | {"reads": e["reads"][:3]} for e in s3[1:5]]},
                    {"spec_edge": edges[len(edges) // 2]}],
        "evaluations": evaluations, "distinct_nontrivial": len(distinct),
        "rule": "one evaluation = one store API call followed by snapshot, graph listing and sampled read calls, all checked by TLC; "
                "distinct by (target, pre-state, operation); non-trivial = the call changed the quad set or the graph catalog",
        "exhaustive": True,
        "spec_edges_covered": len(edges), "l2_steps": steps2, "l3_steps": steps3,
        "read_calls_checked": sum(len(e["reads"]) for runs in (runs2, runs3) for ev in runs.values() for e in ev[1:]),
        "trace_states": res2["states"] + res3["states"],
        "apalache_inductive_invariant": {"module": "tla/quads/ApQuads.tla", "invariant": "TypeOK /\\ CatalogCovers", "base": base, "step": step,
                                         "negative_control_rejected": ctl == "error", "bounds": "sets of at most 3 identifiers per sort, 5 quads; identifier values unbounded"},
    }
    vlib.write_evidence("C04", ctx.tier, ctx.seed, "model_checking", cov,
                        ["the Apalache result is about the requirement module Quads.tla only (inductive invariant, identifiers unbounded in value); the code-shaped "
                         "QuadsImpl.tla with its nested maps and recursive operators is checked by TLC",
                         "exhaustive only within the cfg constants (2x1x2 terms, 2 named graphs, bounded quad count); beyond: sampled histories",
                         "read calls after each step are a seeded sample of all (kind, arguments) combinations, not all of them",
                         "index target: `rebuild` is a clone (serde_json cannot serialise the enum-keyed maps); db target: build_all_indexes"],
                        time.time() - t0, len(verdict.violations))
    return rc
