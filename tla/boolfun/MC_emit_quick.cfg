SPECIFICATION ESpec
CONSTANTS
  VarIds = {0,1}
  PosW = {1}
  Kinds = {0}
  MaxOps = 5
  MaxHandles = 5
  FillCacheOnFailure = FALSE
CONSTRAINT Bound
ACTION_CONSTRAINT Emit
VIEW ViewDen
CHECK_DEADLOCK FALSE
