-------------------------------- MODULE Plan --------------------------------
(***************************************************************************)
(* Operational meaning of physical plans as ExecutionEngine executes them  *)
(* (C02, design level).  A plan is the lowering of a group graph pattern   *)
(* in which every join node carries the algorithm the optimizer picked:    *)
(*   "bind"  - the left solutions are fed into the right plan (every       *)
(*             operator of the right plan starts from them);               *)
(*   "hash" / "nl" - the right plan is evaluated from the unit mapping and *)
(*             the two solution sequences are merged.                      *)
(* Exec(X, plan, view, active, inc) follows execute_with_ids_and_input.    *)
(* Theorem checked by TLC over a menu of patterns, all small datasets and  *)
(* ALL assignments of join algorithms:                                     *)
(*     Stable(p) => Exec(Lower(p, a)) = Eval(p)                            *)
(* where Stable(p) says that every FILTER / BIND of a group only mentions  *)
(* variables that the group binds in every one of its solutions            *)
(* (CertVars).  Without that precondition the bind join lets an inner      *)
(* FILTER see outer bindings and the algorithms disagree (F-C02-bindjoin): *)
(* the negative control checks that TLC finds such a pattern.              *)
(***************************************************************************)
EXTENDS Sparql

\* ---- lowering: build_logical_plan_from_group (filters deferred to the end of their group, BIND positional,
\* append_join drops unit operands).  Join nodes are numbered in creation order; a[k] is the algorithm of node k.
\* Lower returns [plan, next] threading the join counter.
RECURSIVE LowerP(_, _, _), LowerGroup(_, _, _, _, _)

Join2(l, r, a, n) ==
  IF l.t = "unit" THEN [plan |-> r, next |-> n]
  ELSE IF r.t = "unit" THEN [plan |-> l, next |-> n]
  ELSE [plan |-> [t |-> "pjoin", alg |-> a[n], l |-> l, r |-> r], next |-> n + 1]

RECURSIVE LowerBgp(_, _, _, _)
LowerBgp(tps, k, a, n) ==
  IF k = 0 THEN [plan |-> [t |-> "unit"], next |-> n]
  ELSE LET before == LowerBgp(tps, k - 1, a, n)
       IN  Join2(before.plan, [t |-> "scan", tp |-> tps[k]], a, before.next)

LowerGroup(ps, k, a, n, acc) ==
  \* acc: [plan, next]; folds elements 1..k of the group
  IF k = 0 THEN acc
  ELSE LET before == LowerGroup(ps, k - 1, a, n, acc)
           e == ps[k]
       IN  CASE e.t = "filter" -> before
             [] e.t = "bind"   -> [plan |-> [t |-> "pbind", input |-> before.plan, args |-> e.args, v |-> e.v], next |-> before.next]
             [] OTHER          -> LET sub == LowerP(e, a, before.next) IN Join2(before.plan, sub.plan, a, sub.next)

RECURSIVE WrapFilters(_, _, _)
WrapFilters(ps, k, plan) ==
  IF k = 0 THEN plan
  ELSE LET inner == WrapFilters(ps, k - 1, plan)
       IN  IF ps[k].t = "filter" THEN [t |-> "pfilter", input |-> inner, e |-> ps[k].e] ELSE inner

RECURSIVE LowerUnion(_, _, _, _)
LowerUnion(ps, k, a, n) ==
  IF k = 0 THEN [plans |-> <<>>, next |-> n]
  ELSE LET before == LowerUnion(ps, k - 1, a, n)
           b == LowerP(ps[k], a, before.next)
       IN  [plans |-> Append(before.plans, b.plan), next |-> b.next]

LowerP(p, a, n) ==
  CASE p.t = "unit"   -> [plan |-> [t |-> "unit"], next |-> n]
    [] p.t = "bgp"    -> LowerBgp(p.tps, Len(p.tps), a, n)
    [] p.t = "join"   -> LET g == LowerGroup(p.ps, Len(p.ps), a, n, [plan |-> [t |-> "unit"], next |-> n])
                         IN  [plan |-> WrapFilters(p.ps, Len(p.ps), g.plan), next |-> g.next]
    [] p.t = "union"  -> LET u == LowerUnion(p.ps, Len(p.ps), a, n) IN [plan |-> [t |-> "punion", branches |-> u.plans], next |-> u.next]
    [] p.t = "graph"  -> LET c == LowerP(p.p, a, n) IN [plan |-> [t |-> "pgraph", name |-> p.name, input |-> c.plan], next |-> c.next]
    [] p.t = "filter" -> [plan |-> [t |-> "pfilter", input |-> [t |-> "unit"], e |-> p.e], next |-> n]
    [] p.t = "bind"   -> [plan |-> [t |-> "pbind", input |-> [t |-> "unit"], args |-> p.args, v |-> p.v], next |-> n]
    [] p.t = "values" -> [plan |-> [t |-> "pvalues", vars |-> p.vars, rows |-> p.rows], next |-> n]

\* ---- execution (execute_with_ids_and_input): an empty input yields an empty output for every operator
RECURSIVE Exec(_, _, _, _, _), ExecUnion(_, _, _, _, _, _)
Exec(X, op, view, active, inc) ==
  IF DOMAIN inc = {} THEN EmptyBag
  ELSE CASE op.t = "unit"    -> inc
         [] op.t = "scan"    -> BagJoin(inc, MatchTP(op.tp, ActiveTriples(X, view, active)))
         [] op.t = "punion"  -> ExecUnion(X, op.branches, Len(op.branches), view, active, inc)
         [] op.t = "pgraph"  ->
              IF IsVar(op.name)
                THEN LET gs == {g \in view.named : g \in X.graphs}
                         One(g) == Exec(X, op.input, view, g, BagJoin(inc, [m \in {[x \in {op.name[2]} |-> g]} |-> 1]))
                         RECURSIVE Acc(_)
                         Acc(S) == IF S = {} THEN EmptyBag ELSE LET g == CHOOSE x \in S : TRUE IN BagUnion(One(g), Acc(S \ {g}))
                     IN  Acc(gs)
                ELSE IF op.name[2] \in view.named /\ op.name[2] \in X.graphs THEN Exec(X, op.input, view, op.name[2], inc) ELSE EmptyBag
         [] op.t = "pfilter" -> BagFilter(Exec(X, op.input, view, active, inc), LAMBDA m : EvalExpr(X, op.e, m) = "T")
         [] op.t = "pbind"   -> Extend(X, Exec(X, op.input, view, active, inc), op.args, op.v)
         [] op.t = "pvalues" -> BagJoin(inc, ValuesBag(op.vars, op.rows))
         [] op.t = "pjoin"   ->
              LET left == Exec(X, op.l, view, active, inc) IN
              IF op.alg = "bind" THEN Exec(X, op.r, view, active, left)
              ELSE IF DOMAIN left = {} THEN EmptyBag
              ELSE BagJoin(left, Exec(X, op.r, view, active, UnitBag))
ExecUnion(X, bs, k, view, active, inc) ==
  IF k = 0 THEN EmptyBag ELSE BagUnion(ExecUnion(X, bs, k - 1, view, active, inc), Exec(X, bs[k], view, active, inc))

\* ---- the precondition under which the join algorithm cannot matter
RECURSIVE CertVars(_), CertSeq(_, _), StableP(_), StableSeq(_, _)
CertSeq(ps, k) == IF k = 0 THEN {} ELSE CertSeq(ps, k - 1) \cup CertVars(ps[k])
RECURSIVE CertInter(_, _)
CertInter(ps, k) == IF k = 1 THEN CertVars(ps[1]) ELSE CertInter(ps, k - 1) \cap CertVars(ps[k])
CertVars(p) ==
  CASE p.t = "bgp"    -> UNION {TPVars(p.tps[i]) : i \in 1..Len(p.tps)}
    [] p.t = "join"   -> CertSeq(p.ps, Len(p.ps))
    [] p.t = "union"  -> CertInter(p.ps, Len(p.ps))
    [] p.t = "graph"  -> (IF IsVar(p.name) THEN {p.name[2]} ELSE {}) \cup CertVars(p.p)
    [] p.t = "values" -> {p.vars[i] : i \in {j \in 1..Len(p.vars) : \A r \in 1..Len(p.rows) : p.rows[r][j][1] # "u"}}
    [] OTHER          -> {}
StableSeq(ps, k) == k = 0 \/ (StableSeq(ps, k - 1) /\ StableP(ps[k]))
StableP(p) ==
  CASE p.t = "join" ->
         /\ StableSeq(p.ps, Len(p.ps))
         /\ \A i \in 1..Len(p.ps) :
              /\ (p.ps[i].t = "filter" => ExprVars(p.ps[i].e) \subseteq CertSeq(p.ps, Len(p.ps)))
              /\ (p.ps[i].t = "bind" => {b[2] : b \in {c \in {p.ps[i].args[j] : j \in 1..Len(p.ps[i].args)} : IsVar(c)}} \subseteq CertSeq(p.ps, i - 1))
    [] p.t = "union" -> StableSeq(p.ps, Len(p.ps))
    [] p.t = "graph" -> StableP(p.p)
    [] OTHER -> TRUE

RECURSIVE CountJoins(_)
CountJoins(op) ==
  CASE op.t = "pjoin" -> 1 + CountJoins(op.l) + CountJoins(op.r)
    [] op.t = "punion" -> LET RECURSIVE S(_) S(k) == IF k = 0 THEN 0 ELSE S(k - 1) + CountJoins(op.branches[k]) IN S(Len(op.branches))
    [] op.t \in {"pgraph", "pfilter", "pbind"} -> CountJoins(op.input)
    [] OTHER -> 0
=============================================================================
