------------------------- MODULE TagPropagationImpl -------------------------
(***************************************************************************)
(* Code-shaped model of provenance_semi_naive.rs / provenance_infer_       *)
(* generic.rs for an idempotent provenance (the exact modes: a tag denotes *)
(* a Boolean function of the seeds, here written as the set of worlds in   *)
(* which it is true; disjunction = union, conjunction = intersection,      *)
(* negate = complement, one = all worlds, zero = {}).  Min-max and Boolean *)
(* are homomorphic images of this semiring for positive programs.          *)
(*                                                                         *)
(*   infer_with_provenance_strategy_and_rules   the loop: Round until no   *)
(*        new fact and no tag change                                       *)
(*   ProvenanceSemiNaiveStrategy::infer_round   Round: delta = facts added *)
(*        by the previous round + delta_improved (all facts in the first   *)
(*        round); every derivation with a premise in delta is applied in   *)
(*        sequence against the *current* tag store                         *)
(*   TagStore::set_tag / update_disjunction      SetTag / ApplyConcl       *)
(*   run_negative_stratum_pass                   NegRound                  *)
(*                                                                         *)
(* The order in which the code meets the derivations of one round comes    *)
(* from index and hash iteration; the model takes TLC's canonical order of *)
(* the derivation set and its reverse (every pair of derivations is seen   *)
(* in both relative orders).                                               *)
(*                                                                         *)
(* Requirement (Worlds.tla): at termination the tag of every fact is       *)
(* exactly the set of worlds whose model contains it.                      *)
(***************************************************************************)
EXTENDS Worlds, SequencesExt, TLC

CONSTANTS Programs,       \* set of programs
          CertainSets,    \* set of sets of certain input facts
          UncertainSets,  \* set of sets of uncertain input facts
          Retrigger       \* TRUE: as the code.  FALSE: delta_improved dropped (negative control)

VARIABLES R, C, U,        \* the case (chosen initially, then constant)
          want,           \* requirement: fact |-> set of worlds whose model contains it
          known,          \* known_facts / all_facts
          tags,           \* TagStore.tags: explicit tags only (one() is never stored)
          delta,          \* facts appended by the previous round (all_facts[start_idx_for_delta..])
          improved,       \* delta_improved
          first,          \* first_round
          derived,        \* facts returned so far
          pc              \* "pos" | "neg" | "done"
vars == <<R, C, U, want, known, tags, delta, improved, first, derived, pc>>

AllW == SUBSET U
Get(t, f) == IF f \in DOMAIN t THEN t[f] ELSE AllW
SetTag(t, f, tag) ==
  IF tag = AllW THEN [g \in DOMAIN t \ {f} |-> t[g]]
  ELSE [g \in DOMAIN t \cup {f} |-> IF g = f THEN tag ELSE t[g]]

Conj(t, fs) == {W \in AllW : \A k \in 1..Len(fs) : W \in Get(t, fs[k])}

\* st = [tags, new, imp, chg]: the part of the state one round mutates
ApplyConcl(st, f, tag, base) ==
  IF f \notin base /\ f \notin st.new
    THEN [st EXCEPT !.tags = SetTag(@, f, tag), !.new = @ \cup {f}]
    ELSE LET old == Get(st.tags, f)
             comb == old \cup tag
         IN  IF comb = old THEN st
             ELSE [st EXCEPT !.tags = SetTag(@, f, comb),
                             !.imp = IF f \in base THEN @ \cup {f} ELSE @,
                             !.chg = IF f \in base THEN TRUE ELSE @]

RECURSIVE ApplyHeads(_, _, _, _, _)
ApplyHeads(st, hs, k, tag, base) ==
  IF k > Len(hs) THEN st ELSE ApplyHeads(ApplyConcl(st, hs[k], tag, base), hs, k + 1, tag, base)

HeadSeq(r, b) == [c \in 1..Len(r.concl) |-> Subst(r.concl[c], b)]

\* one derivation <<rule index, binding>> of a positive rule
ApplyPos(st, d) ==
  LET r == R[d[1]]
      tag == Conj(st.tags, Body(r, d[2]))
  IN  IF tag = {} THEN st ELSE ApplyHeads(st, HeadSeq(r, d[2]), 1, tag, known)

\* one derivation of a rule with negated atoms, against the stratum-0 closure `known`
ApplyNeg(st, d) ==
  LET r == R[d[1]]
      pos == Conj(st.tags, Body(r, d[2]))
      neg == {W \in AllW : \A n \in NegBody(r, d[2]) : n \in known => W \notin Get(st.tags, n)}
      tag == pos \cap neg
  IN  IF tag = {} THEN st ELSE ApplyHeads(st, HeadSeq(r, d[2]), 1, tag, known)

RECURSIVE Fold(_, _, _, _)
Fold(st, ds, k, negp) ==
  IF k > Len(ds) THEN st
  ELSE Fold(IF negp THEN ApplyNeg(st, ds[k]) ELSE ApplyPos(st, ds[k]), ds, k + 1, negp)

Order(S, rev) == IF rev THEN Reverse(SetToSeq(S)) ELSE SetToSeq(S)

SeedTags == [u \in U |-> {W \in AllW : u \in W}]

Init ==
  /\ R \in Programs /\ C \in CertainSets /\ U \in UncertainSets
  /\ C \cap U = {}
  /\ \A i \in 1..Len(R) : Safe(R[i])
  /\ Stratified(R)
  /\ LET mods == WorldModels(R, C, U)
     IN  want = [f \in Possible(mods) \cup C \cup U |-> {W \in AllW : f \in mods[W]}]
  /\ known = C \cup U
  /\ tags = SeedTags
  /\ delta = {} /\ improved = {} /\ first = TRUE /\ derived = {} /\ pc = "pos"

Round(rev) ==
  /\ pc = "pos"
  /\ LET eff == IF first THEN known ELSE delta \cup improved
         pending == {d \in UNION {{<<i, b>> : b \in Bindings(R[i], known)} : i \in PosIdx(R)} :
                        \E k \in 1..Len(R[d[1]].prem) : Body(R[d[1]], d[2])[k] \in eff}
         st == Fold([tags |-> tags, new |-> {}, imp |-> {}, chg |-> FALSE], Order(pending, rev), 1, FALSE)
     IN  /\ tags' = st.tags
         /\ known' = known \cup st.new
         /\ derived' = derived \cup st.new
         /\ delta' = st.new
         /\ improved' = IF Retrigger THEN st.imp ELSE {}
         /\ first' = FALSE
         /\ pc' = IF st.new = {} /\ ~st.chg THEN (IF NegIdx(R) = {} THEN "done" ELSE "neg") ELSE "pos"
  /\ UNCHANGED <<R, C, U, want>>

NegRound(rev) ==
  /\ pc = "neg"
  /\ LET pending == UNION {{<<i, b>> : b \in Bindings(R[i], known)} : i \in NegIdx(R)}
         st == Fold([tags |-> tags, new |-> {}, imp |-> {}, chg |-> FALSE], Order(pending, rev), 1, TRUE)
     IN  /\ tags' = st.tags
         /\ known' = known \cup st.new
         /\ derived' = derived \cup st.new
         /\ pc' = "done"
  /\ UNCHANGED <<R, C, U, want, delta, improved, first>>

Next == \E rev \in BOOLEAN : Round(rev) \/ NegRound(rev)

Spec == Init /\ [][Next]_vars

\* ------------------------------------------------------------------ properties
\* tags never claim a world in which the fact is not derivable
TagsSound == \A f \in known : f \in DOMAIN want /\ Get(tags, f) \subseteq want[f]

\* C06 at design level: at termination the facts are those true in some world and every tag is exact
TagsExact == pc = "done" =>
                /\ known = DOMAIN want
                /\ \A f \in known : Get(tags, f) = want[f]
                /\ derived = known \ (C \cup U)

\* the store never holds one() explicitly, and never zero for a derived fact
StoreShape == \A f \in DOMAIN tags : tags[f] # AllW /\ (f \in derived => tags[f] # {})
=============================================================================
