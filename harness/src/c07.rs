//! C07 driver: runs operation sequences on a real `shared::sdd::SddManager` and records one
//! ndjson event per call: operand handles, result handle or error kind, `enumerate_models`
//! of the result, WMC and gradient as scaled integers.  Nothing is judged here; the expected
//! truth tables / sums are computed by TLC (tla/boolfun/BoolFunTrace.tla).
//!
//! Handles: `SddId` is opaque, the driver numbers distinct ids in order of first appearance
//! (FALSE = 0, TRUE = 1), so equal numbers <=> equal `SddId`.
//!
//! Case formats (`--cases FILE`, one JSON object per line; also written into the reset event):
//!   {"kind":"seq","ops":[OP...],"obs_from":i,"final_probe":0|1}   (operations before index i are logged without observations)
//!   {"kind":"pairs","order":[ids],"late":n,"pos":[k..],"group":[g..],"alt":0|1,
//!    "via":"plain"|"try","lo":i,"hi":j}  or  ...,"sample":n,"seed":s}     all functions over the variables, then pairs
//! OP:  {"op":"newvar","v":id,"pos":k,"kind":g}            weight k/4; kind 0 independent (neg 1-p), g>0 exclusive (neg 1)
//!      {"op":"lit","v":id,"pol":0|1}  {"op":"apply","bop":"and"|"or","a":slot,"b":slot}
//!      {"op":"neg","a":slot}  {"op":"xone","vs":[ids]}  {"op":"probe"}      slots: 0 FALSE, 1 TRUE, 2.. results in order
//!   optional "fault" on lit/apply/neg/xone:
//!      {"k":K,"nb":NB,"retry":"plain"|"try","probes":n}  one budgeted attempt: deadline closure turns false at its K-th call (0 never),
//!                                             node limit = nodes before + NB - 1 (0 unlimited); on exhaustion all handles
//!                                             are probed and the operation is repeated unbudgeted (plain) or budget-free (try)
//!      {"ladder":"k"|"nb"}                    attempts with K (resp. NB) = 1,2,3.. on the same manager until success
use crate::util::{guarded, read_cases, Args, Rng};
use serde_json::{json, Value};
use shared::diff_sdd::wmc_gradient;
use shared::sdd::{BoolOp, SddBudgetError, SddId, SddManager, SddOperationBudget, VarKind};
use std::collections::HashMap;

const SCALE: f64 = 4.0;

/// ndjson writer that flushes after every event: if the code under test kills the process
/// (stack overflow, abort) the events up to the fatal call are on disk and the check can
/// report the crash as data instead of losing the run.
struct Out {
    w: std::io::BufWriter<std::fs::File>,
}

impl Out {
    fn create(path: &str) -> Out {
        let f = std::fs::File::create(path).unwrap_or_else(|e| {
            eprintln!("cannot create {path}: {e}");
            std::process::exit(2)
        });
        Out { w: std::io::BufWriter::new(f) }
    }
    fn ev(&mut self, v: Value) {
        use std::io::Write;
        serde_json::to_writer(&mut self.w, &v).unwrap();
        self.w.write_all(b"\n").unwrap();
        self.w.flush().unwrap();
    }
    fn finish(mut self) {
        use std::io::Write;
        self.w.flush().unwrap();
    }
}

#[derive(Clone, Debug)]
enum Call {
    Lit(u32, bool),
    Apply(BoolOp, usize, usize),
    Neg(usize),
    XOne(Vec<u32>),
}

struct St {
    m: SddManager,
    num: HashMap<SddId, u64>,
    slots: Vec<SddId>,
    reg: Vec<u32>, // registered variable ids in introduction order
    exhausted: u64,
    dead: bool,
    quiet: bool, // operations are logged without observations (prefix of a fault-enumeration case)
}

impl St {
    fn new() -> St {
        let mut num = HashMap::new();
        num.insert(SddId::FALSE, 0);
        num.insert(SddId::TRUE, 1);
        St { m: SddManager::new(), num, slots: vec![SddId::FALSE, SddId::TRUE], reg: Vec::new(), exhausted: 0, dead: false, quiet: false }
    }
    fn h(&mut self, id: SddId) -> u64 {
        let n = self.num.len() as u64;
        *self.num.entry(id).or_insert(n)
    }
    fn known(&self, id: SddId) -> u64 {
        self.num[&id]
    }

    /// models / wmc / gradient of a diagram, as the public API reports them
    fn observe(&mut self, id: SddId) -> Result<Value, String> {
        let n = self.reg.len() as i32;
        let reg = self.reg.clone();
        let m = &mut self.m;
        guarded(move || {
            let models: Vec<Value> = m.enumerate_models(id).iter()
                .map(|s| Value::Array(s.iter().map(|&(v, p)| json!([v, p as u8])).collect())).collect();
            let (wmc, frac) = to_int(m.wmc(id) * SCALE.powi(n));
            let g = wmc_gradient(m, id);
            let mut gfrac = 0u8;
            let grad: Vec<Value> = reg.iter().map(|v| {
                let (x, f) = to_int(g.get(v).copied().unwrap_or(0.0) * SCALE.powi(n - 1));
                gfrac |= f;
                json!([v, x])
            }).collect();
            json!({"models": models, "wmc": wmc, "frac": frac, "grad": grad, "gfrac": gfrac})
        })
    }
}

fn to_int(x: f64) -> (i64, u8) {
    if !x.is_finite() || x.abs() > 1e15 {
        return (0, 1);
    }
    let r = x.round();
    (r as i64, ((x - r).abs() > 1e-6) as u8)
}

fn empty_obs() -> Value {
    json!({"models": [], "wmc": 0, "frac": 0, "grad": [], "gfrac": 0})
}

fn merge(mut a: Value, b: Value) -> Value {
    for (k, v) in b.as_object().unwrap() {
        a[k.as_str()] = v.clone();
    }
    a
}

fn call_of(op: &Value) -> Option<Call> {
    let s = |k: &str| op[k].as_u64().unwrap_or(0) as usize;
    match op["op"].as_str()? {
        "lit" => Some(Call::Lit(s("v") as u32, s("pol") == 1)),
        "apply" => Some(Call::Apply(if op["bop"] == "or" { BoolOp::Or } else { BoolOp::And }, s("a"), s("b"))),
        "neg" => Some(Call::Neg(s("a"))),
        "xone" => Some(Call::XOne(op["vs"].as_array().unwrap().iter().map(|x| x.as_u64().unwrap() as u32).collect())),
        _ => None,
    }
}

fn plain(st: &mut St, c: &Call) -> SddId {
    match c {
        Call::Lit(v, p) => st.m.literal(*v, *p),
        Call::Apply(op, a, b) => { let (x, y) = (st.slots[*a], st.slots[*b]); st.m.apply(x, y, *op) }
        Call::Neg(a) => { let x = st.slots[*a]; st.m.negate(x) }
        Call::XOne(vs) => st.m.exactly_one(vs),
    }
}

struct TryOut {
    r: Result<SddId, SddBudgetError>,
    cp: u64,
    expired: bool,
    before: usize,
    after: usize,
}

/// budgeted twin; the deadline closure answers `false` from its k-th call on (k = 0: never)
fn budgeted(st: &mut St, c: &Call, k: u64, nb: u64) -> TryOut {
    let before = st.m.node_count();
    let max_nodes = if nb == 0 { usize::MAX } else { before + nb as usize - 1 };
    let mut cp = 0u64;
    let mut expired = false;
    let r = {
        let mut avail = || {
            cp += 1;
            if k > 0 && cp >= k { expired = true; false } else { true }
        };
        let mut budget = SddOperationBudget::new(max_nodes, &mut avail);
        match c {
            Call::Lit(v, p) => st.m.try_literal(*v, *p, &mut budget),
            Call::Apply(op, a, b) => { let (x, y) = (st.slots[*a], st.slots[*b]); st.m.try_apply(x, y, *op, &mut budget) }
            Call::Neg(a) => { let x = st.slots[*a]; st.m.try_negate(x, &mut budget) }
            Call::XOne(vs) => st.m.try_exactly_one(vs, &mut budget),
        }
    };
    TryOut { r, cp, expired, before, after: st.m.node_count() }
}

fn base_event(st: &St, c: &Call) -> Value {
    let mut e = json!({"ev":"op","op":"","bop":"-","a":0,"b":0,"v":0,"pol":0,"vs":[],
                       "try":0,"k":0,"nb":0,"cp":0,"expired":0,"res":"ok","ret":0,"n0":0,"n1":0,"obs":1});
    match c {
        Call::Lit(v, p) => { e["op"] = json!("lit"); e["v"] = json!(v); e["pol"] = json!(*p as u8); }
        Call::Apply(op, a, b) => {
            e["op"] = json!("apply");
            e["bop"] = json!(if *op == BoolOp::And { "and" } else { "or" });
            e["a"] = json!(st.known(st.slots[*a]));
            e["b"] = json!(st.known(st.slots[*b]));
        }
        Call::Neg(a) => { e["op"] = json!("neg"); e["a"] = json!(st.known(st.slots[*a])); }
        Call::XOne(vs) => { e["op"] = json!("xone"); e["vs"] = json!(vs); }
    }
    e
}

/// log a successful result: handle number + observations
fn ok_event(st: &mut St, mut e: Value, id: SddId) -> Value {
    e["ret"] = json!(st.h(id));
    if st.quiet {
        e["obs"] = json!(0);
        return merge(e, empty_obs());
    }
    match st.observe(id) {
        Ok(o) => merge(e, o),
        Err(_) => { st.dead = true; e["res"] = json!("panic"); merge(e, empty_obs()) }
    }
}

fn do_plain(st: &mut St, out: &mut Out, c: &Call) -> Option<SddId> {
    let mut e = base_event(st, c);
    e["n0"] = json!(st.m.node_count());
    let r = { let s: &mut St = st; guarded(move || plain(s, c)) };
    e["n1"] = json!(st.m.node_count());
    match r {
        Ok(id) => { let e = ok_event(st, e, id); out.ev(e); if st.dead { None } else { Some(id) } }
        Err(_) => { st.dead = true; e["res"] = json!("panic"); out.ev(merge(e, empty_obs())); None }
    }
}

fn do_try(st: &mut St, out: &mut Out, c: &Call, k: u64, nb: u64) -> Option<Result<SddId, ()>> {
    let mut e = base_event(st, c);
    e["try"] = json!(1);
    e["k"] = json!(k);
    e["nb"] = json!(nb);
    let r = { let s: &mut St = st; guarded(move || budgeted(s, c, k, nb)) };
    match r {
        Ok(t) => {
            e["cp"] = json!(t.cp);
            e["expired"] = json!(t.expired as u8);
            e["n0"] = json!(t.before);
            e["n1"] = json!(t.after);
            match t.r {
                Ok(id) => { let e = ok_event(st, e, id); out.ev(e); if st.dead { None } else { Some(Ok(id)) } }
                Err(err) => {
                    st.exhausted += 1;
                    e["res"] = json!(if err == SddBudgetError::DeadlineExceeded { "deadline" } else { "nodes" });
                    out.ev(merge(e, empty_obs()));
                    Some(Err(()))
                }
            }
        }
        Err(_) => { st.dead = true; e["res"] = json!("panic"); out.ev(merge(e, empty_obs())); None }
    }
}

fn probe(st: &mut St, out: &mut Out, id: SddId) {
    let h = st.known(id);
    let e = json!({"ev":"probe","h":h,"res":"ok","obs":1});
    match st.observe(id) {
        Ok(o) => out.ev(merge(e, o)),
        Err(_) => { st.dead = true; let mut e = merge(e, empty_obs()); e["res"] = json!("panic"); out.ev(e); }
    }
}

fn probe_all(st: &mut St, out: &mut Out) {
    let mut ids: Vec<SddId> = st.slots.clone();
    ids.sort();
    ids.dedup();
    for id in ids {
        if st.dead { return; }
        probe(st, out, id);
    }
}

fn run_ops(out: &mut Out, run: u64, case: &Value, ops: &[Value]) {
    out.ev(json!({"ev":"reset","run":run,"case":case}));
    let mut st = St::new();
    // fault-enumeration cases: the operations before the faulted one repeat the base run; they are
    // logged without observations (the specification still checks handles and builds den from them)
    let obs_from = case["obs_from"].as_u64().unwrap_or(0) as usize;
    for (i, op) in ops.iter().enumerate() {
        if st.dead { break; }
        st.quiet = i < obs_from;
        match op["op"].as_str().unwrap_or("") {
            "newvar" => {
                let v = op["v"].as_u64().unwrap() as u32;
                let pos = op["pos"].as_u64().unwrap();
                let kind = op["kind"].as_u64().unwrap_or(0);
                let neg = if kind == 0 { 4 - pos } else { 4 };
                let vk = if kind == 0 { VarKind::Independent } else { VarKind::ExclusiveGroup(kind as u32) };
                let r = { let m = &mut st.m; guarded(move || m.ensure_variable_weights(v, pos as f64 / SCALE, neg as f64 / SCALE, vk)) };
                if !st.reg.contains(&v) { st.reg.push(v); }
                out.ev(json!({"ev":"newvar","v":v,"pos":pos,"neg":neg,"kind":kind,"res": if r.is_ok() {"ok"} else {"panic"}}));
                if r.is_err() { st.dead = true; }
            }
            "probe" => probe_all(&mut st, out),
            _ => {
                let c = call_of(op).expect("unknown op");
                let f = &op["fault"];
                let res = if f.is_object() && f.get("ladder").is_some() {
                    let on_k = f["ladder"] == "k";
                    let mut i = 1u64;
                    loop {
                        let r = if on_k { do_try(&mut st, out, &c, i, 0) } else { do_try(&mut st, out, &c, 0, i) };
                        match r {
                            None => break None,
                            Some(Ok(id)) => break Some(id),
                            Some(Err(())) => {
                                // a cheap look at two handed-out handles between attempts
                                let ns = st.slots.len();
                                let (p, q) = (st.slots[(i as usize * 7) % ns], st.slots[ns - 1]);
                                probe(&mut st, out, p);
                                if !st.dead && q != p { probe(&mut st, out, q); }
                                if st.dead { break None; }
                            }
                        }
                        i += 1;
                        if i > 100_000 { eprintln!("ladder does not terminate"); std::process::exit(2); }
                    }
                } else if f.is_object() {
                    let (k, nb) = (f["k"].as_u64().unwrap_or(0), f["nb"].as_u64().unwrap_or(0));
                    match do_try(&mut st, out, &c, k, nb) {
                        None => None,
                        Some(Ok(id)) => Some(id),
                        Some(Err(())) => {
                            match f["probes"].as_u64() {
                                None => probe_all(&mut st, out),
                                Some(np) => {
                                    let ns = st.slots.len();
                                    for j in 0..(np as usize).min(ns) {
                                        if st.dead { break; }
                                        let id = st.slots[ns - 1 - (j * (k as usize + 3)) % ns];
                                        probe(&mut st, out, id);
                                    }
                                }
                            }
                            if st.dead { None }
                            else if f["retry"] == "try" {
                                match do_try(&mut st, out, &c, 0, 0) { Some(Ok(id)) => Some(id), _ => None }
                            } else { do_plain(&mut st, out, &c) }
                        }
                    }
                } else {
                    do_plain(&mut st, out, &c)
                };
                match res {
                    Some(id) => st.slots.push(id),
                    None => { st.dead = true; }
                }
            }
        }
    }
    if !st.dead && case["final_probe"].as_u64().unwrap_or(1) == 1 {
        probe_all(&mut st, out);
    }
    out.ev(json!({"ev":"end","run":run,"exhausted":st.exhausted,"nodes":st.m.node_count()}));
}

// ------------------------------------------------------------------ op builders

struct B {
    ops: Vec<Value>,
    slots: usize,
}

impl B {
    fn new() -> B { B { ops: Vec::new(), slots: 2 } }
    fn newvar(&mut self, v: u32, pos: u64, kind: u64) { self.ops.push(json!({"op":"newvar","v":v,"pos":pos,"kind":kind})); }
    fn push(&mut self, o: Value) -> usize { self.ops.push(o); self.slots += 1; self.slots - 1 }
    fn lit(&mut self, v: u32, pol: bool) -> usize { self.push(json!({"op":"lit","v":v,"pol":pol as u8})) }
    fn apply(&mut self, and: bool, a: usize, b: usize) -> usize { self.push(json!({"op":"apply","bop": if and {"and"} else {"or"},"a":a,"b":b})) }
    fn neg(&mut self, a: usize) -> usize { self.push(json!({"op":"neg","a":a})) }
    fn xone(&mut self, vs: &[u32]) -> usize { self.push(json!({"op":"xone","vs":vs})) }
}

/// all 2^(2^n) functions over `vs` from minterms; returns slot of each function (index = truth table,
/// bit a of the index <=> assignment a, bit j of a <=> vs[j])
fn build_min(b: &mut B, vs: &[u32]) -> Vec<usize> {
    let n = vs.len();
    let na = 1usize << n;
    let lits: Vec<[usize; 2]> = vs.iter().map(|&v| [b.lit(v, false), b.lit(v, true)]).collect();
    let mint: Vec<usize> = (0..na).map(|a| {
        let mut s = lits[0][a & 1];
        for j in 1..n { s = b.apply(true, s, lits[j][(a >> j) & 1]); }
        s
    }).collect();
    let nf = 1usize << na;
    let mut f = vec![0usize; nf];
    for t in 1..nf {
        let a = t.trailing_zeros() as usize;
        let rest = t & (t - 1);
        f[t] = if rest == 0 { mint[a] } else { b.apply(false, f[rest], mint[a]) };
    }
    f
}

/// the same functions from maxterms (conjunctions of clauses), top down
fn build_max(b: &mut B, vs: &[u32]) -> Vec<usize> {
    let n = vs.len();
    let na = 1usize << n;
    let lits: Vec<[usize; 2]> = vs.iter().map(|&v| [b.lit(v, false), b.lit(v, true)]).collect();
    let maxt: Vec<usize> = (0..na).map(|a| {
        let mut s = lits[0][1 - (a & 1)];
        for j in 1..n { s = b.apply(false, s, lits[j][1 - ((a >> j) & 1)]); }
        s
    }).collect();
    let nf = 1usize << na;
    let mut f = vec![1usize; nf];
    for t in (0..nf - 1).rev() {
        let a = (!t).trailing_zeros() as usize; // lowest assignment where t is false
        let up = t | (1 << a);
        f[t] = if up == nf - 1 { maxt[a] } else { b.apply(true, f[up], maxt[a]) };
    }
    f
}

fn pairs_ops(case: &Value) -> Vec<Value> {
    let order: Vec<u32> = case["order"].as_array().unwrap().iter().map(|x| x.as_u64().unwrap() as u32).collect();
    let n = order.len();
    let late = case["late"].as_u64().unwrap_or(0) as usize;
    let pos: Vec<u64> = case["pos"].as_array().map(|a| a.iter().map(|x| x.as_u64().unwrap()).collect()).unwrap_or(vec![2; n]);
    let grp: Vec<u64> = case["group"].as_array().map(|a| a.iter().map(|x| x.as_u64().unwrap()).collect()).unwrap_or(vec![0; n]);
    let mut b = B::new();
    for j in 0..n - late { b.newvar(order[j], pos[j], grp[j]); }
    if late > 0 && n - late > 0 {
        build_min(&mut b, &order[..n - late]);
        for j in n - late..n { b.newvar(order[j], pos[j], grp[j]); }
    }
    let f = build_min(&mut b, &order);
    let alt = case["alt"].as_u64().unwrap_or(0);
    if alt == 1 { build_max(&mut b, &order); }
    if alt == 2 {
        let nf = f.len();
        for t in 0..nf { b.neg(f[nf - 1 - t]); }
    }
    let nf = f.len() as u64;
    let total = nf * nf * 2;
    let via_try = case["via"] == "try";
    let emit = |b: &mut B, idx: u64| {
        let (x, y, o) = ((idx / 2) / nf, (idx / 2) % nf, idx % 2);
        b.apply(o == 0, f[x as usize], f[y as usize]);
        if via_try {
            // the budgeted twin with a budget that never runs out
            b.ops.last_mut().unwrap()["fault"] = json!({"k":0,"nb":0,"retry":"plain"});
        }
    };
    if let Some(s) = case["sample"].as_u64() {
        let mut rng = Rng::new(case["seed"].as_u64().unwrap_or(1));
        for _ in 0..s { let i = rng.below(total); emit(&mut b, i); }
    } else {
        let (lo, hi) = (case["lo"].as_u64().unwrap_or(0), case["hi"].as_u64().unwrap_or(total).min(total));
        for i in lo..hi { emit(&mut b, i); }
    }
    b.ops
}

// ------------------------------------------------------------------ random sequences

struct Gen {
    b: B,
    reg: Vec<u32>,
    pending: Vec<(u32, u64, u64)>,
    groups: HashMap<u64, Vec<u32>>, // members registered so far
    gsize: HashMap<u64, usize>,
}

impl Gen {
    fn slot(&self, rng: &mut Rng) -> usize {
        let n = self.b.slots;
        if n > 6 && rng.chance(3, 5) { n - 1 - rng.below(5) as usize } else { rng.below(n as u64) as usize }
    }
    fn intro(&mut self) {
        if let Some((v, p, g)) = self.pending.pop() {
            self.b.newvar(v, p, g);
            if !self.reg.contains(&v) { self.reg.push(v); }
            if g > 0 { self.groups.entry(g).or_default().push(v); }
        }
    }
    fn complete_groups(&self) -> Vec<Vec<u32>> {
        let mut gs: Vec<u64> = self.groups.keys().copied().collect();
        gs.sort();
        gs.into_iter().filter(|g| self.groups[g].len() == self.gsize[g]).map(|g| self.groups[&g].clone()).collect()
    }
    /// conjoin `s` with exactly-one of every group seen so far (the encoding that makes WMC meaningful)
    fn constrain(&mut self, rng: &mut Rng, mut s: usize) -> usize {
        let mut gs: Vec<u64> = self.groups.keys().copied().collect();
        gs.sort();
        for g in gs {
            let mut vs = self.groups[&g].clone();
            rng.shuffle(&mut vs);
            let x = self.b.xone(&vs);
            s = self.b.apply(true, s, x);
        }
        s
    }
}

fn gen_seq(rng: &mut Rng, maxvars: u64, nops: u64, faults: bool) -> Vec<Value> {
    let nv = rng.range(1, maxvars) as usize;
    let mut ids: Vec<u32> = (0..8).collect();
    rng.shuffle(&mut ids);
    ids.truncate(nv);
    let exclusive = rng.chance(1, 3);
    let mut g = Gen { b: B::new(), reg: vec![], pending: vec![], groups: HashMap::new(), gsize: HashMap::new() };
    let mut i = 0;
    let mut gid = 0u64;
    while i < nv {
        if exclusive && rng.chance(2, 3) {
            gid += 1;
            let sz = (rng.range(1, 3) as usize).min(nv - i);
            g.gsize.insert(gid, sz);
            for j in 0..sz { g.pending.push((ids[i + j], rng.range(0, 4), gid)); }
            i += sz;
        } else {
            g.pending.push((ids[i], rng.range(0, 4), 0));
            i += 1;
        }
    }
    if rng.chance(1, 2) { rng.shuffle(&mut g.pending); } // group members need not arrive together
    g.intro();
    if rng.chance(1, 2) { g.intro(); }
    let mut made = 0;
    while made < nops {
        if !g.pending.is_empty() && rng.chance(1, 4) { g.intro(); continue; }
        if rng.chance(1, 40) {
            // re-registration with new weights (same kind)
            let v = *rng.pick(&g.reg);
            let kind = g.groups.iter().find(|(_, m)| m.contains(&v)).map(|(k, _)| *k).unwrap_or(0);
            g.b.newvar(v, rng.range(0, 4), kind);
            continue;
        }
        let before = g.b.ops.len();
        let r = rng.below(100);
        let s = if r < 22 {
            let v = *rng.pick(&g.reg);
            g.b.lit(v, rng.chance(1, 2))
        } else if r < 62 {
            let (a, b) = (g.slot(rng), g.slot(rng));
            g.b.apply(rng.chance(1, 2), a, b)
        } else if r < 74 {
            let a = g.slot(rng);
            g.b.neg(a)
        } else if r < 82 {
            let mut vs = g.reg.clone();
            rng.shuffle(&mut vs);
            vs.truncate(rng.range(1, 4.min(vs.len() as u64)) as usize);
            if rng.chance(1, 25) { vs.clear(); } // exactly one of nothing = FALSE
            g.b.xone(&vs)
        } else if r < 91 {
            // a small DNF: clauses of 2-3 literals over the registered variables
            let mut f = 0usize;
            for _ in 0..rng.range(2, 3) {
                let mut c = 1usize;
                for _ in 0..rng.range(2, 3) {
                    let v = *rng.pick(&g.reg);
                    let l = g.b.lit(v, rng.chance(2, 3));
                    c = g.b.apply(true, c, l);
                }
                f = g.b.apply(false, f, c);
            }
            f
        } else {
            // parity of 2-4 variables / earlier results
            let mut p = g.slot(rng);
            for _ in 0..rng.range(1, 3) {
                let q = if rng.chance(1, 2) { let v = *rng.pick(&g.reg); g.b.lit(v, true) } else { g.slot(rng) };
                let (np, nq) = (g.b.neg(p), g.b.neg(q));
                let l = g.b.apply(true, p, nq);
                let r2 = g.b.apply(true, np, q);
                p = g.b.apply(false, l, r2);
            }
            p
        };
        if !g.groups.is_empty() && rng.chance(2, 3) { g.constrain(rng, s); }
        let _ = g.complete_groups();
        if faults {
            for o in g.b.ops[before..].iter_mut() {
                if o["op"] == "newvar" { continue; }
                match rng.below(12) {
                    0 => { o["fault"] = json!({"k": rng.range(1, 12), "nb": 0, "probes": 4, "retry": if rng.chance(1, 2) {"plain"} else {"try"}}); }
                    1 => { o["fault"] = json!({"k": 0, "nb": rng.range(1, 3), "probes": 4, "retry": "plain"}); }
                    2 => { o["fault"] = json!({"ladder": if rng.chance(2, 3) {"k"} else {"nb"}}); }
                    3 => { o["fault"] = json!({"k": 0, "nb": 0, "retry": "plain"}); }
                    _ => {}
                }
            }
        }
        made += 1;
    }
    while !g.pending.is_empty() && rng.chance(1, 2) {
        g.intro();
        let (a, b) = (g.slot(rng), g.slot(rng));
        g.b.apply(rng.chance(1, 2), a, b);
    }
    g.b.ops
}

/// checkpoints and allocations of every operation of `ops` when run budget-free (counting closure)
fn measure(ops: &[Value]) -> Vec<(u64, u64)> {
    let mut st = St::new();
    let mut res = Vec::new();
    for op in ops {
        if op["op"] == "newvar" {
            let (v, pos, kind) = (op["v"].as_u64().unwrap() as u32, op["pos"].as_u64().unwrap(), op["kind"].as_u64().unwrap_or(0));
            let neg = if kind == 0 { 4 - pos } else { 4 };
            let vk = if kind == 0 { VarKind::Independent } else { VarKind::ExclusiveGroup(kind as u32) };
            st.m.ensure_variable_weights(v, pos as f64 / SCALE, neg as f64 / SCALE, vk);
            res.push((0, 0));
        } else if let Some(c) = call_of(op) {
            let t = budgeted(&mut st, &c, 0, 0);
            st.slots.push(t.r.expect("budget-free operation failed"));
            res.push((t.cp, (t.after - t.before) as u64));
        } else {
            res.push((0, 0));
        }
    }
    res
}

/// fault enumeration: the base sequence, then one case per (operation, k <= N) and (operation, nb <= A+1)
fn gen_fault_cases(rng: &mut Rng, maxvars: u64, nops: u64, cap: u64) -> Vec<Value> {
    let ops = gen_seq(rng, maxvars, nops, false);
    let ms = match guarded(|| measure(&ops)) { Ok(m) => m, Err(_) => return vec![json!({"kind":"seq","ops":ops,"base":1})] };
    let mut cases = vec![json!({"kind":"seq","ops":ops,"base":1})];
    let mut points: Vec<(usize, u64, u64)> = Vec::new();
    for (i, (n, a)) in ms.iter().enumerate() {
        if ops[i]["op"] == "newvar" { continue; }
        for k in 1..=*n { points.push((i, k, 0)); }
        for nb in 1..=(*a + 1) { points.push((i, 0, nb)); }
    }
    if cap > 0 && points.len() as u64 > cap {
        rng.shuffle(&mut points);
        points.truncate(cap as usize);
        points.sort();
    }
    for (n, (i, k, nb)) in points.into_iter().enumerate() {
        let mut o = ops.clone();
        o[i]["fault"] = json!({"k":k,"nb":nb,"retry": if n % 2 == 0 {"plain"} else {"try"}});
        cases.push(json!({"kind":"seq","ops":o,"at":i,"obs_from":i,"final_probe": (n % 4 == 0) as u8}));
    }
    cases
}

fn gen_cases(a: &Args) -> Vec<Value> {
    let seed = a.num("seed", 1);
    let n = a.num("random", 10);
    let mut rng = Rng::new(seed);
    let maxvars = a.num("maxvars", 8);
    let nops = a.num("ops", 25);
    match a.get("family").unwrap_or("seq") {
        "seq" => (0..n).map(|_| json!({"kind":"seq","ops":gen_seq(&mut rng, maxvars, nops, true)})).collect(),
        "plain" => (0..n).map(|_| json!({"kind":"seq","ops":gen_seq(&mut rng, maxvars, nops, false)})).collect(),
        "ladder" => (0..n).map(|_| {
            let mut ops = gen_seq(&mut rng, maxvars, nops, false);
            for o in ops.iter_mut() {
                if o["op"] != "newvar" && rng.chance(1, 3) { o["fault"] = json!({"ladder": if rng.chance(2, 3) {"k"} else {"nb"}}); }
            }
            json!({"kind":"seq","ops":ops})
        }).collect(),
        other => { eprintln!("unknown family {other}"); std::process::exit(2) }
    }
}

fn run_case(out: &mut Out, run: u64, c: &Value) {
    let ops = if c["kind"] == "pairs" { pairs_ops(c) } else { c["ops"].as_array().cloned().unwrap_or_default() };
    run_ops(out, run, c, &ops);
}

pub fn main(a: &Args) {
    let mut out = Out::create(a.req("out"));
    let skip = a.num("skip", 0);
    let first = a.num("firstrun", 1);
    let mut n = 0u64;
    if a.get("cases").is_none() && a.get("family") == Some("fault") {
        // generated base by base (a base sequence can have thousands of interruption points)
        let mut rng = Rng::new(a.num("seed", 1));
        for _ in 0..a.num("random", 10) {
            for c in gen_fault_cases(&mut rng, a.num("maxvars", 8), a.num("ops", 25), a.num("cap", 0)) {
                if n >= skip { run_case(&mut out, first + n, &c); }
                n += 1;
            }
        }
    } else {
        let cases = if let Some(f) = a.get("cases") { read_cases(f) } else { gen_cases(a) };
        for c in &cases {
            if n >= skip { run_case(&mut out, first + n, c); }
            n += 1;
        }
    }
    out.finish();
}
