SPECIFICATION Spec
CONSTANTS
  MaxTs = 7
  MaxLen = 5
  Widths = {1,2,3,4}
  Slides = {1,2,3}
  Strategies <- StratDefault
  FixEvict = FALSE
INVARIANTS ContentExact StrategyPost Monotone ExactlyOnce UniqueKeys
CHECK_DEADLOCK FALSE
