SPECIFICATION FaultySpec
INVARIANT EmitDone
CHECK_DEADLOCK FALSE
