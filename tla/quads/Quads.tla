-------------------------------- MODULE Quads --------------------------------
(***************************************************************************)
(* Requirement module for C04: the store is a set of quads plus a catalog  *)
(* of named-graph identities.  Every action of the store API is a set      *)
(* transformer with a return value; every read path is a set expression.   *)
(* Graph 0 is the default graph, named graphs are positive integers.       *)
(* A pattern position 0 means "unbound".                                   *)
(* The @type comments are for Apalache (ApQuads.tla); TLC ignores them.    *)
(***************************************************************************)
EXTENDS Naturals, FiniteSets, Sequences

CONSTANTS Subj, Pred, Obj,   \* term identifiers (positive integers)
          Named              \* named graph identifiers (positive integers)

VARIABLES quads, catalog
avars == <<quads, catalog>>

Graphs  == {0} \cup Named
AllQuad == Subj \X Pred \X Obj \X Graphs

TypeOK == quads \subseteq AllQuad /\ catalog \subseteq Named

\* ---- state transformers (primed versions are built by the users of this module)
\* @type: (<<Int, Int, Int, Int>>) => Bool;
InsertRet(q)      == q \notin quads
\* @type: (<<Int, Int, Int, Int>>) => Set(<<Int, Int, Int, Int>>);
InsertQuads(q)    == quads \cup {q}
\* @type: (<<Int, Int, Int, Int>>) => Set(Int);
InsertCatalog(q)  == IF q[4] # 0 THEN catalog \cup {q[4]} ELSE catalog
\* @type: (<<Int, Int, Int, Int>>) => Bool;
DeleteRet(q)      == q \in quads
\* @type: (<<Int, Int, Int, Int>>) => Set(<<Int, Int, Int, Int>>);
DeleteQuads(q)    == quads \ {q}
GraphExists(g)    == g = 0 \/ g \in catalog
CreateRet(g)      == g # 0 /\ g \notin catalog
CreateCatalog(g)  == IF g # 0 THEN catalog \cup {g} ELSE catalog
ClearGraphQuads(g) == {q \in quads : q[4] # g}
DropRet(g)        == GraphExists(g)
DropCatalog(g)    == catalog \ {g}

\* @type: (<<Int, Int, Int, Int>>) => Bool;
Insert(q)      == quads' = InsertQuads(q) /\ catalog' = InsertCatalog(q)
\* @type: (<<Int, Int, Int, Int>>) => Bool;
Delete(q)      == quads' = DeleteQuads(q) /\ UNCHANGED catalog
CreateGraph(g) == catalog' = CreateCatalog(g) /\ UNCHANGED quads
ClearGraph(g)  == quads' = ClearGraphQuads(g) /\ UNCHANGED catalog
DropGraph(g)   == IF GraphExists(g)
                    THEN quads' = ClearGraphQuads(g) /\ catalog' = DropCatalog(g)
                    ELSE UNCHANGED avars
Clear          == quads' = {} /\ catalog' = {}
Rebuild        == UNCHANGED avars       \* build_all_indexes is the identity on the dataset

\* graph identities are independent of content, but content implies identity
CatalogCovers == \A q \in quads : q[4] = 0 \/ q[4] \in catalog

Init == quads = {} /\ catalog = {}
Next == \/ \E q \in AllQuad : Insert(q) \/ Delete(q)
        \/ \E g \in Graphs : CreateGraph(g) \/ ClearGraph(g) \/ DropGraph(g)
        \/ Clear \/ Rebuild
Spec == Init /\ [][Next]_avars

\* ---- read paths, as set expressions over (quads, catalog)
\* @type: (<<Int, Int, Int, Int>>, Int, Int, Int) => Bool;
Match(q, s, p, o) == (s = 0 \/ q[1] = s) /\ (p = 0 \/ q[2] = p) /\ (o = 0 \/ q[3] = o)

QueryGraph(g, s, p, o)  == {q \in quads : q[4] = g /\ Match(q, s, p, o)}
\* visible = {0} encodes "no restriction" (None)
QueryNamed(s, p, o, vis) == {q \in quads : q[4] # 0 /\ Match(q, s, p, o) /\ (vis = {0} \/ q[4] \in vis)}
QueryQuadsAny(s, p, o)  == {q \in quads : Match(q, s, p, o)}
\* merged default graph: triples, duplicate-free
\* @type: (Set(Int), Int, Int, Int) => Set(<<Int, Int, Int>>);
QueryMerged(srcs, s, p, o) == {<<q[1], q[2], q[3]>> : q \in {r \in quads : r[4] \in srcs /\ Match(r, s, p, o)}}
\* @type: (<<Int, Int, Int, Int>>) => Bool;
Contains(q)             == q \in quads
GraphsForTriple(s, p, o) == {q[4] : q \in {r \in quads : r[1] = s /\ r[2] = p /\ r[3] = o}}
NamedGraphs             == catalog
LenGraph(g)             == Cardinality(QueryGraph(g, 0, 0, 0))
=============================================================================
