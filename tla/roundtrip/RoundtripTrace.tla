--------------------------- MODULE RoundtripTrace ---------------------------
(***************************************************************************)
(* Trace validation for C14.  Events recorded from the real code:          *)
(*   reset(run, case)                                                      *)
(*   roundtrip(fmt, lits, data, text, back, panic, hasmodel, mtext, mback) *)
(* `data` / `back` are the lexical quads (g = "" for the default graph) of *)
(* the exported database and of the database the text was loaded into;     *)
(* `lits` are the character-class sequences of the literals of the dataset.*)
(* Precondition (NotMistaken on every literal) false => skipped.           *)
(* Requirement: back = Restrict(fmt, data).  For cases generated from the  *)
(* code-shaped model, its predicted text and result are compared as well.  *)
(***************************************************************************)
EXTENDS Roundtrip, Json, IOUtils, TLC

Rec == ndJsonDeserialize(IOEnv.TRACE)

VARIABLES l, run
vars == <<l, run>>

ToSet(sq) == {sq[i] : i \in 1..Len(sq)}
Q4(x) == <<x[1], x[2], x[3], x[4]>>
Ev == Rec[l]

TInit == l = 1 /\ run = 0

Reset == Ev.ev = "reset" /\ run' = Ev.run

RT == /\ Ev.ev = "roundtrip"
      /\ UNCHANGED run
      /\ IF \E i \in 1..Len(Ev.lits) : ~NotMistaken(Ev.lits[i])
           THEN PrintT(<<"INFO", run, "skipped">>)
         ELSE LET data == {Q4(x) : x \in ToSet(Ev.data)}
                  back == {Q4(x) : x \in ToSet(Ev.back)}
                  want == Restrict(Ev.fmt, data, "")
              IN  /\ IF Ev.hasmodel /\ ~Ev.panic /\ (Ev.text # Ev.mtext \/ back # {Q4(x) : x \in ToSet(Ev.mback)})
                       THEN PrintT(<<"MODELDIFF", run, IF Ev.text # Ev.mtext THEN "text" ELSE "back">>) ELSE TRUE
                  /\ IF ~Ev.panic /\ RoundTrip(Ev.fmt, data, back, "") THEN TRUE
                     ELSE PrintT(<<"FAIL", run, l,
                                   IF Ev.panic THEN "panic"
                                   ELSE (IF want \ back # {} THEN "M" ELSE "") \o (IF back \ want # {} THEN "X" ELSE ""),
                                   Cardinality(want \ back), Cardinality(back \ want)>>)

Next2 == l <= Len(Rec) /\ l' = l + 1 /\ (Reset \/ RT)
TSpec == TInit /\ [][Next2]_vars

Consumed == IF TLCGet("stats").diameter - 1 = Len(Rec) THEN TRUE
            ELSE PrintT(<<"STUCK", TLCGet("stats").diameter, Len(Rec)>>) /\ FALSE
=============================================================================
