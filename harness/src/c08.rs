//! C08 driver: runs lineage cases through the real hybrid evaluator
//! (`evaluate_hybrid_with_clock`, `evaluate_topk`, `compile_lineage_to_sdd_with_clock`,
//! `Reasoner::infer_new_facts_with_hybrid`) and records one event per call.
//!
//! The driver computes nothing about the expected outcome.  It only
//!   * builds the seeds / lineage DAG of a case through the public API,
//!   * scripts the injectable clock (fault enumeration: the clock passes every deadline
//!     from its j-th reading on, for every j up to the number of readings of the
//!     un-faulted call),
//!   * converts reported floats to integers scaled by Scale = den^(#independent + #groups):
//!     lo = ceil(x*Scale - SLACK*Scale), hi = floor(x*Scale + SLACK*Scale), SLACK = 1e-9
//!     (Scale is a power of two, so x*Scale is exact; for an integer P this makes
//!     `lo <= P` equivalent to `x <= P/Scale + 1e-9` and `P <= hi` to `P/Scale - 1e-9 <= x`).
//! The true probability and the verdict are computed by TLC (tla/hybrid/HybridTrace.tla).
use crate::util::*;
use datalog::reasoning::Reasoner;
use serde_json::{json, Value};
use shared::hybrid::*;
use shared::rule::Rule;
use shared::seed_spec::{ExclusiveChoice, SeedSpec};
use shared::terms::Term;
use shared::triple::Triple;
use std::collections::{BTreeMap, HashMap};
use std::sync::atomic::{AtomicU64, Ordering};
use std::sync::{Arc, Mutex};
use std::time::{Duration, Instant};

const SLACK: f64 = 1e-9;
const BIG: Duration = Duration::from_secs(3600);
const BUDGET: Duration = Duration::from_secs(1);

/// Clock whose readings stay at `base` until the j-th reading (1-based); from then on
/// mode 1 ("jump") stays at base+1h, mode 2 ("run") advances by 1h per reading.
/// j = 0: never moves (counts readings of the un-faulted call).
struct ScriptClock {
    base: Instant,
    n: AtomicU64,
    j: u64,
    mode: u8,
}

impl ScriptClock {
    fn new(j: u64, mode: u8) -> Self {
        ScriptClock { base: Instant::now(), n: AtomicU64::new(0), j, mode }
    }
    fn readings(&self) -> u64 {
        self.n.load(Ordering::SeqCst)
    }
}

impl HybridClock for ScriptClock {
    fn now(&self) -> Instant {
        let n = self.n.fetch_add(1, Ordering::SeqCst) + 1;
        if self.j == 0 || n < self.j {
            self.base
        } else if self.mode == 1 {
            self.base + BIG
        } else {
            self.base + BIG * ((n - self.j + 1).min(1000) as u32)
        }
    }
}

fn mode_name(m: u8) -> &'static str {
    match m { 0 => "none", 1 => "jump", _ => "run" }
}

fn lo_of(x: f64, scale: f64) -> i64 {
    if !x.is_finite() { return scale as i64 + 1; }
    (x * scale - SLACK * scale).ceil() as i64
}
fn hi_of(x: f64, scale: f64) -> i64 {
    if !x.is_finite() { return -1; }
    (x * scale + SLACK * scale).floor() as i64
}

fn decision_name(d: AlertDecision) -> &'static str {
    match d { AlertDecision::Alert => "Alert", AlertDecision::NoAlert => "NoAlert", AlertDecision::Indeterminate => "Indeterminate" }
}

fn res_json(r: &HybridProbabilityResult, scale: f64) -> Value {
    let (haslo, lo, hashi, hi) = match r {
        HybridProbabilityResult::Exact { probability, .. } => (true, lo_of(*probability, scale), true, hi_of(*probability, scale)),
        HybridProbabilityResult::LowerBound { lower_bound, .. } => (true, lo_of(*lower_bound, scale), true, hi_of(1.0, scale)),
        HybridProbabilityResult::Bounded { interval, .. } => (true, lo_of(interval.lower, scale), true, hi_of(interval.upper, scale)),
        HybridProbabilityResult::NeedsExact { lower_bound, upper_bound, .. } => (
            lower_bound.is_some(), lower_bound.map(|x| lo_of(x, scale)).unwrap_or(0),
            upper_bound.is_some(), upper_bound.map(|x| hi_of(x, scale)).unwrap_or(0)),
        HybridProbabilityResult::UnsafeApproximation { .. } => (false, 0, false, 0),
    };
    json!({"kind": r.status(), "haslo": haslo, "lo": lo, "hashi": hashi, "hi": hi,
           "decision": decision_name(r.decision()), "reason": r.reason().as_str(),
           "k": r.metrics().k_used, "exact_used": r.metrics().exact_used})
}

fn panic_res() -> Value {
    json!({"kind":"panic","haslo":false,"lo":0,"hashi":false,"hi":0,"decision":"Indeterminate","reason":"panic","k":0,"exact_used":false})
}

struct Built {
    store: Arc<Mutex<LineageStore>>,
    seeds: Arc<SeedSnapshot>,
    root: LineageId,
    scale: f64,
}

fn seed_triple(i: usize) -> Triple {
    Triple { subject: 1000 + i as u32, predicate: 1, object: 2 }
}

fn scale_of(den: u64, seeds: &[Value]) -> f64 {
    let ind = seeds.iter().filter(|s| s["grp"].as_u64().unwrap() == 0).count();
    let mut groups: Vec<u64> = seeds.iter().map(|s| s["grp"].as_u64().unwrap()).filter(|g| *g != 0).collect();
    groups.sort();
    groups.dedup();
    (den as f64).powi((ind + groups.len()) as i32)
}

/// Build snapshot + lineage of a case through the public API.
fn build(case: &Value) -> Result<Built, String> {
    let den = case["den"].as_u64().unwrap();
    let seeds = case["seeds"].as_array().unwrap();
    let mut specs = Vec::new();
    let mut groups: BTreeMap<u32, Vec<ExclusiveChoice>> = BTreeMap::new();
    for (i, s) in seeds.iter().enumerate() {
        let id = s["id"].as_u64().unwrap() as u32;
        let prob = s["num"].as_u64().unwrap() as f64 / den as f64;
        let grp = s["grp"].as_u64().unwrap() as u32;
        if grp == 0 {
            specs.push(SeedSpec::Independent { triple: seed_triple(i), prob, seed_id: id });
        } else {
            groups.entry(grp).or_default().push(ExclusiveChoice { triple: seed_triple(i), prob, choice_id: id });
        }
    }
    for (g, choices) in groups {
        specs.push(SeedSpec::ExclusiveGroup { group_id: g, choices });
    }
    let snapshot = SeedSnapshot::from_seed_specs(&specs).map_err(|e| e.to_string())?;
    let by_raw: HashMap<u32, SeedId> = snapshot.records().map(|r| (r.id.get(), r.id)).collect();
    let mut store = LineageStore::new();
    let mut ids: Vec<LineageId> = Vec::new();
    for nd in case["nodes"].as_array().unwrap() {
        let ch: Vec<LineageId> = nd["ch"].as_array().unwrap().iter().map(|c| ids[c.as_u64().unwrap() as usize - 1]).collect();
        let id = match nd["op"].as_str().unwrap() {
            "F" => LineageId::FALSE,
            "T" => LineageId::TRUE,
            "lit" => {
                let raw = seeds[nd["s"].as_u64().unwrap() as usize - 1]["id"].as_u64().unwrap() as u32;
                store.literal(*by_raw.get(&raw).ok_or("seed id not in snapshot")?)
            }
            "and" => store.and(ch),
            "or" => store.or(ch),
            "not" => store.not(ch[0]),
            o => return Err(format!("bad op {o}")),
        };
        ids.push(id);
    }
    let root = ids[case["root"].as_u64().unwrap() as usize - 1];
    Ok(Built { store: Arc::new(Mutex::new(store)), seeds: Arc::new(snapshot), root, scale: scale_of(den, seeds) })
}

fn config_of(cfg: &Value) -> HybridConfig {
    HybridConfig {
        threshold: cfg["tn"].as_u64().unwrap() as f64 / cfg["td"].as_u64().unwrap() as f64,
        threshold_policy: ThresholdPolicyKind::Explicit,
        band_epsilon: cfg["band"].as_u64().unwrap() as f64 / 1e6,
        marginal_gain_floor: cfg["gain"].as_u64().unwrap() as f64 / 1e6,
        k_initial: cfg["kinit"].as_u64().unwrap() as usize,
        k_max: cfg["kmax"].as_u64().unwrap() as usize,
        k_growth: cfg["growth"].as_u64().unwrap() as usize,
        topk_budget: BUDGET,
        sdd_budget: BUDGET,
        sdd_node_budget: cfg["nodes"].as_u64().unwrap() as usize,
    }
}

/// The fault points to enumerate for a call whose un-faulted execution read the clock n times.
fn fault_points(n: u64, jmax: u64) -> Vec<u64> {
    if n <= jmax {
        (1..=n).collect()
    } else {
        // every reading up to jmax/2, then an even sample of the rest (stated in the evidence)
        let head = jmax / 2;
        let mut v: Vec<u64> = (1..=head).collect();
        let rest = jmax - head;
        for i in 0..rest {
            v.push(head + 1 + i * (n - head - 1) / rest.max(1));
        }
        v.push(n);
        v.sort();
        v.dedup();
        v
    }
}

fn hybrid_call(b: &Built, config: &HybridConfig, j: u64, mode: u8) -> (Result<Value, String>, u64) {
    let clock = ScriptClock::new(j, mode);
    let r = guarded(|| evaluate_hybrid_with_clock(&b.store, &b.seeds, b.root, config, &clock));
    (r.map(|r| res_json(&r, b.scale)), clock.readings())
}

fn compile_call(b: &Built, nodes: usize, j: u64, mode: u8) -> (Result<Value, String>, u64) {
    let clock = ScriptClock::new(j, mode);
    let r = guarded(|| {
        let guard = b.store.lock().unwrap();
        match compile_lineage_to_sdd_with_clock(&guard, &b.seeds, b.root, BUDGET, nodes, &clock) {
            Ok(c) => {
                let w = c.manager.wmc(c.root);
                json!({"ok": true, "lo": lo_of(w, b.scale), "hi": hi_of(w, b.scale), "reason": "-"})
            }
            Err(reason) => json!({"ok": false, "lo": 0, "hi": 0, "reason": reason.as_str()}),
        }
    });
    (r, clock.readings())
}

fn run_dag_case(out: &mut Out, run: &mut u64, case: &Value, jmax: u64) {
    *run += 1;
    let den = case["den"].as_u64().unwrap();
    let b = match build(case) {
        Ok(b) => b,
        Err(e) => {
            eprintln!("case cannot be built: {e}");
            std::process::exit(2);
        }
    };
    out.ev(json!({"ev":"reset","run":*run,"src":"dag","den":den,"seeds":case["seeds"],"nodes":case["nodes"],
                  "root":case["root"],"scale":b.scale as u64,"case":case}));
    let faults_all = case["faults"].as_str().unwrap_or("all") == "all";
    // escalation controller: `cfgs` with fault enumeration, `cfgs_nf` un-faulted only
    let empty = Vec::new();
    let with_faults = case["cfgs"].as_array().unwrap_or(&empty).iter().map(|c| (c, faults_all));
    let without = case["cfgs_nf"].as_array().unwrap_or(&empty).iter().map(|c| (c, false));
    for (cfg, faults) in with_faults.chain(without) {
        let config = config_of(cfg);
        let (r0, n) = hybrid_call(&b, &config, 0, 0);
        out.ev(json!({"ev":"hybrid","run":*run,"cfg":cfg,"mode":"none","j":0,"readings":n,
                      "panic":r0.is_err(),"res":r0.unwrap_or_else(|_| panic_res())}));
        if !faults { continue; }
        for mode in [1u8, 2u8] {
            for j in fault_points(n, jmax) {
                let (r, m) = hybrid_call(&b, &config, j, mode);
                out.ev(json!({"ev":"hybrid","run":*run,"cfg":cfg,"mode":mode_name(mode),"j":j,"readings":m,
                              "panic":r.is_err(),"res":r.unwrap_or_else(|_| panic_res())}));
            }
        }
    }
    // exact compilation alone
    let faults = faults_all;
    for nb in case["nbs"].as_array().unwrap_or(&empty) {
        let nodes = nb.as_u64().unwrap() as usize;
        let (r0, n) = compile_call(&b, nodes, 0, 0);
        let bad = json!({"ok":false,"lo":0,"hi":0,"reason":"panic"});
        out.ev(json!({"ev":"compile","run":*run,"nodes":nodes,"mode":"none","j":0,"readings":n,
                      "panic":r0.is_err(),"res":r0.unwrap_or_else(|_| bad.clone())}));
        if !faults { continue; }
        // one deadline only: "jump" and "run" coincide for this entry point
        for mode in [2u8] {
            for j in fault_points(n, jmax) {
                let (r, m) = compile_call(&b, nodes, j, mode);
                out.ev(json!({"ev":"compile","run":*run,"nodes":nodes,"mode":mode_name(mode),"j":j,"readings":m,
                              "panic":r.is_err(),"res":r.unwrap_or_else(|_| bad.clone())}));
            }
        }
    }
    // fixed-k evaluation (system clock: generous budget, and a budget that is gone at once)
    for t in case["topk"].as_array().unwrap_or(&empty) {
        let k = t["k"].as_u64().unwrap() as usize;
        let nodes = t["nodes"].as_u64().unwrap() as usize;
        let budget = if t["budget"].as_str().unwrap() == "zero" { Duration::from_nanos(1) } else { Duration::from_secs(20) };
        let r = guarded(|| {
            let guard = b.store.lock().unwrap();
            match evaluate_topk(&guard, &b.seeds, b.root, k, budget, nodes) {
                Ok(e) => json!({"ok":true,"lo":lo_of(e.interval.lower, b.scale),"hi":hi_of(e.interval.upper, b.scale),
                                "lblo":lo_of(e.lower_bound, b.scale),"lbhi":hi_of(e.lower_bound, b.scale),
                                "exhausted":e.frontier_exhausted,"kused":e.k_used,"reason":"-"}),
                Err(reason) => json!({"ok":false,"lo":0,"hi":0,"lblo":0,"lbhi":0,"exhausted":false,"kused":0,"reason":reason.as_str()}),
            }
        });
        let bad = json!({"ok":false,"lo":0,"hi":0,"lblo":0,"lbhi":0,"exhausted":false,"kused":0,"reason":"panic"});
        out.ev(json!({"ev":"topk","run":*run,"k":k,"nodes":nodes,"budget":t["budget"],
                      "panic":r.is_err(),"res":r.unwrap_or(bad)}));
    }
}

// ------------------------------------------------------------------ Reasoner path

fn term_of(t: &Value, dict: &mut shared::dictionary::Dictionary) -> Term {
    let s = t.as_str().unwrap();
    if let Some(v) = s.strip_prefix('?') { Term::Variable(v.to_string()) } else { Term::Constant(dict.encode(s)) }
}

/// Extract the lineage DAG below `root` as case nodes (children before parents).
fn extract_dag(store: &LineageStore, root: LineageId, seed_index: &HashMap<u32, usize>) -> (Vec<Value>, usize) {
    fn go(store: &LineageStore, id: LineageId, seed_index: &HashMap<u32, usize>, memo: &mut HashMap<LineageId, usize>, nodes: &mut Vec<Value>) -> usize {
        if let Some(i) = memo.get(&id) { return *i; }
        let v = match store.node(id) {
            LineageNode::False => json!({"op":"F","s":0,"ch":[]}),
            LineageNode::True => json!({"op":"T","s":0,"ch":[]}),
            LineageNode::Literal(s) => json!({"op":"lit","s":seed_index[&s.get()],"ch":[]}),
            LineageNode::Not(c) => { let i = go(store, *c, seed_index, memo, nodes); json!({"op":"not","s":0,"ch":[i]}) }
            LineageNode::And(cs) => { let ch: Vec<usize> = cs.iter().map(|c| go(store, *c, seed_index, memo, nodes)).collect(); json!({"op":"and","s":0,"ch":ch}) }
            LineageNode::Or(cs) => { let ch: Vec<usize> = cs.iter().map(|c| go(store, *c, seed_index, memo, nodes)).collect(); json!({"op":"or","s":0,"ch":ch}) }
        };
        nodes.push(v);
        memo.insert(id, nodes.len());
        nodes.len()
    }
    let mut nodes = Vec::new();
    let r = go(store, root, seed_index, &mut HashMap::new(), &mut nodes);
    (nodes, r)
}

/// case: {"kind":"prog","den":8,"facts":[{"t":[s,p,o],"occ":[k..]}..],"rules":[{"pos":[[t,t,t]..],"neg":[..],"head":[t,t,t]}..],"cfgs":[cfg]}
/// One run per derived fact: the lineage recorded by the materialisation is the case DAG,
/// the event is the result `infer_new_facts_with_hybrid` returned for that fact.
fn run_prog_case(out: &mut Out, run: &mut u64, case: &Value) {
    let den = case["den"].as_u64().unwrap();
    for cfg in case["cfgs"].as_array().unwrap() {
        let config = HybridConfig { topk_budget: Duration::from_secs(20), sdd_budget: Duration::from_secs(20), ..config_of(cfg) };
        let mut reasoner = Reasoner::new();
        let mut registry = SeedRegistry::new();
        {
            let mut dict = reasoner.dictionary.write().unwrap();
            for f in case["facts"].as_array().unwrap() {
                let t = Triple { subject: dict.encode(f["t"][0].as_str().unwrap()), predicate: dict.encode(f["t"][1].as_str().unwrap()),
                                 object: dict.encode(f["t"][2].as_str().unwrap()) };
                // every occurrence of the triple is its own independent seed
                for (k, num) in f["occ"].as_array().unwrap().iter().enumerate() {
                    let event = registry.next_event_key("stream", k);
                    registry.register_occurrence(event, t.clone(), num.as_u64().unwrap() as f64 / den as f64).unwrap();
                }
            }
        }
        for r in case["rules"].as_array().unwrap() {
            let rule = {
                let mut dict = reasoner.dictionary.write().unwrap();
                let pat = |p: &Value, d: &mut shared::dictionary::Dictionary| (term_of(&p[0], d), term_of(&p[1], d), term_of(&p[2], d));
                Rule {
                    premise: r["pos"].as_array().unwrap().iter().map(|p| pat(p, &mut dict)).collect(),
                    negative_premise: r["neg"].as_array().unwrap().iter().map(|p| pat(p, &mut dict)).collect(),
                    filters: vec![],
                    conclusion: vec![pat(&r["head"], &mut dict)],
                }
            };
            reasoner.add_rule(rule);
        }
        let snapshot = registry.snapshot_all();
        // seed order of the case = order of the snapshot's records
        let recs: Vec<(u32, Triple, f64)> = snapshot.records().map(|r| (r.id.get(), r.triple.clone(), r.probability)).collect();
        let seed_index: HashMap<u32, usize> = recs.iter().enumerate().map(|(i, r)| (r.0, i + 1)).collect();
        let seeds_json: Vec<Value> = recs.iter().map(|r| json!({"id": r.0, "num": (r.2 * den as f64).round() as u64, "grp": 0})).collect();
        let scale = scale_of(den, &seeds_json);
        let res = guarded(|| reasoner.infer_new_facts_with_hybrid(snapshot.clone(), &config));
        match res {
            Ok(Ok((facts, results, mat))) => {
                let mut facts = facts;
                facts.sort();
                facts.dedup();
                for f in facts {
                    *run += 1;
                    let prov = mat.tags.provenance();
                    let (nodes, root) = { let g = prov.store().lock().unwrap(); extract_dag(&g, mat.lineage(&f), &seed_index) };
                    let dict = reasoner.dictionary.read().unwrap();
                    let name = |id: u32| dict.decode(id).unwrap_or("?").to_string();
                    let fact = json!([name(f.subject), name(f.predicate), name(f.object)]);
                    drop(dict);
                    out.ev(json!({"ev":"reset","run":*run,"src":"reasoner","fact":fact,"den":den,"seeds":seeds_json,"nodes":nodes,"root":root,
                                  "scale":scale as u64,"case":case}));
                    match results.get(&f) {
                        Some(r) => out.ev(json!({"ev":"hybrid","run":*run,"cfg":cfg,"mode":"none","j":0,"readings":0,"panic":false,"res":res_json(r, scale)})),
                        None => {
                            // a derived fact without a result
                            let mut missing = panic_res();
                            missing["kind"] = json!("missing");
                            out.ev(json!({"ev":"hybrid","run":*run,"cfg":cfg,"mode":"none","j":0,"readings":0,"panic":false,"res":missing}))
                        }
                    }
                }
            }
            Ok(Err(_)) => {} // rejected program (recursion / unsupported rule): nothing is certified
            Err(_) => {
                *run += 1;
                out.ev(json!({"ev":"reset","run":*run,"src":"reasoner","fact":["-","-","-"],"den":den,"seeds":seeds_json,
                              "nodes":[{"op":"F","s":0,"ch":[]}],"root":1,"scale":scale as u64,"case":case}));
                out.ev(json!({"ev":"hybrid","run":*run,"cfg":cfg,"mode":"none","j":0,"readings":0,"panic":true,"res":panic_res()}));
            }
        }
    }
}

// ------------------------------------------------------------------ generation

struct Dag {
    nodes: Vec<Value>,
}
impl Dag {
    fn push(&mut self, op: &str, s: usize, ch: Vec<usize>) -> usize {
        self.nodes.push(json!({"op":op,"s":s,"ch":ch}));
        self.nodes.len()
    }
}

fn subset(rng: &mut Rng, n: usize, size: usize) -> Vec<usize> {
    let mut idx: Vec<usize> = (1..=n).collect();
    rng.shuffle(&mut idx);
    idx.truncate(size.min(n));
    idx.sort();
    idx
}

fn gen_cfg(rng: &mut Rng, hint: Option<f64>) -> Value {
    let kinit = *rng.pick(&[1u64, 1, 2, 3, 5, 8]);
    let kmax = *rng.pick(&[kinit, kinit, kinit * 2, kinit * 4, 8u64.max(kinit), 64]);
    let growth = *rng.pick(&[2u64, 2, 3]);
    let (tn, td) = match (hint, rng.below(2)) {
        (Some(p), 0) => {
            let f = (p * 64.0).floor() as u64;
            ((f + rng.below(2)).min(64), 64)
        }
        _ => {
            let td = *rng.pick(&[2u64, 4, 8, 16, 64]);
            (rng.range(0, td), td)
        }
    };
    let band = *rng.pick(&[0u64, 20_000, 20_000, 250_000, 1_000_000]);
    let gain = *rng.pick(&[0u64, 100, 100, 50_000, 1_000_000]);
    let nodes = *rng.pick(&[100_000u64, 100_000, 100_000, 100_000, 2, 3, 5, 8, 12, 20, 40]);
    json!({"kinit":kinit,"kmax":kmax,"growth":growth,"tn":tn,"td":td,"band":band,"gain":gain,"nodes":nodes})
}

fn gen_dag_case(rng: &mut Rng, max_seeds: u64, ncfg: u64) -> Value {
    // "wide": a disjunction of many unlikely alternatives - the union bound of the residual is nearly tight
    let wide = rng.chance(1, 6);
    let n = if wide { rng.range(5, max_seeds.max(5)) } else { rng.range(1, max_seeds) } as usize;
    // exclusive groups
    let mut grp = vec![0u64; n];
    if n >= 2 && !wide && rng.chance(2, 5) {
        let ngroups = if n >= 5 && rng.chance(1, 3) { 2 } else { 1 };
        let mut idx: Vec<usize> = (0..n).collect();
        rng.shuffle(&mut idx);
        let mut pos = 0;
        for g in 1..=ngroups {
            let size = (rng.range(1, 4) as usize).min(n - pos);
            for _ in 0..size {
                grp[idx[pos]] = g * 3 + 4; // group ids need not be dense
                pos += 1;
            }
        }
    }
    let mut gids: Vec<u64> = grp.iter().copied().filter(|g| *g != 0).collect();
    gids.sort();
    gids.dedup();
    let factors = grp.iter().filter(|g| **g == 0).count() + gids.len();
    let den: u64 = if factors <= 6 && rng.chance(1, 3) { 16 } else if factors <= 8 { 8 } else { 4 };
    // "small": many unlikely seeds - the union bound of the residual is then nearly tight
    let small = wide || rng.chance(1, 4);
    let mut num = vec![0u64; n];
    for i in 0..n {
        if grp[i] == 0 {
            num[i] = match rng.below(if wide { 40 } else { 12 }) { 0 => 0, 1 => den, _ => if small { rng.range(1, 2) } else { rng.range(1, den - 1) } };
        }
    }
    for g in &gids {
        let members: Vec<usize> = (0..n).filter(|i| grp[*i] == *g).collect();
        let mut cuts: Vec<u64> = (0..members.len() - 1).map(|_| rng.range(0, den)).collect();
        cuts.sort();
        let mut prev = 0;
        for (k, m) in members.iter().enumerate() {
            let next = if k < cuts.len() { cuts[k] } else { den };
            num[*m] = next - prev;
            prev = next;
        }
    }
    let idstyle = rng.below(3);
    let mut rawids: Vec<u64> = (0..n as u64).map(|i| match idstyle { 0 => i, 1 => 2 * i + 1, _ => 3 * i + 2 }).collect();
    if rng.chance(1, 3) { rng.shuffle(&mut rawids); }
    let seeds: Vec<Value> = (0..n).map(|i| json!({"id":rawids[i],"num":num[i],"grp":grp[i]})).collect();

    let mut d = Dag { nodes: Vec::new() };
    for i in 1..=n { d.push("lit", i, vec![]); }
    let shape = if wide { 10 } else { rng.below(10) };
    let neg = rng.chance(35, 100);
    let wrap = |d: &mut Dag, rng: &mut Rng, i: usize| -> usize { if neg && rng.chance(1, 4) { d.push("not", 0, vec![i]) } else { i } };
    let root = match shape {
        0..=3 => {
            // DNF with subsumed / duplicated / overlapping proofs, shared conjunctions
            let m = rng.range(1, 8) as usize;
            let mut proofs: Vec<Vec<usize>> = Vec::new();
            for _ in 0..m {
                if !proofs.is_empty() && rng.chance(1, 3) {
                    let mut p = rng.pick(&proofs).clone();
                    if rng.chance(2, 3) { p.push(rng.range(1, n as u64) as usize); p.sort(); p.dedup(); }
                    proofs.push(p);
                } else {
                    let size = rng.range(1, 4) as usize;
                    proofs.push(subset(rng, n, size));
                }
            }
            let mut conj = Vec::new();
            for p in &proofs {
                let lits: Vec<usize> = p.iter().map(|s| wrap(&mut d, rng, *s)).collect();
                let c = if lits.len() >= 3 && rng.chance(1, 2) {
                    let inner = d.push("and", 0, lits[..2].to_vec());
                    let mut rest = vec![inner];
                    rest.extend_from_slice(&lits[2..]);
                    d.push("and", 0, rest)
                } else {
                    d.push("and", 0, lits)
                };
                conj.push(wrap(&mut d, rng, c));
            }
            d.push("or", 0, conj)
        }
        4..=6 => {
            // layered DAG with sharing
            let mut pool: Vec<usize> = (1..=n).collect();
            let layers = rng.range(2, 7);
            let mut last = 1;
            for _ in 0..layers {
                let arity = rng.range(2, 3) as usize;
                let mut ch = Vec::new();
                for _ in 0..arity { let c = *rng.pick(&pool); ch.push(wrap(&mut d, rng, c)); }
                let op = if rng.chance(1, 2) { "and" } else { "or" };
                last = d.push(op, 0, ch);
                pool.push(last);
            }
            if rng.chance(1, 2) {
                let other = *rng.pick(&pool);
                let op = if rng.chance(1, 2) { "and" } else { "or" };
                last = d.push(op, 0, vec![last, other]);
            }
            wrap(&mut d, rng, last)
        }
        7..=8 => {
            // conjunction of disjunctions: many proofs, deep enumeration
            let r = rng.range(2, 4);
            let mut ors = Vec::new();
            for _ in 0..r {
                let size = rng.range(2, 3) as usize;
                let lits: Vec<usize> = subset(rng, n, size).into_iter().map(|s| wrap(&mut d, rng, s)).collect();
                ors.push(d.push("or", 0, lits));
            }
            let c = d.push("and", 0, ors);
            wrap(&mut d, rng, c)
        }
        10 => {
            // wide disjunction of short proofs (many alternatives, each unlikely)
            let m = rng.range(4, n as u64) as usize;
            let mut alts: Vec<usize> = subset(rng, n, m);
            for _ in 0..rng.below(3) {
                let lits = subset(rng, n, 2);
                alts.push(d.push("and", 0, lits));
            }
            rng.shuffle(&mut alts);
            d.push("or", 0, alts)
        }
        _ => {
            // degenerate formulas
            match rng.below(6) {
                0 => d.push("T", 0, vec![]),
                1 => d.push("F", 0, vec![]),
                2 => 1,
                3 => { let nx = d.push("not", 0, vec![1]); d.push("and", 0, vec![1, nx]) }
                4 => { let nx = d.push("not", 0, vec![1]); d.push("or", 0, vec![1, nx]) }
                _ => { let t = d.push("T", 0, vec![]); let a = d.push("and", 0, vec![t, 1]); d.push("not", 0, vec![a]) }
            }
        }
    };
    let mut case = json!({"kind":"dag","den":den,"seeds":seeds,"nodes":d.nodes,"root":root,"faults":"all",
                          "cfgs":[],"cfgs_nf":[],"nbs":[],"topk":[]});
    // threshold hint: the code's own un-faulted exact value (case selection only, not an oracle)
    let hint = build(&case).ok().and_then(|b| {
        let g = b.store.lock().unwrap();
        compile_lineage_to_sdd(&g, &b.seeds, b.root, Duration::from_secs(20), 1_000_000).ok().map(|c| c.manager.wmc(c.root))
    });
    let cfgs: Vec<Value> = (0..ncfg).map(|_| gen_cfg(rng, hint)).collect();
    let cfgs_nf: Vec<Value> = (0..3 * ncfg).map(|_| gen_cfg(rng, hint)).collect();
    let nbs: Vec<u64> = vec![100_000, *rng.pick(&[2u64, 3, 4, 6, 9, 14, 22, 35])];
    let mut topk: Vec<Value> = (1..=5u64).map(|k| json!({"k": k, "nodes": 100_000, "budget": "long"})).collect();
    topk.push(json!({"k": rng.range(6, 20), "nodes": *rng.pick(&[100_000u64, 100_000, 4, 9, 20]), "budget": "long"}));
    topk.push(json!({"k": rng.range(1, 4), "nodes": 100_000, "budget": "zero"}));
    case["cfgs"] = json!(cfgs);
    case["cfgs_nf"] = json!(cfgs_nf);
    case["nbs"] = json!(nbs);
    case["topk"] = json!(topk);
    case
}

/// Small non-recursive programs over predicates p (seeded), q, r, s (derived, layered).
fn gen_prog_case(rng: &mut Rng) -> Value {
    let consts = ["a", "b", "c"];
    let mut facts = Vec::new();
    let mut seen = std::collections::BTreeSet::new();
    let nf = rng.range(2, 5);
    let mut nseeds = 0;
    for _ in 0..nf {
        let t = (*rng.pick(&consts), *rng.pick(&["p", "e"]), *rng.pick(&consts));
        if seen.insert(t) && nseeds < 7 {
            let occ: Vec<u64> = (0..if rng.chance(1, 4) { 2 } else { 1 }).map(|_| rng.range(1, 7)).collect();
            nseeds += occ.len();
            facts.push(json!({"t":[t.0, t.1, t.2], "occ": occ}));
        }
    }
    let layers = ["q", "r", "s"];
    let mut rules = Vec::new();
    for (li, head) in layers.iter().enumerate() {
        if li > 0 && rng.chance(1, 3) { continue; }
        let lower: Vec<&str> = ["p", "e"].iter().copied().chain(layers[..li].iter().copied()).collect();
        for _ in 0..rng.range(1, 2) {
            let shape = rng.below(4);
            let p1 = *rng.pick(&lower);
            let p2 = *rng.pick(&lower);
            let (pos, headpat) = match shape {
                0 => (vec![json!(["?x", p1, "?y"])], json!(["?x", head, "?y"])),
                1 => (vec![json!(["?x", p1, "?y"]), json!(["?y", p2, "?z"])], json!(["?x", head, "?z"])),
                2 => (vec![json!(["?x", p1, "?y"]), json!(["?x", p2, "?z"])], json!(["?y", head, "?z"])),
                _ => (vec![json!(["?x", p1, *rng.pick(&consts)])], json!(["?x", head, "?x"])),
            };
            rules.push(json!({"pos":pos,"neg":[],"head":headpat}));
        }
    }
    // negation as failure: heads of NAF rules feed no other rule (single negative stratum of the engine)
    if rng.chance(1, 2) {
        let p1 = *rng.pick(&["p", "e", "q"]);
        let p2 = *rng.pick(&["p", "e", "q", "r"]);
        rules.push(json!({"pos":[["?x", p1, "?y"]],"neg":[["?x", p2, "?y"]],"head":["?x", "n", "?y"]}));
    }
    let cfgs: Vec<Value> = (0..2).map(|_| { let mut c = gen_cfg(rng, None); c["nodes"] = json!(100_000); c }).collect();
    json!({"kind":"prog","den":8,"facts":facts,"rules":rules,"cfgs":cfgs})
}

pub fn main(a: &Args) {
    let mut out = Out::create(a.req("out"));
    let mut run = 0u64;
    let jmax = a.num("jmax", 100_000);
    let cases = if let Some(f) = a.get("cases") {
        read_cases(f)
    } else {
        let mut rng = Rng::new(a.num("seed", 1));
        let n = a.num("random", 50);
        let nprog = a.num("progs", 0);
        let maxseeds = a.num("maxseeds", 8);
        let ncfg = a.num("cfgs", 2);
        let mut v: Vec<Value> = (0..n).map(|_| gen_dag_case(&mut rng, maxseeds, ncfg)).collect();
        v.extend((0..nprog).map(|_| gen_prog_case(&mut rng)));
        v
    };
    if let Some(f) = a.get("emit-cases") {
        let mut o = Out::create(f);
        for c in &cases { o.ev(c.clone()); }
        o.finish();
    }
    for c in &cases {
        match c["kind"].as_str().unwrap_or("dag") {
            "prog" => run_prog_case(&mut out, &mut run, c),
            _ => run_dag_case(&mut out, &mut run, c, jmax),
        }
    }
    out.finish();
}
