SPECIFICATION Spec
CONSTANTS
  Sigma <- SigmaAll
  Cases <- Thorough3
  EscapeNT = TRUE
  DirectEncode = TRUE
  EmitDone = TRUE
INVARIANTS RoundTripPlain Emit
CHECK_DEADLOCK FALSE
