------------------------------ MODULE BoolFun ------------------------------
(***************************************************************************)
(* Requirement module for C07: a decision-diagram manager seen through its *)
(* handles.  The state is what a handle MEANS, not how it is stored:       *)
(*                                                                         *)
(*   vars  sequence, in introduction order, of [id, pos, neg, kind]        *)
(*         (weights are integers k meaning k/Scale; kind 0 = independent,  *)
(*          kind g > 0 = member of exclusive group g)                      *)
(*   den   handle -> set of assignments.  An assignment is the bit mask    *)
(*         of the variables that are true (bit v = variable id v); only    *)
(*         registered variables occur.  Handle 0 is FALSE, handle 1 TRUE.  *)
(*                                                                         *)
(* Every operation is an action with a postcondition on den:               *)
(*   exact      the returned handle denotes exactly the formula's function *)
(*   canonical  if a handed-out handle already denotes that function it is *)
(*              the handle returned, otherwise the handle is new           *)
(*   budgeted   Try...(ok) = the unbudgeted action; Try...(exhausted)      *)
(*              returns no handle and leaves vars and den unchanged        *)
(* Introducing a variable extends every denotation with a don't-care bit.  *)
(* Wmc/Grad are the truth-table sums the property speaks of; Models states *)
(* when a list of partial models describes a denotation.                   *)
(***************************************************************************)
EXTENDS Integers, Sequences, FiniteSets, FiniteSetsExt, TLC

VARIABLES vars, den

Scale  == 4
FalseH == 0
TrueH  == 1

Bit(a, v) == (a \div (2 ^ v)) % 2
Reg       == {vars[i].id : i \in DOMAIN vars}
Full      == den[TrueH]                       \* every assignment over Reg
Idx(v)    == CHOOSE i \in DOMAIN vars : vars[i].id = v
Kind(v)   == vars[Idx(v)].kind
Handles   == DOMAIN den

TypeOK == /\ \A i \in DOMAIN vars : /\ vars[i].id \in Nat /\ vars[i].pos \in 0..Scale
                                     /\ vars[i].neg \in 0..Scale /\ vars[i].kind \in Nat
          /\ \A i, j \in DOMAIN vars : vars[i].id = vars[j].id => i = j
          /\ {FalseH, TrueH} \subseteq Handles
          /\ \A h \in Handles : den[h] \subseteq Full

(* ------------------------------------------------------------------ *)
(* denotations of the formulas                                        *)
(* ------------------------------------------------------------------ *)
LitDen(v, b)      == {a \in Full : Bit(a, v) = b}
ApplyDen(op, x, y) == IF op = "and" THEN den[x] \cap den[y] ELSE den[x] \cup den[y]
NegDen(x)         == Full \ den[x]
XOneDen(S)        == {a \in Full : Cardinality({v \in S : Bit(a, v) = 1}) = 1}

(* ------------------------------------------------------------------ *)
(* exactness + canonicity of a returned handle                         *)
(* ------------------------------------------------------------------ *)
Known(D)      == \E k \in Handles : den[k] = D
Returns(h, D) == IF h \in Handles THEN den[h] = D ELSE ~Known(D)
Bind(h, D)    == den' = IF h \in Handles THEN den ELSE (h :> D) @@ den

Canonical      == \A h, k \in Handles : den[h] = den[k] => h = k
ConstantsFixed == den[FalseH] = {} /\ Full = {a \in 0..(2 ^ (IF Reg = {} THEN 0 ELSE Max(Reg) + 1) - 1) :
                                                \A v \in 0..(IF Reg = {} THEN 0 ELSE Max(Reg)) : Bit(a, v) = 1 => v \in Reg}

(* ------------------------------------------------------------------ *)
(* actions                                                             *)
(* ------------------------------------------------------------------ *)
Init == vars = <<>> /\ den = (FalseH :> {}) @@ (TrueH :> {0})

\* registering a new variable extends every denotation (don't care); registering an
\* existing one only replaces its weights and kind
NewVar(v, pos, neg, kind) ==
  LET r == [id |-> v, pos |-> pos, neg |-> neg, kind |-> kind] IN
  IF v \in Reg
    THEN vars' = [vars EXCEPT ![Idx(v)] = r] /\ UNCHANGED den
    ELSE /\ vars' = Append(vars, r)
         /\ den' = [h \in Handles |-> den[h] \cup {a + 2 ^ v : a \in den[h]}]

Literal(v, b, h)   == v \in Reg /\ Returns(h, LitDen(v, b)) /\ Bind(h, LitDen(v, b)) /\ UNCHANGED vars
Apply(op, x, y, h) == /\ x \in Handles /\ y \in Handles
                      /\ Returns(h, ApplyDen(op, x, y)) /\ Bind(h, ApplyDen(op, x, y)) /\ UNCHANGED vars
Negate(x, h)       == x \in Handles /\ Returns(h, NegDen(x)) /\ Bind(h, NegDen(x)) /\ UNCHANGED vars
ExactlyOne(S, h)   == S \subseteq Reg /\ Returns(h, XOneDen(S)) /\ Bind(h, XOneDen(S)) /\ UNCHANGED vars

\* budget exhaustion of any operation: nothing is returned, nothing observable changes
Exhausted == UNCHANGED <<vars, den>>

(* ------------------------------------------------------------------ *)
(* weighted model count and gradient as truth-table sums               *)
(* ------------------------------------------------------------------ *)
W(a, i) == IF Bit(a, vars[i].id) = 1 THEN vars[i].pos ELSE vars[i].neg

RECURSIVE Prod(_, _, _)
Prod(a, i, skip) == IF i = 0 THEN 1
                    ELSE (IF vars[i].id = skip THEN 1 ELSE W(a, i)) * Prod(a, i - 1, skip)

\* weight of assignment a, leaving out variable `skip` (-1: none); scaled by Scale^n resp. Scale^(n-1)
WAsg(a, skip) == Prod(a, Len(vars), skip)

\* the same numbers tabulated once per variable set (a trace specification keeps this table as a
\* memo instead of recomputing it for every event):  w[0][a] = weight of a,  w[i][a] = weight of a
\* without the i-th variable,  one[i] = assignments where the i-th variable is true
Tab == [w   |-> [i \in 0..Len(vars) |-> [a \in Full |-> WAsg(a, IF i = 0 THEN -1 ELSE vars[i].id)]],
        one |-> [i \in 1..Len(vars) |-> {a \in Full : Bit(a, vars[i].id) = 1}]]

SumT(T, D, i) == MapThenSumSet(LAMBDA a : T.w[i][a], D)
WmcT(T, D)    == SumT(T, D, 0)
\* independent variable: d/dp of p*A + (1-p)*B = A - B;  exclusive member (negative weight constant 1): A
GradT(T, D, i) == LET one  == SumT(T, D \cap T.one[i], i)
                      zero == SumT(T, D \ T.one[i], i)
                  IN  IF vars[i].kind = 0 THEN one - zero ELSE one

Wmc(D)     == WmcT(Tab, D)
Grad(D, v) == GradT(Tab, D, Idx(v))

\* where the clause is meaningful: independent weights sum to 1, and the function implies
\* exactly-one of every exclusive group (the encoding the engine uses for such groups)
GroupIds   == {vars[i].kind : i \in DOMAIN vars} \ {0}
Members(g) == {vars[i].id : i \in {j \in DOMAIN vars : vars[j].kind = g}}
WmcMeaningful(D) ==
  /\ \A i \in DOMAIN vars : vars[i].kind = 0 => vars[i].pos + vars[i].neg = Scale
  /\ \A g \in GroupIds : \A a \in D : Cardinality({v \in Members(g) : Bit(a, v) = 1}) = 1

(* ------------------------------------------------------------------ *)
(* partial models: a model is a sequence of <<variable, 0|1>>          *)
(* ------------------------------------------------------------------ *)
MTrue(m)  == {m[i][1] : i \in {j \in DOMAIN m : m[j][2] = 1}}
MFalse(m) == {m[i][1] : i \in {j \in DOMAIN m : m[j][2] = 0}}
MWellFormed(m) == MTrue(m) \cap MFalse(m) = {} /\ (MTrue(m) \cup MFalse(m)) \subseteq Reg

RECURSIVE SubSums(_)
SubSums(F) == IF F = {} THEN {0}
              ELSE LET v == CHOOSE x \in F : TRUE
                       r == SubSums(F \ {v})
                   IN  r \cup {s + 2 ^ v : s \in r}
MBase(m)        == MapThenSumSet(LAMBDA v : 2 ^ v, MTrue(m))
Completions(m)  == LET b == MBase(m) IN {b + s : s \in SubSums(Reg \ (MTrue(m) \cup MFalse(m)))}
ModelsDen(ms)   == UNION {Completions(ms[i]) : i \in DOMAIN ms}
ModelsCount(ms) == MapThenSumSet(LAMBDA i : 2 ^ Cardinality(Reg \ (MTrue(ms[i]) \cup MFalse(ms[i]))), DOMAIN ms)
\* the completions of the listed partial models partition D
Models(ms, D)   == /\ \A i \in DOMAIN ms : MWellFormed(ms[i])
                   /\ ModelsDen(ms) = D
                   /\ ModelsCount(ms) = Cardinality(D)
=============================================================================
