"""C13 - loading a document adds exactly its triples, whatever its size or prior content.

L1  tla/loader/LoaderImpl.tla (chunking, parallel parse + sequential encode for N-Triples, per-chunk
    private dictionaries / prefix maps and their merge for N3, sequential Turtle) against the
    requirement of tla/loader/Loader.tla (AddsExactlyDoc, DictionaryBijective, PriorKept),
    ChunkSize = 2, all documents over a 5..7 line alphabet, three prior databases, all completion
    orders.  Negative controls: the historic N3 merge (local identifiers) and the historic
    chunk-local prefixes must violate AddsExactlyDoc.
L2  every (format, document, prior) of a smaller instance is printed by TLC with the model's final
    lexical content and replayed on the REAL loaders: each model chunk of 2 lines is laid out as
    one real chunk of 1000 physical lines (blank padding), so the real chunk boundaries fall where
    the model's do.  The recording is validated against the requirement (FAIL) and compared with
    the model's prediction (MODEL-DRIFT).
L3  real chunk size: documents of 1 / 999 / 1000 / 1001 / 2500 (thorough: up to 20000) lines x
    prior database empty / small / large dictionary / loaded from another format x rayon pools
    of 1 / 2 / 16 threads x five formats; seeded random sizes; and the shape matrix (one term
    shape per document, every format) for the clause "the same triples written in different
    formats load identically".  LoaderTrace.tla computes what must be stored.
"""
import json
import os
import time
import vlib
from vlib import log

FAMILY = "loader"
FMTS = ["nt", "nq", "ttl", "n3", "xml"]
SITE = {"nt": "parse_ntriples_and_add", "nq": "parse_nquads_and_add", "ttl": "parse_turtle", "n3": "parse_n3", "xml": "parse_rdf"}

LIT = ["lit-plain", "lit-esc", "lit-punct", "lit-spaces", "lit-hash", "lit-xmlspecial", "lit-pnlike", "lit-empty", "lit-lang", "lit-dt"]
# (position, shape) pairs of the supported subset per format
SHAPES = {
    "nt": [("o", s) for s in ["iri", "iri-frag", "iri-urn", "bn"] + LIT] + [("s", "bn"), ("s", "iri-frag"), ("p", "iri-frag")],
    "nq": [("o", s) for s in ["iri", "iri-frag", "iri-urn", "bn"] + LIT] + [("s", "bn"), ("g", "iri"), ("g", "bn"), ("g", "iri-frag")],
    "ttl": [("o", s) for s in ["iri", "iri-frag", "iri-urn", "pn", "bn"] + LIT] + [("s", "bn"), ("s", "pn"), ("p", "pn"), ("p", "iri-frag")],
    "n3": [("o", s) for s in ["iri", "iri-frag", "iri-urn", "pn", "bn"] + LIT] + [("s", "bn"), ("s", "pn"), ("p", "pn"), ("p", "iri-frag")],
    "xml": [("o", s) for s in ["iri", "iri-frag", "iri-urn"] + LIT] + [("s", "iri-frag")],
}
# object shapes of the size / prior / thread family: shapes the loader stores canonically (see shape matrix)
_TEXT_O = ["iri", "bn", "lit-plain", "lit-esc", "lit-hash", "lit-lang", "lit-dt"]
CORE_O = {"nt": _TEXT_O, "nq": _TEXT_O, "ttl": _TEXT_O, "n3": _TEXT_O, "xml": ["iri", "iri-frag", "lit-plain", "lit-esc", "lit-dt"]}
CORE_S = {"nt": ["iri", "bn"], "nq": ["iri", "bn"], "ttl": ["iri", "bn"], "n3": ["iri", "bn"], "xml": ["iri"]}


def shape_cases():
    cases = []
    for fmt in FMTS:
        for pos, sh in SHAPES[fmt]:
            cases.append({"threads": 2, "gen": {"kind": "shape", "fmt": fmt, "shape": sh, "pos": pos, "prior": "empty", "seed": 1, "n": 5}})
    return cases


def size_case(fmt, n, prior, threads, seed, pfx):
    return {"threads": threads, "gen": {"kind": "size", "fmt": fmt, "nlines": n, "prior": prior, "seed": seed, "pfx": pfx, "n0": 40,
                                        "oshapes": CORE_O[fmt], "sshapes": CORE_S[fmt], "gshapes": ["iri", "bn"] if fmt == "nq" else []}}


def size_cases(thorough, seed):
    sizes = [1, 999, 1000, 1001, 2500] + ([2, 1999, 2000, 2001, 3001, 5000, 8200, 10000, 20000] if thorough else [])
    priors = ["empty", "small", "large"]
    threads = [1, 2, 16]
    cases = []
    k = 0
    for fmt in FMTS:
        for n in sizes:
            if thorough and n <= 5000:
                combos = [(p, t) for p in priors for t in threads]
            else:
                # Latin square: every (prior, threads) pair occurs, every (fmt, size) gets three of them
                combos = [(priors[j], threads[(j + k) % 3]) for j in range(3)]
            for p, t in combos:
                cases.append(size_case(fmt, n, p, t, seed * 7919 + len(cases), len(cases) % 2 == 0))
            k += 1
    # remainders: lines > 1000 * threads with lines % threads # 0 (a split into one slice per worker
    # thread must not lose the tail), in each format
    rem = [(2001, 2), (2501, 2), (3002, 3)] + ([(4003, 4), (16010, 16), (20001, 16), (7001, 7)] if thorough else [])
    for fmt in FMTS:
        for n, t in rem:
            cases.append(size_case(fmt, n, priors[len(cases) % 3], t, seed * 7919 + len(cases), len(cases) % 2 == 0))
    # a prefix bound differently by an earlier load / re-declared inside the document, used after line 1000
    for fmt in ("ttl", "n3"):
        for j, f0 in enumerate(("ttl", "n3", "xml")):
            for n in ([1001, 2500] if not thorough else [999, 1001, 2500, 5000]):
                c = size_case(fmt, n, "load:" + f0, threads[(j + n) % 3], seed * 15485863 + len(cases), True)
                c["gen"]["altns"] = True
                c["gen"]["redecl"] = (j + n) % 2 == 0
                cases.append(c)
    # histories: the prior content was itself loaded, from another format
    for i, fmt in enumerate(FMTS):
        for j, f0 in enumerate(FMTS):
            if thorough or (i + j) % 3 == 0:
                cases.append(size_case(fmt, [1001, 7, 1000][(i + j) % 3], "load:" + f0, threads[(i + j) % 3], seed * 104729 + i * 5 + j, j % 2 == 0))
    return cases


def l2_cases(behaviours):
    """Lay a TLC document (ChunkSize lines per model chunk) out over real 1000-line chunks."""
    cases = []
    for b in behaviours:
        terms, tix, pfx, lines = [], {}, [], []

        def tid(t):
            key = json.dumps(t, sort_keys=True)
            if key not in tix:
                terms.append({"k": t["k"], "v": t["v"], "x": t["x"], "t": t["t"], "sh": t["k"]})
                tix[key] = len(terms)
            return tix[key]
        cs = b["chunk"]
        for i, ln in enumerate(b["doc"]):
            if ln["kind"] == "triple":
                lines.append([3, tid(ln["s"]), tid(ln["p"]), tid(ln["o"]), 0])
            elif ln["kind"] == "prefix":
                pfx.append([ln["name"], ln["iri"]])
                lines.append([2, len(pfx), 0, 0, 0])
            elif ln["kind"] == "comment":
                lines.append([1, 1, 0, 0, 0])
            else:
                lines.append([0, 1, 0, 0, 0])
            if (i + 1) % cs == 0 and i + 1 < len(b["doc"]):
                lines.append([0, 1000 - cs, 0, 0, 0])
        prior = [[t[0], t[1], t[2], ""] for t in b["prior"]]
        model = [[q[0], q[1], q[2]] for q in b["lex"]]
        cases.append({"threads": [1, 2, 16][len(cases) % 3], "prior": prior, "dictpad": 0,
                      "loads": [{"fmt": b["fmt"], "terms": terms, "pfx": pfx, "lines": lines, "model": model}]})
    return cases


def trigger(reset, load):
    g = reset["case"].get("gen", {})
    if g.get("kind") == "shape":
        return f"shape={g['pos']}:{g['shape']}"
    ntr = sum(1 for a in load["lines"] if a[0] == 3)
    chunks = (ntr > 8192) if load["fmt"] == "xml" else (load["nphys"] > 1000)
    pn = any(t["k"] == "pn" for t in load["terms"])
    return f"chunks{'>1' if chunks else '=1'},prior={'nonempty' if load['pre'] else 'empty'}" + (",prefixed-names" if pn else "")


SYMPTOM = {"P": "prior-quads-lost", "D": "stored-terms-differ", "M": "document-triples-missing", "X": "spurious-quads",
           "I": "plain-iri-triples-affected", "panic": "panic", "prechanged": "database-changed-between-calls"}


def symptom_text(code):
    if code in SYMPTOM:
        return SYMPTOM[code]
    return "+".join(SYMPTOM[c] for c in code if c != "+") or "none"


def sig_for(reset, load, code):
    symptom = symptom_text(code)
    return f"SparqlDatabase::{SITE[load['fmt']]}|{trigger(reset, load)}|{symptom}"


def validate(trace_path, verdict, tag):
    res = vlib.tlc_trace(FAMILY, "LoaderTrace.tla", "LoaderTrace.cfg", trace_path, tag=f"c13-{tag}", heap="8g")
    # older vlib.tlc_trace reads one-line tuples only (newer versions have _printed_tuples and handle wrapped ones)
    if not hasattr(vlib, "_printed_tuples") and ('<< "FAIL"' in res["out"] or '<< "MODELDIFF"' in res["out"] or '<< "INFO"' in res["out"]):
        raise vlib.ToolError("TLC wrapped a verdict tuple over several lines (vlib reads one-line tuples only)")
    events = vlib.read_ndjson(trace_path)
    resets = {}
    cur = None
    for e in events:
        if e["ev"] == "reset":
            cur = e
        resets[id(e)] = cur
    failed = {}
    for f in res["fail"]:
        rid, line, symptom, nm, nl, nx = f
        if rid in failed:
            continue
        load = events[line - 1]
        reset = resets[id(load)]
        sig = sig_for(reset, load, symptom)
        failed[rid] = sig
        verdict.violation(sig, {"driver": "c13", "case": reset["case"]},
                          f"threads={reset['threads']} missing={nm} prior_lost={nl} extra={nx}")
    drift = sorted({d[0] for d in res["modeldiff"]} - set(failed))
    skipped = sorted({i[0] for i in res["info"] if len(i) > 1 and i[1] == "skipped"})
    return events, failed, drift, skipped, res


def run(ctx):
    t0 = time.time()
    verdict = vlib.Verdict("C13", ctx.seed, ctx.tier)
    wd = vlib.workdir("c13")
    if ctx.replay:
        case = json.load(open(ctx.replay))["case"]["case"]
        vlib.write_ndjson(os.path.join(wd, "cases.ndjson"), [case])
        vlib.kverif(["c13", "--cases", os.path.join(wd, "cases.ndjson"), "--out", os.path.join(wd, "replay.ndjson")])
        validate(os.path.join(wd, "replay.ndjson"), verdict, "replay")
        return verdict.finish()

    thorough = ctx.tier == "thorough"
    # ---- L1
    mc = vlib.tlc_mc(FAMILY, "MCLoader.tla", "MC_thorough.cfg" if thorough else "MC_quick.cfg", workers=8, timeout=3000)
    log(f"L1 LoaderImpl against Loader: {mc['states']} distinct states ({mc['generated']} transitions), violated={mc['violated']}")
    if thorough:
        mc3 = vlib.tlc_mc(FAMILY, "MCLoader.tla", "MC_thorough_chunk3.cfg", workers=8, timeout=3000, tag="c13-chunk3")
        log(f"L1 (ChunkSize 3): {mc3['states']} distinct states, violated={mc3['violated']}")
        if mc3["violated"]:
            mc["violated"] = mc["violated"] or mc3["violated"]
    if mc["uncovered"]:
        raise vlib.ToolError(f"vacuity: actions never taken in L1: {mc['uncovered']}")
    for cfg, what in (("MC_unfixed_ids.cfg", "insertion by chunk-local identifier + or_insert merge"),
                      ("MC_unfixed_prefix.cfg", "chunk-local prefix maps")):
        neg = vlib.tlc_mc(FAMILY, "MCLoader.tla", cfg, workers=4, coverage=False, tag="c13-neg-" + cfg)
        if neg["violated"] != "AddsExactlyDoc":
            raise vlib.ToolError(f"non-vacuity check failed: the historic N3 design ({what}) no longer violates AddsExactlyDoc in the model")

    # ---- L2
    behaviours, st = vlib.tlc_emit(FAMILY, "MCLoader.tla", "MC_emit_thorough.cfg" if thorough else "MC_emit_quick.cfg")
    cases2 = l2_cases(behaviours)
    vlib.write_ndjson(os.path.join(wd, "l2cases.ndjson"), cases2)
    vlib.kverif(["c13", "--cases", os.path.join(wd, "l2cases.ndjson"), "--out", os.path.join(wd, "l2.ndjson")])
    ev2, failed2, drift2, skip2, res2 = validate(os.path.join(wd, "l2.ndjson"), verdict, "l2")
    log(f"L2 replayed {len(cases2)} TLC behaviours on the real loaders (model chunks laid out on 1000-line chunks): "
        f"{len(failed2)} rejected, {len(drift2)} differ from the code-shaped model only")

    # ---- L3
    cases3 = shape_cases()
    nshape = len(cases3)
    cases3 += size_cases(thorough, ctx.seed)
    nsize = len(cases3) - nshape
    vlib.write_ndjson(os.path.join(wd, "l3cases.ndjson"), cases3)
    vlib.kverif(["c13", "--cases", os.path.join(wd, "l3cases.ndjson"), "--out", os.path.join(wd, "l3.ndjson")])
    ev3, failed3, drift3, skip3, res3 = validate(os.path.join(wd, "l3.ndjson"), verdict, "l3")
    log(f"L3 validated {nshape} shape documents + {nsize} size/prior/thread cases: {len(failed3)} rejected, {len(skip3)} outside the subset")
    nrand = 600 if thorough else 20
    vlib.kverif(["c13", "--random", nrand, "--seed", ctx.seed, "--maxlines", 6000 if thorough else 2500, "--out", os.path.join(wd, "l3r.ndjson")])
    ev4, failed4, drift4, skip4, res4 = validate(os.path.join(wd, "l3r.ndjson"), verdict, "l3r")
    log(f"L3 validated {nrand} seeded random cases: {len(failed4)} rejected")

    if mc["violated"] and not (failed2 or failed3 or failed4):
        raise vlib.ToolError(f"L1 invariant {mc['violated']} violated in the model but not reproduced on the code: model out of date")
    if drift2 and not verdict.violations:
        log(f"MODEL-DRIFT: {len(drift2)} replayed behaviours where the real loader differs from LoaderImpl.tla while the requirement holds "
            f"(update the code-shaped model); not a verdict")

    rc = verdict.finish()
    loads = [e for evs in (ev2, ev3, ev4) for e in evs if e["ev"] == "load"]
    resets = [e for evs in (ev2, ev3, ev4) for e in evs if e["ev"] == "reset"]
    nontrivial = [e for e in loads if any(a[0] == 3 for a in e["lines"])]
    distinct = {vlib.case_hash([e["fmt"], e["threads"], e["lines"], e["terms"], e["pre"], e["lex"]]) for e in nontrivial}
    big = [e for e in loads if e["nphys"] > 1000]
    s = next(e for e in ev3 if e["ev"] == "load" and e["nphys"] > 1000)
    cov = {
        "states": mc["states"], "transitions": mc["generated"],
        "traces_validated_against_impl": len(resets),
        "samples": [{"fmt": s["fmt"], "threads": s["threads"], "physical_lines": s["nphys"], "prior_quads": len(s["pre"]), "stored_quads_after": len(s["post"]),
                     "first_lines": s["lines"][:4], "terms": s["terms"][:4]},
                    {"tlc_behaviour": behaviours[len(behaviours) // 2]}],
        "evaluations": len(loads), "distinct_nontrivial": len(distinct),
        "rule": "one evaluation = one call of a real parse_* function whose pre/post lexical quads were judged by LoaderTrace.tla; distinct by hash of "
                "(format, threads, abstract document, prior content); non-trivial = the document has at least one triple line",
        "exhaustive": True,
        "l1_constants": "MC_thorough.cfg" if thorough else "MC_quick.cfg",
        "l2_behaviours": len(cases2), "model_drift": len(drift2),
        "l3_shape_documents": nshape, "l3_size_cases": nsize, "l3_random_cases": nrand,
        "loads_crossing_a_chunk_boundary": len(big),
        "lines_loaded": sum(e["nphys"] for e in loads),
        "thread_pools": sorted({e["threads"] for e in loads}),
        "skipped_outside_subset": len(skip2) + len(skip3) + len(skip4),
        "trace_states": res2["states"] + res3["states"] + res4["states"],
    }
    vlib.write_evidence("C13", ctx.tier, ctx.seed, "model_checking", cov,
                        ["line-oriented subset: one triple / prefix declaration / comment per physical line (multi-line statements are not generated)",
                         "the stored form of a term is the engine's convention (IRI text without brackets, literal value, value@lang, datatype dropped, _:label); "
                         "the document renderer of harness/src/c13.rs is trusted",
                         "interleavings inside rayon are not controlled; the pool size is an axis (1, 2, 16 threads)",
                         "L1 is exhaustive only within the cfg constants (ChunkSize 2 or 3, documents of <= 4 (quick) / 6 (thorough) lines); literal normalisation is not modelled in L1, it is decided per "
                         "term shape on the real loaders (shape matrix); size/prior/thread documents use only term shapes the shape matrix shows to be stored canonically",
                         "RDF/XML: one rdf:Description per triple, namespaces on the root element; its 8192-triple batches are crossed only in the thorough tier"],
                        time.time() - t0, len(verdict.violations))
    return rc
