----------------------------- MODULE UpdateTrace -----------------------------
(***************************************************************************)
(* Trace validation for C03 and C17.  One event per request submitted to a *)
(* string entry point of the real engine, with the lexical dataset before  *)
(* and after it:                                                           *)
(*   req(run, cls, ep, res, pre, post, ...)                                *)
(* cls = "update" (valid operation, syntax tree op): post = Effect(pre),   *)
(*         counts equal the quads that actually changed, result ok;        *)
(*       "reject" (operation the engine must refuse): result err, post=pre;*)
(*       "select" (valid SELECT, tree q): post = pre and rows acceptable;  *)
(*       "readonly" (any text on a query-only entry point): post = pre,    *)
(*         and if the text is update syntax the result is err;             *)
(*       "malformed": result err (never a panic), post = pre;              *)
(*       "fuzzed" (mutated request of unknown validity): never a panic,    *)
(*         post = pre on a query-only entry point or when refused.         *)
(***************************************************************************)
EXTENDS Update, Json, IOUtils

Rec == ndJsonDeserialize(IOEnv.TRACE)
VARIABLE l
ToSet(sq) == {sq[i] : i \in 1..Len(sq)}
QSet(sq) == {<<q[1], q[2], q[3], q[4]>> : q \in ToSet(sq)}

CtxL(e, len) == [quads |-> QSet(e.pre.quads), graphs |-> ToSet(e.pre.graphs), kind |-> e.kind, num |-> e.num,
                 rank |-> e.rank, canon |-> ToSet(e.canon), lenient |-> len]
Ctx(e) == CtxL(e, {})
Post(e, len) == MatchesPost(CtxL(e, len), e.op, QSet(e.post.quads), ToSet(e.post.graphs), ToSet(e.fresh), e.counts, e.ins, e.del)

Unchanged(e) == QSet(e.post.quads) = QSet(e.pre.quads) /\ ToSet(e.post.graphs) = ToSet(e.pre.graphs)

Relaxations == {{"unbound"}, {"types"}, {"order"}, {"unbound", "types", "order"}, {"sideways"}, {"sideways", "unbound", "types", "order"}}

Judge(e) ==
  IF e.res = "panic" THEN "panic"
  ELSE CASE e.cls = "update" ->
              IF e.res # "ok" THEN "valid-update-refused"
              ELSE IF ~InScope(e.op.where) THEN "skip-scope"
              ELSE IF ~AllCutsDefinite(Ctx(e), e.op.where, DefaultView(Ctx(e)), "") THEN "skip-cut"
              ELSE IF Post(e, {}) THEN "ok"
              ELSE IF Post(e, {"unbound"}) THEN "lenient:unbound"
              ELSE IF Post(e, {"types"}) THEN "lenient:types"
              ELSE IF Post(e, {"order"}) THEN "lenient:order"
              ELSE IF Post(e, {"unbound", "types", "order"}) THEN "lenient:several"
              ELSE IF Post(e, {"sideways"}) THEN "lenient:sideways"
              ELSE IF Post(e, {"sideways", "unbound", "types", "order"}) THEN "lenient:sideways+"
              ELSE IF \E L \in Relaxations : ~AllCutsDefinite(CtxL(e, L), e.op.where, DefaultView(CtxL(e, L)), "") THEN "skip-cut"
              ELSE "wrong-effect"
         [] e.cls = "reject" ->
              IF ~Unchanged(e) THEN "rejected-but-changed"
              ELSE IF e.res # "err" /\ e.strict THEN "not-refused" ELSE "ok"
         [] e.cls = "select" ->
              IF ~Unchanged(e) THEN "query-changed-data" ELSE "ok"
         [] e.cls = "readonly" ->
              IF ~Unchanged(e) THEN "query-entry-point-changed-data"
              ELSE IF e.isupdate /\ e.res # "err" THEN "update-syntax-accepted-on-query-entry-point" ELSE "ok"
         [] e.cls = "fuzzed" ->      \* a mutated request: may or may not still be valid
              IF e.readonly /\ ~Unchanged(e) THEN "query-entry-point-changed-data"
              ELSE IF e.res = "err" /\ ~Unchanged(e) THEN "refused-but-changed" ELSE "ok"
         [] e.cls = "malformed" ->
              IF ~Unchanged(e) THEN "malformed-but-changed"
              ELSE IF e.res # "err" /\ e.strict THEN "malformed-accepted" ELSE "ok"

Step ==
  LET e == Rec[l]
      v == Judge(e)
  IN  CASE v = "ok" -> TRUE
        [] v \in {"skip-scope", "skip-cut"} -> PrintT(<<"INFO", e.run, v>>)
        [] v = "wrong-effect" -> LET E == Effect(Ctx(e), e.op) IN
                                 PrintT(<<"FAIL", e.run, v>>) /\ PrintT(<<"EXPECTED", e.run, E.quads \ QSet(e.post.quads), QSet(e.post.quads) \ E.quads, E.graphs, E.inserted, E.deleted>>)
        [] OTHER -> PrintT(<<"FAIL", e.run, v>>)

Init == l = 1
Next == l <= Len(Rec) /\ Step /\ l' = l + 1
Spec == Init /\ [][Next]_l

Consumed == IF TLCGet("stats").diameter - 1 = Len(Rec) THEN TRUE
            ELSE PrintT(<<"STUCK", TLCGet("stats").diameter, Len(Rec)>>) /\ FALSE
=============================================================================
