------------------------------- MODULE MCLaws -------------------------------
(***************************************************************************)
(* Sanity of the oracle: algebraic laws of the SPARQL algebra that the     *)
(* denotational semantics Sparql.tla must satisfy, evaluated by TLC for    *)
(* every dataset over a small universe and a menu of patterns.  A mistake  *)
(* in Sparql.tla (bag multiplicities, filter scope, graph iteration,       *)
(* compatibility of mappings) would make the C01 / C02 / C03 checks reject *)
(* correct answers or accept wrong ones; these laws are independent of the *)
(* engine.  Each law is printed as <<"LAW", name, TRUE|FALSE>>.            *)
(***************************************************************************)
EXTENDS Sparql

Vv(n) == <<"v", n>>
Cc(x) == <<"c", x>>
B(tps) == [t |-> "bgp", tps |-> tps]
J(ps) == [t |-> "join", ps |-> ps]
U(ps) == [t |-> "union", ps |-> ps]
Gr(n, p) == [t |-> "graph", name |-> n, p |-> p]
F(e) == [t |-> "filter", e |-> e]
Eq(l, r) == [t |-> "cmp", l |-> l, op |-> "=", r |-> r]
Ne(l, r) == [t |-> "cmp", l |-> l, op |-> "!=", r |-> r]
Vals(vs, rows) == [t |-> "values", vars |-> vs, rows |-> rows]
Unit == [t |-> "unit"]

xPy == <<Vv("x"), Cc("p"), Vv("y")>>
yPz == <<Vv("y"), Cc("p"), Vv("z")>>
xQy == <<Vv("x"), Cc("q"), Vv("y")>>
zQy == <<Vv("z"), Cc("q"), Vv("y")>>
xXy == <<Vv("x"), Vv("x"), Vv("y")>>       \* repeated variable
aPy == <<Cc("a"), Cc("p"), Vv("y")>>
sPo == <<Vv("s"), Vv("pp"), Vv("o")>>

\* elements whose order inside a group does not matter (no BIND)
Elems == << J(<<B(<<xPy>>)>>), J(<<B(<<zQy>>)>>), J(<<B(<<xQy>>)>>), J(<<B(<<aPy>>)>>),
            U(<<J(<<B(<<xPy>>)>>), J(<<B(<<xQy>>)>>)>>),
            U(<<J(<<B(<<xPy>>)>>), J(<<B(<<xPy>>)>>)>>),          \* the same branch twice: multiplicity 2
            Gr(Cc("g"), J(<<B(<<xQy>>)>>)), Gr(Vv("gv"), J(<<B(<<xQy>>)>>)),
            Vals(<<"y">>, << <<Cc("a")>>, <<Cc("b")>>, <<Cc("b")>> >>),
            Vals(<<"x", "y">>, << <<Cc("a"), <<"u", "">> >>, << <<"u", "">>, Cc("b")>> >>),
            J(<<B(<<xPy, yPz>>)>>), J(<<B(<<sPo>>)>>) >>
NE == Len(Elems)

Universe == {<<"a", "p", "b">>, <<"b", "p", "b">>, <<"a", "q", "b">>, <<"b", "q", "a">>}
GUniverse == {<<"a", "q", "b">>, <<"b", "q", "a">>}
CtxOf(d, gd, hd) ==
  [quads |-> {<<t[1], t[2], t[3], "">> : t \in d} \cup {<<t[1], t[2], t[3], "g">> : t \in gd} \cup {<<t[1], t[2], t[3], "h">> : t \in hd},
   graphs |-> {"g", "h"}, kind |-> [x \in {"a", "b", "p", "q", "g", "h"} |-> "iri"],
   num |-> [x \in {} |-> 0], rank |-> [x \in {} |-> 0], canon |-> {}, lenient |-> {}]
Ctxs == {CtxOf(d, gd, hd) : d \in SUBSET Universe, gd \in SUBSET GUniverse, hd \in {{}, {<<"a", "q", "b">>}}}
Ev(X, p) == Eval(X, p, DefaultView(X), "")

JoinCommutes == \A X \in Ctxs : \A i, j \in 1..NE : Ev(X, J(<<Elems[i], Elems[j]>>)) = Ev(X, J(<<Elems[j], Elems[i]>>))
JoinIsBagJoin == \A X \in Ctxs : \A i, j \in 1..NE : Ev(X, J(<<Elems[i], Elems[j]>>)) = BagJoin(Ev(X, Elems[i]), Ev(X, Elems[j]))
\* the linear-time branch of BagJoin agrees with the general definition (on bags with uniform and with mixed domains)
BagJoinShortcut == \A X \in Ctxs : \A i, j \in 1..NE : BagJoin(Ev(X, Elems[i]), Ev(X, Elems[j])) = BagJoinGen(Ev(X, Elems[i]), Ev(X, Elems[j]))
JoinFlattens == \A X \in Ctxs : \A i, j, k \in {1, 2, 5, 8, 9} :
                   Ev(X, J(<<Elems[i], J(<<Elems[j], Elems[k]>>)>>)) = Ev(X, J(<<Elems[i], Elems[j], Elems[k]>>))
UnionAdds == \A X \in Ctxs : \A i, j \in 1..NE :
                LET r == Ev(X, U(<<Elems[i], Elems[j]>>))
                IN  r = BagUnion(Ev(X, Elems[i]), Ev(X, Elems[j])) /\ BagSize(r) = BagSize(Ev(X, Elems[i])) + BagSize(Ev(X, Elems[j]))
UnitNeutral == \A X \in Ctxs : \A i \in 1..NE : Ev(X, J(<<Unit, Elems[i]>>)) = Ev(X, Elems[i]) /\ Ev(X, J(<<Elems[i]>>)) = Ev(X, Elems[i])
BgpOrder == \A X \in Ctxs : /\ Ev(X, B(<<xPy, yPz>>)) = Ev(X, B(<<yPz, xPy>>))
                            /\ Ev(X, B(<<xPy, zQy, aPy>>)) = Ev(X, B(<<aPy, xPy, zQy>>))
BgpIsJoin == \A X \in Ctxs : /\ Ev(X, B(<<xPy, yPz>>)) = BagJoin(Ev(X, B(<<xPy>>)), Ev(X, B(<<yPz>>)))
                             /\ Ev(X, B(<<xPy, xXy>>)) = BagJoin(Ev(X, B(<<xPy>>)), Ev(X, B(<<xXy>>)))
\* a basic graph pattern matches the RDF merge of the default graph: a set, every mapping once
BgpIsSet == \A X \in Ctxs : \A m \in DOMAIN Ev(X, B(<<sPo>>)) : Ev(X, B(<<sPo>>))[m] = 1
Filters == <<Eq(Vv("x"), Cc("a")), Ne(Vv("x"), Vv("y")), Eq(Vv("z"), Cc("a")), Ne(Vv("y"), Cc("b"))>>
\* a filter scopes over its whole group, wherever it is written
FilterPosition == \A X \in Ctxs : \A i, j \in {1, 2, 3, 5, 9} : \A f \in 1..Len(Filters) :
                     /\ Ev(X, J(<<F(Filters[f]), Elems[i], Elems[j]>>)) = Ev(X, J(<<Elems[i], Elems[j], F(Filters[f])>>))
                     /\ Ev(X, J(<<Elems[i], F(Filters[f]), Elems[j]>>)) = Ev(X, J(<<Elems[i], Elems[j], F(Filters[f])>>))
\* filter = selection of the mappings on which the expression is true (an error, e.g. an unbound variable, removes the mapping)
FilterSelects == \A X \in Ctxs : \A i \in 1..NE : \A f \in 1..Len(Filters) :
                    Ev(X, J(<<Elems[i], F(Filters[f])>>)) = BagFilter(Ev(X, Elems[i]), LAMBDA m : EvalExpr(X, Filters[f], m) = "T")
\* pushing a filter into an operand is sound when the operand certainly binds its variables
FilterPush == \A X \in Ctxs : \A j \in 1..NE :
                 Ev(X, J(<<Elems[1], Elems[j], F(Ne(Vv("x"), Vv("y")))>>)) = Ev(X, J(<<J(<<Elems[1], F(Ne(Vv("x"), Vv("y")))>>), Elems[j]>>))
\* ... and unsound otherwise: the law must fail for a variable the operand does not bind (vacuity control)
FilterPushControl == \E X \in Ctxs : Ev(X, J(<<Elems[2], Elems[1], F(Eq(Vv("x"), Cc("a")))>>)) # Ev(X, J(<<J(<<Elems[2], F(Eq(Vv("x"), Cc("a")))>>), Elems[1]>>))
\* GRAPH ?g iterates the named graphs of the view and binds ?g
GraphVarIterates == \A X \in Ctxs :
   Ev(X, Gr(Vv("gv"), J(<<B(<<xQy>>)>>))) =
     BagUnion(BagJoin(Eval(X, J(<<B(<<xQy>>)>>), DefaultView(X), "g"), [m \in {[gv |-> "g"]} |-> 1]),
              BagJoin(Eval(X, J(<<B(<<xQy>>)>>), DefaultView(X), "h"), [m \in {[gv |-> "h"]} |-> 1]))
GraphConst == \A X \in Ctxs : Ev(X, Gr(Cc("g"), J(<<B(<<xQy>>)>>))) = Eval(X, J(<<B(<<xQy>>)>>), DefaultView(X), "g")
ValuesIsBag == \A X \in Ctxs : BagSize(Ev(X, Elems[9])) = 3 /\ BagSize(Ev(X, Elems[10])) = 2
Instances == Cardinality(Ctxs) * NE * NE

ASSUME PrintT(<<"LAW", "instances", Instances>>)
ASSUME PrintT(<<"LAW", "JoinCommutes", JoinCommutes>>)
ASSUME PrintT(<<"LAW", "JoinIsBagJoin", JoinIsBagJoin>>)
ASSUME PrintT(<<"LAW", "BagJoinShortcut", BagJoinShortcut>>)
ASSUME PrintT(<<"LAW", "JoinFlattens", JoinFlattens>>)
ASSUME PrintT(<<"LAW", "UnionAdds", UnionAdds>>)
ASSUME PrintT(<<"LAW", "UnitNeutral", UnitNeutral>>)
ASSUME PrintT(<<"LAW", "BgpOrder", BgpOrder>>)
ASSUME PrintT(<<"LAW", "BgpIsJoin", BgpIsJoin>>)
ASSUME PrintT(<<"LAW", "BgpIsSet", BgpIsSet>>)
ASSUME PrintT(<<"LAW", "FilterPosition", FilterPosition>>)
ASSUME PrintT(<<"LAW", "FilterSelects", FilterSelects>>)
ASSUME PrintT(<<"LAW", "FilterPush", FilterPush>>)
ASSUME PrintT(<<"LAW", "FilterPushControl", FilterPushControl>>)
ASSUME PrintT(<<"LAW", "GraphVarIterates", GraphVarIterates>>)
ASSUME PrintT(<<"LAW", "GraphConst", GraphConst>>)
ASSUME PrintT(<<"LAW", "ValuesIsBag", ValuesIsBag>>)

VARIABLE dummy
Spec == dummy = 0 /\ [][UNCHANGED dummy]_dummy
=============================================================================
