SPECIFICATION Spec
CONSTANTS
  Programs <- ProgsControl
  CertainSets <- CSets
  UncertainSets <- USetsQuick
  Retrigger = FALSE
INVARIANTS TagsExact
CHECK_DEADLOCK FALSE
