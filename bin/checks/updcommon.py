"""Histories of requests on the string entry points (shared by C03 and C17)."""
import json
import os
import random
import urllib.parse
import vlib
from checks import sparqlgen as G
from checks.c01 import lexicals_of

FAMILY = "sparql"
UPDATE_EPS = ["update", "update", "db", "volcano", "handle", "http-update", "http-form-update"]
QUERY_EPS = ["query", "query", "volcano", "http-get", "http-post", "http-form-query"]
READONLY_EPS = ["query", "http-get", "http-post", "http-form-query"]


def http(kind, text):
    if kind == "http-get":
        return "GET /sparql?query=" + urllib.parse.quote(text, safe="") + " HTTP/1.1\r\nHost: localhost\r\n\r\n"
    if kind == "http-post":
        return "POST /sparql HTTP/1.1\r\nHost: localhost\r\nContent-Type: application/sparql-query\r\n\r\n" + text
    if kind == "http-update":
        return "POST /sparql HTTP/1.1\r\nHost: localhost\r\nContent-Type: application/sparql-update\r\n\r\n" + text
    if kind == "http-form-query":
        return "POST /sparql HTTP/1.1\r\nHost: localhost\r\nContent-Type: application/x-www-form-urlencoded\r\n\r\nquery=" + urllib.parse.quote_plus(text)
    return "POST /sparql HTTP/1.1\r\nHost: localhost\r\nContent-Type: application/x-www-form-urlencoded\r\n\r\nupdate=" + urllib.parse.quote_plus(text)


def step(kind, ep, text, meta):
    """kind: 'update' | 'query'; http entry points wrap the text in a request."""
    if ep.startswith("http"):
        st = {"k": "http", "ep": ep, "text": http(ep, text)}
    else:
        st = {"k": kind, "ep": ep, "text": text}
    st["meta"] = meta
    st["meta"]["sparql"] = text
    return st


def gen_history(rng, nops, mix):
    """mix: weights for the request classes."""
    quads = G.gen_dataset(rng, 10)
    steps = [dict(s, meta={"cls": "setup"}) for s in G.setup_steps(quads, G.GRAPHS)]
    ug = G.UpdGen(rng, quads)
    classes = [c for c, w in mix.items() for _ in range(w)]
    for _ in range(nops):
        c = rng.choice(classes)
        if c == "update":
            op = ug.op()
            ep = rng.choice(UPDATE_EPS)
            text = G.pr_update(op)
            k_ = rng.random()
            if k_ < 0.12:
                text = G.dollar(text)
            elif k_ < 0.24:
                text = G.with_prefix(text)
            steps.append(step("update", ep, text, {"cls": "update", "op": op, "counts": ep in ("update", "db")}))
        elif c == "reject":
            text, why = ug.rejected()
            ep = rng.choice(["update", "db", "handle", "volcano", "http-update"])
            steps.append(step("update", ep, text, {"cls": "reject", "why": why, "strict": ep != "volcano"}))
        elif c == "select":
            g = G.Gen(rng, None, ug.pool)
            q = g.select(rng.choice([1, 2]))
            if rng.random() < 0.15:
                # the dataset clause names a graph nothing ever created (only the frame is judged for this class)
                q[rng.choice(["fromnamed", "from", "fromnamed"])].append(G.UNKNOWN_GRAPH)
            text = G.pr_select(q)
            k_ = rng.random()
            if k_ < 0.12:
                text = G.dollar(text)
            elif k_ < 0.24:
                text = G.with_prefix(text)
            steps.append(step("query", rng.choice(QUERY_EPS), text, {"cls": "select"}))
        elif c == "readonly":
            if rng.random() < 0.3:
                text = rng.choice(["INSERT { <http://e/i1> <http://e/p1> <http://e/i9> . }", "DELETE { <http://e/i1> <http://e/p1> <http://e/i2> . }",
                                   "INSERT { GRAPH <http://e/g1> { <http://e/i1> <http://e/p1> <http://e/i9> . } }"])
            else:
                text = G.pr_update(ug.op())
            steps.append(step("query", rng.choice(READONLY_EPS), text, {"cls": "readonly", "isupdate": True}))
        elif c == "alias":
            # legacy standalone aliases are accepted only by the compatibility entry points: judged as fuzzed (no panic, frame)
            text = rng.choice(["INSERT { <http://e/i1> <http://e/p1> <http://e/i9> . }", "DELETE { <http://e/i1> <http://e/p1> <http://e/i2> . }"])
            ep = rng.choice(["update", "db", "volcano", "handle"])
            steps.append(step("update", ep, text, {"cls": "reject" if ep in ("update", "db") else "fuzzed", "why": "legacy alias on a standard entry point", "strict": True, "readonly": False}))
        elif c == "fuzzed":
            base = G.pr_update(ug.op()) if rng.random() < 0.6 else G.pr_select(G.Gen(rng, None, ug.pool).select(rng.choice([1, 2])))
            text, fault = G.fuzz(rng, base)
            ep = rng.choice(["update", "db", "query", "volcano", "handle", "http-post", "http-update"])
            kind = "query" if ep in ("query", "http-post") else "update"
            steps.append(step(kind, ep, text, {"cls": "fuzzed", "fault": fault, "readonly": ep in ("query", "http-post")}))
        else:  # malformed
            text = rng.choice(G.GARBAGE)
            ep = rng.choice(["update", "db", "query", "handle", "http-post", "http-update"])
            kind = "query" if ep in ("query", "http-post") else "update"
            strict = text.strip() != ""
            if ep.startswith("http"):
                # an HTTP body that is empty is a framing matter, not a SPARQL request
                strict = strict and True
            steps.append(step(kind, ep, text, {"cls": "malformed", "strict": strict}))
    return {"steps": steps}


def to_events(trace_path, out_path):
    runs = vlib.split_runs(vlib.read_ndjson(trace_path))
    events, meta = [], {}
    eid = 0
    for rid, ev in sorted(runs.items()):
        case = ev[0]["case"]
        prev = {"quads": [], "graphs": []}
        for i, st in enumerate(ev[1:]):
            m = case["steps"][i].get("meta", {"cls": "setup"})
            cur = {"quads": st["quads"], "graphs": st["graphs"]}
            if m["cls"] != "setup" or st["res"] == "panic":
                eid += 1
                lex = set()
                lexicals_of(prev, lex)
                lexicals_of(cur, lex)
                lexicals_of(m.get("op", {}), lex)
                lex.discard("")
                kind, num, rank, canon = G.tables(lex, G.resource_terms(prev["quads"]) | G.resource_terms(cur["quads"]))
                pre_terms = {t for q in prev["quads"] for t in q}
                fresh = sorted({t for q in cur["quads"] for t in q if t.startswith("_:kolibrie-update-") and t not in pre_terms})
                e = {"ev": "req", "run": eid, "cls": m["cls"] if m["cls"] != "setup" else "fuzzed", "ep": st["ep"], "res": st["res"], "pre": prev, "post": cur,
                     "kind": kind, "num": num, "rank": rank, "canon": canon, "fresh": fresh,
                     "op": m.get("op", {"form": "none", "del": [], "ins": [], "where": {"t": "unit"}}),
                     "counts": bool(m.get("counts", False)), "ins": st["ins"], "del": st["del"],
                     "strict": bool(m.get("strict", False)), "isupdate": bool(m.get("isupdate", False)), "readonly": bool(m.get("readonly", False))}
                events.append(e)
                meta[eid] = {"case": case, "step": i, "cls": e["cls"], "ep": st["ep"], "res": st["res"], "err": st["err"][:300], "text": m.get("sparql", ""), "why": m.get("why", m.get("fault", ""))}
            prev = cur
    vlib.write_ndjson(out_path, events)
    return events, meta


def run_histories(wd, seed, nhist, nops, mix, tag, extra_cases=()):
    rng = random.Random(seed * 104729 + 7)
    cases = [gen_history(rng, nops, mix) for _ in range(nhist)] + list(extra_cases)
    cp, tp, ep = (os.path.join(wd, f"{tag}-{x}.ndjson") for x in ("cases", "trace", "tlc"))
    vlib.write_ndjson(cp, cases)
    vlib.kverif(["sparql", "--cases", cp, "--out", tp])
    events, meta = to_events(tp, ep)
    res = vlib.tlc_trace(FAMILY, "UpdateTrace.tla", "UpdateTrace.cfg", ep, tag=tag, heap="8g", timeout=3000)
    return events, meta, res


def replay_case(wd, case, tag):
    cp, tp, ep = (os.path.join(wd, f"{tag}-{x}.ndjson") for x in ("cases", "trace", "tlc"))
    vlib.write_ndjson(cp, [case])
    vlib.kverif(["sparql", "--cases", cp, "--out", tp])
    events, meta = to_events(tp, ep)
    res = vlib.tlc_trace(FAMILY, "UpdateTrace.tla", "UpdateTrace.cfg", ep, tag=tag, heap="8g")
    return events, meta, res


def prefix_case(case, upto):
    """The history up to and including step `upto` (enough to re-execute one failing request)."""
    return {"steps": case["steps"][:upto + 1]}
