SPECIFICATION Spec
CONSTANT DepthBound = 10
POSTCONDITION Consumed
CHECK_DEADLOCK FALSE
