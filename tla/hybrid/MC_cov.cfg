SPECIFICATION Spec
CONSTANTS
  N = 3
  Den = 4
  Weights <- WeightsQuick
  Thetas = {2}
  KSched <- KSchedCov
  Bug = "none"
INVARIANTS DecisionSoundInv BoundsCertified ExpiryNeverGuesses MassAgrees
CHECK_DEADLOCK FALSE
