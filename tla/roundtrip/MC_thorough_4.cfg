SPECIFICATION Spec
CONSTANTS
  Sigma <- SigmaAll
  Cases <- Thorough4
  EscapeNT = TRUE
  DirectEncode = TRUE
  EmitDone = TRUE
INVARIANTS RoundTripPlain Emit
CHECK_DEADLOCK FALSE
