SPECIFICATION TSpec
CONSTANTS
  MaxTs = 0
  MaxLen = 0
  Widths = {1}
  Slides = {1}
  Strategies = {}
  FixEvict = TRUE
POSTCONDITION Consumed
CHECK_DEADLOCK FALSE
