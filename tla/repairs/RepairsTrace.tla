----------------------------- MODULE RepairsTrace -----------------------------
(***************************************************************************)
(* Trace validation for C19.  A trace is a concatenation of runs           *)
(*   reset(kind, facts, cons, goal, rules) ; query* | mat* ; end           *)
(* recorded from the real Reasoner (harness/src/c19.rs).                   *)
(*                                                                         *)
(* query: one call of Reasoner::query_with_repairs(goal) on a fresh        *)
(*        reasoner (fresh hash state); `answers` = the returned bindings   *)
(*        as rows over the goal's variables in order of first occurrence.  *)
(*        Requirement: the instances of the goal under the returned        *)
(*        bindings are exactly AnswerFacts(goal, F, C) - for every         *)
(*        repetition (so the result cannot vary from run to run).          *)
(* mat:   one call of infer_new_facts_semi_naive_with_repairs; `final` =   *)
(*        the fact index afterwards.  Requirement: Consistent(final, C).   *)
(*                                                                         *)
(* The expected values are computed once per run at the reset event.  A    *)
(* run outside the precondition (constraint without atoms) is skipped.     *)
(***************************************************************************)
EXTENDS RepairsReq, TLC, Json, IOUtils

Rec == ndJsonDeserialize(IOEnv.TRACE)

VARIABLES l, run, exp, bad
vars == <<l, run, exp, bad>>

Ev == Rec[l]

T3(x) == <<x[1], x[2], x[3]>>
FactsOf(sq) == {T3(sq[i]) : i \in 1..Len(sq)}
\* constraint bodies / goal as tuples of tuples
BodyOf(b) == [k \in 1..Len(b) |-> T3(b[k])]
ConsOf(cs) == [i \in 1..Len(cs) |-> BodyOf(cs[i])]

\* positions of the first occurrence of each goal variable, in order
FirstPos(goal) == SelectSeq(<<1, 2, 3>>, LAMBDA i : goal[i] < 0 /\ \A j \in 1..(i - 1) : goal[j] # goal[i])
\* instance of the goal under a returned row (0 where the binding lacks the variable)
Inst(goal, row) ==
  LET fp == FirstPos(goal)
      val(i) == IF goal[i] > 0 THEN goal[i]
                ELSE LET k == CHOOSE k \in 1..Len(fp) : goal[fp[k]] = goal[i]
                     IN  IF k <= Len(row) THEN row[k] ELSE 0
  IN  <<val(1), val(2), val(3)>>

Init == l = 1 /\ run = 0 /\ bad = FALSE
        /\ exp = [skip |-> TRUE, ready |-> FALSE, lawok |-> TRUE, kind |-> "-", goal |-> <<1, 1, 1>>,
                  F |-> {}, C |-> <<>>, K |-> {}, ans |-> {}, cf |-> {}, hasmodel |-> FALSE, model |-> {}]

(***************************************************************************)
(* Reset only stores the instance (facts, constraints, conflicts) in the   *)
(* state; the expected values are computed from the *state* at the first   *)
(* judged event of the run.  Reason: values read from a TLC state are      *)
(* normalised, whereas a set built by a comprehension over a JSON array is *)
(* not, and TLC normalises such a value in place when it is first compared *)
(* or passed to SUBSET - if that happens while the same value is being     *)
(* enumerated, elements are skipped (observed: `F \ UNION g(F)` evaluated  *)
(* to {} for F = {t(sq[i]) : i \in 1..3}).  As a second guard the answers  *)
(* are computed in two independent ways (through the repairs and through   *)
(* the minimal conflicts, LawConflictFree) and, for cases emitted by TLC   *)
(* from MCRepairs (L2), compared with the value printed there; a           *)
(* disagreement is reported as a tool error (STUCK line), never a verdict. *)
(***************************************************************************)
Reset ==
  /\ Ev.ev = "reset"
  /\ run' = Ev.run /\ bad' = FALSE
  /\ LET F == FactsOf(Ev.facts)
         C == ConsOf(Ev.cons)
         wf == WellFormed(C)
     IN  /\ IF wf THEN TRUE ELSE PrintT(<<"INFO", Ev.run, "skipped">>)
         /\ exp' = [skip |-> ~wf, ready |-> FALSE, lawok |-> TRUE, kind |-> Ev.kind, goal |-> T3(Ev.goal),
                    F |-> F, C |-> C, K |-> IF wf THEN Conflicts(F, C) ELSE {}, ans |-> {}, cf |-> {},
                    hasmodel |-> Ev.hasmodel, model |-> FactsOf(Ev.model)]

Prepared(x) ==
  IF x.ready \/ x.skip \/ x.kind # "query" THEN x
  ELSE LET a  == InEveryE(x.F, x.K)
           cf == ConflictFreeE(x.F, x.K)
       IN  [x EXCEPT !.ready = TRUE, !.lawok = (a = cf /\ (x.hasmodel => x.model = a)),
                     !.ans = {f \in a : Matches(x.goal, f)}, !.cf = cf]

\* classification of a wrong answer set (symptom part of the signature)
Symptom(x, obs) ==
  LET lost  == x.ans \ obs
      extra == obs \ x.ans
  IN  IF lost # {} /\ extra = {}
        THEN (IF lost \cap x.cf # {} THEN "conflict-free-fact-not-answered" ELSE "answer-of-every-repair-missing")
      ELSE IF lost = {}
        THEN (IF extra \subseteq x.F THEN "answer-not-in-every-repair" ELSE "answer-not-a-fact")
      ELSE "answers-lost-and-invented"

Query ==
  /\ Ev.ev = "query"
  /\ UNCHANGED run
  /\ LET x == Prepared(exp)
     IN  /\ exp' = x
         /\ IF x.lawok THEN TRUE ELSE PrintT(<<"STUCK", "requirement evaluated inconsistently", run>>)
         /\ IF exp.ready \/ exp.skip THEN TRUE
            ELSE PrintT(<<"INFO", run, "query", Cardinality(x.K), Cardinality(x.ans)>>)   \* non-vacuity counters
         /\ IF bad \/ x.skip THEN UNCHANGED bad
            ELSE LET obs == {Inst(x.goal, Ev.answers[i]) : i \in 1..Len(Ev.answers)}
                 IN  IF Ev.panic
                       THEN PrintT(<<"FAIL", run, l, "query", "panic">>) /\ bad' = TRUE
                     ELSE IF obs = x.ans THEN UNCHANGED bad
                     ELSE PrintT(<<"FAIL", run, l, "query", Symptom(x, obs)>>) /\ bad' = TRUE

Mat ==
  /\ Ev.ev = "mat"
  /\ UNCHANGED run
  /\ exp' = [exp EXCEPT !.ready = TRUE]
  /\ IF exp.ready \/ exp.skip THEN TRUE
     ELSE PrintT(<<"INFO", run, "mat", Cardinality(exp.K), Cardinality(FactsOf(Ev.final) \ exp.F)>>)
  /\ IF bad \/ exp.skip THEN UNCHANGED bad
     ELSE IF Ev.panic THEN PrintT(<<"FAIL", run, l, "mat", "panic">>) /\ bad' = TRUE
     ELSE IF Consistent(FactsOf(Ev.final), exp.C) THEN UNCHANGED bad
     ELSE PrintT(<<"FAIL", run, l, "mat", "final-fact-set-inconsistent">>) /\ bad' = TRUE

End == Ev.ev = "end" /\ UNCHANGED <<run, exp, bad>>

Next == l <= Len(Rec) /\ l' = l + 1 /\ (Reset \/ Query \/ Mat \/ End)
Spec == Init /\ [][Next]_vars

Consumed == IF TLCGet("stats").diameter - 1 = Len(Rec) THEN TRUE
            ELSE PrintT(<<"STUCK", TLCGet("stats").diameter, Len(Rec)>>) /\ FALSE
=============================================================================
