------------------------- MODULE LineageStoreTrace -------------------------
(***************************************************************************)
(* Trace validation of shared::hybrid::LineageStore against                *)
(* LineageStore.tla.  `kverif lineage` logs one event per public call:     *)
(*   reset(run)                                                            *)
(*   lit(seed, id, len, node) / not(x, id, len, node)                      *)
(*   and(items, id, len, node) / or(items, id, len, node)                  *)
(* (id = handle returned, len = LineageStore::len() afterwards, node =     *)
(* LineageStore::node(id), plus meta = LineageStore::metadata(id)).      *)
(* The operators of LineageStore.tla are applied                          *)
(* to the recorded arguments; handle, size and node must be the ones they  *)
(* yield, the store must stay Canonical, and the handle must denote the    *)
(* negation / conjunction / disjunction of the operands (truth tables over *)
(* the seeds computed by TLC).                                             *)
(***************************************************************************)
EXTENDS LineageStore, Json, IOUtils

Rec == ndJsonDeserialize(IOEnv.TRACE)
VARIABLES l, run, bad
tvars == <<l, run, bad, store, last>>
Ev == Rec[l]

ExclusiveSeeds == {3}          \* the driver registers seed 3 in an exclusive group
B2(b) == IF b THEN "t" ELSE "f"
MetaObs(m) == [neg |-> B2(m.neg), excl |-> B2(m.excl), cyc |-> B2(m.cyc), mono |-> B2(m.mono)]
Apply(e, st) ==
  CASE e.ev = "lit" -> Literal(st, e.seed)
    [] e.ev = "not" -> Not(st, e.x)
    [] e.ev = "and" -> Nary(st, TRUE, e.items)
    [] e.ev = "or"  -> Nary(st, FALSE, e.items)
Exact(e, st, id) ==
  CASE e.ev = "lit" -> Den(st, id) = {w \in Worlds : e.seed \in w}
    [] e.ev = "not" -> Den(st, id) = Worlds \ Den(st, e.x)
    [] e.ev = "and" -> Den(st, id) = {w \in Worlds : \A i \in 1..Len(e.items) : w \in Den(st, e.items[i])}
    [] e.ev = "or"  -> Den(st, id) = {w \in Worlds : \E i \in 1..Len(e.items) : w \in Den(st, e.items[i])}
Why(e, st) ==
  LET o == Apply(e, st) IN
  IF e.id # o.id THEN "other-handle-than-the-specification"
  ELSE IF e.len # Len(o.st) THEN "store-size-differs"
  ELSE IF e.node # NodeOf(o.st, o.id) THEN "node-differs"
  ELSE IF ~Canonical(o.st) THEN "not-canonical"
  ELSE IF ~Exact(e, o.st, o.id) THEN "handle-denotes-another-function"
  ELSE IF e.meta # MetaObs(Meta(o.st, o.id, ExclusiveSeeds)) THEN "metadata-differs"
  ELSE ""

TInit == l = 1 /\ run = 0 /\ bad = FALSE /\ store = EmptyStore /\ last = [op |-> "init", args |-> <<>>, id |-> 0]
Reset == Ev.ev = "reset" /\ run' = Ev.run /\ bad' = FALSE /\ store' = EmptyStore
Skip  == Ev.ev # "reset" /\ bad /\ UNCHANGED <<run, bad, store>>
Step  == /\ Ev.ev # "reset" /\ ~bad
         /\ LET w == Why(Ev, store) IN
            IF w = "" THEN store' = Apply(Ev, store).st /\ UNCHANGED <<run, bad>>
            ELSE PrintT(<<"FAIL", run, Ev.ev, w, l>>) /\ bad' = TRUE /\ UNCHANGED <<run, store>>
TNext == l <= Len(Rec) /\ l' = l + 1 /\ last' = last /\ (Reset \/ Skip \/ Step)
TSpec == TInit /\ [][TNext]_tvars
Consumed == IF TLCGet("stats").diameter - 1 = Len(Rec) THEN TRUE
            ELSE PrintT(<<"STUCK", TLCGet("stats").diameter, Len(Rec)>>) /\ FALSE
=============================================================================
