SPECIFICATION TSpec
CONSTANTS
  Seeds = {0, 1, 2, 3}
  MaxNodes = 100000
POSTCONDITION Consumed
CHECK_DEADLOCK FALSE
