"""C17 - query entry points cannot modify data; string entry points fail cleanly.

Requirement: the frame conditions in tla/sparql/UpdateTrace.tla (classes select / readonly / fuzzed /
malformed; a panic is never an allowed outcome).  Seeded histories interleave valid SELECTs, every
update form and legacy alias submitted to the query-only entry points, structurally mutated requests
(truncation, dropped / duplicated / swapped tokens, multi-byte characters at gaps and inside tokens)
and garbage, on evolving database states, through execute_sparql_query, execute_sparql_update,
SparqlDatabase::execute_update, the compatibility entry point and the HTTP adapters.
"""
import json
import time
import vlib
from vlib import log
from checks import updcommon as U

MIX = {"update": 3, "reject": 1, "select": 3, "readonly": 4, "alias": 1, "fuzzed": 6, "malformed": 3}
MINE = {"select", "readonly", "fuzzed", "malformed"}


def sig_for(m, v):
    if v == "panic":
        site = "format_parse_error" if "char boundary" in m["err"] else "entry point"
        return f"{site}|{m['cls']}|panic: {m['err'][:80]}"
    return f"entry point ep={m['ep']}|{m['cls']}:{m['why']}|{v}"


def judge(events, meta, res, verdict):
    failed = {}
    for f in res["fail"]:
        m = meta[f[0]]
        if m["cls"] not in MINE and f[1] != "panic":
            continue
        failed[f[0]] = f[1]
        verdict.violation(sig_for(m, f[1]), {"driver": "sparql", "case": U.prefix_case(m["case"], m["step"]), "verdict": f[1], "request": m["text"], "ep": m["ep"], "res": m["res"], "err": m["err"]},
                          detail=repr(m["text"][:120]))
    return failed


def run(ctx):
    t0 = time.time()
    verdict = vlib.Verdict("C17", ctx.seed, ctx.tier)
    wd = vlib.workdir("c17")
    if ctx.replay:
        case = json.load(open(ctx.replay))["case"]["case"]
        events, meta, res = U.replay_case(wd, case, "c17-replay")
        judge(events, meta, res, verdict)
        return verdict.finish()
    thorough = ctx.tier == "thorough"
    nh, nops = (600, 80) if thorough else (240, 50)
    events, meta, res = U.run_histories(wd, ctx.seed + 17, nh, nops, MIX, "c17")
    failed = judge(events, meta, res, verdict)
    mine = [e for e in events if e["cls"] in MINE]
    log(f"judged {len(events)} requests in {nh} histories ({len(mine)} on the frame / clean-failure classes): {len(failed)} rejected by the specification")
    rc = verdict.finish()
    by = {}
    distinct = set()
    for e in mine:
        m = meta[e["run"]]
        key = f"{e['cls']}/{e['ep']}/{e['res']}"
        by[key] = by.get(key, 0) + 1
        # non-trivial: the request was refused, or it ran on a non-empty database
        if e["res"] == "err" or e["pre"]["quads"]:
            distinct.add(vlib.case_hash([m["text"], e["ep"], e["pre"]]))
    smp = [e for e in mine if e["cls"] == "fuzzed"][:2] + [e for e in mine if e["cls"] == "readonly"][:1]
    cov = {"evaluations": len(mine), "distinct_nontrivial": len(distinct),
           "rule": "seeded histories; request classes select / update-on-query-entry-point / structurally mutated / garbage over 7 entry points; "
                   "distinct by (request text, entry point, pre-state); non-trivial = refused, or executed on a non-empty database",
           "samples": [{"request": meta[e["run"]]["text"], "cls": e["cls"], "ep": e["ep"], "res": e["res"], "why": meta[e["run"]]["why"]} for e in smp],
           "states": res["states"], "transitions": res["states"], "traces_validated_against_impl": nh,
           "requests_by_class_entrypoint_result": by}
    vlib.write_evidence("C17", ctx.tier, ctx.seed, "model_checking", cov,
                        ["'whatever text is submitted' is covered for the generated request families (all forms, aliases, structured faults with multi-byte text, a garbage list), not for arbitrary byte strings",
                         "HTTP adapters receive well-formed HTTP framing; only the SPARQL text inside is mutated",
                         "a mutated request that is still valid may legitimately change data on an update entry point: only panic-freedom and the refused-implies-unchanged frame are judged for it"],
                        time.time() - t0, len(verdict.violations))
    return rc
