SPECIFICATION Spec
CONSTANTS
  Nodes = {1,2,3}
  Preds = {11,12}
  MaxFacts = 3
  ConSets <- MCConSets
  FinalFilter = TRUE
INVARIANTS TypeOK StackDistinct KeptConsistent FindsAllRepairs AllMaximal AnswersExact ConflictFreeAnswered ReqLaws
CHECK_DEADLOCK FALSE
