SPECIFICATION DSpec
CONSTANTS
  Str = {"a", "b"}
  NPlain = 3
  NQuoted = 2
CONSTRAINT Bound
INVARIANTS Bijective RangesDisjoint RoundTrip HandedCurrent Nesting
PROPERTY Stable
CHECK_DEADLOCK FALSE
