SPECIFICATION Spec
CONSTANTS
  Str = {"a", "b", "c"}
  Probs = {250, 500}
  QA = 1
  QB = 2
  QuadsA = 1
  QuadsB = 1
  SeedsA = 1
  SeedsB = 1
  EmptyA = 1
  EmptyB = 1
  SizeA = 2
  SizeB = 3
  TranslateGraphs = TRUE
INVARIANTS DictsOK CacheSound UnionDenotesUnion OrderIrrelevant MergeSafe Handed
PROPERTIES SourceUntouched Refines1 Refines2 Stable1 Stable2
CHECK_DEADLOCK FALSE
