------------------------------ MODULE QuadsImpl ------------------------------
(***************************************************************************)
(* Code-shaped model of shared::dataset_index::DatasetIndex: the four      *)
(* nested hash-map indexes with explicit key sets (graph_exists and        *)
(* named_graphs() read the key set of gspo), pruned exactly like           *)
(* remove_from_nested_index / remove_from_graph_index / remove_from_spog,  *)
(* and the catalog of named-graph identities.  Each read path is           *)
(* transcribed with the index it actually uses.                            *)
(***************************************************************************)
EXTENDS Naturals, FiniteSets, Sequences, TLC

CONSTANTS Subj, Pred, Obj, Named, MaxQuads

VARIABLES gspo, gpos, gosp,   \* graph -> k1 -> k2 -> set
          spog,               \* s -> p -> o -> set of graphs
          named               \* catalog
vars == <<gspo, gpos, gosp, spog, named>>

Graphs  == {0} \cup Named
AllQuad == Subj \X Pred \X Obj \X Graphs

EmptyMap == [x \in {} |-> {}]
Get(f, k) == IF k \in DOMAIN f THEN f[k] ELSE EmptyMap
GetSet(f, k) == IF k \in DOMAIN f THEN f[k] ELSE {}
Put(f, k, v) == [x \in (DOMAIN f) \cup {k} |-> IF x = k THEN v ELSE f[x]]
Del(f, k) == [x \in (DOMAIN f) \ {k} |-> f[x]]

\* entry(a).or_default().entry(b).or_default().entry(c).or_default().insert(d)
Ins3(idx, a, b, c, d) ==
  LET m1 == Get(idx, a)
      m2 == Get(m1, b)
      st == GetSet(m2, c)
  IN  Put(idx, a, Put(m1, b, Put(m2, c, st \cup {d})))

\* remove_from_nested_index on idx[a] followed by the is_empty test of remove_from_graph_index
\* (same shape as remove_from_spog): prune each level that became empty.
Rem3(idx, a, b, c, d) ==
  IF a \notin DOMAIN idx THEN idx
  ELSE LET m1 == idx[a] IN
       IF b \notin DOMAIN m1
         THEN (IF DOMAIN m1 = {} THEN Del(idx, a) ELSE idx)
         ELSE LET m2  == m1[b]
                  m2n == IF c \in DOMAIN m2
                           THEN (IF m2[c] \ {d} = {} THEN Del(m2, c) ELSE Put(m2, c, m2[c] \ {d}))
                           ELSE m2
                  m1n == IF DOMAIN m2n = {} THEN Del(m1, b) ELSE Put(m1, b, m2n)
              IN  IF DOMAIN m1n = {} THEN Del(idx, a) ELSE Put(idx, a, m1n)

ContainsQ(q) == /\ q[1] \in DOMAIN spog
                /\ q[2] \in DOMAIN spog[q[1]]
                /\ q[3] \in DOMAIN spog[q[1]][q[2]]
                /\ q[4] \in spog[q[1]][q[2]][q[3]]

GraphExistsI(g) == g = 0 \/ g \in named \/ g \in DOMAIN gspo
NamedGraphsI == named \cup ((DOMAIN gspo) \ {0})

\* ---- index contents as quad sets
QuadsOf3(idx, perm) ==   \* perm maps (g, k1, k2, v) to (s, p, o, g)
  UNION {UNION {UNION {{perm[<<g, a, b, v>>] : v \in idx[g][a][b]} : b \in DOMAIN idx[g][a]} : a \in DOMAIN idx[g]} : g \in DOMAIN idx}
GspoQuads == UNION {UNION {UNION {{<<s, p, o, g>> : o \in gspo[g][s][p]} : p \in DOMAIN gspo[g][s]} : s \in DOMAIN gspo[g]} : g \in DOMAIN gspo}
GposQuads == UNION {UNION {UNION {{<<s, p, o, g>> : s \in gpos[g][p][o]} : o \in DOMAIN gpos[g][p]} : p \in DOMAIN gpos[g]} : g \in DOMAIN gpos}
GospQuads == UNION {UNION {UNION {{<<s, p, o, g>> : p \in gosp[g][o][s]} : s \in DOMAIN gosp[g][o]} : o \in DOMAIN gosp[g]} : g \in DOMAIN gosp}
SpogQuads == UNION {UNION {UNION {{<<s, p, o, g>> : g \in spog[s][p][o]} : o \in DOMAIN spog[s][p]} : p \in DOMAIN spog[s]} : s \in DOMAIN spog}

\* ---- actions, one per public mutator
InsertQuad(q) ==
  LET s == q[1] p == q[2] o == q[3] g == q[4] IN
  /\ named' = IF g # 0 THEN named \cup {g} ELSE named
  /\ IF ContainsQ(q) THEN UNCHANGED <<gspo, gpos, gosp, spog>>
     ELSE /\ gspo' = Ins3(gspo, g, s, p, o)
          /\ gpos' = Ins3(gpos, g, p, o, s)
          /\ gosp' = Ins3(gosp, g, o, s, p)
          /\ spog' = Ins3(spog, s, p, o, g)

DeleteEffect(q, i1, i2, i3, i4) ==   \* returns the four indexes after delete_quad(q)
  LET s == q[1] p == q[2] o == q[3] g == q[4] IN
  <<Rem3(i1, g, s, p, o), Rem3(i2, g, p, o, s), Rem3(i3, g, o, s, p), Rem3(i4, s, p, o, g)>>

DeleteQuad(q) ==
  IF ~ContainsQ(q) THEN UNCHANGED vars
  ELSE LET r == DeleteEffect(q, gspo, gpos, gosp, spog) IN
       /\ named' = IF q[4] # 0 THEN named \cup {q[4]} ELSE named
       /\ gspo' = r[1] /\ gpos' = r[2] /\ gosp' = r[3] /\ spog' = r[4]

CreateGraphI(g) == /\ named' = IF g # 0 THEN named \cup {g} ELSE named
                   /\ UNCHANGED <<gspo, gpos, gosp, spog>>

\* clear_graph: query_graph(g, None, None, None) from gspo, then delete_quad for each
GraphQuads(g) == IF g \in DOMAIN gspo
                   THEN UNION {UNION {{<<s, p, o, g>> : o \in gspo[g][s][p]} : p \in DOMAIN gspo[g][s]} : s \in DOMAIN gspo[g]}
                   ELSE {}

RECURSIVE DeleteAll(_, _)
DeleteAll(qs, idx) ==
  IF qs = {} THEN idx
  ELSE LET q == CHOOSE x \in qs : TRUE
       IN  DeleteAll(qs \ {q}, DeleteEffect(q, idx[1], idx[2], idx[3], idx[4]))

ClearEffect(g) == DeleteAll(GraphQuads(g), <<gspo, gpos, gosp, spog>>)

ClearGraphI(g) ==
  LET r == ClearEffect(g) IN
  /\ named' = IF g # 0 /\ GraphExistsI(g) THEN named \cup {g} ELSE named
  /\ gspo' = r[1] /\ gpos' = r[2] /\ gosp' = r[3] /\ spog' = r[4]

DropGraphI(g) ==
  IF g = 0 THEN ClearGraphI(0)
  ELSE IF ~GraphExistsI(g) THEN UNCHANGED vars
  ELSE LET r == ClearEffect(g) IN
       /\ named' = named \ {g}
       /\ gspo' = r[1] /\ gpos' = r[2] /\ gosp' = r[3] /\ spog' = r[4]

ClearI == /\ gspo' = EmptyMap /\ gpos' = EmptyMap /\ gosp' = EmptyMap /\ spog' = EmptyMap /\ named' = {}

\* SparqlDatabase::build_all_indexes: fresh index, create_graph for each named graph, insert every quad
RECURSIVE InsertAll(_, _)
InsertAll(qs, idx) ==
  IF qs = {} THEN idx
  ELSE LET q == CHOOSE x \in qs : TRUE
           s == q[1] p == q[2] o == q[3] g == q[4]
       IN  InsertAll(qs \ {q}, <<Ins3(idx[1], g, s, p, o), Ins3(idx[2], g, p, o, s), Ins3(idx[3], g, o, s, p), Ins3(idx[4], s, p, o, g)>>)

AllQuadsI == UNION {GraphQuads(g) : g \in {0} \cup NamedGraphsI}

RebuildI ==
  LET r == InsertAll(AllQuadsI, <<EmptyMap, EmptyMap, EmptyMap, EmptyMap>>) IN
  /\ named' = NamedGraphsI
  /\ gspo' = r[1] /\ gpos' = r[2] /\ gosp' = r[3] /\ spog' = r[4]

Init == gspo = EmptyMap /\ gpos = EmptyMap /\ gosp = EmptyMap /\ spog = EmptyMap /\ named = {}

Next == \/ \E q \in AllQuad : InsertQuad(q) \/ DeleteQuad(q)
        \/ \E g \in Graphs : CreateGraphI(g) \/ ClearGraphI(g) \/ DropGraphI(g)
        \/ ClearI \/ RebuildI
Spec == Init /\ [][Next]_vars

Bound == Cardinality(SpogQuads) <= MaxQuads

---------------------------------------------------------------------------
\* ---- read paths as the code computes them (index choice per shape)
Lookup2(idx, g, a, b) == GetSet(Get(Get(idx, g), a), b)

QueryGraphI(g, s, p, o) ==
  CASE s # 0 /\ p # 0 /\ o # 0 -> IF ContainsQ(<<s, p, o, g>>) THEN {<<s, p, o, g>>} ELSE {}
    [] s # 0 /\ p # 0 /\ o = 0 -> {<<s, p, x, g>> : x \in Lookup2(gspo, g, s, p)}
    [] s # 0 /\ p = 0 /\ o # 0 -> {<<s, x, o, g>> : x \in Lookup2(gosp, g, o, s)}
    [] s = 0 /\ p # 0 /\ o # 0 -> {<<x, p, o, g>> : x \in Lookup2(gpos, g, p, o)}
    [] s # 0 /\ p = 0 /\ o = 0 -> LET m == Get(Get(gspo, g), s) IN UNION {{<<s, pp, x, g>> : x \in m[pp]} : pp \in DOMAIN m}
    [] s = 0 /\ p # 0 /\ o = 0 -> LET m == Get(Get(gpos, g), p) IN UNION {{<<x, p, oo, g>> : x \in m[oo]} : oo \in DOMAIN m}
    [] s = 0 /\ p = 0 /\ o # 0 -> LET m == Get(Get(gosp, g), o) IN UNION {{<<ss, x, o, g>> : x \in m[ss]} : ss \in DOMAIN m}
    [] OTHER -> GraphQuads(g)

QueryNamedI(s, p, o, vis) ==
  IF s # 0 /\ p # 0 /\ o # 0 /\ s \in DOMAIN spog /\ p \in DOMAIN Get(spog, s) /\ o \in DOMAIN Get(Get(spog, s), p)
    THEN {<<s, p, o, g>> : g \in {h \in spog[s][p][o] : h # 0 /\ (vis = {0} \/ h \in vis)}}
    ELSE UNION {QueryGraphI(g, s, p, o) : g \in {h \in NamedGraphsI : vis = {0} \/ h \in vis}}

GraphsForTripleI(s, p, o) == GetSet(Get(Get(spog, s), p), o)

---------------------------------------------------------------------------
\* ---- refinement and invariants
AbsQuads == SpogQuads
Abs == INSTANCE Quads WITH quads <- AbsQuads, catalog <- NamedGraphsI

IndexesAgree == GspoQuads = SpogQuads /\ GposQuads = SpogQuads /\ GospQuads = SpogQuads

NoEmpty3(idx) == \A a \in DOMAIN idx : /\ DOMAIN idx[a] # {}
                                        /\ \A b \in DOMAIN idx[a] : /\ DOMAIN idx[a][b] # {}
                                                                     /\ \A c \in DOMAIN idx[a][b] : idx[a][b][c] # {}
NoEmptyLevels == NoEmpty3(gspo) /\ NoEmpty3(gpos) /\ NoEmpty3(gosp) /\ NoEmpty3(spog)

Shapes == ({0} \cup Subj) \X ({0} \cup Pred) \X ({0} \cup Obj)
Visibles == {{0}} \cup SUBSET Named

ReadsAgree ==
  /\ \A g \in Graphs : \A sh \in Shapes : QueryGraphI(g, sh[1], sh[2], sh[3]) = Abs!QueryGraph(g, sh[1], sh[2], sh[3])
  /\ \A sh \in Shapes : \A v \in Visibles : QueryNamedI(sh[1], sh[2], sh[3], v) = Abs!QueryNamed(sh[1], sh[2], sh[3], v)
  /\ \A q \in AllQuad : ContainsQ(q) = Abs!Contains(q)
  /\ \A s \in Subj, p \in Pred, o \in Obj : GraphsForTripleI(s, p, o) = Abs!GraphsForTriple(s, p, o)
  /\ AllQuadsI = AbsQuads
  /\ \A g \in Graphs : GraphExistsI(g) = Abs!GraphExists(g)

CatalogCovers == Abs!CatalogCovers
Refines == Abs!Spec
=============================================================================
