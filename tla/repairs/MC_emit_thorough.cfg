SPECIFICATION ESpec
CONSTANTS
  Nodes = {1,2,3}
  Preds = {11,12}
  MaxFacts = 3
  ConSets <- MCConSets
  FinalFilter = TRUE
INVARIANTS Emit
CHECK_DEADLOCK FALSE
