SPECIFICATION ESpec
CONSTANTS
  Str = {"a", "b", "c"}
  Probs = {250, 500}
  QA = 1
  QB = 2
  QuadsA = 1
  QuadsB = 1
  SeedsA = 1
  SeedsB = 1
  EmptyA = 1
  EmptyB = 1
  SizeA = 2
  SizeB = 3
  TranslateGraphs = TRUE
  Extra = 0
INVARIANTS Emit
CHECK_DEADLOCK FALSE
