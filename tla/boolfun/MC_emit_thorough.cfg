SPECIFICATION ESpec
CONSTANTS
  VarIds = {0,1}
  PosW = {1}
  Kinds = {0}
  MaxOps = 6
  MaxHandles = 6
  FillCacheOnFailure = FALSE
CONSTRAINT Bound
ACTION_CONSTRAINT Emit
VIEW ViewDen
CHECK_DEADLOCK FALSE
