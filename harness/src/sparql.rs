//! Generic SPARQL request driver (C01, C03, C17): executes a history of requests through the
//! public string entry points on one SparqlDatabase and records, after every step, the result
//! and the complete lexical dataset (quads + named-graph catalog).
use crate::util::*;
use kolibrie::execute_query::{execute_query_rayon_parallel2_volcano, execute_sparql_query, execute_sparql_update};
use kolibrie::sparql_database::SparqlDatabase;
use serde_json::{json, Value};
use shared::dataset_index::GraphId;

pub fn snapshot(db: &SparqlDatabase) -> (Value, Value) {
    let dec = |id: u32| db.decode_any(id).unwrap_or_else(|| format!("?undecodable:{id}"));
    let mut quads: Vec<Vec<String>> = db.dataset_index.all_quads().iter().map(|q| {
        vec![dec(q.subject), dec(q.predicate), dec(q.object), match q.graph { GraphId::Default => String::new(), GraphId::Named(g) => dec(g) }]
    }).collect();
    quads.sort();
    let mut graphs: Vec<String> = db.dataset_index.named_graphs().iter().map(|g| match g { GraphId::Named(g) => dec(*g), GraphId::Default => String::new() }).collect();
    graphs.sort();
    (json!(quads), json!(graphs))
}

pub fn run_step(db: &mut SparqlDatabase, st: &Value) -> Value {
    let k = st["k"].as_str().unwrap_or("");
    let text = st["text"].as_str().unwrap_or("");
    let ep = st["ep"].as_str().unwrap_or("");
    let mut ev = json!({"ev":"step","k":k,"ep":ep,"id":st.get("id").cloned().unwrap_or(json!(0)),"res":"ok","err":"","rows":[],"ins":0,"del":0});
    match k {
        "create" => {
            let id = db.dictionary.write().unwrap().encode(st["g"].as_str().unwrap());
            db.dataset_index.create_graph(GraphId::Named(id));
        }
        "load" => {
            // N-Triples text through the loader (datasets with given blank-node labels cannot be built with INSERT DATA)
            if let Err(p) = guarded(|| db.parse_ntriples_and_add(text)) { ev["res"] = json!("panic"); ev["err"] = json!(p); }
        }
        "query" => {
            let r = guarded(|| match ep {
                "volcano" => Ok(execute_query_rayon_parallel2_volcano(text, db)),
                "handle" => { let s = db.handle_query(text); Ok(vec![vec![s]]) }
                _ => execute_sparql_query(text, db),
            });
            match r {
                Ok(Ok(rows)) => ev["rows"] = json!(rows),
                Ok(Err(e)) => { ev["res"] = json!("err"); ev["err"] = json!(e); }
                Err(p) => { ev["res"] = json!("panic"); ev["err"] = json!(p); }
            }
        }
        "update" => {
            let r = guarded(|| match ep {
                "db" => db.execute_update(text),
                "volcano" => { execute_query_rayon_parallel2_volcano(text, db); Ok(Default::default()) }
                "handle" => { let s = db.handle_update(text); if s.starts_with("Update Successful") { Ok(Default::default()) } else { Err(s) } }
                _ => execute_sparql_update(text, db),
            });
            match r {
                Ok(Ok(s)) => { ev["ins"] = json!(s.inserted_quads); ev["del"] = json!(s.deleted_quads); }
                Ok(Err(e)) => { ev["res"] = json!("err"); ev["err"] = json!(e); }
                Err(p) => { ev["res"] = json!("panic"); ev["err"] = json!(p); }
            }
        }
        "http" => {
            let r = guarded(|| db.handle_http_request(text));
            match r {
                Ok(s) => {
                    if s.starts_with("Query Failed") || s.starts_with("Update Failed") || s.starts_with("Bad Request") {
                        ev["res"] = json!("err");
                        ev["err"] = json!(s);
                    } else {
                        ev["rows"] = json!([[s]]);
                    }
                }
                Err(p) => { ev["res"] = json!("panic"); ev["err"] = json!(p); }
            }
        }
        _ => {}
    }
    let snap = guarded(|| snapshot(db));
    match snap {
        Ok((q, g)) => { ev["quads"] = q; ev["graphs"] = g; }
        Err(p) => { ev["res"] = json!("panic"); ev["err"] = json!(format!("snapshot: {p}")); ev["quads"] = json!([]); ev["graphs"] = json!([]); }
    }
    ev
}

pub fn main(a: &Args) {
    let mut out = Out::create(a.req("out"));
    let cases = read_cases(a.req("cases"));
    for (n, case) in cases.iter().enumerate() {
        out.ev(json!({"ev":"reset","run":n + 1,"case":case}));
        let mut db = SparqlDatabase::new();
        for st in case["steps"].as_array().unwrap() {
            let ev = run_step(&mut db, st);
            out.ev(ev);
        }
    }
    out.finish();
}
