SPECIFICATION Spec
CONSTANTS
  Consts = {}
  NVars = 2
  Preds = {"p", "q"}
  PVars = {}
  MaxPrem = 1
  MaxConcl = 1
  MaxRules = 2
  NegAtoms = 1
  WithFilters = FALSE
  FConsts = {"a", "b"}
  FPreds = {"p", "q"}
  MaxFacts = 2
  Permute = FALSE
  Mode = "semi"
  Runs = 2
INVARIANTS ReachesModel OrderIndependent SecondRunEmpty NoDuplicates RoundsAreNew Sound SpecLaws
CHECK_DEADLOCK FALSE
