---- MODULE MCWindow ----
EXTENDS Window, Json
\* Behaviour emission for spec -> implementation replay: one JSON line per
\* complete stream (every prefix's firings are contained in it).
Emit == (Len(stream) = MaxLen /\ flushed # <<>>) =>
          PrintT(<<"REPLAY", ToJson([w |-> width, s |-> slide, nonempty |-> ne, stream |-> stream, flush |-> flushed[1],
                     fired |-> [k \in 1..Len(fired) |->
                        [idx |-> fired[k].idx, ts |-> fired[k].ts, close |-> fired[k].close,
                         items |-> fired[k].items]]])>>)
====
