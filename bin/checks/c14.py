"""C14 - exported data re-imports to the same dataset.

L1  tla/roundtrip/NQuadsImpl.tla: transcription over a character-class alphabet (20 classes) of
    generate_nquads / generate_ntriples, str::lines + trim + dot handling, the tokenizer automaton
    parse_ntriples_parts, clean_ntriples_term, decode_ntriples_literal, encode_term_star and
    split_quoted_triple_content.  TLC enumerates every literal of Sigma^(<=3) (thorough: <=4) that
    cannot be mistaken for an IRI, blank node or quoted triple, as object (default graph / named
    graph with blank-node subject) and inside a quoted triple (as subject / object), for N-Quads and
    N-Triples, and checks Import(Export(D)) = Restrict(D) on the model (RoundTripPlain).  Negative
    controls: the historic exporter without escaping and the historic double interpretation of
    cleaned terms must violate it.
L2  every enumerated case is concretised (one representative per class, rotating: a Z x k, é ß 日,
    ✓ 😀 U+FEFF, U+00A0 U+2028 U+0085 ...) and run through the REAL generate_* -> parse_*; the
    trace specification judges the requirement (FAIL) and compares the exported text and the
    re-imported quads with the model's prediction (MODEL-DRIFT).  Turtle has no code-shaped model:
    its cases are judged against the requirement only.
L3  seeded random datasets (several quads, literals up to 40 characters over the concrete alphabet,
    named graphs, blank nodes, IRIs with fragments, quoted triples) for the three formats.
"""
import json
import os
import re
import time
import vlib
from vlib import log

FAMILY = "roundtrip"
REPS = {"a": ["a", "Z", "x", "k"], "n": ["n"], "0": ["0", "7"], ":": [":"], "Q": ['"'], "B": ["\\"], "L": ["\n"], "C": ["\r"], "T": ["\t"],
        "S": [" "], "<": ["<"], ">": [">"], "_": ["_"], "#": ["#"], ".": ["."], "^": ["^"], "@": ["@"],
        "e": ["\u00e9", "\u00df", "\u65e5"], "v": ["\u2713", "\U0001F600", "\ufeff"], "w": ["\u00a0", "\u2028", "\u0085"],
        "r": ["r"], "t": ["t"]}
RDFTYPE = ["?", "r", "d", "f", "t", "y", "p", "e"]
SITE = {"nq": "generate_nquads->parse_nquads_and_add", "nt": "generate_ntriples->parse_ntriples_and_add", "ttl": "generate_turtle->parse_turtle"}
FEATURES = ["plain-literals", "long-literals", "iri-objects", "shared-subject", "multi-object", "named-graphs", "bnodes",
            "quoted-triples", "qt-word-literal", "qt-literal"]


def conc(cs, k):
    if cs == RDFTYPE:
        return "http://www.w3.org/1999/02/22-rdf-syntax-ns#type"
    return "".join(REPS[c][k % len(REPS[c])] if c in REPS else c for c in cs)


def l2_cases(behaviours, with_ttl):
    cases = []
    for i, b in enumerate(behaviours):
        k = i % 12
        base = {"ctx": b["c"], "lit": conc(b["l"], k), "cs": b["l"], "frame": conc(["a", ":", "a"], k), "bn": conc(["a"], k)}
        cases.append(dict(base, fmt=b["f"], hasmodel=True, mtext=conc(b["t"], k),
                          mback=[[conc(q[0], k), conc(q[1], k), conc(q[2], k), conc(q[3], k)] for q in b["b"]]))
        if with_ttl and b["f"] == "nt":
            cases.append(dict(base, fmt="ttl", hasmodel=False, mtext="", mback=[]))
    return cases


def cores(failed):
    """failed: set of class-sequence tuples of one (fmt, ctx).  The core of a failing literal is its
    shortest (then lexicographically first) contiguous part that fails on its own."""
    out = {}
    for cs in failed:
        best = cs
        n = len(cs)
        for ln in range(0, n):
            cands = sorted(cs[i:i + ln] for i in range(0, n - ln + 1) if cs[i:i + ln] in failed)
            if cands:
                best = cands[0]
                break
        out[cs] = best
    return out


DELIMS = {"S", "T", "L", "C", "w", "Q", "B", "<", ">"}


def sig_for(case, ev, sym, core=None):
    """site | trigger class | symptom.  Trigger classes: a literal with a delimiter character (white space, quote,
    backslash, angle bracket) inside a quoted triple; else the minimal failing core of an enumerated literal in its
    context; a subject with several predicates (Turtle only: predicate lists); else the feature class of a random dataset."""
    symptom = "panic" if sym == "panic" else "re-imported-dataset-differs"
    preds = {}
    for q in ev.get("data", []):
        if q[3] == "":
            preds.setdefault(q[0], set()).add(q[1])
    def inner_has_delimiter():
        # the text of the inner object of every quoted-triple term (class representatives may contain white space themselves,
        # e.g. the annotation delimiters "{| a |}" of the ordinary class)
        for q in ev.get("data", []):
            for t in q[:3]:
                if isinstance(t, str) and t.startswith("<<") and t.endswith(">>"):
                    parts = t[2:-2].strip().split(" ", 2)
                    if len(parts) == 3 and any(ch in ' \t\n\r"\\<>' for ch in parts[2]):
                        return True
        return False
    if any(c in DELIMS for cs in ev["qtlits"] for c in cs) or inner_has_delimiter():
        trig = "quoted-triple-inner-literal-with-delimiter"
    elif case["fmt"] == "ttl" and any(len(v) > 1 for v in preds.values()):
        trig = "subject-with-several-predicates"        # Turtle groups them with ';' over several lines
    elif core is not None:
        trig = f"{ev['class']}|core={' '.join(core) or 'empty'}"
    else:
        trig = ev["class"]
    return f"{SITE[case['fmt']]}|{trig}|{symptom}"


def parse_replays(out):
    cases = []
    for line in out.splitlines():
        if line.startswith('<<"REPLAY", '):
            cases.append(json.loads(json.loads(line[len('<<"REPLAY", '):-2])))
    return cases


def validate(trace_path, tag):
    res = vlib.tlc_trace(FAMILY, "RoundtripTrace.tla", "RoundtripTrace.cfg", trace_path, tag=f"c14-{tag}", heap="8g")
    # older vlib.tlc_trace reads one-line tuples only (newer versions have _printed_tuples and handle wrapped ones)
    if not hasattr(vlib, "_printed_tuples") and re.search(r'^<< "(FAIL|MODELDIFF|INFO)"', res["out"], re.M):
        raise vlib.ToolError("TLC wrapped a verdict tuple over several lines (vlib reads one-line tuples only)")
    events = vlib.read_ndjson(trace_path)
    return events, res


def run(ctx):
    t0 = time.time()
    verdict = vlib.Verdict("C14", ctx.seed, ctx.tier)
    wd = vlib.workdir("c14")
    if ctx.replay:
        case = json.load(open(ctx.replay))["case"]["case"]
        vlib.write_ndjson(os.path.join(wd, "cases.ndjson"), [case])
        vlib.kverif(["c14", "--cases", os.path.join(wd, "cases.ndjson"), "--out", os.path.join(wd, "replay.ndjson")])
        events, res = validate(os.path.join(wd, "replay.ndjson"), "replay")
        stored = json.load(open(ctx.replay)).get("signature", "")
        for f in res["fail"]:
            ev = events[f[1] - 1]
            sig = sig_for(case, ev, f[2])
            if "ctx" in case and "|core=" in stored and "quoted-triple-inner" not in sig:
                sig = stored      # the minimal core was computed from the whole enumeration of the original run
            verdict.violation(sig, {"driver": "c14", "case": case}, f"class={ev['class']} symptom={f[2]}")
        return verdict.finish()

    thorough = ctx.tier == "thorough"
    # ---- L1 (+ emission of every case with the model's prediction) and L2, one group of cases at a time
    cfgs = ["MC_thorough_1.cfg", "MC_thorough_2.cfg", "MC_thorough_3.cfg", "MC_thorough_4.cfg"] if thorough else ["MC_quick.cfg"]
    tot = dict(states=0, generated=0, l1cases=0, l2cases=0, resets=0, rts=0, skipped=0, trace_states=0)
    violated = None
    model_fail, failing, drift, distinct, sample = set(), {}, [], set(), None
    special = {"Q", "B", "L", "C", "T", "S", "<", ">", "#", ".", "^", "@", "_", ":", "w", "e", "v"}
    PART = 40000          # one TLC validation run per 40000 cases keeps the deserialised trace small
    for gi, cfg in enumerate(cfgs):
        mc = vlib.tlc_mc(FAMILY, "MCRoundtrip.tla", cfg, workers=8, timeout=6000, coverage=False, tag=f"c14-l1-{gi}")
        behaviours = parse_replays(mc.pop("out"))
        violated = violated or mc["violated"]
        tot["states"] += mc["states"]
        tot["generated"] += mc["generated"]
        tot["l1cases"] += len(behaviours)
        log(f"L1 NQuadsImpl {cfg}: {mc['states']} distinct states, {len(behaviours)} (format, context, literal) cases evaluated, violated={mc['violated']}")
        if not behaviours:
            raise vlib.ToolError("vacuity: L1 emitted no behaviour")
        model_fail |= {(b["f"], b["c"], tuple(b["l"])) for b in behaviours if not b["ok"]}
        cases2 = l2_cases(behaviours, with_ttl=True)
        del behaviours
        tot["l2cases"] += len(cases2)
        if sample is None:
            mid = cases2[len(cases2) // 2]
            sample = {k: mid[k] for k in ("fmt", "ctx", "lit", "cs", "mtext")}
        for part in range(0, len(cases2), PART):
            cp, tp = os.path.join(wd, f"l2cases-{gi}-{part}.ndjson"), os.path.join(wd, f"l2-{gi}-{part}.ndjson")
            vlib.write_ndjson(cp, cases2[part:part + PART])
            vlib.kverif(["c14", "--cases", cp, "--out", tp])
            evp, resp = validate(tp, f"l2-{gi}-{part}")
            for f in resp["fail"]:
                case = evp[f[1] - 2]["case"]
                failing.setdefault((case["fmt"], case["ctx"]), {})[tuple(case["cs"])] = (case, {"qtlits": evp[f[1] - 1]["qtlits"], "class": evp[f[1] - 1]["class"]}, f[2])
            drift += [[gi, part] + d for d in resp["modeldiff"]]
            tot["skipped"] += sum(1 for i in resp["info"] if len(i) > 1 and i[1] == "skipped")
            tot["trace_states"] += resp["states"]
            for e in evp:
                if e["ev"] == "reset":
                    tot["resets"] += 1
                    if any(x in special for x in e["case"]["cs"]):
                        distinct.add(vlib.case_hash(e["case"]))
                else:
                    tot["rts"] += 1
            del evp, resp
            if thorough:
                os.remove(tp)
                os.remove(cp)
        del cases2
    if not model_fail:
        raise vlib.ToolError("vacuity: no behaviour in which the model's round trip fails (quoted-triple contexts)")
    for cfg, what, cov in (("MC_noescape.cfg", "generate_ntriples without escaping", True),
                           ("MC_double.cfg", "cleaned terms interpreted twice on import", False)):
        neg = vlib.tlc_mc(FAMILY, "MCRoundtrip.tla", cfg, workers=4, coverage=cov, tag="c14-neg-" + cfg)
        if neg["violated"] != "RoundTripPlain":
            raise vlib.ToolError(f"non-vacuity check failed: the historic design ({what}) no longer violates RoundTripPlain in the model")
        if neg["uncovered"]:
            raise vlib.ToolError(f"vacuity: actions never taken in L1: {neg['uncovered']}")

    nfail2 = sum(len(v) for v in failing.values())
    code_fail = {(fc[0], fc[1], cs) for fc, v in failing.items() for cs in v if fc[0] != "ttl"}
    for (fmt, cx), v in sorted(failing.items()):
        core = cores(set(v))
        for cs in sorted(v, key=lambda c: (len(c), c)):
            case, ev, sym = v[cs]
            verdict.violation(sig_for(case, ev, sym, core[cs]), {"driver": "c14", "case": case}, f"literal classes={' '.join(cs)} ({sym})")
    pred_only = model_fail - code_fail
    code_only = code_fail - model_fail
    log(f"L2 replayed {tot['l2cases']} enumerated cases on the real code: {nfail2} violate the round trip "
        f"({len(model_fail)} predicted by the model for N-Quads / N-Triples), {len(drift)} differ from the model's text/result")

    # ---- L3
    n3 = 6000 if thorough else 330
    vlib.kverif(["c14", "--random", n3, "--seed", ctx.seed, "--maxlit", 40, "--out", os.path.join(wd, "l3.ndjson")])
    ev3, res3 = validate(os.path.join(wd, "l3.ndjson"), "l3")
    seen3 = set()
    for f in res3["fail"]:
        case = ev3[f[1] - 2]["case"]
        e = ev3[f[1] - 1]
        sig = sig_for(case, e, f[2])
        verdict.violation(sig, {"driver": "c14", "case": case}, f"missing={f[3]} extra={f[4]}")
        seen3.add(sig)
    skipped3 = sum(1 for i in res3["info"] if len(i) > 1 and i[1] == "skipped")
    log(f"L3 validated {n3} seeded random datasets: {len(res3['fail'])} rejected ({len(seen3)} signatures), {skipped3} outside the precondition")

    if violated and not (nfail2 or res3["fail"]):
        raise vlib.ToolError(f"L1 invariant {violated} violated in the model but not reproduced on the code: model out of date")
    if (drift or pred_only or code_only) and not verdict.violations:
        log(f"MODEL-DRIFT: {len(drift)} cases where exported text / re-imported quads differ from NQuadsImpl.tla "
            f"({len(code_only)} round-trip failures not predicted, {len(pred_only)} predicted but not observed); update the model; not a verdict")

    rc = verdict.finish()
    resets3 = [e for e in ev3 if e["ev"] == "reset"]
    distinct |= {vlib.case_hash(c["case"]) for c in resets3}
    cov = {
        "states": tot["states"], "transitions": tot["generated"],
        "traces_validated_against_impl": tot["resets"] + len(resets3),
        "samples": [{"case": sample},
                    {"random_dataset": next(e for e in ev3 if e["ev"] == "roundtrip")["data"][:3]}],
        "evaluations": tot["rts"] + len(resets3), "distinct_nontrivial": len(distinct),
        "rule": "one evaluation = one generate_* -> parse_* round trip of the real code judged by RoundtripTrace.tla; distinct by hash of the case; "
                "non-trivial = the literal contains at least one character outside [letter, digit] (enumerated cases) or the dataset is random (L3)",
        "exhaustive": True,
        "l1_constants": ",".join(cfgs),
        "l1_cases": tot["l1cases"], "model_predicted_failures": len(model_fail),
        "l2_cases": tot["l2cases"], "l2_roundtrip_failures": nfail2, "model_drift": len(drift) + len(code_only) + len(pred_only),
        "l3_datasets": n3, "l3_rejected": len(res3["fail"]),
        "skipped_outside_precondition": tot["skipped"] + skipped3,
        "trace_states": tot["trace_states"] + res3["states"],
    }
    vlib.write_evidence("C14", ctx.tier, ctx.seed, "model_checking", cov,
                        ["Unicode is covered by class representatives (20 character classes), not exhaustively; the letters b f u U, the characters + - ' and "
                         "\\u escapes are outside the alphabet",
                         "literals in scope: NotMistaken of Roundtrip.tla (do not start with << or _: and do not begin with a scheme followed by ':'); IRIs are drawn "
                         "from a fixed syntactically valid family",
                         "the code-shaped model covers N-Quads and N-Triples; Turtle is judged against the requirement only (L2 contexts without model, L3)",
                         "L1 is exhaustive for literals up to the MaxLen of the cfg in four single-quad contexts; longer literals and multi-quad datasets are sampled (L3)",
                         "numeric fidelity of typed literals is out of scope (datatypes are not stored)"],
                        time.time() - t0, len(verdict.violations))
    return rc
