SPECIFICATION Spec
CONSTANTS
  MaxTs = 4
  MaxLen = 3
  Widths = {1,2,3}
  Slides = {1,2,3}
  Strategies <- StratMore
  FixEvict = TRUE
INVARIANTS Emit
CHECK_DEADLOCK FALSE
