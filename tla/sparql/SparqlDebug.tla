---- MODULE SparqlDebug ----
EXTENDS SparqlTrace
DStep == LET e == Rec[l] X == Ctx(e, {}) IN
         PrintT(<<"DEBUG", e.run, Judge(e), "EXPECTED", IF HasAgg(e.q) THEN Solutions(X, e.q, ViewOf(X, e.q), "") ELSE FullPlain(X, e.q), "OBSERVED", e.rows, "COLS", e.cols>>)
DNext == l <= Len(Rec) /\ DStep /\ l' = l + 1
DSpec == Init /\ [][DNext]_l
====
