----------------------------- MODULE MCBoolFun -----------------------------
(* Edge emission for spec -> implementation replay (L2): every transition of the   *)
(* bounded BoolFunImpl model is printed once as JSON (from-state, call, to-state). *)
(* `act`, the step counter and the history variables are hidden from the           *)
(* fingerprint (VIEW), so a state is a (vars, den, caches) combination.            *)
EXTENDS BoolFunImpl, Json

VARIABLE act

A0 == [op |-> "init", v |-> 0, pos |-> 0, kind |-> 0, pol |-> 0, bop |-> "-", a |-> 0, b |-> 0,
       vs |-> {}, out |-> "ok", h |-> 0]

EInit == IInit /\ act = A0

HApply(op, x, y) == IF Key(op, x, y) \in DOMAIN acache THEN acache[Key(op, x, y)] ELSE Lookup(ApplyDen(op, x, y))
HNeg(x)          == IF x \in DOMAIN ncache THEN ncache[x] ELSE Lookup(NegDen(x))

ENext ==
  /\ Tick
  /\ \/ \E v \in VarIds, p \in PosW, k \in Kinds :
          /\ INewVar(v, p, k) /\ last' = "ok"
          /\ act' = [A0 EXCEPT !.op = "newvar", !.v = v, !.pos = p, !.kind = k]
     \/ \E out \in Outs :
          /\ last' = out
          /\ \/ \E v \in Reg, b \in {0, 1} :
                  /\ ILit(v, b, out)
                  /\ act' = [A0 EXCEPT !.op = "lit", !.v = v, !.pol = b, !.out = out, !.h = Lookup(LitDen(v, b))]
             \/ \E op \in {"and", "or"}, x \in Handles, y \in Handles :
                  /\ IApply(op, x, y, out)
                  /\ act' = [A0 EXCEPT !.op = "apply", !.bop = op, !.a = x, !.b = y, !.out = out, !.h = HApply(op, x, y)]
             \/ \E x \in Handles :
                  /\ INeg(x, out)
                  /\ act' = [A0 EXCEPT !.op = "neg", !.a = x, !.out = out, !.h = HNeg(x)]
             \/ \E S \in (SUBSET Reg) \ {{}} :
                  /\ IXOne(S, out)
                  /\ act' = [A0 EXCEPT !.op = "xone", !.vs = S, !.out = out, !.h = Lookup(XOneDen(S))]

ESpec == EInit /\ [][ENext]_<<ivars, act>>
View == <<vars, den, acache, ncache>>
ViewDen == <<vars, den>>      \* coarser: one representative cache content per meaning state

DenSeq(d)  == [i \in 1..Cardinality(DOMAIN d) |-> d[i - 1]]
StateJ(vs, d, ac, nc) == [vars |-> vs, den |-> DenSeq(d),
                          ac |-> {<<k, ac[k]>> : k \in DOMAIN ac}, nc |-> {<<k, nc[k]>> : k \in DOMAIN nc}]
Emit == PrintT(<<"REPLAY", ToJson([from |-> StateJ(vars, den, acache, ncache), act |-> act',
                                   to |-> StateJ(vars', den', acache', ncache')])>>)
=============================================================================
