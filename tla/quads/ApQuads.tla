------------------------------- MODULE ApQuads -------------------------------
(***************************************************************************)
(* Apalache instance of the requirement module Quads.tla: the invariant    *)
(* TypeOK /\ CatalogCovers ("content implies identity": every named graph  *)
(* that holds a quad is in the catalog) is INDUCTIVE - it holds initially  *)
(* and every action of the store API preserves it from ANY state that      *)
(* satisfies it, for term and graph identifiers that are arbitrary         *)
(* integers (TLC checks the same invariant, and the refinement by the      *)
(* code-shaped QuadsImpl.tla, only for a universe of a handful of          *)
(* identifiers).  Sets are bounded in cardinality by Gen(n), not in value. *)
(*   apalache-mc check --cinit=ConstInit --init=Init    --inv=IndInv --length=0 ApQuads.tla *)
(*   apalache-mc check --cinit=ConstInit --init=IndInit --inv=IndInv --length=1 ApQuads.tla *)
(***************************************************************************)
EXTENDS Integers, FiniteSets, Apalache

CONSTANTS
  \* @type: Set(Int);
  Subj,
  \* @type: Set(Int);
  Pred,
  \* @type: Set(Int);
  Obj,
  \* @type: Set(Int);
  Named

VARIABLES
  \* @type: Set(<<Int, Int, Int, Int>>);
  quads,
  \* @type: Set(Int);
  catalog

Q == INSTANCE Quads

ConstInit ==
  /\ Subj = Gen(3) /\ Pred = Gen(3) /\ Obj = Gen(3) /\ Named = Gen(3)
  /\ \A x \in Subj \cup Pred \cup Obj \cup Named : x > 0

Init == Q!Init
Next == Q!Next
\* negative control: a DROP that forgets the graph's identity but keeps its quads must break the invariant
\* (apalache-mc check --next=NextBroken ... reports an error)
NextBroken == \E g \in Named : quads' = quads /\ catalog' = catalog \ {g}
IndInv == Q!TypeOK /\ Q!CatalogCovers
\* any state that satisfies the invariant (up to 5 quads, 3 catalogued graphs)
IndInit == quads = Gen(5) /\ catalog = Gen(3) /\ IndInv
=============================================================================
