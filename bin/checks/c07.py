"""C07 - decision-diagram operations are exact, canonical and interruption-safe.

L1  tla/boolfun/BoolFunImpl.tla (unique table, apply/negate caches filled after success, variable
    introduction between operations, budget exhaustion at any call) refines tla/boolfun/BoolFun.tla;
    invariants Canonical, ConstantsFixed, CacheSound, ExhaustionPreserves and the laws tying the
    oracle definitions Wmc/Grad/Models together.  Negative control: cache filled on failure.
L2  every transition of the bounded model is printed by TLC (MCBoolFun.tla); walks covering every
    edge are executed on a real SddManager (exhaustion forced with the deadline closure / node
    limit) and the recording is validated.
L3  recordings of the real SddManager validated by BoolFunTrace.tla (TLC computes every truth
    table, model completion, WMC and gradient):
    (a) exhaustive operand pairs: all functions over 2 variables (quick) / 3 variables (thorough)
        built from minterms, maxterms and negation in different introduction orders, then all pairs;
    (b) seeded random operation sequences over <= 8 variables, variables introduced in between;
    (c) fault enumeration: per operation of a sequence the number N of deadline checkpoints and A of
        allocations is measured budget-free, then the budgeted twin is run with the deadline expiring
        at checkpoint k for every k <= N and node limits current..current+A; after exhaustion every
        handle is probed and the sequence continues on the same manager.
"""
import collections
import concurrent.futures
import itertools
import json
import os
import subprocess
import time
import vlib
from vlib import log

FAMILY = "boolfun"
PROP = "C07"


def sig_for(run_events, fail):
    """site | trigger class | symptom.  fail = [run, line, symptom, site] printed by the trace spec."""
    sym, site = fail[2], fail[3]
    upto = fail[1]
    exhausted = any(e.get("ev") == "op" and e.get("res") in ("deadline", "nodes")
                    for e in run_events if e.get("_line", 0) < upto)
    if sym == "wmc":
        site_s = "SddManager::wmc"
    elif sym == "gradient":
        site_s = "diff_sdd::wmc_gradient"
    elif site == "probe":
        site_s = "SddManager::enumerate_models(handed-out handle)"
    elif site == "process":
        site_s = "SddManager(process killed inside a call: stack overflow or abort)"
    else:
        site_s = "SddManager::" + site
    trig = "after-exhaustion" if exhausted else "no-exhaustion-before"
    return f"{site_s}|{trig}|{sym}"


# --------------------------------------------------------------------------- trace handling

CASES = {}      # run id -> (trace file, byte offset of its reset event); the case object is read back on demand


def get_case(run):
    path, off = CASES[run]
    with open(path, "rb") as f:
        f.seek(off)
        return json.loads(f.readline())["case"]


def split_trace(path, parts, wd, tag):
    """Split a trace at run boundaries into <= parts files of similar size.  The case object of every
    reset event (only needed for replay) is left out of the files TLC parses."""
    lines, starts, off = [], [], 0
    with open(path, "rb") as f:
        for raw in f:
            # serde_json writes keys alphabetically: only reset events start with the case object
            if raw.startswith(b'{"case"'):
                run = json.loads(raw)["run"]
                CASES[run] = (path, off)
                starts.append(len(lines))
                lines.append(json.dumps({"ev": "reset", "run": run}) + "\n")
            else:
                lines.append(raw.decode())
            off += len(raw)
    if not starts:
        return []
    target = max(1, len(lines) // parts)
    files, begin = [], 0
    bounds = []
    for s in starts[1:] + [len(lines)]:
        if s - begin >= target or s == len(lines):
            bounds.append((begin, s))
            begin = s
    for n, (a, b) in enumerate(bounds):
        p = os.path.join(wd, f"{tag}.{n}.ndjson")
        with open(p, "w") as f:
            f.writelines(lines[a:b])
        files.append(p)
    return files


def load_runs(path):
    runs, cur = {}, None
    with open(path) as f:
        for n, l in enumerate(f, 1):
            e = json.loads(l)
            e["_line"] = n
            if e["ev"] == "reset":
                cur = e["run"]
                runs[cur] = []
            runs[cur].append(e)
    return runs


class Acc:
    """Measured counts over everything validated in this check run."""

    def __init__(self):
        self.runs = 0
        self.events = 0
        self.ops = self.exh = self.probes = self.wmc = self.skip = self.newh = self.wmcx = 0
        self.by_vars = collections.Counter()
        self.distinct = set()
        self.try_res = collections.Counter()
        self.states = 0
        self.failed_runs = 0
        self.samples = []
        self.fault_points = 0
        self.families = collections.Counter()


def descriptor(e):
    return vlib.case_hash(sorted(json.dumps(m) for m in e["models"]))


def account(acc, runs, infos, fam):
    """distinct / non-trivial operations, measured from the recorded events only."""
    for i in infos:
        acc.ops += i[1]; acc.exh += i[2]; acc.probes += i[3]; acc.wmc += i[4]; acc.skip += i[5]; acc.newh += i[6]
        acc.by_vars[i[7]] += 1
        acc.wmcx += i[8]
    for ev in runs.values():
        acc.runs += 1
        acc.families[fam] += 1
        desc = {0: "F", 1: "T"}
        reg = []
        for e in ev[1:]:
            acc.events += 1
            if e["ev"] == "newvar":
                reg = [r for r in reg if r[0] != e["v"]] + [(e["v"], e["pos"], e["kind"])]
            elif e["ev"] == "op":
                if e["try"]:
                    acc.try_res[e["res"]] += 1
                if e["res"] == "ok":
                    desc.setdefault(e["ret"], descriptor(e))
                if e["res"] in ("deadline", "nodes") or (e["res"] == "ok" and e["ret"] > 1):
                    acc.distinct.add(vlib.case_hash([reg, e["op"], e["bop"], desc.get(e["a"]), desc.get(e["b"]), e["v"], e["pol"],
                                                     e["vs"], e["try"], e["k"], e["nb"], e["res"]]))


def validate_files(files, verdict, acc, tag, fam, par=6):
    """Validate trace files in parallel TLC processes; classify every rejected run."""
    def one(args):
        n, p = args
        return p, vlib.tlc_trace(FAMILY, "BoolFunTrace.tla", "BoolFunTrace.cfg", p, tag=f"c07-{tag}-{n}", heap="3g", timeout=3000)
    nfail = 0
    with concurrent.futures.ThreadPoolExecutor(max_workers=par) as ex:
        results = list(ex.map(one, enumerate(files)))
    for p, res in results:
        runs = load_runs(p)
        acc.states += res["states"]
        failed = {}
        for f in res["fail"]:
            failed.setdefault(f[0], f)
        for rid, f in sorted(failed.items()):
            ev = runs[rid]
            nfail += 1
            bad_ev = next((e for e in ev if e["_line"] == f[1]), {})
            verdict.violation(sig_for(ev, f), {"driver": "c07", "case": get_case(rid), "failing_event": {k: v for k, v in bad_ev.items() if k != "_line"},
                                               "symptom": f[2], "site": f[3]}, detail=f"(run {rid}, event {f[1]} of {os.path.basename(p)})")
        infos = [i for i in res["info"] if i[0] not in failed]
        account(acc, {r: ev for r, ev in runs.items() if r not in failed}, infos, fam)
        if not acc.samples or (fam not in [s["family"] for s in acc.samples] and len(acc.samples) < 5):
            r0 = runs[sorted(runs)[0]]
            strip = lambda e: {k: v for k, v in e.items() if k not in ("_line", "case")}
            case = get_case(r0[0]["run"])
            if case.get("kind") == "seq" and len(case.get("ops", [])) > 12:
                case = dict(case, ops=case["ops"][:12] + ["..."])
            acc.samples.append({"family": fam, "case": case, "first_events": [strip(e) for e in r0[1:6]]})
    acc.failed_runs += nfail
    return nfail


def record(wd, name, args):
    """Run the driver.  If the code under test kills the process (stack overflow / abort - cannot be caught in
    Rust) the events written so far are kept, the unfinished run is closed with a `crash` event (data for the
    trace specification, like a panic) and the driver is restarted behind the fatal case."""
    out = os.path.join(wd, name + ".ndjson")
    skip, crashes, chunks = 0, 0, []
    while True:
        part = out + f".part{len(chunks)}"
        cmd = [vlib.KVERIF, "c07"] + [str(a) for a in args] + ["--skip", str(skip), "--out", part]
        p = subprocess.run(cmd, stdout=subprocess.PIPE, stderr=subprocess.STDOUT, text=True, timeout=3600)
        chunks.append(part)
        if p.returncode == 0:
            break
        if p.returncode > 0 or crashes >= 40:
            log(p.stdout[-3000:])
            raise vlib.ToolError(f"harness driver failed: kverif c07 {' '.join(map(str, args[:4]))} (rc={p.returncode})")
        # killed by a signal: close the unfinished run
        crashes += 1
        with open(part) as f:
            lines = [l for l in f.read().split("\n") if l.strip()]
        try:
            json.loads(lines[-1])
        except (ValueError, IndexError):
            lines = lines[:-1]      # partially written last line
        resets = [i for i, l in enumerate(lines) if l.startswith('{"case"')]
        if not resets:
            raise vlib.ToolError("harness driver died before the first run")
        done = sum(1 for l in lines if l.startswith('{"ev":"end"'))
        run = json.loads(lines[resets[-1]])["run"]
        lines.append(json.dumps({"ev": "crash", "run": run, "rc": p.returncode, "msg": p.stdout[-200:]}))
        lines.append(json.dumps({"ev": "end", "run": run, "exhausted": 0, "nodes": 0}))
        with open(part, "w") as f:
            f.write("\n".join(lines) + "\n")
        skip += done + 1
    with open(out, "w") as o:
        for c in chunks:
            with open(c) as f:
                o.write(f.read())
            os.remove(c)
    if crashes:
        log(f"  driver process killed {crashes} time(s) by the code under test while recording {name} (recorded as crash events)")
    return out


# --------------------------------------------------------------------------- L2: edge cover

def edge_cover(edges, maxwalk):
    """Greedy walks from the initial state covering every printed transition at least once."""
    key = lambda st: json.dumps([st["vars"], st["den"]], sort_keys=True)
    out = collections.defaultdict(list)
    for e in edges:
        out[key(e["from"])].append((e["act"], key(e["to"])))
    init = key({"vars": [], "den": [[], [0]]})
    todo = {k: list(range(len(v))) for k, v in out.items()}
    remaining = sum(len(v) for v in todo.values())
    walks, cur_walk, cur = [], [], init

    def path_to_work(src):
        prev = {src: None}
        dq = collections.deque([src])
        while dq:
            x = dq.popleft()
            if todo.get(x):
                path = []
                while prev[x] is not None:
                    px, act = prev[x]
                    path.append((act, x))
                    x = px
                return list(reversed(path))
            for act, y in out.get(x, []):
                if y not in prev:
                    prev[y] = (x, act)
                    dq.append(y)
        return None

    while remaining:
        if len(cur_walk) >= maxwalk:
            walks.append(cur_walk)
            cur_walk, cur = [], init
        if todo.get(cur):
            i = todo[cur].pop()
            act, nxt = out[cur][i]
            cur_walk.append(act)
            cur = nxt
            remaining -= 1
        else:
            p = path_to_work(cur)
            if p is None:
                walks.append(cur_walk)
                cur_walk, cur = [], init
                p = path_to_work(cur)
                if p is None:
                    break
            for act, nxt in p:
                cur_walk.append(act)
                cur = nxt
    if cur_walk:
        walks.append(cur_walk)
    return walks


def walk_to_case(walk):
    """Model calls (operands = model handles) -> driver operations (operands = result slots)."""
    slot_of = {0: 0, 1: 1}
    nslots = 2
    ops = []
    for a in walk:
        if a["op"] == "newvar":
            ops.append({"op": "newvar", "v": a["v"], "pos": a["pos"], "kind": a["kind"]})
            continue
        if a["op"] == "lit":
            o = {"op": "lit", "v": a["v"], "pol": a["pol"]}
        elif a["op"] == "apply":
            o = {"op": "apply", "bop": a["bop"], "a": slot_of[a["a"]], "b": slot_of[a["b"]]}
        elif a["op"] == "neg":
            o = {"op": "neg", "a": slot_of[a["a"]]}
        else:
            o = {"op": "xone", "vs": a["vs"]}
        # the model leaves the interruption point open: try every one, k (resp. node limit) = 1, 2, .. until success
        if a["out"] == "deadline":
            o["fault"] = {"ladder": "k"}
        elif a["out"] == "nodes":
            o["fault"] = {"ladder": "nb"}
        ops.append(o)
        if a["out"] == "ok":
            slot_of.setdefault(a["h"], nslots)
        nslots += 1
    return {"kind": "seq", "ops": ops, "final_probe": 1}


# --------------------------------------------------------------------------- L3 (a): operand pairs

def pair_cases(thorough, seed):
    cases = []
    # all functions over 2 variables, all 16x16x2 pairs, every introduction order / late variable / second construction
    for order, late, alt, pos, grp in [([0, 1], 0, 1, [1, 3], [0, 0]), ([1, 0], 1, 2, [2, 1], [0, 0]), ([5, 2], 0, 0, [3, 3], [0, 0]),
                                       ([0, 1], 1, 1, [4, 0], [0, 0]), ([3, 7], 0, 2, [1, 3], [1, 1]), ([1, 0], 0, 1, [2, 2], [0, 2])]:
        cases.append({"kind": "pairs", "order": order, "late": late, "alt": alt, "pos": pos, "group": grp,
                      "via": "try" if len(cases) % 2 else "plain", "final_probe": 1})
    perms = list(itertools.permutations([0, 1, 2]))
    if thorough:
        total = 256 * 256 * 2
        chunks = 16
        step = total // chunks
        for via in ("plain", "try"):
            for i in range(chunks):
                j = i + (5 if via == "try" else 0)
                p = perms[j % 6]
                ids = [[0, 1, 2], [4, 1, 6], [7, 3, 5]][j % 3]
                cases.append({"kind": "pairs", "order": [ids[p[0]], ids[p[1]], ids[p[2]]],
                              "late": j % 3, "alt": j % 3, "pos": [[1, 2, 3], [2, 2, 2], [3, 0, 1], [4, 1, 2]][j % 4],
                              "group": [0, 0, 0] if j % 5 else [1, 1, 0], "via": via,
                              "lo": i * step, "hi": (i + 1) * step, "final_probe": 1})
    else:
        for i in range(2):
            p = perms[(seed + 3 * i) % 6]
            cases.append({"kind": "pairs", "order": [p[0], p[1], p[2]], "late": i + 1, "alt": i, "pos": [1, 2, 3],
                          "group": [0, 0, 0], "via": ["plain", "try"][i], "sample": 2500, "seed": seed * 10 + i, "final_probe": 1})
    return cases


# --------------------------------------------------------------------------- run

def run(ctx):
    t0 = time.time()
    verdict = vlib.Verdict(PROP, ctx.seed, ctx.tier)
    wd = vlib.workdir("c07")
    acc = Acc()
    if ctx.replay:
        case = json.load(open(ctx.replay))["case"]["case"]
        vlib.write_ndjson(os.path.join(wd, "cases.ndjson"), [case])
        out = record(wd, "replay", ["--cases", os.path.join(wd, "cases.ndjson")])
        validate_files(split_trace(out, 1, wd, "replay"), verdict, acc, "replay", "replay")
        return verdict.finish()

    thorough = ctx.tier == "thorough"
    pool = concurrent.futures.ThreadPoolExecutor(max_workers=2)
    # L1 runs beside the recordings (TLC on 6 workers)
    l1 = pool.submit(vlib.tlc_mc, FAMILY, "BoolFunImpl.tla", "MC_thorough.cfg" if thorough else "MC_quick.cfg", 6, 3000)
    l1neg = pool.submit(vlib.tlc_mc, FAMILY, "BoolFunImpl.tla", "MC_neg.cfg", 2, 600, False, "c07-neg")

    # L2: every transition of the bounded model on the real manager
    edges, st = vlib.tlc_emit(FAMILY, "MCBoolFun.tla", "MC_emit_thorough.cfg" if thorough else "MC_emit_quick.cfg", workers=4, tag="c07-emit")
    walks = edge_cover(edges, 400)
    vlib.write_ndjson(os.path.join(wd, "l2cases.ndjson"), [walk_to_case(w) for w in walks])
    t = record(wd, "l2", ["--cases", os.path.join(wd, "l2cases.ndjson")])
    f2 = validate_files(split_trace(t, 4 if thorough else 2, wd, "l2"), verdict, acc, "l2", "L2 edge cover")
    l2_steps = acc.ops + acc.exh
    log(f"L2 edge cover: {len(edges)} model transitions, {len(walks)} walks, {l2_steps} operations replayed on the real manager, {f2} runs rejected")

    # L3 (a) operand pairs
    pc = pair_cases(thorough, ctx.seed)
    files = []
    for n, c in enumerate(pc):
        cf = os.path.join(wd, f"pairs{n}.case")
        vlib.write_ndjson(cf, [c])
        files += split_trace(record(wd, f"pairs{n}", ["--cases", cf, "--firstrun", 1000 + n]), 1, wd, f"pairs{n}")
    ops0 = acc.ops
    fa = validate_files(files, verdict, acc, "pairs", "L3a operand pairs", par=8)
    log(f"L3a operand pairs: {len(pc)} managers, {acc.ops - ops0} operations "
        f"({'all 256x256x2 pairs over 3 variables, through apply and through try_apply' if thorough else 'all 16x16x2 pairs over 2 variables + 5000 sampled 3-variable pairs'}), {fa} rejected")

    # L3 (b) random sequences (with sprinkled budgets / ladders) and budget-free ones
    nb_, ops_ = (2000, 40) if thorough else (45, 22)
    ops0 = acc.ops
    t1 = record(wd, "seq", ["--random", nb_, "--seed", ctx.seed, "--family", "seq", "--maxvars", 8, "--ops", ops_, "--firstrun", 10000])
    t2 = record(wd, "plain", ["--random", nb_ // 2, "--seed", ctx.seed + 77, "--family", "plain", "--maxvars", 8, "--ops", ops_, "--firstrun", 100000])
    t3 = record(wd, "ladder", ["--random", nb_ // 3, "--seed", ctx.seed + 99, "--family", "ladder", "--maxvars", 7, "--ops", ops_ // 2, "--firstrun", 200000])
    parts = 12 if thorough else 3
    fb = validate_files(split_trace(t1, parts, wd, "seq") + split_trace(t2, parts, wd, "plain") + split_trace(t3, parts, wd, "ladder"),
                        verdict, acc, "seq", "L3b random sequences", par=8)
    log(f"L3b random sequences: {nb_} + {nb_ // 2} + {nb_ // 3} runs, {acc.ops - ops0} operations, {fb} rejected")

    # L3 (c) fault enumeration
    nf, fops, cap, mv = (70, 12, 1500, 6) if thorough else (5, 8, 160, 5)
    runs0, exh0 = acc.runs, acc.exh
    t4 = record(wd, "fault", ["--random", nf, "--seed", ctx.seed + 5, "--family", "fault", "--maxvars", mv, "--ops", fops, "--cap", cap, "--firstrun", 1000000])
    fc = validate_files(split_trace(t4, 14 if thorough else 4, wd, "fault"), verdict, acc, "fault", "L3c fault enumeration", par=8)
    acc.fault_points = acc.runs - runs0 - nf
    log(f"L3c fault enumeration: {nf} base sequences, {acc.fault_points} interruption points "
        f"(every checkpoint k <= N and node limit of every operation; sequences with more than {cap} points: {cap} sampled), "
        f"{acc.exh - exh0} exhaustions followed by continued use, {fc} rejected")

    mc = l1.result()
    neg = l1neg.result()
    log(f"L1 BoolFunImpl refines BoolFun: {mc['states']} distinct states ({mc['generated']} transitions), violated={mc['violated']}")
    if mc["uncovered"]:
        raise vlib.ToolError(f"vacuity: actions never taken in L1: {mc['uncovered']}")
    if neg["violated"] != "CacheSound":
        raise vlib.ToolError("non-vacuity check failed: filling the cache on failure no longer violates CacheSound in the model")
    if mc["violated"] and not verdict.violations and not verdict.known_hits:
        raise vlib.ToolError(f"L1 {mc['violated']} violated in the model but not reproduced on the code: model out of date")
    if acc.exh == 0 or acc.wmc == 0 or acc.wmcx == 0 or acc.try_res["ok"] == 0:
        raise vlib.ToolError("vacuity: no exhaustion / no WMC comparison (independent and exclusive) / no successful budgeted call was recorded")

    rc = verdict.finish()
    cov = {
        "states": mc["states"], "transitions": mc["generated"],
        "traces_validated_against_impl": acc.runs,
        "samples": acc.samples,
        "evaluations": acc.ops + acc.exh + acc.probes,
        "distinct_nontrivial": len(acc.distinct),
        "rule": "one evaluation = one recorded call (operation, exhausted budgeted attempt, or probe of a handed-out handle) judged by TLC: "
                "truth table of the formula vs completions of enumerate_models, handle identity (canonicity), WMC and gradient sums. "
                "distinct_nontrivial counts operation events only: distinct by hash of (registered variables with weights, operation, "
                "operands identified by their recorded model lists, budget k/nb, outcome); non-trivial = result is not a constant, or exhaustion",
        "exhaustive": True,
        "l1_constants": "MC_thorough.cfg" if thorough else "MC_quick.cfg",
        "l2_model_edges": len(edges), "l2_walks": len(walks), "l2_operations": l2_steps,
        "operations_validated": acc.ops, "exhaustions_validated": acc.exh, "handle_probes_validated": acc.probes,
        "new_handles": acc.newh, "wmc_gradient_comparisons": acc.wmc, "of_which_with_exclusive_groups": acc.wmcx, "wmc_skipped_precondition": acc.skip,
        "budgeted_calls": dict(acc.try_res), "fault_points": acc.fault_points,
        "runs_by_family": dict(acc.families), "runs_by_variable_count": {str(k): v for k, v in sorted(acc.by_vars.items())},
        "runs_rejected": acc.failed_runs, "trace_states": acc.states,
    }
    vlib.write_evidence(PROP, ctx.tier, ctx.seed, "model_checking", cov,
                        ["weights are multiples of 1/4 (independent: neg = 1 - pos; exclusive member: neg = 1), so WMC * 4^n is an exact integer; "
                         "the harness rounds and flags any value further than 1e-6 from an integer; accuracy on arbitrary reals is not claimed",
                         "WMC/gradient are compared only where meaningful (TLA+ predicate WmcMeaningful): the function implies exactly-one of every "
                         "registered exclusive group; other events are counted in wmc_skipped_precondition",
                         "denotation of a diagram is observed through enumerate_models (completions must partition the truth table), WMC and gradient; "
                         "handle identity through SddId equality (numbered by first appearance)",
                         "exhaustive only for the pairs over 2 (quick) / 3 (thorough) variables and the bounded L1/L2 model; <= 8 variables otherwise (seeded samples)",
                         "interruption points: the k-th call of the caller-supplied deadline closure and the node limit; HashMap iteration order inside compress "
                         "varies between process runs, so N is measured per sequence and k ranges over the measured N",
                         "variables are registered before use (the API's stated precondition); exactly_one gets distinct variables"],
                        time.time() - t0, len(verdict.violations))
    return rc
