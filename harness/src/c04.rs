//! C04 driver: executes store histories on a real DatasetIndex and on a SparqlDatabase and
//! records, after every call, the return value, the full quad snapshot, the graph listing and
//! a selection of read calls over every lookup shape.
//!
//! Abstract terms are small positive integers; graph 0 is the default graph.
use crate::util::*;
use kolibrie::sparql_database::SparqlDatabase;
use serde_json::{json, Value};
use shared::dataset_index::{DatasetIndex, GraphId, Quad};
use shared::triple::Triple;
use std::collections::HashSet;

#[derive(Clone)]
struct Universe {
    s: Vec<u32>,
    p: Vec<u32>,
    o: Vec<u32>,
    g: Vec<u32>, // named graphs
}

enum Target {
    Index(DatasetIndex),
    Db(SparqlDatabase),
}

fn term_str(n: u32) -> String { format!("http://e/t{n}") }
fn graph_str(n: u32) -> String { format!("http://e/g{n}") }

impl Target {
    fn enc(&mut self, n: u32) -> u32 {
        match self {
            Target::Index(_) => n,
            Target::Db(db) => db.dictionary.write().unwrap().encode(&term_str(n)),
        }
    }
    fn enc_g(&mut self, g: u32) -> GraphId {
        if g == 0 { return GraphId::Default; }
        match self {
            Target::Index(_) => GraphId::Named(g),
            Target::Db(db) => GraphId::Named(db.dictionary.write().unwrap().encode(&graph_str(g))),
        }
    }
    fn dec(&self, id: u32) -> u32 {
        match self {
            Target::Index(_) => id,
            Target::Db(db) => {
                let s = db.decode_any(id).unwrap_or_default();
                s.rsplit(|c| c == 't' || c == 'g').next().and_then(|x| x.parse().ok()).unwrap_or(9999)
            }
        }
    }
    fn dec_g(&self, g: GraphId) -> u32 {
        match g { GraphId::Default => 0, GraphId::Named(id) => self.dec(id) }
    }
    fn idx(&self) -> &DatasetIndex {
        match self { Target::Index(i) => i, Target::Db(db) => &db.dataset_index }
    }
    fn idx_mut(&mut self) -> &mut DatasetIndex {
        match self { Target::Index(i) => i, Target::Db(db) => &mut db.dataset_index }
    }
    fn quad(&mut self, q: &[u32; 4]) -> Quad {
        Quad { subject: self.enc(q[0]), predicate: self.enc(q[1]), object: self.enc(q[2]), graph: self.enc_g(q[3]) }
    }
    fn qjson(&self, q: &Quad) -> Value {
        json!([self.dec(q.subject), self.dec(q.predicate), self.dec(q.object), self.dec_g(q.graph)])
    }
    fn tjson(&self, t: &Triple) -> Value {
        json!([self.dec(t.subject), self.dec(t.predicate), self.dec(t.object)])
    }
}

fn b(x: bool) -> &'static str { if x { "t" } else { "f" } }

/// Apply one abstract operation through the target's API; `variant` selects among equivalent entry points.
fn apply(t: &mut Target, op: &str, q: &[u32; 4], g: u32, variant: u64) -> &'static str {
    match op {
        "insert" => {
            let is_db = matches!(t, Target::Db(_));
            if is_db && variant % 2 == 0 {
                if let Target::Db(db) = t {
                    if q[3] == 0 {
                        db.add_triple_parts(&term_str(q[0]), &term_str(q[1]), &term_str(q[2]));
                        return "-";
                    } else {
                        return b(db.add_quad_parts(&term_str(q[0]), &term_str(q[1]), &term_str(q[2]), &graph_str(q[3])));
                    }
                }
                unreachable!()
            }
            let quad = t.quad(q);
            match t {
                Target::Db(db) => b(db.add_quad(quad)),
                Target::Index(i) => {
                    if q[3] == 0 && variant % 3 == 0 { b(i.insert_triple(&quad.triple())) }
                    else if q[3] == 0 && variant % 3 == 1 { b(i.insert(&quad.triple())) }
                    else { b(i.insert_quad(&quad)) }
                }
            }
        }
        "delete" => {
            let is_db = matches!(t, Target::Db(_));
            if is_db && q[3] == 0 && variant % 2 == 0 {
                if let Target::Db(db) = t {
                    return b(db.delete_triple_parts(&term_str(q[0]), &term_str(q[1]), &term_str(q[2])));
                }
            }
            let quad = t.quad(q);
            match t {
                Target::Db(db) => {
                    if q[3] == 0 && variant % 3 == 1 { b(db.delete_triple(&quad.triple())) } else { b(db.delete_quad(&quad)) }
                }
                Target::Index(i) => {
                    if q[3] == 0 && variant % 3 == 0 { b(i.delete_triple(&quad.triple())) }
                    else if q[3] == 0 && variant % 3 == 1 { b(i.delete(&quad.triple())) }
                    else { b(i.delete_quad(&quad)) }
                }
            }
        }
        "create" => { let gg = t.enc_g(g); b(t.idx_mut().create_graph(gg)) }
        "clearg" => { let gg = t.enc_g(g); t.idx_mut().clear_graph(gg); "-" }
        "drop" => { let gg = t.enc_g(g); b(t.idx_mut().drop_graph(gg)) }
        "clear" => { t.idx_mut().clear(); "-" }
        "rebuild" => {
            match t {
                Target::Db(db) => db.build_all_indexes(),
                Target::Index(i) => { let c = i.clone(); *i = c; }
            }
            "-"
        }
        _ => panic!("unknown op {op}"),
    }
}

fn opt(t: &mut Target, n: u32) -> Option<u32> { if n == 0 { None } else { Some(t.enc(n)) } }

/// One randomly chosen read call, logged with its result.
fn read(t: &mut Target, u: &Universe, rng: &mut Rng) -> Value {
    let pick0 = |v: &Vec<u32>, rng: &mut Rng| -> u32 { if rng.chance(2, 5) { 0 } else { *rng.pick(v) } };
    let (s, p, o) = (pick0(&u.s, rng), pick0(&u.p, rng), pick0(&u.o, rng));
    let g = if rng.chance(1, 3) { 0 } else { *rng.pick(&u.g) };
    let (so, po, oo) = (opt(t, s), opt(t, p), opt(t, o));
    let is_db = matches!(t, Target::Db(_));
    match rng.below(if is_db { 11 } else { 9 }) {
        0 | 1 => {
            let gg = t.enc_g(g);
            let r = t.idx().query_graph(gg, so, po, oo);
            json!({"k":"qg","a":[g,s,p,o],"r":r.iter().map(|q| t.qjson(q)).collect::<Vec<_>>()})
        }
        2 => {
            // visible: None or a random subset of the named graphs
            if rng.chance(1, 3) {
                let r = t.idx().query_named_graphs(so, po, oo, None);
                json!({"k":"qn","a":[s,p,o],"vis":[0],"r":r.iter().map(|q| t.qjson(q)).collect::<Vec<_>>()})
            } else {
                let vis: Vec<u32> = u.g.iter().copied().filter(|_| rng.chance(1, 2)).collect();
                let set: HashSet<GraphId> = vis.iter().map(|g| t.enc_g(*g)).collect();
                let r = t.idx().query_named_graphs(so, po, oo, Some(&set));
                json!({"k":"qn","a":[s,p,o],"vis":vis,"r":r.iter().map(|q| t.qjson(q)).collect::<Vec<_>>()})
            }
        }
        3 => {
            if rng.chance(1, 2) {
                let r = t.idx().query_quads(so, po, oo, None);
                json!({"k":"qq","a":[s,p,o],"r":r.iter().map(|q| t.qjson(q)).collect::<Vec<_>>()})
            } else {
                let gg = t.enc_g(g);
                let r = t.idx().query_quads(so, po, oo, Some(gg));
                json!({"k":"qg","a":[g,s,p,o],"r":r.iter().map(|q| t.qjson(q)).collect::<Vec<_>>()})
            }
        }
        4 => {
            let mut srcs: Vec<u32> = u.g.iter().copied().filter(|_| rng.chance(1, 2)).collect();
            if rng.chance(1, 2) { srcs.push(0); }
            let ids: Vec<GraphId> = srcs.iter().map(|g| t.enc_g(*g)).collect();
            let r = t.idx().query_merged_graphs(&ids, so, po, oo);
            json!({"k":"qm","a":[s,p,o],"srcs":srcs,"r":r.iter().map(|x| t.tjson(x)).collect::<Vec<_>>()})
        }
        5 => {
            let q = [*rng.pick(&u.s), *rng.pick(&u.p), *rng.pick(&u.o), g];
            let quad = t.quad(&q);
            json!({"k":"has","a":q,"b":b(t.idx().contains_quad(&quad))})
        }
        6 => {
            let q = [*rng.pick(&u.s), *rng.pick(&u.p), *rng.pick(&u.o), 0];
            let quad = t.quad(&q);
            let r = t.idx().graphs_for_triple(&quad.triple());
            json!({"k":"gft","a":[q[0],q[1],q[2]],"r":r.iter().map(|g| t.dec_g(*g)).collect::<Vec<_>>()})
        }
        7 => {
            let gg = t.enc_g(g);
            if g == 0 && rng.chance(1, 2) { json!({"k":"len","a":[0],"n":t.idx().len_default()}) }
            else { json!({"k":"len","a":[g],"n":t.idx().len_graph(gg)}) }
        }
        8 => { let gg = t.enc_g(g); json!({"k":"ex","a":[g],"b":b(t.idx().graph_exists(gg))}) }
        9 => {
            // default-graph reads through SparqlDatabase / legacy entry points
            let r = if let Target::Db(db) = t { db.query_default_triples(so, po, oo) } else { unreachable!() };
            json!({"k":"qg","a":[0,s,p,o],"r":r.iter().map(|x| { let mut v = t.tjson(x); v.as_array_mut().unwrap().push(json!(0)); v }).collect::<Vec<_>>()})
        }
        _ => {
            // QueryBuilder exact filters over the default graph
            let r = if let Target::Db(db) = t {
                let mut qb = db.query();
                if s != 0 { qb = qb.with_subject(&term_str(s)); }
                if p != 0 { qb = qb.with_predicate(&term_str(p)); }
                if o != 0 { qb = qb.with_object(&term_str(o)); }
                qb.get_triples()
            } else { unreachable!() };
            json!({"k":"qg","a":[0,s,p,o],"r":r.iter().map(|x| { let mut v = t.tjson(x); v.as_array_mut().unwrap().push(json!(0)); v }).collect::<Vec<_>>()})
        }
    }
}

fn rawg(g: GraphId) -> u64 { match g { GraphId::Default => 0, GraphId::Named(n) => n as u64 + 1 } }

fn observe(t: &mut Target, u: &Universe, rng: &mut Rng, nreads: u64) -> (Value, Value, Value, Value, Value) {
    let snapshot = t.idx().all_quads();
    let all: Vec<Value> = snapshot.iter().map(|q| t.qjson(q)).collect();
    // raw identifiers, in the order returned: the sortedness claim of all_quads()/graphs() is about these
    let allraw: Vec<Value> = snapshot.iter().map(|q| json!([q.subject, q.predicate, q.object, rawg(q.graph)])).collect();
    let glist = t.idx().graphs();
    let graphs: Vec<u32> = glist.iter().map(|g| t.dec_g(*g)).collect();
    let graphsraw: Vec<u64> = glist.iter().map(|g| rawg(*g)).collect();
    let mut reads = Vec::new();
    // named_graphs() is checked through graphs(); the sampled reads cover the lookup shapes
    for _ in 0..nreads { reads.push(read(t, u, rng)); }
    (json!(all), json!(graphs), json!(reads), json!(allraw), json!(graphsraw))
}

fn parse_op(v: &Value) -> (String, [u32; 4], u32) {
    let op = v["op"].as_str().unwrap().to_string();
    let mut q = [0u32; 4];
    if let Some(a) = v.get("q").and_then(|x| x.as_array()) {
        for i in 0..4 { q[i] = a[i].as_u64().unwrap() as u32; }
    }
    let g = v.get("g").and_then(|x| x.as_u64()).unwrap_or(0) as u32;
    (op, q, g)
}

fn universe_of(case: &Value) -> Universe {
    let f = |k: &str| -> Vec<u32> { case["u"][k].as_array().unwrap().iter().map(|x| x.as_u64().unwrap() as u32).collect() };
    Universe { s: f("s"), p: f("p"), o: f("o"), g: f("g") }
}

/// case: {"target":"index"|"db","u":{"s":[..],"p":[..],"o":[..],"g":[..]},"ops":[{"op":..,"q":[..]|"g":n}..],"seed":n,"reads":k}
fn run_case(out: &mut Out, run: &mut u64, case: &Value) {
    *run += 1;
    let u = universe_of(case);
    let target = case["target"].as_str().unwrap_or("index");
    let mut rng = Rng::new(case["seed"].as_u64().unwrap_or(1));
    let nreads = case["reads"].as_u64().unwrap_or(8);
    out.ev(json!({"ev":"reset","run":*run,"target":target,"case":case}));
    let mut t = if target == "db" { Target::Db(SparqlDatabase::new()) } else { Target::Index(DatasetIndex::new()) };
    for opv in case["ops"].as_array().unwrap() {
        let (op, q, g) = parse_op(opv);
        let variant = rng.next();
        let r = guarded(|| {
            let ret = apply(&mut t, &op, &q, g, variant);
            let (all, graphs, reads, allraw, graphsraw) = observe(&mut t, &u, &mut rng, nreads);
            (ret, all, graphs, reads, allraw, graphsraw)
        });
        match r {
            Ok((ret, all, graphs, reads, allraw, graphsraw)) => out.ev(json!({"ev":"op","op":op,"q":q,"g":g,"ret":ret,"all":all,"graphs":graphs,"reads":reads,"allraw":allraw,"graphsraw":graphsraw})),
            Err(_) => { out.ev(json!({"ev":"op","op":op,"q":q,"g":g,"ret":"panic","all":[],"graphs":[],"reads":[],"allraw":[],"graphsraw":[]})); break; }
        }
    }
}

fn gen_cases(seed: u64, n: u64, nops: u64, nreads: u64) -> Vec<Value> {
    let mut rng = Rng::new(seed ^ 0xC04);
    let mut cases = Vec::new();
    for i in 0..n {
        let ns = rng.range(2, 4) as u32; let np = rng.range(1, 3) as u32; let no = rng.range(2, 4) as u32; let ng = rng.range(1, 3) as u32;
        // one pool of term ids for all three positions: the same id occurs as subject, predicate and object
        // (a predicate that is also a subject, an object that is also a graph-unrelated subject, ...)
        let _ = (np, no);
        let pool: Vec<u32> = (1..=ns + 1).collect();
        let u = Universe { s: pool.clone(), p: pool.clone(), o: pool.clone(), g: (20..20 + ng).collect() };
        let mut ops = Vec::new();
        let mut live: Vec<[u32; 4]> = Vec::new();
        for _ in 0..nops {
            let g = if rng.chance(1, 3) { 0 } else { *rng.pick(&u.g) };
            match rng.below(20) {
                0..=7 => {
                    // insert; bias towards re-inserting a known triple into another graph
                    let q = if !live.is_empty() && rng.chance(1, 3) { let mut q = *rng.pick(&live); q[3] = g; q }
                            else { [*rng.pick(&u.s), *rng.pick(&u.p), *rng.pick(&u.o), g] };
                    live.push(q);
                    ops.push(json!({"op":"insert","q":q}));
                }
                8..=12 => {
                    let q = if !live.is_empty() && rng.chance(3, 4) { *rng.pick(&live) } else { [*rng.pick(&u.s), *rng.pick(&u.p), *rng.pick(&u.o), g] };
                    ops.push(json!({"op":"delete","q":q}));
                }
                13 => ops.push(json!({"op":"create","g":g})),
                14 | 15 => ops.push(json!({"op":"clearg","g":g})),
                16 | 17 => ops.push(json!({"op":"drop","g":g})),
                18 => ops.push(json!({"op":"rebuild"})),
                _ => { if rng.chance(1, 4) { ops.push(json!({"op":"clear"})); live.clear(); } else { ops.push(json!({"op":"rebuild"})); } }
            }
        }
        cases.push(json!({"target": if i % 2 == 0 {"index"} else {"db"}, "u":{"s":u.s,"p":u.p,"o":u.o,"g":u.g}, "ops":ops, "seed": rng.next() >> 1, "reads": nreads}));
    }
    cases
}

pub fn main(a: &Args) {
    let mut out = Out::create(a.req("out"));
    let mut run = 0u64;
    let cases = if let Some(f) = a.get("cases") { read_cases(f) } else { gen_cases(a.num("seed", 1), a.num("random", 20), a.num("ops", 100), a.num("reads", 8)) };
    for c in &cases { run_case(&mut out, &mut run, c); }
    out.finish();
}
