SPECIFICATION Spec
CONSTANTS
  ChunkSize = 2
  MaxLines = 3
  Alphabet <- Lines
  Priors <- PriorSet
  Formats = {"n3"}
  ReencodeN3 = TRUE
  SharePrefixesN3 = FALSE
  EmitDone = FALSE
INVARIANTS AddsExactlyDoc
CHECK_DEADLOCK FALSE
