//! C06 driver: runs probabilistic Datalog programs through the real
//! `Reasoner::infer_new_facts_with_provenance` under every provenance mode and records, per mode,
//! every fact of the dataset after inference with the probability recovered from its tag
//! (`Provenance::recover_probability`) as a scaled integer.
//!
//! Abstract terms are small positive integers (constant n is the dictionary string "t<n>"),
//! variables are negative integers (-k is the rule variable "v<k>").  A case is
//!   {"rules":[{"prem":[[t,t,t]..],"neg":[..],"concl":[..]}..], "certain":[[s,p,o]..],
//!    "seeds":[[s,p,o,num]..], "den":8, "perm":[term ids in dictionary-encoding order],
//!    "modes":["dnf","sdd","minmax","bool","topk","addmult"], "k":3, "hasmodel":false, "model":[]}
//! The probability of seed i is num/den.  Scaling (no floats in the trace): dnf/sdd/topk by
//! den^|seeds| (addmult too, logged for statistics only), minmax by den, bool 0/1.  The driver only
//! runs the code and scales; every expected value is computed by TLC (tla/worlds/WorldsTrace.tla).
use crate::util::*;
use datalog::reasoning::Reasoner;
use serde_json::{json, Value};
use shared::provenance::{AddMultProbability, BooleanProvenance, DnfWmcProvenance, MinMaxProbability, Provenance, TopKProofs};
use shared::rule::Rule;
use shared::sdd::SddProvenance;
use shared::terms::Term;
use shared::triple::Triple;
use std::sync::{mpsc, Arc};
use std::time::Duration;

const MODE_TIMEOUT_S: u64 = 60;

fn tstr(n: i64) -> String { format!("t{n}") }

fn term(r: &Reasoner, t: i64) -> Term {
    if t < 0 {
        Term::Variable(format!("v{}", -t))
    } else {
        Term::Constant(r.dictionary.write().unwrap().encode(&tstr(t)))
    }
}

fn pats(r: &Reasoner, v: &Value) -> Vec<(Term, Term, Term)> {
    v.as_array().map(|a| a.iter().map(|p| {
        (term(r, p[0].as_i64().unwrap()), term(r, p[1].as_i64().unwrap()), term(r, p[2].as_i64().unwrap()))
    }).collect()).unwrap_or_default()
}

fn dec(r: &Reasoner, id: u32) -> i64 {
    let d = r.dictionary.read().unwrap();
    d.decode(id).and_then(|s| s.strip_prefix('t')).and_then(|x| x.parse().ok()).unwrap_or(9999)
}

fn build(case: &Value) -> Reasoner {
    let mut r = Reasoner::new();
    // the encoding order fixes the dictionary ids, hence index order and seed numbering
    if let Some(perm) = case["perm"].as_array() {
        for t in perm {
            r.dictionary.write().unwrap().encode(&tstr(t.as_i64().unwrap()));
        }
    }
    let den = case["den"].as_i64().unwrap() as f64;
    for f in case["certain"].as_array().unwrap() {
        r.add_abox_triple(&tstr(f[0].as_i64().unwrap()), &tstr(f[1].as_i64().unwrap()), &tstr(f[2].as_i64().unwrap()));
    }
    for f in case["seeds"].as_array().unwrap() {
        r.add_tagged_triple(&tstr(f[0].as_i64().unwrap()), &tstr(f[1].as_i64().unwrap()), &tstr(f[2].as_i64().unwrap()),
                            f[3].as_i64().unwrap() as f64 / den);
    }
    for rule in case["rules"].as_array().unwrap() {
        let rl = Rule { premise: pats(&r, &rule["prem"]), negative_premise: pats(&r, &rule["neg"]),
                        filters: vec![], conclusion: pats(&r, &rule["concl"]) };
        r.add_rule(rl);
    }
    r
}

/// One call of the code under test: (every fact after inference with its recovered probability, returned list).
fn infer<P: Provenance>(case: &Value, prov: P) -> (Vec<([i64; 3], f64)>, Vec<[i64; 3]>) {
    let mut r = build(case);
    let (new, tags) = r.infer_new_facts_with_provenance(prov);
    let all: Vec<Triple> = r.dataset_index.query(None, None, None);
    let d3 = |t: &Triple| [dec(&r, t.subject), dec(&r, t.predicate), dec(&r, t.object)];
    let mut out: Vec<([i64; 3], f64)> = all.iter()
        .map(|t| (d3(t), tags.provenance().recover_probability(&tags.get_tag(t)))).collect();
    out.sort_by(|a, b| a.0.cmp(&b.0));
    let mut newv: Vec<[i64; 3]> = new.iter().map(d3).collect();
    newv.sort();
    (out, newv)
}

/// The same program with every uncertain fact's probability p replaced by 1 - p (den/2 becomes den/4 or 1/den).
fn revised(case: &Value) -> Value {
    let mut c = case.clone();
    let den = case["den"].as_i64().unwrap();
    for f in c["seeds"].as_array_mut().unwrap() {
        let p = f[3].as_i64().unwrap();
        let q = if 2 * p == den { (den / 4).max(1) } else { den - p };
        f[3] = json!(q.clamp(0, den));
    }
    c
}

fn run_mode(case: &Value, mode: &str) -> (Vec<([i64; 3], f64)>, Vec<[i64; 3]>) {
    match mode {
        "dnf" => infer(case, DnfWmcProvenance::new()),
        "sdd" => infer(case, SddProvenance::new()),
        // one provenance object (clones share the manager / weight table) used for an earlier materialisation of the same
        // program under other probabilities, then for the one that is judged
        "dnf-warm" => { let p = DnfWmcProvenance::new(); let _ = infer(&revised(case), p.clone()); infer(case, p) }
        "sdd-warm" => { let p = SddProvenance::new(); let _ = infer(&revised(case), p.clone()); infer(case, p) }
        "minmax" => infer(case, MinMaxProbability),
        "bool" => infer(case, BooleanProvenance),
        "addmult" => infer(case, AddMultProbability),
        "topk" => infer(case, TopKProofs::new(case["k"].as_u64().unwrap_or(3).clamp(1, 10) as usize)),
        other => panic!("unknown mode {other}"),
    }
}

fn case_modes(case: &Value) -> Vec<String> {
    case["modes"].as_array().map(|a| a.iter().map(|m| m.as_str().unwrap().to_string()).collect())
        .unwrap_or_else(|| vec!["dnf".into(), "sdd".into(), "minmax".into(), "bool".into()])
}

type ModeResult = Result<(Vec<([i64; 3], f64)>, Vec<[i64; 3]>), String>;
enum Msg { Begin(usize, usize), Done(usize, usize, ModeResult), Finished }

/// All calls run in one worker thread; the main thread writes the trace and is the watchdog:
/// a panic is data, and so is a call that does not return (the worker is then abandoned and a
/// new one continues after that call).
fn spawn_worker(cases: Arc<Vec<Value>>, from: (usize, usize), tx: mpsc::Sender<Msg>) {
    std::thread::Builder::new().stack_size(256 << 20).spawn(move || {
        for ci in from.0..cases.len() {
            let modes = case_modes(&cases[ci]);
            let m0 = if ci == from.0 { from.1 } else { 0 };
            for mi in m0..modes.len() {
                if tx.send(Msg::Begin(ci, mi)).is_err() { return; }
                let r = guarded(|| run_mode(&cases[ci], &modes[mi]));
                if tx.send(Msg::Done(ci, mi, r)).is_err() { return; }
            }
        }
        let _ = tx.send(Msg::Finished);
    }).unwrap();
}

fn reset_event(out: &mut Out, run: u64, case: &Value) {
    let hasmodel = case.get("hasmodel").and_then(|v| v.as_bool()).unwrap_or(false);
    let model = if hasmodel { case["model"].clone() } else { json!([]) };
    out.ev(json!({"ev":"reset","run":run,"rules":case["rules"],"certain":case["certain"],"seeds":case["seeds"],
                  "den":case["den"],"hasmodel":hasmodel,"model":model,"case":case}));
}

fn prob_event(out: &mut Out, run: u64, case: &Value, mode_full: &str, res: Option<ModeResult>) {
    let warm = mode_full.ends_with("-warm");
    let mode = mode_full.trim_end_matches("-warm");
    let den = case["den"].as_i64().unwrap();
    let n = case["seeds"].as_array().unwrap().len() as i32;
    let scale: f64 = match mode {
        "dnf" | "sdd" | "topk" | "addmult" => (den as f64).powi(n),
        "minmax" => den as f64,
        _ => 1.0,
    };
    match res {
        Some(Ok((facts, newv))) => {
            let mut grid = true;
            let mut worst = String::new();
            let outv: Vec<Value> = facts.iter().map(|(t, p)| {
                let x = p * scale;
                let rr = x.round();
                if !(x.is_finite() && (x - rr).abs() < 1e-6) {
                    grid = false;
                    worst = format!("{p:e}");
                }
                json!([t[0], t[1], t[2], if x.is_finite() { rr as i64 } else { -1 }])
            }).collect();
            let exact = facts.iter().all(|(_, p)| (p * scale).fract() == 0.0);
            out.ev(json!({"ev":"prob","run":run,"mode":mode,"warm":warm,"ret":"ok","grid":grid,"integral":exact,"offgrid":worst,
                          "out":outv,"new":newv}));
        }
        Some(Err(msg)) => {
            out.ev(json!({"ev":"prob","run":run,"mode":mode,"warm":warm,"ret":"panic","grid":true,"integral":true,
                          "offgrid":msg.chars().take(120).collect::<String>(),"out":[],"new":[]}));
        }
        None => {
            out.ev(json!({"ev":"prob","run":run,"mode":mode,"warm":warm,"ret":"timeout","grid":true,"integral":true,"offgrid":"",
                          "out":[],"new":[]}));
        }
    }
}

fn run_all(out: &mut Out, cases: Vec<Value>) {
    let cases = Arc::new(cases);
    let (mut tx, mut rx) = mpsc::channel();
    spawn_worker(cases.clone(), (0, 0), tx.clone());
    let mut cur = (0usize, 0usize);
    loop {
        match rx.recv_timeout(Duration::from_secs(MODE_TIMEOUT_S)) {
            Ok(Msg::Begin(ci, mi)) => {
                if mi == 0 { reset_event(out, ci as u64 + 1, &cases[ci]); }
                cur = (ci, mi);
            }
            Ok(Msg::Done(ci, mi, r)) => prob_event(out, ci as u64 + 1, &cases[ci], &case_modes(&cases[ci])[mi], Some(r)),
            Ok(Msg::Finished) => break,
            Err(mpsc::RecvTimeoutError::Timeout) => {
                let (ci, mi) = cur;
                let modes = case_modes(&cases[ci]);
                prob_event(out, ci as u64 + 1, &cases[ci], &modes[mi], None);
                // abandon the stuck worker (its channel is dropped) and continue after the stuck call
                let ch = mpsc::channel();
                tx = ch.0;
                rx = ch.1;
                let next = if mi + 1 < modes.len() { (ci, mi + 1) } else { (ci + 1, 0) };
                spawn_worker(cases.clone(), next, tx.clone());
            }
            Err(mpsc::RecvTimeoutError::Disconnected) => break,
        }
    }
    drop(tx);
}

// ------------------------------------------------------------------------------------ generator

fn pat(s: i64, p: i64, o: i64) -> Value { json!([s, p, o]) }

fn gen_case(rng: &mut Rng, maxu: u64, naf_share: u64) -> Value {
    // size of the uncertain part first: larger parts get a sparser universe so TLC's world enumeration stays cheap
    let nu = match rng.below(10) { 0 => rng.range(0, 2), 1..=3 => rng.range(2, maxu.min(5)), _ => rng.range(maxu.min(3), maxu) } as usize;
    let ni = if nu > 8 { rng.range(3, 4) } else { rng.range(3, 5) } as i64;
    let np = rng.range(2, 3) as i64;
    let inds: Vec<i64> = (1..=ni).collect();
    let preds: Vec<i64> = (ni + 1..=ni + np).collect();
    let tops: Vec<i64> = (ni + np + 1..=ni + np + 2).collect();
    let nterms = ni + np + 2;
    let den: i64 = if nu <= 7 && rng.chance(1, 6) { 16 } else if nu <= 10 { if rng.chance(1, 8) { 4 } else if rng.chance(1, 12) { 2 } else { 8 } }
                   else if nu <= 15 { if rng.chance(1, 6) { 2 } else { 4 } } else { 2 };
    // facts
    let nc = rng.range(0, 5) as usize;
    let mut facts: Vec<[i64; 3]> = Vec::new();
    let mut guard = 0;
    while facts.len() < nu + nc && guard < 1000 {
        guard += 1;
        let f = [*rng.pick(&inds), *rng.pick(&preds), *rng.pick(&inds)];
        if !facts.contains(&f) { facts.push(f); }
    }
    let nu = nu.min(facts.len());
    let seeds: Vec<Value> = facts[..nu].iter().map(|f| {
        let num = match rng.below(20) { 0 => 0, 1 => den, _ => rng.range(1, (den - 1) as u64) as i64 };
        json!([f[0], f[1], f[2], num])
    }).collect();
    let certain: Vec<Value> = facts[nu..].iter().map(|f| json!([f[0], f[1], f[2]])).collect();
    // rules
    let with_naf = rng.chance(naf_share, 100);
    let nr = rng.range(1, 4);
    let mut rules: Vec<Value> = Vec::new();
    let (x, y, z, w) = (-1i64, -2i64, -3i64, -4i64);
    for i in 0..nr {
        let p = *rng.pick(&preds);
        let q = *rng.pick(&preds);
        let r = *rng.pick(&preds);
        let a = *rng.pick(&inds);
        let b = *rng.pick(&inds);
        let t = *rng.pick(&tops);
        let naf_here = with_naf && (i == 0 || rng.chance(1, 3));
        let rule = if naf_here {
            match rng.below(5) {
                0 => json!({"prem":[pat(x,p,y)],"neg":[pat(x,q,y)],"concl":[pat(x,t,y)]}),
                1 => json!({"prem":[pat(x,p,y)],"neg":[pat(y,q,x)],"concl":[pat(x,t,a)]}),
                2 => json!({"prem":[pat(x,p,y),pat(y,q,z)],"neg":[pat(x,r,z)],"concl":[pat(x,t,z)]}),
                3 => json!({"prem":[pat(x,p,y)],"neg":[pat(x,q,a),pat(y,r,b)],"concl":[pat(x,t,y)]}),
                _ => json!({"prem":[pat(x,p,y)],"neg":[pat(a,q,y)],"concl":[pat(y,t,x),pat(x,t,b)]}),
            }
        } else {
            match rng.below(14) {
                0 => json!({"prem":[pat(x,p,y)],"neg":[],"concl":[pat(x,q,y)]}),
                1 => json!({"prem":[pat(x,p,y)],"neg":[],"concl":[pat(y,q,x)]}),
                2 => json!({"prem":[pat(x,p,y),pat(y,p,z)],"neg":[],"concl":[pat(x,p,z)]}),
                3 => json!({"prem":[pat(x,p,y),pat(y,q,z)],"neg":[],"concl":[pat(x,r,z)]}),
                4 => json!({"prem":[pat(x,p,y),pat(x,q,z)],"neg":[],"concl":[pat(x,r,a)]}),
                5 => json!({"prem":[pat(x,p,a)],"neg":[],"concl":[pat(x,q,b)]}),
                6 => json!({"prem":[pat(x,p,x)],"neg":[],"concl":[pat(x,q,a)]}),
                7 => json!({"prem":[pat(x,p,y),pat(y,q,z),pat(z,r,w)],"neg":[],"concl":[pat(x,p,w)]}),
                8 => json!({"prem":[pat(x,p,y)],"neg":[],"concl":[pat(y,p,x),pat(x,q,y)]}),
                9 => json!({"prem":[pat(x,p,y)],"neg":[],"concl":[pat(y,p,x)]}),
                10 => json!({"prem":[pat(x,p,y),pat(y,q,x)],"neg":[],"concl":[pat(x,r,x)]}),
                11 if !with_naf => json!({"prem":[pat(x,z,y)],"neg":[],"concl":[pat(y,z,x)]}),
                _ => {
                    // free-form safe rule over three variables
                    let vars = [x, y, z];
                    let k = rng.range(1, 3) as usize;
                    let mut prem = Vec::new();
                    let mut bound: Vec<i64> = Vec::new();
                    for _ in 0..k {
                        let s = if rng.chance(3, 20) { *rng.pick(&inds) } else { *rng.pick(&vars) };
                        let o = if rng.chance(3, 20) { *rng.pick(&inds) } else { *rng.pick(&vars) };
                        for v in [s, o] { if v < 0 && !bound.contains(&v) { bound.push(v); } }
                        prem.push(pat(s, *rng.pick(&preds), o));
                    }
                    if bound.is_empty() {
                        prem.push(pat(x, p, y));
                        bound = vec![x, y];
                    }
                    let hs = if rng.chance(1, 5) { *rng.pick(&inds) } else { *rng.pick(&bound) };
                    let ho = if rng.chance(1, 5) { *rng.pick(&inds) } else { *rng.pick(&bound) };
                    json!({"prem":prem,"neg":[],"concl":[pat(hs, *rng.pick(&preds), ho)]})
                }
            }
        };
        rules.push(rule);
    }
    let mut perm: Vec<i64> = (1..=nterms).collect();
    rng.shuffle(&mut perm);
    let mut seeds = seeds;
    rng.shuffle(&mut seeds);
    let mut rules = rules;
    rng.shuffle(&mut rules);
    let k = [1, 2, 3, 5][rng.below(4) as usize];
    // every fourth case: the exact modes re-use a provenance object that has seen the program under other probabilities
    let modes = if rng.chance(1, 4) { json!(["dnf-warm", "sdd-warm", "minmax", "bool"]) } else { json!(["dnf", "sdd", "minmax", "bool", "topk", "addmult"]) };
    json!({"rules":rules,"certain":certain,"seeds":seeds,"den":den,"perm":perm,
           "modes":modes,"k":k,
           "hasmodel":false,"model":[]})
}

pub fn main(a: &Args) {
    let mut out = Out::create(a.req("out"));
    let cases = if let Some(f) = a.get("cases") { read_cases(f) } else {
        let mut rng = Rng::new(a.num("seed", 1));
        let maxu = a.num("maxu", 6);
        let naf = a.num("naf", 30);
        (0..a.num("random", 50)).map(|_| gen_case(&mut rng, maxu, naf)).collect()
    };
    if cases.is_empty() {
        out.finish();
        std::process::exit(0);
    }
    run_all(&mut out, cases);
    out.finish();
    // threads of calls that did not return are abandoned
    std::process::exit(0);
}
