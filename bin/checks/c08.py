"""C08 - hybrid probability results never certify a wrong decision.

L1  tla/hybrid/ControllerImpl.tla (escalation loop of evaluate_hybrid_controlled as actions, ClockExpires at
    every clock reading, proof enumeration abstracted to "any antichain of proofs with a sound residual")
    against tla/hybrid/HybridReq.tla: DecisionSoundInv, BoundsCertified, ExpiryNeverGuesses, MassAgrees -
    exhaustive over all 256 proof sets on 3 seeds (plain and negated), weights, thresholds, k schedules.
    Negative controls: residual without the probe proof / decision from a partial enumeration must violate.
L2  TLC prints every lineage of that small universe and the grid of valid configurations (MCEmit.tla); the
    real evaluator is run on all of them (fault enumeration included) and the recording is validated.
L3  seeded random monotone / non-monotone DAGs (sharing, subsumed proofs, independent seeds and exclusive
    groups, probabilities 0 and 1), sampled valid configurations, through evaluate_hybrid_with_clock,
    evaluate_topk, compile_lineage_to_sdd_with_clock with the scripted clock passing the deadline at the j-th
    reading for every j, and small rule programs through Reasoner::infer_new_facts_with_hybrid.
    HybridTrace.tla computes the true probability by world enumeration and judges every recorded call.
"""
import collections
import concurrent.futures
import json
import os
import re
import time
import vlib
from vlib import log

FAMILY = "hybrid"
SITE = {"hybrid": "evaluate_hybrid_with_clock", "topk": "evaluate_topk", "compile": "compile_lineage_to_sdd_with_clock"}


def sig_for(reset_ev, api, symptom, j, cls):
    """site | trigger class | symptom"""
    site = "Reasoner::infer_new_facts_with_hybrid" if reset_ev.get("src") == "reasoner" else SITE.get(api, api)
    clock = "clock-expired-at-reading-j" if j > 0 else "clock-not-expired"
    return f"{site}|lineage={cls}|{clock}|{symptom}"


_FAIL = re.compile(r'<<\s*"FAIL",.*?>>', re.S)


def parse_fails(out):
    return [vlib._tuple(" ".join(m.group(0).split()).replace('<< "FAIL"', '<<"FAIL"')) for m in _FAIL.finditer(out)]


def validate(trace_path, verdict, tag):
    res = vlib.tlc_trace(FAMILY, "HybridTrace.tla", "HybridTrace.cfg", trace_path, tag=f"c08-{tag}", heap="6g")
    events = vlib.read_ndjson(trace_path)
    runs = vlib.split_runs(events)
    fails = parse_fails(res["out"])
    failed = collections.OrderedDict()
    for f in fails:                      # f = [run, line, api, symptom, j, class]
        rid, line, api, symptom, j, cls = f
        ev = runs[rid]
        sig = sig_for(ev[0], api, symptom, j, cls)
        if (rid, sig) in failed:
            continue
        failed[(rid, sig)] = f
        verdict.violation(sig, {"driver": "c08", "case": ev[0]["case"], "failing_event": events[line - 1],
                                "fact": ev[0].get("fact", "-")},
                          detail=f"run {rid} line {line}: {json.dumps(events[line - 1].get('res'))}")
    skipped = {i[0] for i in res["info"] if len(i) > 1 and i[1] == "skipped"}
    return dict(runs=runs, failed=failed, skipped=skipped, states=res["states"], wall=res["wall"], events=len(events))


def validate_many(paths, verdict, tag):
    """several traces, a few JVMs at a time; violations are folded in file order"""
    tmp = [vlib.Verdict("C08", verdict.seed, verdict.tier) for _ in paths]
    with concurrent.futures.ThreadPoolExecutor(max_workers=4) as ex:
        futs = [ex.submit(validate, p, tmp[i], f"{tag}{i}") for i, p in enumerate(paths)]
        out = [f.result() for f in futs]
    for t in tmp:
        for sig, case, detail in t.violations:
            verdict.violation(sig, case, detail)
        for k, cases in t.known_hits.items():
            verdict.known_hits.setdefault(k, []).extend(cases)
    return out


def stats(results):
    """counts for evidence / vacuity; no judgement here"""
    kinds = collections.Counter()
    calls = 0
    faulted = 0
    distinct = set()
    for r in results:
        for rid, ev in r["runs"].items():
            if rid in r["skipped"]:
                continue
            reset = ev[0]
            nontrivial = False
            for e in ev[1:]:
                calls += 1
                if e.get("j", 0) > 0:
                    faulted += 1
                if e["ev"] == "hybrid":
                    k = (e["res"]["kind"], e["res"]["decision"], "faulted" if e["j"] > 0 else "unfaulted")
                    kinds[k] += 1
                    if e["res"]["kind"] in ("Exact", "Bounded", "NeedsExact"):
                        nontrivial = True
                elif e["ev"] == "topk":
                    kinds[("topk", "ok" if e["res"]["ok"] else e["res"]["reason"], "")] += 1
                else:
                    kinds[("compile", "ok" if e["res"]["ok"] else e["res"]["reason"], "faulted" if e["j"] > 0 else "unfaulted")] += 1
            if nontrivial:
                distinct.add(vlib.case_hash([reset["seeds"], reset["nodes"], reset["root"], reset.get("fact", "-")]))
    return kinds, calls, faulted, distinct


def rng_seed(seed, batch):
    """util::Rng is a splitmix64 whose streams for seeds s and s+d are the same stream shifted by d draws:
    batches (and different VERIF_SEEDs) are therefore placed 2^32 draws apart."""
    return (seed % (1 << 20)) * (1 << 40) + batch * (1 << 32)


def l2_cases(emitted, thorough):
    grid = [c for c in emitted if "grid" in c][0]["grid"]
    lineages = [c for c in emitted if "grid" not in c]
    grid.sort(key=lambda g: json.dumps(g, sort_keys=True))
    lineages.sort(key=lambda c: json.dumps(c, sort_keys=True))
    per_case = 36 if thorough else 10
    cases = []
    pos = 0
    for i, c in enumerate(lineages):
        nf = [grid[(pos + t) % len(grid)] for t in range(per_case)]   # rotates through the whole grid
        pos += per_case
        faulted = [grid[(7 * i) % len(grid)]] + ([grid[(7 * i + 3) % len(grid)]] if thorough else [])
        c = dict(c)
        c.update({"faults": "all", "cfgs": faulted, "cfgs_nf": nf, "nbs": [100000, 5] if thorough else [100000],
                  "topk": [{"k": k, "nodes": 100000, "budget": "long"} for k in (1, 2, 3, 8)]})
        cases.append(c)
    return cases, len(grid)


def run(ctx):
    t0 = time.time()
    verdict = vlib.Verdict("C08", ctx.seed, ctx.tier)
    wd = vlib.workdir("c08")
    if ctx.replay:
        case = json.load(open(ctx.replay))["case"]["case"]
        vlib.write_ndjson(os.path.join(wd, "cases.ndjson"), [case])
        vlib.kverif(["c08", "--cases", os.path.join(wd, "cases.ndjson"), "--out", os.path.join(wd, "replay.ndjson")])
        r = validate(os.path.join(wd, "replay.ndjson"), verdict, "replay")
        log(f"replay: {r['events']} events, {len(r['failed'])} rejected")
        return verdict.finish()

    thorough = ctx.tier == "thorough"

    # ---- L1: design model
    mc = vlib.tlc_mc(FAMILY, "MCController.tla", "MC_thorough.cfg" if thorough else "MC_quick.cfg", workers=12,
                     coverage=False, timeout=2400, tag="c08-l1")
    log(f"L1 ControllerImpl => HybridReq: {mc['states']} distinct states ({mc['generated']} transitions), violated={mc['violated']} [{time.time()-t0:.0f}s]")
    if mc["violated"]:
        raise vlib.ToolError(f"L1: {mc['violated']} violated in the design model (model or design error; the code is judged by L2/L3)")
    cov = vlib.tlc_mc(FAMILY, "MCController.tla", "MC_cov.cfg", workers=8, coverage=True, tag="c08-cov")
    if cov["uncovered"] or cov["violated"]:
        raise vlib.ToolError(f"vacuity: actions never taken in L1: {cov['uncovered']} {cov['violated']}")
    for cfg, expect in (("MC_neg_noprobe.cfg", ("DecisionSoundInv", "BoundsCertified")),
                        ("MC_neg_guess.cfg", ("DecisionSoundInv", "BoundsCertified", "ExpiryNeverGuesses")),
                        ("MC_reach.cfg", ("NeverBoundedNoAlert",))):
        neg = vlib.tlc_mc(FAMILY, "MCController.tla", cfg, workers=4, coverage=False, tag="c08-" + cfg[:-4])
        if neg["violated"] not in expect:
            raise vlib.ToolError(f"non-vacuity control {cfg}: expected a violation of {expect}, got {neg['violated']}")
    log("L1 controls: residual-without-probe and decision-from-partial-enumeration variants violate the invariants; "
        f"certified NoAlert reachable [{time.time()-t0:.0f}s]")

    # ---- L2: every lineage of the small universe x the grid of valid configurations, on the real code
    emitted, st = vlib.tlc_emit(FAMILY, "MCEmit.tla", "MC_emit_thorough.cfg" if thorough else "MC_emit_quick.cfg", tag="c08-emit")
    cases2, gridn = l2_cases(emitted, thorough)
    chunks = 4 if thorough else 2
    paths2 = []
    for i in range(chunks):
        part = cases2[i::chunks]
        cf = os.path.join(wd, f"l2cases{i}.ndjson")
        vlib.write_ndjson(cf, part)
        tp = os.path.join(wd, f"l2-{i}.ndjson")
        vlib.kverif(["c08", "--cases", cf, "--out", tp])
        paths2.append(tp)
    res2 = validate_many(paths2, verdict, "l2-")
    k2, calls2, faulted2, distinct2 = stats(res2)
    fail2 = sum(len(r["failed"]) for r in res2)
    log(f"L2 small universe: {len(cases2)} lineages x grid of {gridn} valid configurations: {calls2} calls "
        f"({faulted2} with an expired clock reading), {fail2} rejected [{time.time()-t0:.0f}s]")

    # ---- L3: random DAGs and programs
    batches = 48 if thorough else 2
    per = 200 if thorough else 80
    paths3 = []
    for i in range(batches):
        tp = os.path.join(wd, f"l3-{i}.ndjson")
        maxseeds = (12 if i % 2 == 0 else 9) if thorough else 8
        vlib.kverif(["c08", "--random", per, "--progs", 40 if thorough else 20, "--maxseeds", maxseeds,
                     "--seed", rng_seed(ctx.seed, i), "--out", tp])
        paths3.append(tp)
    res3 = validate_many(paths3, verdict, "l3-")
    k3, calls3, faulted3, distinct3 = stats(res3)
    fail3 = sum(len(r["failed"]) for r in res3)
    nruns3 = sum(len(r["runs"]) for r in res3)
    skipped = sum(len(r["skipped"]) for r in res2 + res3)
    log(f"L3 random lineages/programs: {nruns3} runs, {calls3} calls ({faulted3} with an expired clock reading), {fail3} rejected, {skipped} skipped [{time.time()-t0:.0f}s]")

    kinds = k2 + k3
    # vacuity of the binding: every kind of certificate must have been observed and judged
    need = [("Exact", "Alert"), ("Exact", "NoAlert"), ("Bounded", "Alert"), ("Bounded", "NoAlert"), ("NeedsExact", "Indeterminate")]
    seen = {(k[0], k[1]) for k in kinds}
    missing = [n for n in need if n not in seen]
    if missing and not verdict.violations:
        raise vlib.ToolError(f"vacuity: result kinds never observed: {missing}")
    if not any(k[0] == "topk" and k[1] == "ok" for k in kinds) or not any(k[0] == "compile" and k[1] == "ok" for k in kinds):
        if not verdict.violations:
            raise vlib.ToolError("vacuity: evaluate_topk / compile never succeeded")

    rc = verdict.finish()
    if rc == 0:
        for p in paths2 + paths3:      # validated recordings are large; keep them only when something was rejected
            os.remove(p)
    sample_run = None
    for r in res3:
        for rid, ev in r["runs"].items():
            if any(e["ev"] == "hybrid" and e["res"]["kind"] == "Bounded" for e in ev[1:]):
                sample_run = ev
                break
        if sample_run:
            break
    sample_run = sample_run or next(iter(res3[0]["runs"].values()))
    bounded = [e for e in sample_run[1:] if e["ev"] == "hybrid" and e["res"]["kind"] == "Bounded"][:1]
    needs = [e for e in sample_run[1:] if e["ev"] == "hybrid" and e["res"]["kind"] == "NeedsExact"][:1]
    cov_ev = {
        "states": mc["states"], "transitions": mc["generated"],
        "traces_validated_against_impl": sum(len(r["runs"]) for r in res2 + res3),
        "samples": [{"lineage": {k: sample_run[0][k] for k in ("den", "seeds", "nodes", "root")},
                     "calls": [{k: e[k] for k in ("ev", "cfg", "mode", "j", "res") if k in e} for e in (sample_run[1:2] + bounded + needs)]},
                    {"tlc_emitted_lineage": {k: cases2[len(cases2) // 2][k] for k in ("den", "seeds", "nodes", "root")}}],
        "evaluations": calls2 + calls3,
        "distinct_nontrivial": len(distinct2 | distinct3),
        "rule": "one evaluation = one call of evaluate_hybrid_with_clock / evaluate_topk / compile_lineage_to_sdd_with_clock / one fact of "
                "Reasoner::infer_new_facts_with_hybrid judged by TLC against the true probability; distinct by hash of (seeds, weights, DAG, root); "
                "non-trivial = at least one controller call on the lineage returned Exact, Bounded or NeedsExact",
        "exhaustive": True,
        "l1_constants": "MC_thorough.cfg" if thorough else "MC_quick.cfg",
        "l2_lineages": len(cases2), "l2_grid_configs": gridn, "l2_calls": calls2, "l3_runs": nruns3, "l3_calls": calls3,
        "calls_with_expired_clock_reading": faulted2 + faulted3,
        "result_kinds": {"/".join(x for x in k if x): v for k, v in sorted(kinds.items())},
        "skipped_outside_preconditions": skipped,
        "trace_states": sum(r["states"] for r in res2 + res3),
    }
    vlib.write_evidence("C08", ctx.tier, ctx.seed, "model_checking", cov_ev,
                        ["seed probabilities are dyadic (k/8, k/4): every quantity the evaluator computes is then exact in f64 and is compared as an "
                         "integer scaled by den^(#independent seeds + #groups); the recorder's float->integer step uses slack 1e-9 "
                         "(lo = ceil(x*S - 1e-9*S), hi = floor(x*S + 1e-9*S)); accuracy on arbitrary reals is not claimed",
                         "thresholds are dyadic (td <= 64) and compared exactly: Alert => P >= theta, NoAlert => P < theta",
                         "exclusive groups are complete (weights sum to 1) and fully contained in the snapshot - the property's 'valid configurations'",
                         "clock faults: the scripted clock passes every deadline from its j-th reading on (once: 'jump', or further with every reading: 'run') "
                         "for every j up to the number of readings of the un-faulted call; evaluate_topk has no injectable clock and is run with a "
                         "generous and with an already expired real budget",
                         "L1 is exhaustive only for 3 seeds and the constants of the cfg, with proof enumeration abstracted; beyond: trace validation of sampled cases",
                         "Reasoner path: each derived fact's result is judged against the lineage the materialisation recorded for it "
                         "(correctness of that lineage w.r.t. the rules is C06's subject)"],
                        time.time() - t0, len(verdict.violations))
    return rc
