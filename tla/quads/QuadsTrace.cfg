SPECIFICATION TSpec
CONSTANTS
  Subj = {}
  Pred = {}
  Obj = {}
  Named = {}
POSTCONDITION Consumed
CHECK_DEADLOCK FALSE
