----------------------------- MODULE SparqlTrace -----------------------------
(***************************************************************************)
(* Trace validation for C01 (and the plan matrix of C02): every event is   *)
(* one execution of a SELECT by the real engine                            *)
(*   select(run, quads, graphs, kind, num, rank, canon, q, cols, rows, err)*)
(* and is accepted iff rows is an admissible answer sequence of q over the *)
(* dataset under Sparql.tla.  A rejected event is re-judged under the      *)
(* lenient (two-valued, untyped) expression semantics; the FAIL line says  *)
(* whether that reading explains the observation.                          *)
(***************************************************************************)
EXTENDS Sparql, Json, IOUtils

Rec == ndJsonDeserialize(IOEnv.TRACE)
VARIABLE l
ToSet(sq) == {sq[i] : i \in 1..Len(sq)}

Ctx(e, len) == [quads |-> {<<q[1], q[2], q[3], q[4]>> : q \in ToSet(e.quads)}, graphs |-> ToSet(e.graphs),
                kind |-> e.kind, num |-> e.num, rank |-> e.rank, canon |-> ToSet(e.canon), lenient |-> len]

Relaxations == {{"unbound"}, {"types"}, {"concat"}, {"avg"}, {"order"}, {"unbound", "types", "concat", "avg", "order"}, {"sideways"},
                {"sideways", "unbound", "types", "concat", "avg", "order"}}

Judge(e) ==
  LET X == Ctx(e, {}) IN
  IF e.err # "" THEN "error"
  ELSE IF ~InScope(e.q.p) THEN "skip-scope"
  ELSE IF ~AllCutsDefinite(X, e.q.p, ViewOf(X, e.q), "") THEN "skip-cut"
  ELSE IF ~AggInputsNumeric(X, e.q) THEN "skip-agg"
  ELSE IF Accept(X, e.q, e.cols, e.rows) THEN "ok"
  ELSE IF Accept(Ctx(e, {"unbound"}), e.q, e.cols, e.rows) THEN "lenient:unbound"
  ELSE IF Accept(Ctx(e, {"types"}), e.q, e.cols, e.rows) THEN "lenient:types"
  ELSE IF Accept(Ctx(e, {"concat"}), e.q, e.cols, e.rows) THEN "lenient:concat"
  ELSE IF Accept(Ctx(e, {"avg"}), e.q, e.cols, e.rows) THEN "lenient:avg"
  ELSE IF Accept(Ctx(e, {"order"}), e.q, e.cols, e.rows) THEN "lenient:order"
  ELSE IF Accept(Ctx(e, {"unbound", "types", "concat", "avg", "order"}), e.q, e.cols, e.rows) THEN "lenient:several"
  ELSE IF Accept(Ctx(e, {"sideways"}), e.q, e.cols, e.rows) THEN "lenient:sideways"
  ELSE IF Accept(Ctx(e, {"sideways", "unbound", "types", "concat", "avg", "order"}), e.q, e.cols, e.rows) THEN "lenient:sideways+"
  \* not explained by any reading - unless, under one of the relaxed readings, a subquery cut (ORDER BY + LIMIT) is not definite:
  \* then which rows survive the cut is the engine's choice and that reading cannot be decided (a skip, never an alarm)
  ELSE IF \E L \in Relaxations : ~AllCutsDefinite(Ctx(e, L), e.q.p, ViewOf(Ctx(e, L), e.q), "") THEN "skip-cut"
  ELSE "wrong"

Step ==
  LET e == Rec[l]
      v == Judge(e)
  IN  CASE v = "ok" -> TRUE
        [] v \in {"skip-scope", "skip-cut", "skip-agg"} -> PrintT(<<"INFO", e.run, v>>)
        [] OTHER -> PrintT(<<"FAIL", e.run, v>>)

Init == l = 1
Next == l <= Len(Rec) /\ Step /\ l' = l + 1
Spec == Init /\ [][Next]_l

Consumed == IF TLCGet("stats").diameter - 1 = Len(Rec) THEN TRUE
            ELSE PrintT(<<"STUCK", TLCGet("stats").diameter, Len(Rec)>>) /\ FALSE
=============================================================================
