SPECIFICATION Spec
CONSTANTS
  Programs <- ProgsThorough
  CertainSets <- CSets
  UncertainSets <- USetsThorough
  Retrigger = TRUE
INVARIANTS TagsSound TagsExact StoreShape Emit
CHECK_DEADLOCK FALSE
