------------------------------ MODULE MultiTrace ------------------------------
(***************************************************************************)
(* Trace validation for C11 (continuous query over several windows,        *)
(* optionally with static background data).  Events of one run:            *)
(*   reset(blocks, static, rules)  and then, in the global log order,      *)
(*   push | fire(win, items) | query(win, rows) | emit(row) | stopped | end*)
(* Requirement: every emitted solution, restricted to the variables of a   *)
(* WINDOW block, is an answer of that block over a content this very       *)
(* window has reported (plus what the rules derive from it); restricted to *)
(* the static pattern it is an answer over the static data only.           *)
(* A violating solution that is explained by evaluating the block over its *)
(* own content merged with the other windows' latest contents is reported  *)
(* as "leak" (the shared-store defect), anything else as "unexplained".    *)
(***************************************************************************)
EXTENDS Rsp, Json, IOUtils

Rec == ndJsonDeserialize(IOEnv.TRACE)
VARIABLES l, cfg, latest, answers, leak, bad
vars == <<l, cfg, latest, answers, leak, bad>>
ToSet(sq) == {sq[i] : i \in 1..Len(sq)}
Ev == Rec[l]

Wins == DOMAIN cfg.blocks                       \* window names (record fields)
BlockVars(q) == UNION {TPVars(q[i]) : i \in 1..Len(q)}
Triples(sq) == {<<x[1], x[2], x[3]>> : x \in ToSet(sq)}

Init == /\ l = 1 /\ bad = FALSE
        /\ cfg = [run |-> 0, blocks |-> [w |-> <<>>], static |-> <<>>, sdata |-> {}, rules |-> <<>>]
        /\ latest = [w |-> {}] /\ answers = [w |-> {}] /\ leak = [w |-> {}]

Reset == /\ Ev.ev = "reset"
         /\ cfg' = [run |-> Ev.run, blocks |-> Ev.case.spec.blocks, static |-> Ev.case.spec.static,
                    sdata |-> Triples(Ev.case.spec.sdata), rules |-> Ev.case.spec.rules]
         /\ latest' = [w \in DOMAIN Ev.case.spec.blocks |-> {}]
         /\ answers' = [w \in DOMAIN Ev.case.spec.blocks |-> {}]
         /\ leak' = [w \in DOMAIN Ev.case.spec.blocks |-> {}]
         /\ bad' = FALSE

Skip == Ev.ev \in {"push", "stopped", "query", "builderr", "worker-exit", "coordinator-exit", "timeout"} /\ UNCHANGED <<cfg, latest, answers, leak, bad>>

Fire == /\ Ev.ev = "fire"
        /\ IF Ev.win \notin Wins THEN PrintT(<<"FAIL", cfg.run, "firing of an unknown window", l>>) /\ bad' = TRUE /\ UNCHANGED <<cfg, latest, answers, leak>>
           ELSE LET w == Ev.win
                    K == Triples([i \in 1..Len(Ev.items) |-> Ev.items[i].t])
                    others == UNION {latest[v] : v \in Wins \ {w}}
                IN  /\ latest' = [latest EXCEPT ![w] = K]
                    /\ answers' = [answers EXCEPT ![w] = @ \cup DOMAIN Rows(cfg.blocks[w], cfg.rules, K)]
                    /\ leak' = [leak EXCEPT ![w] = @ \cup DOMAIN Rows(cfg.blocks[w], cfg.rules, K \cup others)]
                    /\ UNCHANGED <<cfg, bad>>

StaticOK(m) == Len(cfg.static) = 0 \/ RestrictTo(m, BlockVars(cfg.static)) \in DOMAIN EvalBgp(cfg.static, Len(cfg.static), cfg.sdata)
Own(m, w) == RestrictTo(m, BlockVars(cfg.blocks[w])) \in answers[w]
Leaked(m, w) == RestrictTo(m, BlockVars(cfg.blocks[w])) \in leak[w]

Emit == /\ Ev.ev = "emit"
        /\ IF bad THEN UNCHANGED <<cfg, latest, answers, leak, bad>>
           ELSE LET m == Ev.row IN
                IF StaticOK(m) /\ \A w \in Wins : Own(m, w) THEN UNCHANGED <<cfg, latest, answers, leak, bad>>
                ELSE IF StaticOK(m) /\ \A w \in Wins : Own(m, w) \/ Leaked(m, w)
                       THEN PrintT(<<"FAIL", cfg.run, "leak", l>>) /\ bad' = TRUE /\ UNCHANGED <<cfg, latest, answers, leak>>
                ELSE IF ~StaticOK(m) THEN PrintT(<<"FAIL", cfg.run, "static part is not an answer over the static data", l>>) /\ bad' = TRUE /\ UNCHANGED <<cfg, latest, answers, leak>>
                ELSE PrintT(<<"FAIL", cfg.run, "unexplained", l>>) /\ bad' = TRUE /\ UNCHANGED <<cfg, latest, answers, leak>>

Hang == /\ Ev.ev = "hang"
        /\ (IF bad THEN TRUE ELSE PrintT(<<"FAIL", cfg.run, "deadlock", l>>))
        /\ bad' = TRUE /\ UNCHANGED <<cfg, latest, answers, leak>>

End == /\ Ev.ev = "end"
       /\ (IF Ev.panic /\ ~bad THEN PrintT(<<"FAIL", cfg.run, "panic", l>>) ELSE TRUE)
       /\ UNCHANGED <<cfg, latest, answers, leak, bad>>

Next == l <= Len(Rec) /\ l' = l + 1 /\ (Reset \/ Skip \/ Fire \/ Emit \/ End \/ Hang)
Spec == Init /\ [][Next]_vars

Consumed == IF TLCGet("stats").diameter - 1 = Len(Rec) THEN TRUE
            ELSE PrintT(<<"STUCK", TLCGet("stats").diameter, Len(Rec)>>) /\ FALSE
=============================================================================
