SPECIFICATION Spec
CONSTANTS
  W <- MCW12
  S <- MCS
  O <- MCO
  Programs <- MCPrograms
  Pool <- MCPool
  MaxT = 2
  MaxSteps = 3
  LazyModes = {TRUE}
  KeepHist = TRUE
  Variant = "code"
INVARIANTS Emit
CHECK_DEADLOCK FALSE
