"""C01 - SELECT answers equal the SPARQL algebra over the stored dataset.

The requirement is tla/sparql/Sparql.tla (denotational Eval of the supported fragment with bag
semantics).  Seeded (dataset, syntax tree) pairs are printed to SPARQL text, executed by the real
engine through both SELECT entry points, and every recorded (stored dataset, syntax tree, rows)
event is judged by TLC (tla/sparql/SparqlTrace.tla).
"""
import json
import os
import random
import time
import vlib
from vlib import log
from checks import sparqlgen as G

FAMILY = "sparql"

FEATURE_SETS = [
    None,
    {"union", "filter"}, {"graph", "filter"}, {"graph", "union"}, {"values", "union"}, {"values", "filter", "graph"},
    {"bind", "filter"}, {"sub", "order", "limit", "distinct"}, {"sub", "agg", "order"}, {"agg", "graph"}, {"agg", "union"},
    {"from", "graph"}, {"graph", "sub"}, {"graph", "sub", "union"}, {"from", "union", "distinct"}, {"order", "limit"}, {"distinct", "union", "values"},
]


def gen_cases(seed, n):
    rng = random.Random(seed * 7919 + 1)
    cases = []
    for i in range(n):
        quads = G.gen_dataset(rng)
        feats = FEATURE_SETS[i % len(FEATURE_SETS)]
        g = G.Gen(rng, feats, quads)
        if i % 3 == 2:
            # every operator nested in every other one, cycling through all ordered pairs
            k = (i // 3) % (len(G.Gen.OPS) ** 2)
            q = g.nested(G.Gen.OPS[k // len(G.Gen.OPS)], G.Gen.OPS[k % len(G.Gen.OPS)])
        else:
            q = g.select(rng.choice([1, 2, 2, 3]))
        if i % 12 == 5:
            # wide left side (> 64 rows) so that execute_bind_join takes its parallel chunk path
            quads = G.gen_dataset(rng, 26)
            V = G.V
            q = {"distinct": False, "star": True, "proj": [], "from": [], "fromnamed": [], "group": [], "order": [], "limit": -1,
                 "p": {"t": "join", "ps": [{"t": "bgp", "tps": [[V("a"), V("b"), V("c")]]}, {"t": "bgp", "tps": [[V("d"), G.C(rng.choice(G.P_IRI)), V("e")]]},
                                           {"t": "bgp", "tps": [[V("a"), V("h"), V("f")]]}]}}
        if i % 15 == 7:
            # a sub-SELECT ordered by a variable it does not project, cut by LIMIT: distinct sort keys make the cut definite
            quads = [x for x in quads if not (x[1] == G.P_VAL and x[3] == "")]
            vals = rng.sample(G.INTS, 4)
            quads += [(G.IRIS[k], G.P_VAL, vals[k], "") for k in range(4)]
            quads = sorted(set(quads))
            V, C = G.V, G.C
            inner = {"distinct": False, "star": False, "proj": [{"k": "VAR", "v": "a", "as": "a"}], "from": [], "fromnamed": [], "group": [],
                     "p": {"t": "join", "ps": [{"t": "bgp", "tps": [[V("a"), C(G.P_VAL), V("b")]]}]},
                     "order": [{"v": "b", "d": rng.choice(["asc", "desc"])}], "limit": rng.choice([1, 2, 3])}
            ps = [{"t": "sub", "q": inner}]
            if rng.random() < 0.5:
                ps.append({"t": "bgp", "tps": [[V("a"), V("c"), V("d")]]})
            q = {"distinct": False, "star": True, "proj": [], "from": [], "fromnamed": [], "group": [], "order": [], "limit": -1, "p": {"t": "join", "ps": ps}}
        if i % 15 == 11:
            # twin sub-SELECTs: same pattern and projection, different ORDER BY direction / LIMIT (the minimum-and-maximum idiom),
            # combined by UNION or by a join: each must be evaluated with its own modifiers
            quads = [x for x in quads if not (x[1] == G.P_VAL and x[3] == "")]
            vals = rng.sample(G.INTS, 4)
            quads += [(G.IRIS[k], G.P_VAL, vals[k], "") for k in range(4)]
            quads = sorted(set(quads))
            V, C = G.V, G.C

            def twin(direction, limit):
                return {"distinct": False, "star": False, "proj": [{"k": "VAR", "v": "a", "as": "a"}, {"k": "VAR", "v": "b", "as": "b"}], "from": [], "fromnamed": [],
                        "group": [], "p": {"t": "join", "ps": [{"t": "bgp", "tps": [[V("a"), C(G.P_VAL), V("b")]]}]},
                        "order": [{"v": "b", "d": direction}], "limit": limit}
            kind = (i // 15) % 3
            t1, t2 = [(twin("asc", 1), twin("desc", 1)), (twin("asc", 1), twin("asc", 3)), (twin("desc", 2), twin("asc", 2))][kind]
            if (i // 45) % 2 == 0:
                p = {"t": "join", "ps": [{"t": "union", "ps": [{"t": "join", "ps": [{"t": "sub", "q": t1}]}, {"t": "join", "ps": [{"t": "sub", "q": t2}]}]}]}
            else:
                p = {"t": "join", "ps": [{"t": "sub", "q": t1}, {"t": "sub", "q": t2}]}
            q = {"distinct": False, "star": True, "proj": [], "from": [], "fromnamed": [], "group": [], "order": [], "limit": -1, "p": p}
        if i % 15 == 13:
            # merged default graph: two or three FROM graphs (triples duplicated across them: the merge is duplicate-free) and joins
            # in which several left rows probe the same triple
            srcs = [G.GRAPHS[0], G.GRAPHS[1]]
            quads = sorted(set(quads) | {(s_, p_, o_, G.GRAPHS[(k + 1) % 2]) for k, (s_, p_, o_, g_) in enumerate(quads) if g_ == "" and k % 2 == 0})
            merged = sorted({(s_, p_, o_) for s_, p_, o_, g_ in quads if g_ in srcs})
            V, C = G.V, G.C
            preds = sorted({x[1] for x in merged if G.kind_of(x[2]) == "iri"}) or [G.P_IRI[0]]
            P, Q = rng.choice(preds), rng.choice(preds)
            shape = [[[V("a"), C(P), V("b")], [V("c"), C(P), V("b")]],
                     [[V("a"), C(P), V("b")], [V("b"), C(Q), V("c")]],
                     [[V("a"), V("c"), V("b")], [V("d"), V("c"), V("b")]],
                     [[V("a"), C(P), V("b")], [V("a"), C(Q), V("c")], [V("c"), V("d"), V("b")]]][(i // 15) % 4]
            ps = [{"t": "bgp", "tps": shape}]
            if (i // 60) % 2:
                ps.append({"t": "values", "vars": ["b"], "rows": [[C(x)] for x in sorted({t[2] for t in merged if G.kind_of(t[2]) == "iri"})[:3]] or [[C(G.IRIS[0])]]})
            q = {"distinct": False, "star": True, "proj": [], "from": srcs + ([G.GRAPHS[2]] if (i // 15) % 2 else []), "fromnamed": [], "group": [], "order": [], "limit": -1,
                 "p": {"t": "join", "ps": ps}}
        force_junk = False
        if i % 15 == 10:
            # delete history + joins with a variable predicate whose object / subject is bound by the join: every index permutation
            # is read by some pattern, an index that a delete left stale resurrects quads (own random stream: the other cases keep theirs)
            r2 = random.Random(seed * 1000003 + i)
            V, C = G.V, G.C
            shape = [[[V("a"), V("c"), V("b")], [V("b"), V("d"), V("a")]],
                     [[V("b"), V("d"), V("c")], [V("a"), V("c"), V("b")]],
                     [[V("a"), V("c"), C(r2.choice(G.IRIS[:4]))], [V("a"), V("d"), V("b")]],
                     [[C(r2.choice(G.IRIS[:4])), V("c"), V("b")], [V("b"), V("d"), V("a")]]][(i // 15) % 4]
            q = {"distinct": False, "star": True, "proj": [], "from": [], "fromnamed": [], "group": [], "order": [], "limit": -1,
                 "p": {"t": "join", "ps": [{"t": "bgp", "tps": shape[:1] if (i // 60) % 3 == 2 else shape}]}}
            force_junk = True
        if i % 15 == 4:
            # twins: two union branches that differ in one detail deep inside (plan memo keys, caches by sub-plan shape)
            q = G.twin_query(rng, quads, G.TWIN_KINDS[(i // 15) % len(G.TWIN_KINDS)])
        text = G.pr_select(q)
        if i % 10 == 9:
            text = G.dollar(text)       # $x is the same variable as ?x
        if i % 10 == 8:
            text = G.with_prefix(text)  # PREFIX prologue, IRIs as prefixed names
        # the dataset is the result of a history: some quads (sharing terms with the kept ones) are inserted and deleted again
        junk = []
        if force_junk:
            # quads that share subject / object with kept ones, inserted and deleted again
            cand_all = sorted({(s_, p_, o_, "") for s_ in G.IRIS[:4] for p_ in G.P_IRI for o_ in G.IRIS[:5]} - set(quads))
            junk = random.Random(seed * 7 + i).sample(cand_all, min(5, len(cand_all)))
        for _ in range(rng.choice([0, 2, 3, 4])):
            s_, p_, o_, g_ = rng.choice(quads)
            cand = rng.choice([(rng.choice(G.IRIS[:4]), p_, o_, g_), (s_, rng.choice(G.PREDS), o_, g_), (s_, p_, o_, rng.choice(["", G.GRAPHS[0], G.GRAPHS[1]]))])
            if cand not in quads and cand not in junk and (G.kind_of(cand[2]) == "iri" or cand[1] in (G.P_VAL, G.P_LIT)):
                junk.append(cand)
        deletes = []
        if junk:
            body = " ".join((f"{G.render(a)} {G.render(b)} {G.render(c)} ." if d == "" else f"GRAPH <{d}> {{ {G.render(a)} {G.render(b)} {G.render(c)} . }}") for a, b, c, d in junk)
            deletes = [{"k": "update", "ep": "update", "text": "DELETE DATA { " + body + " }"}]
        steps = G.setup_steps(sorted(set(quads) | set(junk))) + deletes + [{"k": "query", "ep": "query", "text": text, "id": 1},
                                        {"k": "query", "ep": "volcano", "text": text, "id": 2}]
        cases.append({"steps": steps, "pass": {"q": q, "cols": G.cols_of(q), "intended": [list(x) for x in quads], "text": text}})
    return cases


def lexicals_of(obj, out):
    if isinstance(obj, str):
        out.add(obj)
    elif isinstance(obj, list):
        for x in obj:
            lexicals_of(x, out)
    elif isinstance(obj, dict):
        for x in obj.values():
            lexicals_of(x, out)


def to_tlc_events(trace_path, out_path):
    """One TLC event per executed query: stored dataset (as recorded before the query), tree, rows."""
    runs = vlib.split_runs(vlib.read_ndjson(trace_path))
    events, meta = [], {}
    eid = 0
    load_mismatch = 0
    for rid, ev in sorted(runs.items()):
        case = ev[0]["case"]
        ps = case["pass"]
        prev = None
        for st in ev[1:]:
            if st["k"] == "query":
                eid += 1
                lex = set()
                lexicals_of(prev["quads"], lex)
                lexicals_of(st["rows"], lex)
                lexicals_of(ps["q"], lex)
                lex.discard("")
                kind, num, rank, canon = G.tables(lex, G.resource_terms(prev["quads"]))
                unscalable = [x for x in lex if G.kind_of(x) == "num" and x not in num]
                if sorted(map(tuple, prev["quads"])) != sorted(map(tuple, ps["intended"])):
                    load_mismatch += 1
                e = {"ev": "select", "run": eid, "quads": prev["quads"], "graphs": prev["graphs"], "kind": kind, "num": num,
                     "rank": rank, "canon": canon, "q": ps["q"], "cols": ps["cols"], "rows": st["rows"],
                     "err": (st["res"] + ": " + st["err"]) if st["res"] != "ok" else ("unscalable-number" if unscalable else "")}
                events.append(e)
                meta[eid] = {"case": case, "ep": st["ep"], "rows": st["rows"], "err": e["err"], "text": ps["text"]}
            prev = st
    vlib.write_ndjson(out_path, events)
    return events, meta, load_mismatch


LENIENT = {
    "unbound": "a comparison with an unbound operand is false instead of an error (visible under negation)",
    "types": "untyped comparison: ordering treats a non-numeric operand as 0, != between a number and a plain literal is true",
    "concat": "CONCAT binds its output for IRI or unbound arguments instead of raising a type error",
    "avg": "AVG over an empty group is unbound instead of 0",
    "order": "ORDER BY compares untyped lexical forms: numbers sort before IRIs and plain literals by code point (SPARQL: IRIs before literals)",
    "sideways": "a FILTER / VALUES UNDEF / UNION branch inside a nested group sees variables bound by a preceding sibling (bind join substitutes the left solution into the right-hand pattern); SPARQL evaluates the nested group on its own",
    "sideways+": "nested group evaluated with the bindings of a preceding sibling substituted, combined with the untyped expression semantics",
    "several": "explained only by several relaxations of the expression semantics together",
}


def sig_for(verdict_kind, m):
    feats = sorted(_features(m["case"]["pass"]["q"]))
    if verdict_kind.startswith("lenient:"):
        return "execute_select|expression error semantics|" + LENIENT[verdict_kind.split(":")[1]]
    if verdict_kind == "error":
        return "execute_select|" + m["err"].split(":")[0] + "|query of the supported fragment not executed: " + m["err"][:60]
    return "execute_select|" + "+".join(feats) + "|rows differ from the SPARQL algebra"


def _features(q, out=None):
    out = set() if out is None else out

    def walk(p):
        out.add(p["t"])
        for e in p.get("ps", []):
            walk(e)
        if "p" in p and isinstance(p["p"], dict):
            walk(p["p"])
        if p["t"] == "sub":
            _features(p["q"], out)
    walk(q["p"])
    for k in ("distinct", "star"):
        if q[k]:
            out.add(k)
    if q["order"]:
        out.add("order")
    if q["limit"] >= 0:
        out.add("limit")
    if q["from"] or q["fromnamed"]:
        out.add("from")
    if any(x["k"] != "VAR" for x in q["proj"]):
        out.add("agg")
    out.discard("join")
    out.discard("bgp")
    return out


def validate(wd, trace, verdict, tag):
    evp = os.path.join(wd, tag + "-tlc.ndjson")
    events, meta, mism = to_tlc_events(trace, evp)
    res = vlib.tlc_trace(FAMILY, "SparqlTrace.tla", "SparqlTrace.cfg", evp, tag=f"c01-{tag}", heap="8g", timeout=3000)
    failed = {}
    for f in res["fail"]:
        failed[f[0]] = f[1]
        m = meta[f[0]]
        verdict.violation(sig_for(f[1], m), {"driver": "sparql", "case": m["case"], "ep": m["ep"], "observed_rows": m["rows"], "verdict": f[1], "err": m["err"]}, detail=m["text"][:200])
    skipped = {i[0]: i[1] for i in res["info"]}
    return events, meta, failed, skipped, res, mism


def oracle_laws():
    """Engine-independent sanity of the oracle: tla/sparql/MCLaws.tla evaluates algebraic laws the SPARQL algebra must satisfy on
    Sparql.tla's Eval for every dataset of a small universe (ASSUME-evaluated, one TLC start).  A law that fails means the
    specification is wrong - a tool error, never a verdict."""
    rc_, out_, _ = vlib._tlc(os.path.join(vlib.TLA, FAMILY), "MCLaws.tla", "MCLaws.cfg", 1, 1200, env_extra={"JAVA_TOOL_OPTIONS": "-Xss512m"}, tag="c01-laws")
    laws = {t[0]: t[1] for _tag, t in vlib._printed_tuples_any(out_, "LAW")}
    inst = laws.pop("instances", 0)
    bad = [k for k, v in laws.items() if v is not True]
    if bad or len(laws) < 15:
        import sys as _sys
        _sys.stdout.write(out_[-3000:])
        raise vlib.ToolError(f"Sparql.tla violates algebraic laws {bad} (or MCLaws.tla did not evaluate): the oracle is wrong, not a verdict")
    return {"held": sorted(laws), "instances": inst}


def run(ctx):
    t0 = time.time()
    verdict = vlib.Verdict("C01", ctx.seed, ctx.tier)
    wd = vlib.workdir("c01")
    if ctx.replay:
        case = json.load(open(ctx.replay))["case"]["case"]
        vlib.write_ndjson(os.path.join(wd, "cases.ndjson"), [case])
        vlib.kverif(["sparql", "--cases", os.path.join(wd, "cases.ndjson"), "--out", os.path.join(wd, "replay.ndjson")])
        validate(wd, os.path.join(wd, "replay.ndjson"), verdict, "replay")
        return verdict.finish()
    thorough = ctx.tier == "thorough"
    laws = oracle_laws()
    log(f"L1 Sparql.tla satisfies {len(laws['held'])} algebraic laws (join, union, filter scope / push-down with a failing control, GRAPH ?g, "
        f"VALUES) on {laws['instances']} (dataset, pattern pair) instances")
    n = 10000 if thorough else 1200
    cases = gen_cases(ctx.seed, n)
    vlib.write_ndjson(os.path.join(wd, "cases.ndjson"), cases)
    vlib.kverif(["sparql", "--cases", os.path.join(wd, "cases.ndjson"), "--out", os.path.join(wd, "trace.ndjson")])
    events, meta, failed, skipped, res, mism = validate(wd, os.path.join(wd, "trace.ndjson"), verdict, "l3")
    log(f"L3 judged {len(events)} SELECT executions of {n} generated queries: {len(failed)} rejected, {len(skipped)} skipped (precondition), "
        f"{mism} with stored != intended dataset")
    rc = verdict.finish()
    feats_seen = {}
    distinct = set()
    for eid, m in meta.items():
        if eid in skipped or eid in failed:
            continue
        if m["rows"]:
            distinct.add(vlib.case_hash([m["case"]["pass"]["text"], m["case"]["pass"]["intended"]]))
        for f in _features(m["case"]["pass"]["q"]):
            feats_seen[f] = feats_seen.get(f, 0) + (1 if m["rows"] else 0)
    smp = meta[1]
    cov = {"evaluations": len(events), "distinct_nontrivial": len(distinct),
           "rule": "seeded random (dataset, SELECT syntax tree) pairs over 6 IRIs/3 literals/5 integers, default + 2 named graphs + 1 empty graph, "
                   "a triple duplicated across graphs; each executed through execute_sparql_query and execute_query_rayon_parallel2_volcano; "
                   "distinct by (query text, dataset); non-trivial = accepted with a non-empty answer",
           "samples": [{"text": smp["text"], "dataset": smp["case"]["pass"]["intended"], "rows": smp["rows"]}],
           "states": res["states"], "transitions": res["states"], "traces_validated_against_impl": len(events),
           "oracle_laws_checked": laws["held"], "oracle_law_instances": laws["instances"],
           "nonempty_answers_per_feature": feats_seen, "skipped_precondition": len(skipped), "rejected": len(failed)}
    vlib.write_evidence("C01", ctx.tier, ctx.seed, "model_checking", cov,
                        ["terms are lexical strings (Kolibrie's dictionary is untyped): numbers are recognised by their lexical form",
                         "kind / numeric value / code-point rank tables for the lexical forms are computed by the Python driver and trusted",
                         "subquery ORDER BY+LIMIT cuts that are not definite (ties at the boundary) are skipped, not judged",
                         "COUNT, OPTIONAL, MINUS, property paths are outside the supported fragment"],
                        time.time() - t0, len(verdict.violations))
    return rc
