//! C05 driver: materialises a rule set over a fact set with every strategy of the real
//! `datalog::reasoning::Reasoner` (naive, semi-naive, parallel, provenance-tracking with
//! BooleanProvenance), under several rule / fact insertion orders, each followed by a second
//! run on the same object.  One `mat` event per (order, strategy); nothing is judged here.
//!
//! case: {"rules":[{"prem":[atom..],"neg":[atom..],"flt":[filter..],"concl":[atom..]}..],
//!        "facts":[[s,p,o]..], "perms":n, "seed":k, "strategies":[..], "hasmodel":bool, "model":[[fact..]..]}
//! atom = [pat,pat,pat], pat = ["c",name] | ["v",name]
//! filter = {"var":v,"op":op,"kind":"n"|"v","num":int,"other":var|"-"}
use crate::util::*;
use datalog::reasoning::Reasoner;
use serde_json::{json, Value};
use shared::provenance::BooleanProvenance;
use shared::rule::{FilterCondition, Rule};
use shared::terms::{Term, TriplePattern};
use shared::triple::Triple;
use std::sync::{Arc, Mutex};

const STRATEGIES: [&str; 4] = ["naive", "semi_naive", "parallel", "provenance"];

fn pat(r: &Reasoner, v: &Value) -> Term {
    let name = v[1].as_str().unwrap();
    if v[0].as_str().unwrap() == "v" {
        Term::Variable(name.to_string())
    } else {
        Term::Constant(r.dictionary.write().unwrap().encode(name))
    }
}

fn atoms(r: &Reasoner, v: &Value) -> Vec<TriplePattern> {
    v.as_array().unwrap().iter().map(|a| (pat(r, &a[0]), pat(r, &a[1]), pat(r, &a[2]))).collect()
}

fn rule(r: &Reasoner, v: &Value) -> Rule {
    let filters = v["flt"].as_array().unwrap().iter().map(|f| FilterCondition {
        variable: f["var"].as_str().unwrap().to_string(),
        operator: f["op"].as_str().unwrap().to_string(),
        value: if f["kind"].as_str().unwrap() == "n" { f["num"].as_i64().unwrap().to_string() } else { f["other"].as_str().unwrap().to_string() },
    }).collect();
    Rule { premise: atoms(r, &v["prem"]), negative_premise: atoms(r, &v["neg"]), filters, conclusion: atoms(r, &v["concl"]) }
}

fn decode(r: &Reasoner, ts: &[Triple]) -> Vec<Value> {
    let d = r.dictionary.read().unwrap();
    let name = |id: u32| d.decode(id).map(|s| s.to_string()).unwrap_or_else(|| format!("?{id}"));
    ts.iter().map(|t| json!([name(t.subject), name(t.predicate), name(t.object)])).collect()
}

fn sorted(mut v: Vec<Value>) -> Vec<Value> {
    v.sort_by_key(|x| x.to_string());
    v
}

fn infer(r: &mut Reasoner, strategy: &str) -> Vec<Triple> {
    match strategy {
        "naive" => r.infer_new_facts_naive(),
        "semi_naive" => r.infer_new_facts_semi_naive(),
        "parallel" => r.infer_new_facts_semi_naive_parallel(),
        _ => r.infer_new_facts_with_provenance(BooleanProvenance).0,
    }
}

type Watch = Arc<Mutex<Option<(std::time::Instant, Value)>>>;

fn run_case(out: &Arc<Mutex<Out>>, run: &mut u64, case: &Value, wd: &Watch) {
    *run += 1;
    let rules = case["rules"].as_array().unwrap().clone();
    let facts = case["facts"].as_array().unwrap().clone();
    let perms = case.get("perms").and_then(|v| v.as_u64()).unwrap_or(1);
    let seed = case.get("seed").and_then(|v| v.as_u64()).unwrap_or(0);
    let hasmodel = case.get("hasmodel").and_then(|v| v.as_bool()).unwrap_or(false);
    let model = if hasmodel { case["model"].clone() } else { json!([]) };
    let strategies: Vec<String> = match case.get("strategies").and_then(|v| v.as_array()) {
        Some(a) => a.iter().map(|s| s.as_str().unwrap().to_string()).collect(),
        None => STRATEGIES.iter().map(|s| s.to_string()).collect(),
    };
    out.lock().unwrap().ev(json!({"ev":"reset","run":*run,"rules":rules,"facts":facts,"hasmodel":hasmodel,"model":model,"case":case}));
    for perm in 0..perms {
        // order 0 is the order of the case; the others are seeded shuffles of rules and facts
        let mut rs = rules.clone();
        let mut fs = facts.clone();
        if perm > 0 {
            let mut rng = Rng::new(seed.wrapping_mul(31).wrapping_add(perm));
            rng.shuffle(&mut rs);
            rng.shuffle(&mut fs);
        }
        for st in &strategies {
            let mut r = Reasoner::new();
            let mut rejected = false;
            // odd orders encode the constants of the rules before those of the facts (other identifiers)
            let add_rules = |r: &mut Reasoner, rejected: &mut bool| {
                for v in &rs {
                    let ru = rule(r, v);
                    if r.try_add_rule(ru).is_err() {
                        *rejected = true;
                    }
                }
            };
            if perm % 2 == 1 {
                add_rules(&mut r, &mut rejected);
            }
            for f in &fs {
                r.add_abox_triple(f[0].as_str().unwrap(), f[1].as_str().unwrap(), f[2].as_str().unwrap());
            }
            if perm % 2 == 0 {
                add_rules(&mut r, &mut rejected);
            }
            let mut ev = json!({"ev":"mat","strategy":st,"perm":perm,"rejected":rejected,"panic":false,"timeout":false,
                                "ret":[],"store":[],"second":[],"store2":[]});
            if !rejected {
                // termination is part of the property: the watchdog records a run that does not come back
                // before the deadline (as this event with "timeout": true) and ends the process
                let mut pending = ev.clone();
                pending["timeout"] = json!(true);
                *wd.lock().unwrap() = Some((std::time::Instant::now(), pending));
                let res = guarded(|| {
                    let ret = infer(&mut r, st);
                    let store = r.dataset_index.query(None, None, None);
                    let second = infer(&mut r, st);
                    let store2 = r.dataset_index.query(None, None, None);
                    (ret, store, second, store2)
                });
                *wd.lock().unwrap() = None;
                match res {
                    Ok((ret, store, second, store2)) => {
                        ev["ret"] = Value::Array(decode(&r, &ret));
                        ev["store"] = Value::Array(sorted(decode(&r, &store)));
                        ev["second"] = Value::Array(decode(&r, &second));
                        ev["store2"] = Value::Array(sorted(decode(&r, &store2)));
                    }
                    Err(_) => ev["panic"] = json!(true),
                }
            }
            out.lock().unwrap().ev(ev);
        }
    }
}

// ---------------------------------------------------------------- random programs

struct Gen {
    rng: Rng,
}

const ENT: [&str; 6] = ["e0", "e1", "e2", "e3", "e4", "e5"];
const PRED: [&str; 4] = ["p0", "p1", "p2", "p3"];
const NPRED: [&str; 2] = ["n0", "n1"];
const VARS: [&str; 6] = ["X", "Y", "Z", "W", "V", "U"];

fn c(x: &str) -> Value {
    json!(["c", x])
}
fn v(x: &str) -> Value {
    json!(["v", x])
}

impl Gen {
    fn ent(&mut self) -> &'static str {
        ENT[self.rng.below(ENT.len() as u64) as usize]
    }
    fn pred(&mut self, npred: usize) -> &'static str {
        PRED[self.rng.below(npred as u64) as usize]
    }

    /// subject / object position of a premise: mostly a variable already in use (connected joins)
    fn so_term(&mut self, used: &mut Vec<&'static str>, nent: usize) -> Value {
        let k = self.rng.below(100);
        if k < 45 && !used.is_empty() {
            v(used[self.rng.below(used.len() as u64) as usize])
        } else if k < 85 && used.len() < VARS.len() {
            let n = VARS[used.len()];
            used.push(n);
            v(n)
        } else {
            c(ENT[self.rng.below(nent as u64) as usize])
        }
    }

    fn head_term(&mut self, used: &[&'static str], nent: usize) -> Value {
        if !used.is_empty() && self.rng.chance(85, 100) {
            v(used[self.rng.below(used.len() as u64) as usize])
        } else {
            c(ENT[self.rng.below(nent as u64) as usize])
        }
    }

    fn program(&mut self) -> Value {
        let nent = self.rng.range(2, ENT.len() as u64) as usize;
        let npred = self.rng.range(1, PRED.len() as u64) as usize;
        let with_neg = self.rng.chance(30, 100);
        let nrules = match self.rng.below(10) { 0..=3 => 1, 4..=6 => 2, 7..=8 => 3, _ => 4 };
        // predicates that may be negated: preferably ones no rule concludes (stratified)
        let neg_pred = PRED[npred - 1];
        let head_preds = if with_neg && npred > 1 && self.rng.chance(80, 100) { npred - 1 } else { npred };
        let mut rules = Vec::new();
        for ri in 0..nrules {
            let nprem = match self.rng.below(10) { 0..=2 => 1, 3..=6 => 2, 7..=8 => 3, _ => 4 };
            let mut used: Vec<&'static str> = Vec::new();
            let mut pvars: Vec<&'static str> = Vec::new(); // predicate variables
            let mut numvars: Vec<&'static str> = Vec::new();
            let mut prem = Vec::new();
            for _ in 0..nprem {
                if self.rng.chance(15, 100) && used.len() + 1 < VARS.len() {
                    // numeric-valued premise (?s n_k ?num)
                    let s = self.so_term(&mut used, nent);
                    let n = VARS[used.len()];
                    used.push(n);
                    numvars.push(n);
                    prem.push(json!([s, c(NPRED[self.rng.below(2) as usize]), v(n)]));
                    continue;
                }
                let before = used.clone();
                let mut s = self.so_term(&mut used, nent);
                let p = if self.rng.chance(12, 100) {
                    if !pvars.is_empty() && self.rng.chance(1, 2) {
                        v(pvars[0])
                    } else if !used.is_empty() && self.rng.chance(1, 4) {
                        v(used[self.rng.below(used.len() as u64) as usize])
                    } else {
                        pvars.push("P");
                        v("P")
                    }
                } else {
                    c(self.pred(npred))
                };
                let mut o = if self.rng.chance(8, 100) { s.clone() } else { self.so_term(&mut used, nent) };
                // mostly connected bodies: a later premise shares a variable with the earlier ones
                let shares = |t: &Value| t[0] == "v" && before.iter().any(|b| t[1] == *b);
                if !before.is_empty() && !shares(&s) && !shares(&o) && self.rng.chance(85, 100) {
                    let w = v(before[self.rng.below(before.len() as u64) as usize]);
                    if self.rng.chance(1, 2) { s = w } else { o = w }
                }
                prem.push(json!([s, p, o]));
            }
            // a replaced term may have been the only occurrence of a fresh variable
            let occurs = |x: &str| prem.iter().any(|a: &Value| (0..3).any(|k| a[k][0] == "v" && a[k][1] == x));
            used.retain(|u| occurs(u));
            numvars.retain(|u| occurs(u));
            let mut allvars = used.clone();
            if !pvars.is_empty() {
                allvars.push("P");
            }
            // conclusions
            let nconcl = match self.rng.below(10) { 0..=6 => 1, 7..=8 => 2, _ => 3 };
            let mut concl = Vec::new();
            for _ in 0..nconcl {
                let s = self.head_term(&used, nent);
                let p = if !pvars.is_empty() && self.rng.chance(1, 3) { v("P") } else { c(PRED[self.rng.below(head_preds as u64) as usize]) };
                let o = if !numvars.is_empty() && self.rng.chance(1, 5) {
                    // copy a number: (?s n_k ?num)
                    concl.push(json!([s, c(NPRED[self.rng.below(2) as usize]), v(numvars[0])]));
                    continue;
                } else {
                    self.head_term(&used, nent)
                };
                concl.push(json!([s, p, o]));
            }
            // filters
            let mut flt = Vec::new();
            if !numvars.is_empty() && self.rng.chance(80, 100) {
                let ops = [">", "<", ">=", "<=", "=", "!="];
                let nf = if self.rng.chance(1, 4) { 2 } else { 1 };
                for _ in 0..nf {
                    flt.push(json!({"var": numvars[self.rng.below(numvars.len() as u64) as usize], "op": ops[self.rng.below(6) as usize],
                                    "kind": "n", "num": self.rng.below(10), "other": "-"}));
                }
            }
            if used.len() >= 2 && self.rng.chance(20, 100) {
                let a = used[self.rng.below(used.len() as u64) as usize];
                let b = used[self.rng.below(used.len() as u64) as usize];
                if a != b {
                    flt.push(json!({"var": a, "op": if self.rng.chance(3, 4) { "!=" } else { "=" }, "kind": "v", "num": 0, "other": b}));
                }
            }
            // negation (only in some rules of a program that has negation)
            let mut neg = Vec::new();
            if with_neg && (ri == 0 || self.rng.chance(1, 3)) {
                let nn = if self.rng.chance(1, 5) { 2 } else { 1 };
                for _ in 0..nn {
                    let s = self.head_term(&used, nent);
                    let o = self.head_term(&used, nent);
                    let p = if self.rng.chance(85, 100) { c(neg_pred) } else if !pvars.is_empty() { v("P") } else { c(self.pred(npred)) };
                    neg.push(json!([s, p, o]));
                }
            }
            let _ = allvars;
            rules.push(json!({"prem": prem, "neg": neg, "flt": flt, "concl": concl}));
        }
        // facts: instances of the premises (so that rules fire), some negated atoms, noise
        let mut facts: Vec<Value> = Vec::new();
        let push = |facts: &mut Vec<Value>, f: Value| {
            if facts.len() < 25 && !facts.contains(&f) {
                facts.push(f);
            }
        };
        for ru in &rules {
            let ninst = match self.rng.below(10) { 0..=1 => 0, 2..=6 => 1, 7..=8 => 2, _ => 3 };
            for _ in 0..ninst {
                // a random ground instance of the rule body
                let mut asg: Vec<(String, String)> = Vec::new();
                let mut ground = |g: &mut Gen, t: &Value, pos: usize, numeric: bool| -> String {
                    if t[0] == "c" {
                        return t[1].as_str().unwrap().to_string();
                    }
                    let name = t[1].as_str().unwrap().to_string();
                    if let Some((_, val)) = asg.iter().find(|(n, _)| *n == name) {
                        return val.clone();
                    }
                    let val = if numeric { g.rng.below(10).to_string() }
                              else if pos == 1 { PRED[g.rng.below(npred as u64) as usize].to_string() }
                              else { ENT[g.rng.below(nent as u64) as usize].to_string() };
                    asg.push((name, val.clone()));
                    val
                };
                let mut inst = Vec::new();
                for a in ru["prem"].as_array().unwrap() {
                    let numeric = a[1][0] == "c" && NPRED.contains(&a[1][1].as_str().unwrap());
                    let s = ground(self, &a[0], 0, false);
                    let p = ground(self, &a[1], 1, false);
                    let o = ground(self, &a[2], 2, numeric);
                    inst.push(json!([s, p, o]));
                }
                for f in inst {
                    push(&mut facts, f);
                }
                if self.rng.chance(35, 100) {
                    for a in ru["neg"].as_array().unwrap() {
                        let s = ground(self, &a[0], 0, false);
                        let p = ground(self, &a[1], 1, false);
                        let o = ground(self, &a[2], 2, false);
                        push(&mut facts, json!([s, p, o]));
                    }
                }
            }
        }
        let noise = match self.rng.below(10) { 0..=2 => 0, 3..=6 => self.rng.range(1, 6), _ => self.rng.range(4, 16) };
        for _ in 0..noise {
            let f = if self.rng.chance(20, 100) {
                json!([ENT[self.rng.below(nent as u64) as usize], NPRED[self.rng.below(2) as usize], self.rng.below(10).to_string()])
            } else {
                json!([ENT[self.rng.below(nent as u64) as usize], self.pred(npred), ENT[self.rng.below(nent as u64) as usize]])
            };
            push(&mut facts, f);
        }
        self.rng.shuffle(&mut facts);
        let _ = self.ent();
        json!({"rules": rules, "facts": facts})
    }
}

fn gen_cases(seed: u64, n: u64, perms: u64) -> Vec<Value> {
    let mut g = Gen { rng: Rng::new(seed) };
    let mut cases = Vec::new();
    for i in 0..n {
        let mut p = g.program();
        p["perms"] = json!(perms);
        p["seed"] = json!(seed.wrapping_mul(1_000_003).wrapping_add(i));
        p["hasmodel"] = json!(false);
        p["model"] = json!([]);
        cases.push(p);
    }
    cases
}

pub fn main(a: &Args) {
    // --gen-only FILE: write the seeded random cases to FILE and stop (the check splits them into chunks)
    if let Some(f) = a.get("gen-only") {
        let mut out = Out::create(f);
        for cs in gen_cases(a.num("seed", 1), a.num("random", 100), a.num("perms", 3)) {
            out.ev(cs);
        }
        out.finish();
        return;
    }
    let out = Arc::new(Mutex::new(Out::create(a.req("out"))));
    let wd: Watch = Arc::new(Mutex::new(None));
    let deadline = std::time::Duration::from_secs(a.num("deadline", 30));
    {
        let (out, wd) = (out.clone(), wd.clone());
        std::thread::spawn(move || loop {
            std::thread::sleep(std::time::Duration::from_millis(250));
            let hung = match &*wd.lock().unwrap() {
                Some((t0, ev)) if t0.elapsed() > deadline => Some(ev.clone()),
                _ => None,
            };
            if let Some(ev) = hung {
                let mut o = out.lock().unwrap();
                o.ev(ev);
                o.flush();
                std::process::exit(0); // the stuck materialisation cannot be stopped: the trace ends here
            }
        });
    }
    let mut run = 0u64;
    let cases = if let Some(f) = a.get("cases") { read_cases(f) } else { gen_cases(a.num("seed", 1), a.num("random", 100), a.num("perms", 3)) };
    for cs in &cases {
        run_case(&out, &mut run, cs, &wd);
    }
    out.lock().unwrap().flush();
}
