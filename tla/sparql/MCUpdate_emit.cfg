SPECIFICATION Spec
CONSTANTS
  Variant = "code"
  Datasets <- AllDatasets
  Ops <- MenuOps
  KindTab <- Kinds
  BlankPrefix = "_:kolibrie-update-"
  MaxCtr = 9
INVARIANTS EffectHolds RejectedUnchanged FreshIsFresh Emit
CHECK_DEADLOCK FALSE
