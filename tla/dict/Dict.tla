-------------------------------- MODULE Dict --------------------------------
(***************************************************************************)
(* Requirement module for C15 (first sentence): one dictionary with its    *)
(* quoted-triple store is a stable bijection.                              *)
(*   enc, qenc  the identifier maps (relations, see Terms.tla)             *)
(*   handed     ghost: every (key, identifier) pair ever returned          *)
(* Encode / QEncode do not assume any numbering: a new key may receive any *)
(* unused identifier of its range.  Decode, QDecode and DecodeTerm are     *)
(* read-only and therefore operators (Terms!Inv, Terms!Render).            *)
(***************************************************************************)
EXTENDS Terms

CONSTANTS Str,        \* strings that may be encoded
          NPlain,     \* number of identifiers available to plain terms
          NQuoted     \* number of identifiers available to quoted triples

PlainIds  == {<<0, n>> : n \in 0..(NPlain - 1)}
QuotedIds == {<<1, n>> : n \in 0..(NQuoted - 1)}

VARIABLES enc, qenc, handed
dvars == <<enc, qenc, handed>>

KnownIds == Ran(enc) \cup Ran(qenc)

Encode(s, id) ==
  /\ EncodeOK(enc, s, id)
  /\ enc' = enc \cup {<<s, id>>}
  /\ handed' = [handed EXCEPT !.p = @ \cup {<<s, id>>}]
  /\ UNCHANGED qenc

\* precondition: the components are identifiers that were handed out
QEncode(t, id) ==
  /\ \A i \in 1..3 : t[i] \in KnownIds
  /\ QEncodeOK(qenc, t, id)
  /\ qenc' = qenc \cup {<<t, id>>}
  /\ handed' = [handed EXCEPT !.q = @ \cup {<<t, id>>}]
  /\ UNCHANGED enc

DInit == enc = {} /\ qenc = {} /\ handed = [p |-> {}, q |-> {}]
DNext == \/ \E s \in Str, id \in PlainIds : Encode(s, id)
         \/ \E t \in KnownIds \X KnownIds \X KnownIds, id \in QuotedIds : QEncode(t, id)
DSpec == DInit /\ [][DNext]_dvars

---------------------------------------------------------------------------
Bijective      == Bij(enc) /\ Bij(qenc)                       \* same term - same id, distinct terms - distinct ids
RangesDisjoint == (\A p \in enc : IsPlain(p[2])) /\ (\A p \in qenc : IsQ(p[2])) /\ Ran(enc) \cap Ran(qenc) = {}
RoundTrip      == /\ \A p \in enc  : Inv(enc, Get(enc, p[1])) = p[1]      \* Decode o Encode = id
                  /\ \A p \in qenc : Inv(qenc, Get(qenc, p[1])) = p[1]
                  /\ \A id \in KnownIds : Renderable(enc, qenc, id)
HandedCurrent  == handed.p \subseteq enc /\ handed.q \subseteq qenc  \* what was handed out is still the mapping
Nesting        == WellFounded(enc, qenc)
\* action property: identifiers handed out earlier never change as more terms arrive
Stable == [][handed.p \subseteq handed'.p /\ handed.q \subseteq handed'.q /\ enc \subseteq enc' /\ qenc \subseteq qenc']_dvars

Bound == Cardinality(qenc) <= 2
=============================================================================
