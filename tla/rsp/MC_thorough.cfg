SPECIFICATION Spec
CONSTANTS
  Universe <- U4
  MaxFirings = 4
  Ops <- AllOps
  Rules <- RulesPQ
  Query <- QueryQ
  FixDerived = TRUE
INVARIANTS EmissionIsFunctionOfStream StoreIsCurrentWindow FifoOrder
CHECK_DEADLOCK FALSE
