SPECIFICATION Spec
CONSTANTS
  MaxDepth = 10
  FixRename = TRUE
  Programs <- MCPrograms
  GoalNames <- MCGoalNamesMore
  Consts = {1, 2, 3}
  Preds = {21, 22}
INVARIANTS Emit
CHECK_DEADLOCK FALSE
