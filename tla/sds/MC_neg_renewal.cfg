SPECIFICATION Spec
CONSTANTS
  W <- MCW23
  S <- MCS
  O <- MCO
  Programs <- MCPrograms
  Pool <- MCPool
  MaxT = 3
  MaxSteps = 3
  LazyModes = {FALSE}
  KeepHist = FALSE
  Variant = "renewals-ignored"
INVARIANTS ExpiryIsMaxMin
CHECK_DEADLOCK FALSE
