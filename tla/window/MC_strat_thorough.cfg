SPECIFICATION Spec
CONSTANTS
  MaxTs = 6
  MaxLen = 4
  Widths = {1,2,3,4}
  Slides = {1,2,3}
  Strategies <- StratMore
  FixEvict = TRUE
INVARIANTS ContentExact StrategyPost Monotone ExactlyOnce UniqueKeys FlushExact
CHECK_DEADLOCK FALSE
