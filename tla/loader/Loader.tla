------------------------------- MODULE Loader -------------------------------
(***************************************************************************)
(* Requirement of C13: loading a document adds exactly its triples.        *)
(*                                                                         *)
(* A document of the line-oriented subset is a sequence of lines           *)
(*   [kind |-> "blank"]    [kind |-> "comment"]                            *)
(*   [kind |-> "prefix", name |-> n, iri |-> i]                            *)
(*   [kind |-> "triple", s |-> t, p |-> t, o |-> t, g |-> t]               *)
(* and a term is a record                                                  *)
(*   [k |-> "iri", v |-> iri]                 <iri>                        *)
(*   [k |-> "pn",  x |-> prefix, v |-> local] prefix:local                 *)
(*   [k |-> "bn",  v |-> label]               _:label                      *)
(*   [k |-> "lit", v |-> value, t |-> "" | "lang" | "dt", x |-> tag/datatype]*)
(*   [k |-> "default"]                        (graph position only)        *)
(* The store is the set of lexical quads <<s, p, o, g>> (g = "" for the    *)
(* default graph) in the engine's term convention: an IRI is stored as its *)
(* text without brackets, a literal as its (unescaped) value, a language   *)
(* tagged literal as value@tag, a typed literal as its value, a blank node *)
(* as _:label.  Canon does not depend on the format, so "the same triples  *)
(* written in different formats load identically" (FormatsAgree) is part of*)
(* the requirement by construction: every loader must realise Load.        *)
(***************************************************************************)
EXTENDS Naturals, Sequences, FiniteSets

VARIABLE store

DefaultG == [k |-> "default", v |-> "", x |-> "", t |-> ""]

MaxOf(S) == CHOOSE x \in S : \A y \in S : y <= x

PrefixLines(doc) == {j \in 1..Len(doc) : doc[j].kind = "prefix"}
TripleLines(doc) == {j \in 1..Len(doc) : doc[j].kind = "triple"}

\* declarations of prefix n that are in force at line i (P = PrefixLines(doc))
Decls(doc, P, i, n) == {j \in P : j < i /\ doc[j].name = n}

Declared(doc, P, i, t) == t.k = "pn" => Decls(doc, P, i, t.x) # {}

\* the stored lexical form of term t written on line i
Canon(doc, P, i, t) ==
  CASE t.k = "iri" -> t.v
    [] t.k = "pn"  -> doc[MaxOf(Decls(doc, P, i, t.x))].iri \o t.v
    [] t.k = "bn"  -> "_:" \o t.v
    [] t.k = "lit" -> IF t.t = "lang" THEN t.v \o "@" \o t.x ELSE t.v
    [] OTHER       -> ""

Stored(doc) ==
  LET P == PrefixLines(doc)
  IN  {<<Canon(doc, P, i, doc[i].s), Canon(doc, P, i, doc[i].p),
         Canon(doc, P, i, doc[i].o), Canon(doc, P, i, doc[i].g)>> : i \in TripleLines(doc)}

(* The supported subset per format (precondition of the property).         *)
TermsOf(l) == {l.s, l.p, l.o, l.g}
InSubset(fmt, doc) ==
  LET P == PrefixLines(doc)
      T == TripleLines(doc)
  IN  /\ \A i \in T : \A t \in TermsOf(doc[i]) : Declared(doc, P, i, t)
      /\ \A i \in T : /\ doc[i].s.k \in {"iri", "pn", "bn"}
                      /\ doc[i].p.k \in {"iri", "pn"}
                      /\ doc[i].o.k \in {"iri", "pn", "bn", "lit"}
                      /\ doc[i].g.k \in {"default", "iri", "bn"}
      /\ fmt \in {"nt", "nq"} => P = {} /\ \A i \in T : \A t \in TermsOf(doc[i]) : t.k # "pn"
      /\ fmt # "nq" => \A i \in T : doc[i].g.k = "default"
      /\ fmt = "xml" => /\ \A i \in T : \A j \in P : j < i      \* namespaces are declared on the root element
                        /\ \A i \in T : doc[i].s.k = "iri" /\ doc[i].p.k = "pn" /\ doc[i].o.k \in {"iri", "lit"}

Load(fmt, doc) == InSubset(fmt, doc) /\ store' = store \cup Stored(doc)

(* AddsExactlyDoc as a predicate on an observed (pre, post) pair.         *)
AddsExactly(pre, doc, post) == post = pre \cup Stored(doc)
=============================================================================
