SPECIFICATION Spec
CONSTANTS
  MaxTs = 8
  MaxLen = 5
  Widths = {1,2,3,4,5}
  Slides = {1,2,3}
  Strategies <- StratDefault
  FixEvict = TRUE
INVARIANTS Emit
CHECK_DEADLOCK FALSE
