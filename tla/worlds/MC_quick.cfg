SPECIFICATION Spec
CONSTANTS
  Programs <- ProgsQuick
  CertainSets <- CSets
  UncertainSets <- USetsQuick
  Retrigger = TRUE
INVARIANTS TagsSound TagsExact StoreShape Emit
CHECK_DEADLOCK FALSE
