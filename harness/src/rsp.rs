//! RSP engine driver (C10, C11): builds a continuous query through RSPBuilder, feeds seeded
//! streams in SingleThread or MultiThread mode under a perturbed schedule (hooks compiled with
//! --cfg kolibrie_verif) and returns the globally ordered event log:
//!   push (harness), fire / query (hooks, under the store lock), emit (result consumer).
use crate::util::*;
use kolibrie::rsp_engine::{OperationMode, QueryExecutionMode, RSPBuilder, RSPEngine, ResultConsumer, SimpleR2R};
use serde_json::{json, Value};
use shared::query::{Fallback, SyncPolicy};
use shared::triple::Triple;
use std::collections::HashMap;
use std::sync::Arc;
use std::time::{Duration, Instant};

fn policy_of(s: &str) -> SyncPolicy {
    match s {
        "steal" => SyncPolicy::Steal,
        "timeout-steal" => SyncPolicy::Timeout { duration: Duration::from_millis(30), fallback: Fallback::Steal },
        "timeout-drop" => SyncPolicy::Timeout { duration: Duration::from_millis(30), fallback: Fallback::Drop },
        _ => SyncPolicy::Wait,
    }
}

fn run_case(out: &mut Out, run: usize, case: &Value) {
    out.ev(json!({"ev":"reset","run":run,"case":case}));
    let _ = kolibrie::verif::take_log();
    let seed = case["seed"].as_u64().unwrap_or(0);
    let multi = case["mode"].as_str() == Some("multi");
    kolibrie::verif::set_seed(if multi { seed } else { 0 });
    let query = case["query"].as_str().unwrap().to_string();
    let rules = case["rules"].as_str().unwrap_or("").to_string();
    let stat = case["static"].as_str().unwrap_or("").to_string();
    // events are tagged (emit: run number; fire/query: the case's own window names, unique per case) so that
    // late events of a previous case's still-draining threads can be told apart and dropped
    let my_windows: Vec<String> = case["windows"].as_array().map(|a| a.iter().map(|w| w.as_str().unwrap_or("").to_string()).collect()).unwrap_or_default();
    let consumer = ResultConsumer {
        function: Arc::new(move |row: Vec<(String, String)>| {
            let o: serde_json::Map<String, Value> = row.into_iter().map(|(k, v)| (k, json!(v))).collect();
            kolibrie::verif::event(json!({"ev":"emit","row":o,"run":run}).to_string());
        }),
    };
    let built = guarded(|| {
        let r2r = Box::new(SimpleR2R::with_execution_mode(QueryExecutionMode::Volcano));
        let mut b: RSPBuilder<Triple, Vec<(String, String)>> = RSPBuilder::new()
            .add_rsp_ql_query(&query)
            .add_consumer(consumer)
            .add_r2r(r2r)
            .set_sync_policy(policy_of(case["policy"].as_str().unwrap_or("wait")))
            .set_operation_mode(if multi { OperationMode::MultiThread } else { OperationMode::SingleThread });
        if !rules.trim().is_empty() {
            b = b.add_rules(&rules);
        }
        b.build()
    });
    let mut engine: RSPEngine<Triple, Vec<(String, String)>> = match built {
        Ok(Ok(e)) => e,
        Ok(Err(e)) => { out.ev(json!({"ev":"builderr","err":e})); out.ev(json!({"ev":"end","run":run})); return; }
        Err(p) => { out.ev(json!({"ev":"builderr","err":format!("panic: {p}")})); out.ev(json!({"ev":"end","run":run})); return; }
    };
    if !stat.trim().is_empty() {
        engine.add_static_ntriples(&stat);
    }
    let mut lex: HashMap<String, Value> = HashMap::new();
    let mut rng = Rng::new(seed ^ 0x5eed);
    let mut panicked = false;
    for p in case["pushes"].as_array().unwrap() {
        let (s, pr, o) = (p["s"].as_str().unwrap(), p["p"].as_str().unwrap(), p["o"].as_str().unwrap());
        let ts = p["ts"].as_u64().unwrap() as usize;
        let stream = p["stream"].as_str().unwrap_or("");
        let data = format!("<{s}> <{pr}> <{o}> .");
        let r = guarded(|| {
            let triples = engine.parse_data(&data);
            for t in triples {
                lex.insert(format!("{:?}", t), json!([s, pr, o]));
                kolibrie::verif::event(json!({"ev":"push","stream":stream,"t":[s, pr, o],"ts":ts}).to_string());
                if stream.is_empty() { engine.add(t, ts); } else { engine.add_to_stream(stream, t, ts); }
            }
        });
        if r.is_err() { panicked = true; break; }
        // a source that stays silent for a while (wall-clock): the engine must still be there afterwards
        if let Some(ms) = p.get("pause_ms").and_then(|x| x.as_u64()) { std::thread::sleep(Duration::from_millis(ms)); }
        if multi {
            // how eagerly the feeder runs ahead of the workers is part of the schedule
            match rng.below(6) { 0 => std::thread::sleep(Duration::from_micros(300)), 1 => std::thread::yield_now(), 2 => std::thread::sleep(Duration::from_millis(2)), _ => {} }
        }
    }
    let _ = guarded(|| engine.stop());
    kolibrie::verif::event(json!({"ev":"stopped"}).to_string());
    // quiescence, decided by events rather than by timing: every window worker logs `worker-exit` when its channel
    // is closed and drained (stop() closes it); dropping the engine then disconnects the coordinator, which logs
    // `coordinator-exit`.  A thread that never gets there keeps this case from returning: the watchdog of main() records a `hang`
    // (engine threads block each other) and the driver is restarted behind this case.
    let mut log: Vec<String> = Vec::new();
    let mut timed_out = false;
    let has = |log: &Vec<String>, ev: &str, win: &str| log.iter().any(|l| l.contains(&format!("\"ev\":\"{ev}\"")) && l.contains(&format!("{}", serde_json::to_string(win).unwrap())));
    if multi {
        let t0 = Instant::now();
        loop {
            log.extend(kolibrie::verif::take_log());
            if my_windows.iter().all(|w| has(&log, "worker-exit", w)) { break; }
            if t0.elapsed() > Duration::from_secs(3600) { timed_out = true; break; }   // the watchdog of main() (90 s) fires first: a thread that never exits is a `hang`
            std::thread::sleep(Duration::from_millis(2));
        }
    }
    let expect_coordinator = multi && case["coordinator"].as_bool().unwrap_or(false);
    drop(engine);
    if expect_coordinator && !timed_out {
        let t0 = Instant::now();
        loop {
            log.extend(kolibrie::verif::take_log());
            if my_windows.iter().any(|w| has(&log, "coordinator-exit", w)) { break; }
            if t0.elapsed() > Duration::from_secs(3600) { timed_out = true; break; }   // the watchdog of main() (90 s) fires first: a thread that never exits is a `hang`
            std::thread::sleep(Duration::from_millis(2));
        }
    }
    log.extend(kolibrie::verif::take_log());
    if timed_out {
        log.push(json!({"ev":"timeout"}).to_string());
    }
    for (i, line) in log.iter().enumerate() {
        let mut v: Value = serde_json::from_str(line).unwrap_or(json!({"ev":"garbled"}));
        v["seq"] = json!(i + 1);
        let stray = match v["ev"].as_str() {
            Some("emit") => v["run"].as_u64() != Some(run as u64),
            Some("fire") | Some("query") | Some("worker-exit") => !my_windows.is_empty() && !my_windows.iter().any(|w| Some(w.as_str()) == v["win"].as_str()),
            Some("coordinator-exit") => !v["wins"].as_array().map(|a| a.iter().any(|x| my_windows.iter().any(|w| Some(w.as_str()) == x.as_str()))).unwrap_or(false),
            _ => false,
        };
        if stray { continue; }
        if v["ev"] == "fire" {
            // translate the engine's item identifiers back to the lexical triples that were pushed
            let items: Vec<Value> = v["items"].as_array().unwrap().iter().map(|it| {
                let key = it[0].as_str().unwrap_or("");
                json!({"t": lex.get(key).cloned().unwrap_or(json!(["?", key, "?"])), "ts": it[1]})
            }).collect();
            v["items"] = json!(items);
        }
        out.ev(v);
    }
    out.ev(json!({"ev":"end","run":run,"panic":panicked}));
}

pub fn main(a: &Args) {
    // Every case runs in its own thread under a watchdog: an engine that deadlocks (its threads block each other, the
    // feeder blocks on the store lock) must become data, not a hung check.  After a hang the process cannot be trusted
    // any more (blocked pool threads, held locks): the event is recorded and the driver exits with status 3; the check
    // restarts it behind the fatal case (--skip / --start-run).
    let out = std::sync::Arc::new(std::sync::Mutex::new(Out::create(a.req("out"))));
    let cases = read_cases(a.req("cases"));
    let skip = a.num("skip", 0) as usize;
    let deadline = Duration::from_secs(a.num("deadline", 90));
    for (n, case) in cases.iter().enumerate().skip(skip) {
        let (tx, rx) = std::sync::mpsc::channel::<()>();
        let o2 = out.clone();
        let c2 = case.clone();
        std::thread::spawn(move || {
            // events of this case are buffered so that a hung case leaves a well-formed trace
            let mut buf = Out::create("/dev/null");
            buf.capture();
            run_case(&mut buf, n + 1, &c2);
            let evs = buf.take_captured();
            let mut o = o2.lock().unwrap();
            for e in evs { o.ev(e); }
            let _ = tx.send(());
        });
        if rx.recv_timeout(deadline).is_err() {
            let mut o = out.lock().unwrap();
            o.ev(json!({"ev":"reset","run":n + 1,"case":case}));
            o.ev(json!({"ev":"hang","run":n + 1,"seconds":deadline.as_secs()}));
            o.ev(json!({"ev":"end","run":n + 1,"panic":false}));
            o.flush();
            std::process::exit(3);
        }
    }
    out.lock().unwrap().flush();
}
