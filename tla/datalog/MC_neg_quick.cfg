SPECIFICATION Spec
CONSTANTS
  Consts = {"a"}
  NVars = 2
  Preds = {"p", "q"}
  PVars = {}
  MaxPrem = 1
  MaxConcl = 1
  MaxRules = 1
  NegAtoms = 1
  WithFilters = FALSE
  FConsts = {"a", "b"}
  FPreds = {"p"}
  MaxFacts = 4
  Permute = FALSE
  Mode = "semi"
  Runs = 2
INVARIANTS ReachesModel OrderIndependent SecondRunEmpty NoDuplicates RoundsAreNew Sound SpecLaws Emit
CHECK_DEADLOCK FALSE
