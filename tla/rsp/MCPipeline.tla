---- MODULE MCPipeline ----
EXTENDS Pipeline
T(s, p, o) == <<s, p, o>>
U3 == {T("a","p","o"), T("a","q","o"), T("b","p","o")}
U4 == U3 \cup {T("b","q","o")}
Vx == <<"v","x">>
Vy == <<"v","y">>
RulesPQ == << [prem |-> << <<Vx, <<"c","p">>, Vy>> >>, concl |-> << <<Vx, <<"c","q">>, Vy>> >>] >>
QueryQ == << <<Vx, <<"c","q">>, Vy>> >>
AllOps == {"RSTREAM", "ISTREAM", "DSTREAM"}
====
