SPECIFICATION Spec
CONSTANTS
  Variant = "shared-bnode"
  Datasets <- AllDatasets
  Ops <- MenuOps
  KindTab <- Kinds
  BlankPrefix = "_:kolibrie-update-"
  MaxCtr = 9
INVARIANTS EffectHolds RejectedUnchanged FreshIsFresh
CHECK_DEADLOCK FALSE
