SPECIFICATION Spec
INVARIANT EmitDone
CHECK_DEADLOCK FALSE
