SPECIFICATION DSpec
CONSTANTS
  Str = {"a", "b", "c"}
  NPlain = 4
  NQuoted = 2
CONSTRAINT Bound
INVARIANTS Bijective RangesDisjoint RoundTrip HandedCurrent Nesting
PROPERTY Stable
CHECK_DEADLOCK FALSE
