SPECIFICATION Spec
CONSTANTS
  Wins <- MCWins
  Items <- MCItems
  Block <- MCBlock
  MaxFire = 3
  Policies <- AllPolicies
  SharedEvict = TRUE
INVARIANTS BlockAnswersFromOwnWindow
CHECK_DEADLOCK FALSE
