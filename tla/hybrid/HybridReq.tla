------------------------------ MODULE HybridReq ------------------------------
(***************************************************************************)
(* Requirement of C08: a hybrid probability result never certifies a wrong  *)
(* decision.                                                                *)
(*                                                                          *)
(* A lineage case `c` is a record                                           *)
(*   den    common denominator of all seed weights (a power of two)         *)
(*   seeds  sequence of [num |-> 0..den, grp |-> g]; seed i is true with    *)
(*          probability num/den.  grp = 0: independent Bernoulli seed;      *)
(*          grp = g > 0: member of the exclusive group g (exactly one       *)
(*          member of a group is true; the weights of a group sum to den)   *)
(*   nodes  the lineage DAG in topological order: node i is                 *)
(*          [op |-> "F"|"T"|"lit"|"and"|"or"|"not", s |-> seed (lit),       *)
(*           ch |-> sequence of node indices < i]                           *)
(*   root   index of the node whose probability is asked for                *)
(*                                                                          *)
(* The meaning of the DAG is its truth table over the seeds (Holds); the    *)
(* true probability is the measure of the worlds in which the root holds    *)
(* (TrueP), an exact integer scaled by Scale(c) = den^(#independent seeds + *)
(* #groups).  Results are judged by SoundResult / SoundTopK / SoundCompile. *)
(***************************************************************************)
EXTENDS Naturals, Integers, Sequences, FiniteSets, FiniteSetsExt, SequencesExt

Ops == {"F", "T", "lit", "and", "or", "not"}

SeedIdx(c)   == 1..Len(c.seeds)
IndSeeds(c)  == {i \in SeedIdx(c) : c.seeds[i].grp = 0}
GroupIds(c)  == {c.seeds[i].grp : i \in SeedIdx(c)} \ {0}
Members(c,g) == {i \in SeedIdx(c) : c.seeds[i].grp = g}

(***************************************************************************)
(* Preconditions of the property ("valid configurations").                  *)
(***************************************************************************)
ValidSeeds(c) ==
  /\ c.den \in {2, 4, 8, 16}
  /\ \A i \in SeedIdx(c) : c.seeds[i].num \in 0..c.den /\ c.seeds[i].grp \in Nat
  /\ \A g \in GroupIds(c) : MapThenSumSet(LAMBDA i : c.seeds[i].num, Members(c, g)) = c.den

ValidDag(c) ==
  /\ c.root \in 1..Len(c.nodes)
  /\ \A i \in 1..Len(c.nodes) :
       LET nd == c.nodes[i] IN
       /\ nd.op \in Ops
       /\ nd.op = "lit" => nd.s \in SeedIdx(c)
       /\ nd.op = "not" => Len(nd.ch) = 1
       /\ nd.op \in {"and", "or", "not"} => \A k \in 1..Len(nd.ch) : nd.ch[k] \in 1..(i - 1)

ValidCase(c) == ValidSeeds(c) /\ ValidDag(c)

\* cfg = [kinit, kmax, growth, tn, td, band, gain, nodes]  (band, gain in millionths)
ValidConfig(cfg) ==
  /\ cfg.td \in {1, 2, 4, 8, 16, 32, 64} /\ cfg.tn \in 0..cfg.td
  /\ cfg.kinit >= 1 /\ cfg.kinit <= cfg.kmax
  /\ cfg.growth >= 2
  /\ cfg.band \in 0..1000000 /\ cfg.gain >= 0
  /\ cfg.nodes >= 2

(***************************************************************************)
(* Semantics of the lineage DAG: truth value of every node in the world in  *)
(* which exactly the seeds in W are true.                                   *)
(***************************************************************************)
Val(c, W) ==
  LET v[i \in 1..Len(c.nodes)] ==
        LET nd == c.nodes[i] IN
        CASE nd.op = "F"   -> FALSE
          [] nd.op = "T"   -> TRUE
          [] nd.op = "lit" -> nd.s \in W
          [] nd.op = "not" -> ~v[nd.ch[1]]
          [] nd.op = "and" -> \A k \in 1..Len(nd.ch) : v[nd.ch[k]]
          [] nd.op = "or"  -> \E k \in 1..Len(nd.ch) : v[nd.ch[k]]
  IN  v

Holds(c, W) == Val(c, W)[c.root]

\* nodes reachable from the root
RECURSIVE ReachFrom(_, _)
ReachFrom(c, i) ==
  {i} \cup UNION {ReachFrom(c, c.nodes[i].ch[k]) : k \in 1..Len(c.nodes[i].ch)}
Reach(c) == ReachFrom(c, c.root)

HasNegation(c)  == \E i \in Reach(c) : c.nodes[i].op = "not"
UsedSeeds(c)    == {c.nodes[i].s : i \in {j \in Reach(c) : c.nodes[j].op = "lit"}}
HasExclusive(c) == \E s \in UsedSeeds(c) : c.seeds[s].grp # 0

(***************************************************************************)
(* World measure.  Independent seeds are decided one after the other, then  *)
(* one member is chosen for every exclusive group; the weight of a world is *)
(* the product of the factors, so the sum of all weights is Scale(c).       *)
(***************************************************************************)
RECURSIVE Pow(_, _)
Pow(b, e) == IF e = 0 THEN 1 ELSE b * Pow(b, e - 1)

Scale(c) == Pow(c.den, Cardinality(IndSeeds(c)) + Cardinality(GroupIds(c)))

RECURSIVE WorldSum(_, _, _, _)
WorldSum(c, k, G, W) ==
  IF k <= Len(c.seeds)
  THEN IF c.seeds[k].grp = 0
       THEN   c.seeds[k].num * WorldSum(c, k + 1, G, W \cup {k})
            + (c.den - c.seeds[k].num) * WorldSum(c, k + 1, G, W)
       ELSE WorldSum(c, k + 1, G, W)
  ELSE IF G # {}
  THEN LET g == Min(G)
       IN  MapThenSumSet(LAMBDA m : c.seeds[m].num * WorldSum(c, k, G \ {g}, W \cup {m}), Members(c, g))
  ELSE IF Holds(c, W) THEN 1 ELSE 0

\* the true probability of the root, scaled by Scale(c)
TrueP(c) == WorldSum(c, 1, GroupIds(c), {})

(***************************************************************************)
(* Soundness of results.  Reported numbers arrive as integer pairs          *)
(*   lo = ceil(x * Scale - slack),  hi = floor(x * Scale + slack)           *)
(* (slack = 1e-9 * Scale < 1, float -> integer step of the recorder), so    *)
(* for the integer P:   lower <= P/Scale + 1e-9  <=>  lo(lower) <= P   and   *)
(*                      P/Scale - 1e-9 <= upper  <=>  P <= hi(upper).       *)
(* r = [kind, haslo, lo, hashi, hi, decision]; theta = tn/td.               *)
(***************************************************************************)
Kinds     == {"Exact", "Bounded", "LowerBound", "NeedsExact", "UnsafeApproximation"}
Decisions == {"Alert", "NoAlert", "Indeterminate"}

Within(r, P) == (r.haslo => r.lo <= P) /\ (r.hashi => P <= r.hi)

DecisionSound(dec, P, S, tn, td) ==
  /\ dec = "Alert"   => P * td >= tn * S
  /\ dec = "NoAlert" => P * td <  tn * S

SoundResult(r, P, S, tn, td) ==
  /\ r.kind \in Kinds /\ r.decision \in Decisions
  /\ r.kind \in {"Exact", "Bounded", "LowerBound"} => r.haslo /\ r.hashi
  /\ r.kind \in {"NeedsExact", "UnsafeApproximation"} => r.decision = "Indeterminate"
  /\ r.kind # "UnsafeApproximation" => Within(r, P)
  /\ DecisionSound(r.decision, P, S, tn, td)

\* "when budgets run out at any moment the result is flagged as needing exact evaluation rather than
\* guessed": a call during which a clock reading had passed the deadline returns NeedsExact (whose bounds,
\* if any, still contain P) or a result that is sound anyway - which is SoundResult again; named for the
\* traceability of the clause
ExpiryNeverGuessed(r, P, S, tn, td) ==
  \/ r.kind = "NeedsExact" /\ r.decision = "Indeterminate" /\ Within(r, P)
  \/ SoundResult(r, P, S, tn, td)

\* evaluate_topk: t = [ok, lo, hi (interval), lblo, lbhi (the lower bound), exhausted]
SoundTopK(t, P) ==
  t.ok => /\ t.lo <= P /\ P <= t.hi
          /\ t.lblo <= P
          /\ t.exhausted => P <= t.lbhi

\* compile_lineage_to_sdd: s = [ok, lo, hi] (weighted model count of the compiled root)
SoundCompile(s, P) == s.ok => s.lo <= P /\ P <= s.hi

(***************************************************************************)
(* The lineage "disjunction of the proofs in Q" (each proof a set of seeds  *)
(* 1..n, all independent with weights w[i]/den), negated at the root if ng, *)
(* as a case.  Used by the design model and by the small-universe emission. *)
(***************************************************************************)
DnfCase(Q, ng, w, n, den) ==
  LET ps    == SetToSeq(Q)
      lits  == [i \in 1..n |-> [op |-> "lit", s |-> i, ch |-> <<>>]]
      ands  == [j \in 1..Len(ps) |-> [op |-> "and", s |-> 0, ch |-> SetToSeq(ps[j])]]
      orn   == <<[op |-> "or", s |-> 0, ch |-> [j \in 1..Len(ps) |-> n + j]]>>
      notn  == <<[op |-> "not", s |-> 0, ch |-> <<n + Len(ps) + 1>>]>>
      nodes == lits \o ands \o orn \o (IF ng THEN notn ELSE <<>>)
  IN  [den |-> den, seeds |-> [i \in 1..n |-> [num |-> w[i], grp |-> 0]], nodes |-> nodes, root |-> Len(nodes)]

\* direct world sum for such a disjunction of proofs (without the negation), scaled by den^n
WorldWeight(W, w, n, den) ==
  LET f[i \in 0..n] == IF i = 0 THEN 1 ELSE f[i - 1] * (IF i \in W THEN w[i] ELSE den - w[i])
  IN  f[n]
DnfMass(Q, w, n, den) ==
  MapThenSumSet(LAMBDA W : IF \E q \in Q : q \subseteq W THEN WorldWeight(W, w, n, den) ELSE 0, SUBSET (1..n))

=============================================================================
