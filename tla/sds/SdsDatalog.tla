----------------------------- MODULE SdsDatalog -----------------------------
(***************************************************************************)
(* Positive Datalog over triples, as a set-theoretic definition.           *)
(*                                                                         *)
(*   constant  non-empty sequence of strings (<<"a">>, <<"w1","n","p">>)    *)
(*   term      [k |-> "c", x |-> constant]  or  [k |-> "v", x |-> name]     *)
(*   atom      <<term, term, term>>      (variables allowed in any position)*)
(*   fact      <<constant, constant, constant>>                            *)
(*   rule      [body |-> sequence of atoms, head |-> sequence of atoms]    *)
(*                                                                         *)
(* LFP(R, F) is the least set containing F and closed under the rules R.   *)
(* Derivs(R, F) are the ground rule instances whose premises are in F; the *)
(* (max, min) annotation of C12 is defined over them in SdsReq.            *)
(***************************************************************************)
EXTENDS Naturals, Sequences, FiniteSets

Unb == <<>>                          \* "unbound" (no constant is empty)
IsVar(tm) == tm.k = "v"
SeqRange(s) == {s[i] : i \in 1..Len(s)}

AtomVars(a) == {a[i].x : i \in {j \in 1..3 : IsVar(a[j])}}
BodyVars(r) == UNION {AtomVars(r.body[i]) : i \in 1..Len(r.body)}
HeadVars(r) == UNION {AtomVars(r.head[i]) : i \in 1..Len(r.head)}

\* range restriction: every rule has premises and conclusions, conclusion variables are bound
Safe(r) == Len(r.body) >= 1 /\ Len(r.head) >= 1 /\ HeadVars(r) \subseteq BodyVars(r)

\* does fact g match atom a under the partial binding b (total function on the rule's variables)
Compatible(b, a, g) ==
  \A i \in 1..3 :
     IF IsVar(a[i])
       THEN /\ (b[a[i].x] = Unb \/ b[a[i].x] = g[i])
            /\ \A j \in 1..3 : (IsVar(a[j]) /\ a[j].x = a[i].x) => g[j] = g[i]
       ELSE a[i].x = g[i]

Extend(b, a, g) ==
  [v \in DOMAIN b |->
     IF b[v] # Unb THEN b[v]
     ELSE IF \E i \in 1..3 : IsVar(a[i]) /\ a[i].x = v
            THEN g[CHOOSE i \in 1..3 : IsVar(a[i]) /\ a[i].x = v]
            ELSE Unb]

\* facts that can match atom a at all (constant positions agree); computed once per premise
Candidates(a, F) ==
  {h \in F : /\ (IsVar(a[2]) \/ a[2].x = h[2])
             /\ (IsVar(a[1]) \/ a[1].x = h[1])
             /\ (IsVar(a[3]) \/ a[3].x = h[3])}

RECURSIVE Join(_, _, _, _)
Join(body, i, B, F) ==
  IF i > Len(body) \/ B = {} THEN B
  ELSE LET Fa == Candidates(body[i], F)
       IN  Join(body, i + 1,
                UNION {{Extend(b, body[i], g) : g \in {h \in Fa : Compatible(b, body[i], h)}} : b \in B}, F)

\* all total bindings of the body variables that map every premise into F
Sols(r, F) == Join(r.body, 1, {[v \in BodyVars(r) |-> Unb]}, F)

Inst(a, b) == <<IF IsVar(a[1]) THEN b[a[1].x] ELSE a[1].x,
                IF IsVar(a[2]) THEN b[a[2].x] ELSE a[2].x,
                IF IsVar(a[3]) THEN b[a[3].x] ELSE a[3].x>>

\* ground instances: <<conclusion, set of premises>>
DerivsOf(r, F) ==
  {<<Inst(r.head[j], b), {Inst(r.body[i], b) : i \in 1..Len(r.body)}>> :
       j \in 1..Len(r.head), b \in Sols(r, F)}
Derivs(R, F) == UNION {DerivsOf(r, F) : r \in R}

TP(R, F) == F \cup {d[1] : d \in Derivs(R, F)}

RECURSIVE LFP(_, _)
LFP(R, F) == LET G == TP(R, F) IN IF G = F THEN F ELSE LFP(R, G)
=============================================================================
