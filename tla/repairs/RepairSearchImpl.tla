--------------------------- MODULE RepairSearchImpl ---------------------------
(***************************************************************************)
(* Code-shaped model of Reasoner::compute_repairs + query_with_repairs     *)
(* (datalog/src/reasoning.rs, reasoning/repairs.rs).                       *)
(*                                                                         *)
(*   work_queue : Vec<HashSet<Triple>> used as a stack        -> queue     *)
(*   seen       : BTreeSet<Vec<Triple>>                       -> seen      *)
(*   repairs    : Vec<HashSet<Triple>>                        -> repairs   *)
(*                                                                         *)
(* One Step = one iteration of `while let Some(current_set) = pop()`.      *)
(* `for fact in current_set.iter()` takes its order from the HashSet: the  *)
(* model chooses every permutation, so TLC explores every push order.      *)
(* The maximality test at insertion only looks at repairs found *so far*;  *)
(* FinalFilter = FALSE is the historic code (keeps non-maximal subsets for *)
(* some orders, F-C19), FinalFilter = TRUE adds the retain() pass of the   *)
(* fix after the loop.                                                     *)
(***************************************************************************)
EXTENDS RepairsReq, TLC

CONSTANTS Nodes, Preds, MaxFacts, ConSets, FinalFilter

VARIABLES F, C,      \* the instance (chosen in Init, never changed)
          req,       \* the requirement's values for (F, C), computed once in Init (ghost)
          queue, seen, repairs, pc, result
vars == <<F, C, req, queue, seen, repairs, pc, result>>

Universe == {<<s, p, o>> : s \in Nodes, p \in Preds, o \in Nodes}

Perms(S) == {sq \in [1..Cardinality(S) -> S] : \A i, j \in 1..Cardinality(S) : i # j => sq[i] # sq[j]}

RECURSIVE PushAll(_, _, _, _, _)
\* push cur \ {order[k]} for k = i.. unless already in seen
PushAll(q, cur, order, i, sn) ==
  IF i > Len(order) THEN q
  ELSE LET ns == cur \ {order[i]}
       IN  PushAll(IF ns \in sn THEN q ELSE Append(q, ns), cur, order, i + 1, sn)

Init == /\ F \in {S \in SUBSET Universe : Cardinality(S) <= MaxFacts}
        /\ C \in ToSet(ConSets)
        /\ req = [R |-> Repairs(F, C), A |-> InEvery(F, C), CF |-> ConflictFree(F, C)]
        /\ queue = <<F>> /\ seen = {} /\ repairs = <<>> /\ pc = "loop" /\ result = {}

Top == queue[Len(queue)]
Rest == SubSeq(queue, 1, Len(queue) - 1)

SkipSeen == /\ pc = "loop" /\ queue # <<>> /\ Top \in seen
            /\ queue' = Rest
            /\ UNCHANGED <<F, C, req, seen, repairs, pc, result>>

Keep == /\ pc = "loop" /\ queue # <<>> /\ Top \notin seen /\ Consistent(Top, C)
        /\ seen' = seen \cup {Top}
        /\ queue' = Rest
        /\ repairs' = IF \A i \in 1..Len(repairs) : ~(Top \subseteq repairs[i]) \/ repairs[i] = Top
                        THEN Append(repairs, Top) ELSE repairs
        /\ UNCHANGED <<F, C, req, pc, result>>

Expand == /\ pc = "loop" /\ queue # <<>> /\ Top \notin seen /\ ~Consistent(Top, C)
          /\ seen' = seen \cup {Top}
          /\ \E order \in Perms(Top) : queue' = PushAll(Rest, Top, order, 1, seen')
          /\ UNCHANGED <<F, C, req, repairs, pc, result>>

Finish == /\ pc = "loop" /\ queue = <<>>
          /\ pc' = "done"
          /\ result' = LET K == ToSet(repairs)
                       IN  IF FinalFilter THEN {S \in K : \A T \in K : ~(S \subseteq T /\ S # T)} ELSE K
          /\ UNCHANGED <<F, C, req, queue, seen, repairs>>

Next == SkipSeen \/ Keep \/ Expand \/ Finish
Spec == Init /\ [][Next]_vars

\* what query_with_repairs answers for the all-variable goal: matches in the first
\* repair that are present in every other one = intersection of the kept sets
Answered == {f \in F : \A R \in result : f \in R}

TypeOK == \A i \in 1..Len(queue) : queue[i] \subseteq F
\* the stack never holds a set twice, hence the `seen` test at pop (SkipSeen) never fires
StackDistinct == \A i, j \in 1..Len(queue) : i # j => queue[i] # queue[j]
KeptConsistent == pc = "done" => \A i \in 1..Len(repairs) : repairs[i] \subseteq F /\ Consistent(repairs[i], C)
\* the search reaches every subset-maximal consistent subset, whatever the order
FindsAllRepairs == pc = "done" => req.R \subseteq ToSet(repairs)
\* C19: the sets used for answering are exactly the repairs ...
AllMaximal == pc = "done" => result = req.R
\* ... hence the answers are exactly the facts true in every repair, for every order
AnswersExact == pc = "done" => (result # {} /\ Answered = req.A)
ConflictFreeAnswered == pc = "done" => req.CF \subseteq Answered
\* laws of the requirement module on every explored instance (evaluated once per instance)
ReqLaws == (pc = "loop" /\ seen = {}) => Laws(F, C)
=============================================================================
