---------------------------- MODULE DatalogTrace ----------------------------
(***************************************************************************)
(* Trace validation for C05.  A trace is a concatenation of runs           *)
(*   reset(run, rules, facts, hasmodel, model)                             *)
(*   mat(strategy, perm, rejected, panic, timeout, ret, store, second,    *)
(*       store2)*                                                          *)
(* recorded from real Reasoner objects: the same program and fact set is   *)
(* materialised by every strategy under several rule / fact orders, each   *)
(* followed by a second run of the same strategy on the same object.       *)
(* TLC computes Model(rules, facts) once per run (Datalog.tla) and judges  *)
(* every mat event:                                                        *)
(*   returned facts = Model \ facts, store = Model, the second run returns *)
(*   nothing and leaves the store unchanged, no panic, no safe rule refused*)
(* A FAIL line carries the symptom and a diagnosis computed here (which    *)
(* other well-defined set the store equals), used only for classification. *)
(* Codes are short: TLC breaks printed tuples longer than 80 characters.   *)
(*  symptom: noterm (no result before the deadline) | panic | rejected (a  *)
(*    safe rule was refused) | miss | extra |                              *)
(*    missextra (store vs Model) | ret (returned facts # new store facts)  *)
(*    | second (second run returned facts) | store2 (it changed the store) *)
(*  diagnosis: negign (= model with negation ignored) | onepass (= closure *)
(*    of the negation-free rules + one application of the rules with       *)
(*    negation) | prem3 (= rules with >= 3 premises ignored) | fltign      *)
(*    (= filters ignored) | prem3flt | smallconst (= only 1-2 premise      *)
(*    rules with constant predicates, no filters) | none (= nothing        *)
(*    derived) | other                                                     *)
(***************************************************************************)
EXTENDS Datalog, Json, IOUtils

Rec == ndJsonDeserialize(IOEnv.TRACE)

VARIABLES l,     \* next trace line
          cfg,   \* [run, R, F, hasmodel, rounds] of the current run
          exp    \* [ok, m] : in scope?, the model
vars == <<l, cfg, exp>>

F3(x) == <<x[1], x[2], x[3]>>
Facts(sq) == {F3(sq[i]) : i \in 1..Len(sq)}

Ev == Rec[l]

\* ---- diagnosis (classification only, never part of the verdict) -------------
NoNeg(R) == [i \in 1..Len(R) |-> [prem |-> R[i].prem, neg |-> <<>>, flt |-> R[i].flt, concl |-> R[i].concl]]
Negs(R) == SelectSeq(R, LAMBDA r : Len(r.neg) > 0)
\* closure under the negation-free rules, then every rule with negation applied once
OnePass(R, F) == LET S == Stratum0(R, F) IN TP(Negs(R), S, S)
\* the rules a strategy restricted to one- and two-premise rules without filters can use
Small(R) == SelectSeq(R, LAMBDA r : Len(r.prem) <= 2)
NoFlt(R) == [i \in 1..Len(R) |-> [prem |-> R[i].prem, neg |-> R[i].neg, flt |-> <<>>, concl |-> R[i].concl]]
ConstPred(R) == SelectSeq(R, LAMBDA r : \A i \in 1..Len(r.prem) : r.prem[i][2][1] = "c")

Diagnosis(R, F, S) ==
  IF HasNeg(R) /\ S = LFP(NoNeg(R), F, {}) THEN "negign"
  ELSE IF HasNeg(R) /\ S = OnePass(R, F) THEN "onepass"
  ELSE IF S = LFP(NoNeg(Small(R)), F, {}) THEN "prem3"
  ELSE IF S = LFP(NoNeg(NoFlt(R)), F, {}) THEN "fltign"
  ELSE IF S = LFP(NoNeg(NoFlt(Small(R))), F, {}) THEN "prem3flt"
  ELSE IF S = LFP(NoNeg(NoFlt(Small(ConstPred(R)))), F, {}) THEN "smallconst"
  ELSE IF S = F THEN "none"
  ELSE "other"

Symptom(e, M, F) ==
  LET S == Facts(e.store) IN
  IF e.timeout THEN "noterm"
  ELSE IF e.panic THEN "panic"
  ELSE IF e.rejected THEN "rejected"
  ELSE IF ~(S \subseteq M) /\ ~(M \subseteq S) THEN "missextra"
  ELSE IF ~(M \subseteq S) THEN "miss"
  ELSE IF ~(S \subseteq M) THEN "extra"
  ELSE IF Facts(e.ret) # M \ F THEN "ret"
  ELSE IF Len(e.second) # 0 THEN "second"
  ELSE IF Facts(e.store2) # M THEN "store2"
  ELSE "ok"

\* ---- conformance of the code-shaped model (L2 cases only) --------------------
\* the returned vector lists the derived facts round by round (order inside a round is free)
RECURSIVE Blocks(_, _, _)
Blocks(ret, rounds, k) ==
  IF k > Len(rounds) THEN Len(ret) = 0
  ELSE LET n == Len(rounds[k]) IN
       /\ Len(ret) >= n
       /\ Facts(SubSeq(ret, 1, n)) = Facts(rounds[k])
       /\ Blocks(SubSeq(ret, n + 1, Len(ret)), rounds, k + 1)

Init == /\ l = 1
        /\ cfg = [run |-> 0, R |-> <<>>, F |-> {}, hasmodel |-> FALSE, rounds |-> <<>>]
        /\ exp = [ok |-> FALSE, m |-> {}]

Reset == /\ Ev.ev = "reset"
         /\ LET R == Ev.rules
                F == Facts(Ev.facts)
            IN  /\ cfg' = [run |-> Ev.run, R |-> R, F |-> F, hasmodel |-> Ev.hasmodel, rounds |-> Ev.model]
                /\ LET ok1 == SafeProgram(R) /\ Stratified(R)
                       M   == IF ok1 THEN Model(R, F) ELSE {}
                   IN  IF ok1 /\ TypedOn(R, M)
                         THEN exp' = [ok |-> TRUE, m |-> M]
                         ELSE /\ exp' = [ok |-> FALSE, m |-> {}]
                              /\ PrintT(<<"INFO", Ev.run, "skipped",
                                          IF ~SafeProgram(R) THEN "unsafe"
                                          ELSE IF ~Stratified(R) THEN "unstratified" ELSE "untyped">>)

Mat == /\ Ev.ev = "mat"
       /\ UNCHANGED <<cfg, exp>>
       /\ IF ~exp.ok THEN TRUE
          ELSE LET sy == Symptom(Ev, exp.m, cfg.F) IN
               IF sy # "ok"
                 THEN PrintT(<<"FAIL", cfg.run, l, Ev.strategy, sy,
                               IF Ev.panic \/ Ev.rejected \/ Ev.timeout THEN "-" ELSE Diagnosis(cfg.R, cfg.F, Facts(Ev.store))>>)
                 ELSE IF cfg.hasmodel /\ ~Blocks(Ev.ret, cfg.rounds, 1)
                        THEN PrintT(<<"MODELDIFF", cfg.run, l, Ev.strategy>>)
                        ELSE TRUE

Next == /\ l <= Len(Rec)
        /\ l' = l + 1
        /\ (Reset \/ Mat)

Spec == Init /\ [][Next]_vars

Consumed == IF TLCGet("stats").diameter - 1 = Len(Rec) THEN TRUE
            ELSE PrintT(<<"STUCK", TLCGet("stats").diameter, Len(Rec)>>) /\ FALSE
=============================================================================
