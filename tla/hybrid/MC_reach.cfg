SPECIFICATION Spec
CONSTANTS
  N = 3
  Den = 4
  Weights <- WeightsQuick
  Thetas = {2, 3}
  KSched <- KSchedCov
  Bug = "none"
INVARIANTS NeverBoundedNoAlert
CHECK_DEADLOCK FALSE
