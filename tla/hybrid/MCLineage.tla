----------------------------- MODULE MCLineage -----------------------------
EXTENDS LineageStore
\* negative control: a negation that always allocates (no constant folding, no double-negation elimination) must break
\* Canonical (a Not wrapping a constant or a Not)
DoNotBad == Bound /\ \E x \in Ids(store) :
              LET o == Intern(store, [k |-> "not", s |-> 0, c |-> <<x>>]) IN
              store' = o.st /\ last' = [op |-> "not", args |-> <<x>>, id |-> o.id]
LSpecBad == LInit /\ [][DoLit \/ DoNotBad \/ DoNary(TRUE) \/ DoNary(FALSE)]_lvars
=============================================================================
