//! C02 driver: executes one SELECT pattern under a matrix of optimizer / executor configurations
//! (statistics fresh / stale / empty / adversarial, every join algorithm assignment of the chosen
//! plan, star joins expanded, rayon pools of several sizes) and records the full solution
//! multiset (lexical bindings of all variables) of every execution.
use crate::sparql::run_step;
use crate::util::*;
use kolibrie::parser::parse_combined_query;
use kolibrie::sparql_database::SparqlDatabase;
use kolibrie::streamertail_optimizer::{
    build_logical_plan_from_group, compile_graph_term, DatabaseStats, DatasetView, ExecutionEngine, PhysicalOperator, Streamertail,
};
use serde_json::{json, Value};
use shared::dataset_index::{GraphId, GraphTerm, QuadPattern};
use shared::query::SparqlOperation;
use std::collections::HashMap;
use std::sync::Arc;

fn count_joins(op: &PhysicalOperator) -> usize {
    use PhysicalOperator::*;
    match op {
        BindJoin { left, right } | HashJoin { left, right } | NestedLoopJoin { left, right } => 1 + count_joins(left) + count_joins(right),
        Union { branches } => branches.iter().map(count_joins).sum(),
        Graph { input, .. } | Filter { input, .. } | Projection { input, .. } | Bind { input, .. } | MLPredict { input, .. } => count_joins(input),
        Subquery { inner, .. } => count_joins(inner),
        StarJoin { patterns, .. } => patterns.len().saturating_sub(1),
        _ => 0,
    }
}

/// Rebuild the plan with the join algorithm of the i-th join node taken from `assign` (0 bind, 1 hash,
/// 2 nested loop, 3 keep); star joins are expanded into left-deep index-scan joins when `expand` is set.
fn rewrite(op: &PhysicalOperator, assign: &[u8], next: &mut usize, expand: bool) -> PhysicalOperator {
    use PhysicalOperator::*;
    let mk = |kind: u8, orig: &PhysicalOperator, l: PhysicalOperator, r: PhysicalOperator| -> PhysicalOperator {
        let (l, r) = (Box::new(l), Box::new(r));
        match kind {
            0 => BindJoin { left: l, right: r },
            1 => HashJoin { left: l, right: r },
            2 => NestedLoopJoin { left: l, right: r },
            _ => match orig {
                HashJoin { .. } => HashJoin { left: l, right: r },
                NestedLoopJoin { .. } => NestedLoopJoin { left: l, right: r },
                _ => BindJoin { left: l, right: r },
            },
        }
    };
    match op {
        BindJoin { left, right } | HashJoin { left, right } | NestedLoopJoin { left, right } => {
            let k = assign.get(*next).copied().unwrap_or(3);
            *next += 1;
            let l = rewrite(left, assign, next, expand);
            let r = rewrite(right, assign, next, expand);
            mk(k, op, l, r)
        }
        StarJoin { patterns, .. } if expand && !patterns.is_empty() => {
            let scan = |p: &shared::terms::TriplePattern| PhysicalOperator::quad_index_scan(QuadPattern {
                subject: p.0.clone(), predicate: p.1.clone(), object: p.2.clone(), graph: GraphTerm::Default });
            let mut acc = scan(&patterns[0]);
            for p in &patterns[1..] {
                let k = assign.get(*next).copied().unwrap_or(0);
                *next += 1;
                let bj = BindJoin { left: Box::new(Unit), right: Box::new(Unit) };
                acc = mk(if k == 3 { 0 } else { k }, &bj, acc, scan(p));
            }
            acc
        }
        Union { branches } => Union { branches: branches.iter().map(|b| rewrite(b, assign, next, expand)).collect() },
        Graph { input, graph } => Graph { input: Box::new(rewrite(input, assign, next, expand)), graph: graph.clone() },
        Filter { input, condition } => Filter { input: Box::new(rewrite(input, assign, next, expand)), condition: condition.clone() },
        Projection { input, variables } => Projection { input: Box::new(rewrite(input, assign, next, expand)), variables: variables.clone() },
        Subquery { inner, spec } => Subquery { inner: Box::new(rewrite(inner, assign, next, expand)), spec: spec.clone() },
        Bind { input, function_name, arguments, output_variable } => Bind {
            input: Box::new(rewrite(input, assign, next, expand)), function_name: function_name.clone(),
            arguments: arguments.clone(), output_variable: output_variable.clone() },
        other => other.clone(),
    }
}

fn shape(op: &PhysicalOperator) -> String {
    use PhysicalOperator::*;
    match op {
        Unit => "unit".into(),
        TableScan { .. } => "tscan".into(),
        IndexScan { .. } => "iscan".into(),
        Union { branches } => format!("union({})", branches.iter().map(shape).collect::<Vec<_>>().join(",")),
        Graph { input, .. } => format!("graph({})", shape(input)),
        Filter { input, .. } => format!("filter({})", shape(input)),
        BindJoin { left, right } => format!("bind({},{})", shape(left), shape(right)),
        HashJoin { left, right } => format!("hash({},{})", shape(left), shape(right)),
        NestedLoopJoin { left, right } => format!("nl({},{})", shape(left), shape(right)),
        StarJoin { patterns, .. } => format!("star{}", patterns.len()),
        Projection { input, .. } => format!("proj({})", shape(input)),
        InMemoryBuffer { .. } => "buffer".into(),
        Subquery { inner, .. } => format!("sub({})", shape(inner)),
        Bind { input, .. } => format!("bindfn({})", shape(input)),
        Values { .. } => "values".into(),
        MLPredict { .. } => "ml".into(),
    }
}

fn adversarial(s: &DatabaseStats) -> DatabaseStats {
    // invert every cardinality: frequent terms look rare and vice versa
    let inv = |m: &HashMap<u32, u64>| -> HashMap<u32, u64> {
        let mx = m.values().copied().max().unwrap_or(0) + 1;
        m.iter().map(|(k, v)| (*k, mx - *v)).collect()
    };
    let gmx = s.graph_cardinalities.values().copied().max().unwrap_or(0) + 1;
    DatabaseStats {
        total_triples: 1,
        quoted_triple_count: s.quoted_triple_count,
        named_graph_count: s.named_graph_count,
        graph_cardinalities: s.graph_cardinalities.iter().map(|(k, v)| (*k, gmx - *v)).collect(),
        predicate_cardinalities: inv(&s.predicate_cardinalities),
        subject_cardinalities: inv(&s.subject_cardinalities),
        object_cardinalities: inv(&s.object_cardinalities),
        predicate_distinct_subjects: inv(&s.predicate_distinct_subjects),
        predicate_distinct_objects: inv(&s.predicate_distinct_objects),
        distinct_subjects: 1,
        distinct_objects: 1,
    }
}

fn decode(db: &SparqlDatabase, b: Vec<HashMap<String, u32>>) -> Value {
    let mut rows: Vec<Value> = Vec::new();
    for m in b {
        let mut o = serde_json::Map::new();
        for (k, v) in m {
            o.insert(k.trim_start_matches(|c| c == '?' || c == '$').to_string(), json!(db.decode_any(v).unwrap_or_default()));
        }
        rows.push(Value::Object(o));
    }
    json!(rows)
}

fn run_case(out: &mut Out, run: usize, case: &Value, rng: &mut Rng) {
    out.ev(json!({"ev":"reset","run":run,"case":case}));
    let mut db = SparqlDatabase::new();
    for st in case["steps"].as_array().unwrap() {
        run_step(&mut db, st);
    }
    // statistics gathered now become stale through the late mutations below (add/delete APIs do not invalidate the cache)
    let stale = db.get_or_build_stats();
    for q in case["late"].as_array().unwrap() {
        let f = |i: usize| q[i].as_str().unwrap();
        if f(3).is_empty() { db.add_triple_parts(f(0), f(1), f(2)); } else { db.add_quad_parts(f(0), f(1), f(2), f(3)); }
    }
    for q in case["late_del"].as_array().unwrap() {
        let f = |i: usize| q[i].as_str().unwrap();
        if f(3).is_empty() { db.delete_triple_parts(f(0), f(1), f(2)); }
    }
    let (quads, graphs) = crate::sparql::snapshot(&db);
    let fresh = Arc::new(DatabaseStats::gather_stats_fast(&db));
    let all_stats: Vec<(&str, Arc<DatabaseStats>)> = vec![
        ("fresh", fresh.clone()), ("stale", stale), ("empty", Arc::new(DatabaseStats::new())), ("adversarial", Arc::new(adversarial(&fresh))),
    ];
    let threads: Vec<usize> = case["threads"].as_array().map(|a| a.iter().map(|x| x.as_u64().unwrap() as usize).collect()).unwrap_or(vec![1, 4]);
    let max_assign = case["max_assign"].as_u64().unwrap_or(12) as usize;
    for (ti, textv) in case["texts"].as_array().unwrap().iter().enumerate() {
        let text = textv.as_str().unwrap().to_string();
        // parse + lower exactly like execute_select does
        let prepared = guarded(|| -> Result<_, String> {
            let (rest, combined) = parse_combined_query(&text).map_err(|e| format!("parse: {e:?}"))?;
            if !rest.trim().is_empty() { return Err("trailing input".into()); }
            let mut prefixes = db.prefixes.clone();
            prefixes.extend(combined.prefixes.clone());
            let Some(SparqlOperation::Select(query)) = combined.sparql.as_ref() else { return Err("not a select".into()) };
            let dataset = if query.from.is_empty() && query.from_named.is_empty() { DatasetView::from_database(&db) } else {
                let mut d = Vec::new();
                let mut n = Vec::new();
                for g in &query.from { if let GraphTerm::Named(id) = compile_graph_term(g, &prefixes, &mut db)? { d.push(GraphId::Named(id)); } }
                for g in &query.from_named { if let GraphTerm::Named(id) = compile_graph_term(g, &prefixes, &mut db)? { n.push(GraphId::Named(id)); } }
                DatasetView::new(d, n)
            };
            let logical = build_logical_plan_from_group(&query.pattern, &prefixes, &mut db)?;
            Ok((logical, dataset))
        });
        let (logical, dataset) = match prepared {
            Ok(Ok(x)) => x,
            Ok(Err(e)) => { out.ev(json!({"ev":"exec","text":ti,"cfg":{"stats":"-","assign":"-","threads":0,"plan":""},"res":"err","err":e,"sols":[],"quads":quads,"graphs":graphs})); continue; }
            Err(p) => { out.ev(json!({"ev":"exec","text":ti,"cfg":{"stats":"-","assign":"-","threads":0,"plan":""},"res":"panic","err":p,"sols":[],"quads":quads,"graphs":graphs})); continue; }
        };
        for (sname, stats) in &all_stats {
            let planned = guarded(|| {
                let mut opt = Streamertail::with_cached_stats_and_dataset(stats.clone(), dataset.clone());
                opt.find_best_plan(&logical)
            });
            let plan = match planned {
                Ok(p) => p,
                Err(p) => { out.ev(json!({"ev":"exec","text":ti,"cfg":{"stats":sname,"assign":"-","threads":0,"plan":""},"res":"panic","err":p,"sols":[],"quads":quads,"graphs":graphs})); continue; }
            };
            let nj = count_joins(&plan);
            // assignments: the chosen plan, star expanded, uniform bind/hash/nl, then seeded random ones
            let mut assigns: Vec<(String, Vec<u8>, bool)> = vec![("chosen".into(), vec![3; nj], false)];
            if nj > 0 {
                assigns.push(("expanded".into(), vec![3; nj], true));
                for (k, name) in [(0u8, "all-bind"), (1, "all-hash"), (2, "all-nl")] { assigns.push((name.into(), vec![k; nj], true)); }
                let total = 3usize.saturating_pow(nj as u32);
                if total <= max_assign {
                    for code in 0..total {
                        let mut c = code; let mut v = Vec::new();
                        for _ in 0..nj { v.push((c % 3) as u8); c /= 3; }
                        assigns.push((format!("a{code}"), v, true));
                    }
                } else {
                    for i in 0..max_assign {
                        let v: Vec<u8> = (0..nj).map(|_| rng.below(3) as u8).collect();
                        assigns.push((format!("r{i}"), v, true));
                    }
                }
            }
            for (ai, (aname, assign, expand)) in assigns.iter().enumerate() {
                let mut next = 0;
                let p2 = rewrite(&plan, assign, &mut next, *expand);
                // thread pools: every size for the chosen plan, one (rotating) size for the others
                let ths: Vec<usize> = if ai == 0 { threads.clone() } else { vec![threads[ai % threads.len()]] };
                for th in ths {
                    let r = guarded(|| {
                        let pool = rayon::ThreadPoolBuilder::new().num_threads(th).build().unwrap();
                        pool.install(|| ExecutionEngine::execute_with_ids_and_dataset(&p2, &mut db, &dataset))
                    });
                    let cfg = json!({"stats":sname,"assign":aname,"threads":th,"plan":shape(&p2)});
                    match r {
                        Ok(b) => out.ev(json!({"ev":"exec","text":ti,"cfg":cfg,"res":"ok","err":"","sols":decode(&db, b),"quads":quads,"graphs":graphs})),
                        Err(p) => out.ev(json!({"ev":"exec","text":ti,"cfg":cfg,"res":"panic","err":p,"sols":[],"quads":quads,"graphs":graphs})),
                    }
                }
            }
        }
    }
}

pub fn main(a: &Args) {
    let mut out = Out::create(a.req("out"));
    let cases = read_cases(a.req("cases"));
    let mut rng = Rng::new(a.num("seed", 1));
    for (n, case) in cases.iter().enumerate() {
        run_case(&mut out, n + 1, case, &mut rng);
    }
    out.finish();
}
