SPECIFICATION Spec
CONSTANTS
  MaxDepth = 10
  FixRename = TRUE
  Programs <- MCProgramsSmall
  GoalNames <- MCGoalNames
  Consts = {1, 2, 3}
  Preds = {21, 22}
INVARIANTS Emit
CHECK_DEADLOCK FALSE
