"""C05 - rule materialisation computes exactly the least model of the program.

L1  tla/datalog/SemiNaiveImpl.tla (code-shaped: fact vector, known set, delta window
    start_idx_for_delta, strata for negation-as-failure, second run) against
    tla/datalog/Datalog.tla (Match, TP, LFP, stratified Model) for every safe program of
    several small families x every small fact set; negative controls (two delta-window
    bugs) must violate ReachesModel.
L2  the (program, fact set, predicted rounds) triples TLC enumerated in L1 are replayed on the
    real Reasoner with all four strategies; the recording is validated (requirement: FAIL,
    round structure of the code-shaped model: MODELDIFF).
L3  hand-written cases (bin/checks/c05_cases.json) and seeded random safe programs (1..4
    premises, constants / repeated variables anywhere, variable predicates, several
    conclusions, numeric and identity filters, one stratum of negation) x fact sets (<= 25),
    four strategies x three rule / fact orders x second run, validated by DatalogTrace.tla
    where TLC computes the model of every case.
"""
import concurrent.futures
import json
import os
import time
import vlib
from vlib import log

FAMILY = "datalog"
HERE = os.path.dirname(os.path.abspath(__file__))

SITE = {"naive": "Reasoner::infer_new_facts_naive", "semi_naive": "Reasoner::infer_new_facts_semi_naive",
        "parallel": "Reasoner::infer_new_facts_semi_naive_parallel",
        "provenance": "Reasoner::infer_new_facts_with_provenance(BooleanProvenance)"}

QUICK_MC = ["MC_quick.cfg", "MC_rec_quick.cfg", "MC_neg_quick.cfg", "MC_perm_quick.cfg", "MC_naive_quick.cfg"]
THOROUGH_MC = QUICK_MC + ["MC_thorough.cfg", "MC_rec_thorough.cfg", "MC_neg_thorough.cfg", "MC_perm_thorough.cfg", "MC_conc_thorough.cfg", "MC_flt_thorough.cfg"]
CONTROLS = ["MC_ctl.cfg", "MC_ctl2.cfg"]


# ----------------------------------------------------------------- classification (never the oracle)

def may_unify(a, b):
    return all(x[0] == "v" or y[0] == "v" or x[1] == y[1] for x, y in zip(a, b))


def features(case):
    """Syntactic shape classes of a program, used only to name the trigger of a violation."""
    rules = case["rules"]
    f = set()
    for r in rules:
        if len(r["prem"]) >= 3:
            f.add("prem>=3")
        if r["flt"]:
            f.add("filter")
        if any(a[1][0] == "v" for a in r["prem"]):
            f.add("varpred")
        if r["neg"]:
            f.add("naf")
            if any(may_unify(c, p) for c in r["concl"] for r2 in rules for p in r2["prem"]):
                f.add("naf-chained")
    return f


def sig_for(case, strategy, symptom, diag):
    """site | trigger class | symptom.  The trigger is the shape class that the diagnosis computed
    by TLC points at (which well-defined wrong set the store equals), or all shape classes of
    the program when the wrong result has no such explanation."""
    fs = features(case)
    by_diag = {"negign": {"naf"}, "onepass": {"naf-chained"}, "prem3": {"prem>=3"}, "fltign": {"filter"},
               "prem3flt": {"prem>=3", "filter"}}
    want = by_diag.get(diag)
    if want and want <= fs:
        trig = "+".join(sorted(want))
    else:
        trig = "+".join(sorted(fs)) or "positive"
    return f"{SITE.get(strategy, strategy)}|{trig}|{symptom}/{diag}"


# ----------------------------------------------------------------- running and validating

JOIN_LIMIT = 150000   # TLC refuses sets above 10^6 elements and gets slow long before


def join_estimate(case, store):
    """Upper bound of the largest intermediate binding set TLC would build for this case: per rule
    the product over the premises of the number of observed store facts that agree with the
    premise's constants.  Only used to leave out cases the oracle cannot evaluate (counted)."""
    worst = 0
    for r in case["rules"]:
        n = 1
        for a in r["prem"]:
            n *= max(1, sum(1 for f in store if all(t[0] == "v" or t[1] == x for t, x in zip(a, f))))
        worst = max(worst, n)
    return worst


def validate(trace_path, verdict, tag):
    raw = vlib.split_runs(vlib.read_ndjson(trace_path))
    toolarge = {}
    kept = []
    for rid, ev in raw.items():
        mats = [e for e in ev[1:] if e["ev"] == "mat"]
        store = max((e["store"] for e in mats), key=len, default=[])
        est = join_estimate(ev[0]["case"], store)
        if est > JOIN_LIMIT:
            toolarge[rid] = est
        else:
            kept += ev
    judged_path = trace_path[:-len(".ndjson")] + ".judged.ndjson"
    vlib.write_ndjson(judged_path, kept)
    trace_path = judged_path
    res = vlib.tlc_trace(FAMILY, "DatalogTrace.tla", "DatalogTrace.cfg", trace_path, tag=f"c05-{tag}", heap="3g")
    events = vlib.read_ndjson(trace_path)
    runs = vlib.split_runs(events)
    skipped = {i[0]: i[2] for i in res["info"] if len(i) >= 3 and i[1] == "skipped"}
    failed = {}
    for f in res["fail"]:
        rid, line, strategy, symptom, diag = f[0], f[1], f[2], f[3], f[4]
        case = runs[rid][0]["case"]
        ev = events[line - 1]
        sig = sig_for(case, strategy, symptom, diag)
        failed.setdefault(rid, []).append(sig)
        verdict.violation(sig, {"driver": "c05", "case": case, "strategy": strategy, "perm": ev.get("perm"),
                                "symptom": symptom, "diagnosis": diag,
                                "observed": {k: ev.get(k) for k in ("ret", "store", "second", "panic", "rejected")}},
                          detail=f"(run {rid}, {strategy}, order {ev.get('perm')})")
    drift = sorted({d[0] for d in res["modeldiff"] if d[0] not in failed})
    # per-run summary (the events themselves are dropped: thorough traces are large)
    summ, keep = {}, []
    for rid, ev in runs.items():
        mats = [e for e in ev[1:] if e["ev"] == "mat"]
        summ[rid] = {"case": ev[0]["case"], "mats": len(mats), "derives": max([len(e["ret"]) for e in mats] or [0])}
        if len(keep) < 40 and rid not in skipped and summ[rid]["derives"] > 2:
            keep.append(ev)
    return dict(runs=summ, skipped=skipped, failed=failed, drift=drift, states=res["states"], wall=res["wall"], keep=keep,
                toolarge=toolarge)


def drive_and_validate(wd, name, cases, verdict):
    cpath = os.path.join(wd, name + ".cases.ndjson")
    tpath = os.path.join(wd, name + ".ndjson")
    vlib.write_ndjson(cpath, cases)
    vlib.kverif(["c05", "--cases", cpath, "--out", tpath])
    return validate(tpath, verdict, name)


def chunked(wd, name, cases, verdict, size, par):
    """Large case lists: several drivers / JVMs side by side; results merged (run ids made unique)."""
    parts = [cases[i:i + size] for i in range(0, len(cases), size)] or [[]]
    out = dict(runs={}, skipped={}, failed={}, drift=[], states=0, wall=0.0, keep=[], toolarge={})
    with concurrent.futures.ThreadPoolExecutor(max_workers=par) as ex:
        futs = [ex.submit(drive_and_validate, wd, f"{name}{k}", part, verdict) for k, part in enumerate(parts)]
        for k, fu in enumerate(futs):
            r = fu.result()
            for key in ("runs", "skipped", "failed", "toolarge"):
                out[key].update({(k, rid): v for rid, v in r[key].items()})
            out["drift"] += [(k, rid) for rid in r["drift"]]
            out["keep"] += r["keep"] if k == 0 else []
            out["states"] += r["states"]
            out["wall"] += r["wall"]
    return out


def replay_lines(out):
    cases = []
    for line in out.splitlines():
        if line.startswith('<<"REPLAY", '):
            cases.append(json.loads(json.loads(line[len('<<"REPLAY", '):-2])))
    return cases


def pinned_cases():
    with open(os.path.join(HERE, "c05_cases.json")) as f:
        return [c["case"] for c in json.load(f)["cases"]]


def run(ctx):
    t0 = time.time()
    verdict = vlib.Verdict("C05", ctx.seed, ctx.tier)
    wd = vlib.workdir("c05")
    if ctx.replay:
        case = json.load(open(ctx.replay))["case"]["case"]
        r = drive_and_validate(wd, "replay", [case], verdict)
        if r["skipped"]:
            log(f"replayed case is outside the quantifier of C05: {r['skipped']}")
        return verdict.finish()

    thorough = ctx.tier == "thorough"
    # several JVMs run side by side: bound each heap (the default is a quarter of the machine per JVM)
    os.environ.setdefault("_JAVA_OPTIONS", "-Xmx5g")

    # ---- L1: code-shaped model against the requirement, all configurations side by side
    cfgs = THOROUGH_MC if thorough else QUICK_MC
    with concurrent.futures.ThreadPoolExecutor(max_workers=4 if thorough else 6) as ex:
        futs = {c: ex.submit(vlib.tlc_mc, FAMILY, "MCDatalog.tla", c, 4, 3000, True, "c05-" + c) for c in cfgs}
        ctl = {c: ex.submit(vlib.tlc_mc, FAMILY, "MCDatalog.tla", c, 2, 600, False, "c05-" + c) for c in CONTROLS}
        mcs = {c: f.result() for c, f in futs.items()}
        ctls = {c: f.result() for c, f in ctl.items()}
    states = sum(m["states"] for m in mcs.values())
    generated = sum(m["generated"] for m in mcs.values())
    l1_violated = {c: m["violated"] for c, m in mcs.items() if m["violated"]}
    for c, m in mcs.items():
        if m["uncovered"]:
            raise vlib.ToolError(f"vacuity: actions never taken in L1 {c}: {m['uncovered']}")
    for c, m in ctls.items():
        if m["violated"] != "ReachesModel":
            raise vlib.ToolError(f"non-vacuity control {c}: a broken delta window no longer violates ReachesModel")
    log(f"[t={time.time()-t0:.0f}s] L1 SemiNaiveImpl against Datalog!Model: {len(cfgs)} families, {states} distinct states, "
        f"violated={l1_violated or None}; 2 negative controls violate ReachesModel as required "
        f"(wall {max(m['wall'] for m in mcs.values()):.0f}s)")

    # ---- L2: the cases TLC enumerated, with the rounds the code-shaped model predicts
    emitted = {}
    for c, m in mcs.items():
        for b in replay_lines(m["out"]):
            emitted.setdefault(vlib.case_hash([b["rules"], sorted(b["facts"])]), b)
    keys = sorted(emitted)
    special = lambda b: any(r["neg"] or r["flt"] for r in b["rules"])
    multi = [k for k in keys if len(emitted[k]["model"]) >= 2]
    nafflt = [k for k in keys if len(emitted[k]["model"]) == 1 and special(emitted[k])]
    single = [k for k in keys if len(emitted[k]["model"]) == 1 and not special(emitted[k])]
    trivial = [k for k in keys if len(emitted[k]["model"]) == 0]
    quota = (5000, 3000, 3000, 1000) if thorough else (350, 250, 250, 100)

    def pick(ks, n):
        # deterministic seeded thinning (the hash is uniform)
        if len(ks) <= n:
            return ks
        ks2 = sorted(ks, key=lambda k: vlib.case_hash([k, ctx.seed]))
        return sorted(ks2[:n])
    chosen = pick(multi, quota[0]) + pick(nafflt, quota[1]) + pick(single, quota[2]) + pick(trivial, quota[3])
    l2cases = [{"rules": emitted[k]["rules"], "facts": emitted[k]["facts"], "perms": 2, "seed": ctx.seed * 7919 + i,
                "hasmodel": True, "model": emitted[k]["model"]} for i, k in enumerate(chosen)]
    r2 = chunked(wd, "l2-", l2cases, verdict, 2500, 4)
    log(f"[t={time.time()-t0:.0f}s] L2 replayed {len(r2['runs']) + len(r2['toolarge'])} of {len(l2cases)} selected / {len(emitted)} TLC-enumerated cases ({len(multi)} with >= 2 rounds, "
        f"{len(nafflt)} one round with negation / filter, {len(single)} other one round, {len(trivial)} deriving nothing) "
        f"x 4 strategies x 2 orders: {len(r2['failed'])} rejected, {len(r2['drift'])} differ from the code-shaped model only")

    # ---- L3: hand-written and random programs
    n3 = 20000 if thorough else 400
    rpath = os.path.join(wd, "l3-random.cases.ndjson")
    # the driver generates the seeded cases; they are re-read so that chunks can run side by side
    vlib.kverif(["c05", "--random", n3, "--seed", ctx.seed, "--perms", 3, "--gen-only", rpath])
    random_cases = vlib.read_ndjson(rpath)
    pins = pinned_cases()
    r3 = chunked(wd, "l3-", pins + random_cases, verdict, 1500, 6 if thorough else 2)
    log(f"[t={time.time()-t0:.0f}s] L3 recorded {len(r3['runs']) + len(r3['toolarge'])} of {len(pins)} hand-written + {len(random_cases)} random programs "
        f"x 4 strategies x 3 orders: "
        f"{len(r3['failed'])} rejected, {len(r3['skipped'])} outside the quantifier (skipped), "
        f"{len(r3['toolarge'])} left out (joins too large for the TLC oracle)")

    if l1_violated and not (r2["failed"] or r3["failed"]):
        raise vlib.ToolError(f"L1 invariant violated in the model {l1_violated} but not reproduced on the code: model out of date")
    if r2["drift"] and not verdict.violations:
        log(f"MODEL-DRIFT: {len(r2['drift'])} cases where the returned facts are not grouped in the rounds SemiNaiveImpl.tla "
            f"predicts while the requirement holds (update the code-shaped model); not a verdict")

    rc = verdict.finish()

    # ---- evidence (all counts measured on this run)
    evaluations = 0
    distinct = set()
    judged_runs = 0
    shape = {}
    for res in (r2, r3):
        for rid, su in res["runs"].items():
            if rid in res["skipped"]:
                continue
            judged_runs += 1
            evaluations += su["mats"]
            case = su["case"]
            if su["derives"] > 0:
                h = vlib.case_hash([case["rules"], sorted(case["facts"])])
                if h not in distinct:
                    distinct.add(h)
                    for f in features(case) or {"positive"}:
                        shape[f] = shape.get(f, 0) + 1
    some = r3["keep"]
    s3 = some[len(pins) + 3] if len(some) > len(pins) + 3 else (some[-1] if some else None)
    multi_l2 = [c for c in l2cases if len(c["model"]) >= 2]
    cov = {
        "states": states, "transitions": generated,
        "traces_validated_against_impl": judged_runs,
        "samples": ([{"case": {k: s3[0]["case"][k] for k in ("rules", "facts")},
                      "observed": [{k: e[k] for k in ("strategy", "perm", "ret", "second")} for e in s3[1:5]]}] if s3 else []) +
                   [{"tlc_enumerated_case_with_predicted_rounds": multi_l2[len(multi_l2) // 2] if multi_l2 else (l2cases or pins)[0]}],
        "evaluations": evaluations, "distinct_nontrivial": len(distinct),
        "rule": "one evaluation = one materialisation (strategy x rule/fact order) of an in-scope program followed by a second run, "
                "returned facts, store and second run judged by TLC against Model(rules, facts); L2 cases are enumerated by TLC "
                "(all safe programs of the L1 families, seeded thinning), L3 cases are hand-written or seeded random; distinct by "
                "hash of (rules, fact set); non-trivial = the program derives at least one fact",
        "exhaustive": True,
        "l1_families": {c: {"states": m["states"], "wall_s": round(m["wall"], 1)} for c, m in mcs.items()},
        "l1_controls_violated": sorted(ctls),
        "l2_cases": len(l2cases), "l2_enumerated": len(emitted), "l3_cases": len(pins) + len(random_cases),
        "skipped_outside_quantifier": len(r2["skipped"]) + len(r3["skipped"]),
        "left_out_join_estimate_above_limit": len(r2["toolarge"]) + len(r3["toolarge"]),
        "nontrivial_by_shape_class": shape, "model_drift": len(r2["drift"]),
        "trace_states": r2["states"] + r3["states"],
    }
    vlib.write_evidence("C05", ctx.tier, ctx.seed, "model_checking", cov,
                        ["L1 is exhaustive only within the program families of the cfg files (<= 2 rules, <= 2-3 premises, <= 3 variables, "
                         "<= 4 facts); larger programs are covered by trace validation of sampled executions",
                         "negation: programs whose negation is stratified with one negation stratum by the syntactic test Stratified "
                         "(atom-level unifiability); others are skipped",
                         "numeric filters are only judged when they are applied to numerals 0..12 (Typed); filters between two "
                         "variables are term identity (=, !=)",
                         "provenance-tracking strategy is run with BooleanProvenance only; tags are not judged here (C06)",
                         "interleavings inside rayon are not controlled; the parallel strategy is run on the default thread pool"],
                        time.time() - t0, len(verdict.violations))
    return rc
