---------------------------- MODULE BoolFunTrace ----------------------------
(***************************************************************************)
(* Trace validation for C07.  A trace is a concatenation of runs recorded  *)
(* from a real shared::sdd::SddManager (harness/src/c07.rs):               *)
(*   reset(run, case)                                                      *)
(*   newvar(v, pos, neg, kind)                                             *)
(*   op(op, operands, try, k, nb, expired, res, ret, models, wmc, grad)    *)
(*   probe(h, models, wmc, grad)      a handed-out handle looked at again  *)
(*   end(run)                                                              *)
(*   crash(run)      written by the check when the driver process died in  *)
(*                   the middle of the run (stack overflow, abort)         *)
(* Every event is judged with the operators of BoolFun.tla on the state    *)
(* (vars, den) that the previous events produced: TLC computes the truth   *)
(* table of the formula, the completions of the reported models, the WMC   *)
(* and gradient sums.  The first event of a run that contradicts the       *)
(* requirement prints <<"FAIL", run, line, symptom, site>>; the rest of    *)
(* that run is skipped.  If the verdict is "ok" the corresponding action   *)
(* of BoolFun.tla is taken (it must be enabled, else the trace is not      *)
(* consumed: tool error).                                                  *)
(***************************************************************************)
EXTENDS BoolFun, Json, IOUtils

Rec == ndJsonDeserialize(IOEnv.TRACE)

VARIABLES l, run, bad, cnt,
          tab      \* memo: always equal to Tab of BoolFun.tla (recomputed when vars changes)
tvars == <<vars, den, l, run, bad, cnt, tab>>

Ev == Rec[l]
ToSet(sq) == {sq[i] : i \in DOMAIN sq}
Cnt0 == [ops |-> 0, exh |-> 0, probes |-> 0, wmc |-> 0, skip |-> 0, newh |-> 0, wmcx |-> 0]
\* a WMC/gradient comparison that exercises exclusive-group weights on a satisfiable function
WX(D) == IF WmcMeaningful(D) /\ GroupIds # {} /\ D # {} THEN 1 ELSE 0

\* truth table of the formula of an operation event
Expected(e) == CASE e.op = "lit"   -> LitDen(e.v, e.pol)
                 [] e.op = "apply" -> ApplyDen(e.bop, e.a, e.b)
                 [] e.op = "neg"   -> NegDen(e.a)
                 [] e.op = "xone"  -> XOneDen(ToSet(e.vs))

\* the requirement's action for a successful operation event
Action(e) == CASE e.op = "lit"   -> Literal(e.v, e.pol, e.ret)
               [] e.op = "apply" -> Apply(e.bop, e.a, e.b, e.ret)
               [] e.op = "neg"   -> Negate(e.a, e.ret)
               [] e.op = "xone"  -> ExactlyOne(ToSet(e.vs), e.ret)

Site(e) == (IF e.try = 1 THEN "try_" ELSE "") \o
           (CASE e.op = "lit" -> "literal" [] e.op = "apply" -> "apply"
              [] e.op = "neg" -> "negate" [] e.op = "xone" -> "exactly_one")

GradOK(e, D) == /\ e.gfrac = 0
                /\ Len(e.grad) = Len(vars)
                /\ \A i \in DOMAIN e.grad : e.grad[i][1] = vars[i].id /\ e.grad[i][2] = GradT(tab, D, i)

\* what was observed of a diagram (models, wmc, gradient) against the denotation D it must have
Observed(e, D) ==
  IF e.obs = 0 THEN "ok"       \* logged without observations (repeated prefix of a fault-enumeration case)
  ELSE IF ~(\A i \in DOMAIN e.models : MWellFormed(e.models[i])) THEN "malformed-model"
  ELSE IF ModelsDen(e.models) # D THEN "wrong-function"
  ELSE IF ModelsCount(e.models) # Cardinality(D) THEN "models-overlap"
  ELSE IF ~WmcMeaningful(D) THEN "ok"
  ELSE IF e.frac = 1 \/ e.wmc # WmcT(tab, D) THEN "wmc"
  ELSE IF ~GradOK(e, D) THEN "gradient"
  ELSE "ok"

Judge(e) ==
  IF e.res = "panic" THEN "panic"
  ELSE IF e.res \in {"deadline", "nodes"} THEN
     \* exhaustion may only be reported by a budgeted call whose budget really ran out
     IF e.try = 0 THEN "exhaustion-without-budget"
     ELSE IF e.res = "deadline" /\ e.expired = 0 THEN "spurious-exhaustion"
     ELSE IF e.res = "nodes" /\ e.nb = 0 THEN "spurious-exhaustion"
     ELSE "ok"
  ELSE LET D == Expected(e)
           o == Observed(e, D)
       IN  IF o # "ok" THEN o
           ELSE IF e.ret \in Handles /\ den[e.ret] # D THEN "handle-reused"
           ELSE IF e.ret \notin Handles /\ Known(D) THEN "not-canonical"
           ELSE "ok"

TInit == Init /\ l = 1 /\ run = 0 /\ bad = FALSE /\ cnt = Cnt0 /\ tab = Tab

Reset == /\ Ev.ev = "reset"
         /\ vars' = <<>> /\ den' = (FalseH :> {}) @@ (TrueH :> {0})
         /\ run' = Ev.run /\ bad' = FALSE /\ cnt' = Cnt0 /\ tab' = Tab'

Fail(sym, site) == /\ PrintT(<<"FAIL", run, l, sym, site>>)
                   /\ bad' = TRUE /\ UNCHANGED <<vars, den, run, cnt, tab>>

NewVarEv ==
  /\ Ev.ev = "newvar"
  /\ IF bad THEN UNCHANGED <<vars, den, run, bad, cnt, tab>>
     ELSE IF Ev.res = "panic" THEN Fail("panic", "ensure_variable_weights")
     ELSE NewVar(Ev.v, Ev.pos, Ev.neg, Ev.kind) /\ tab' = Tab' /\ UNCHANGED <<run, bad, cnt>>

OpEv ==
  /\ Ev.ev = "op" /\ UNCHANGED tab
  /\ IF bad THEN UNCHANGED <<vars, den, run, bad, cnt>>
     ELSE LET j == Judge(Ev) IN
          IF j # "ok" THEN Fail(j, Site(Ev))
          ELSE IF Ev.res = "ok"
            THEN /\ Action(Ev)
                 /\ cnt' = [cnt EXCEPT !.ops = @ + 1,
                                       !.newh = @ + (IF Ev.ret \in Handles THEN 0 ELSE 1),
                                       !.wmc = @ + (IF Ev.obs = 1 /\ WmcMeaningful(Expected(Ev)) THEN 1 ELSE 0),
                                       !.skip = @ + (IF Ev.obs = 1 /\ ~WmcMeaningful(Expected(Ev)) THEN 1 ELSE 0),
                                       !.wmcx = @ + (IF Ev.obs = 1 THEN WX(Expected(Ev)) ELSE 0)]
                 /\ UNCHANGED <<run, bad>>
            ELSE /\ Exhausted
                 /\ cnt' = [cnt EXCEPT !.exh = @ + 1]
                 /\ UNCHANGED <<run, bad>>

\* a handle handed out earlier must still denote what it denoted (also after exhaustions)
ProbeEv ==
  /\ Ev.ev = "probe" /\ UNCHANGED tab
  /\ IF bad THEN UNCHANGED <<vars, den, run, bad, cnt>>
     ELSE IF Ev.res = "panic" THEN Fail("panic", "probe")
     ELSE LET o == Observed(Ev, den[Ev.h]) IN
          IF o # "ok" THEN Fail(o, "probe")
          ELSE /\ cnt' = [cnt EXCEPT !.probes = @ + 1,
                                     !.wmc = @ + (IF WmcMeaningful(den[Ev.h]) THEN 1 ELSE 0),
                                     !.skip = @ + (IF WmcMeaningful(den[Ev.h]) THEN 0 ELSE 1),
                                     !.wmcx = @ + WX(den[Ev.h])]
               /\ UNCHANGED <<vars, den, run, bad>>

EndEv == /\ Ev.ev = "end"
         /\ PrintT(<<"INFO", run, cnt.ops, cnt.exh, cnt.probes, cnt.wmc, cnt.skip, cnt.newh, Len(vars), cnt.wmcx>>)
         /\ UNCHANGED <<vars, den, run, bad, cnt, tab>>

\* the process died inside a call of the code under test: no action of the requirement does that
CrashEv == /\ Ev.ev = "crash" /\ UNCHANGED tab
           /\ IF bad THEN UNCHANGED <<vars, den, run, bad, cnt>> ELSE Fail("crash", "process")

TNext == l <= Len(Rec) /\ l' = l + 1 /\ (Reset \/ NewVarEv \/ OpEv \/ ProbeEv \/ EndEv \/ CrashEv)
TSpec == TInit /\ [][TNext]_tvars

Consumed == IF TLCGet("stats").diameter - 1 = Len(Rec) THEN TRUE
            ELSE PrintT(<<"STUCK", TLCGet("stats").diameter, Len(Rec)>>) /\ FALSE
=============================================================================
