"""C06 - probabilities attached to derived facts equal their possible-worlds probability.

L1  tla/worlds/TagPropagationImpl.tla (code-shaped semi-naive tag propagation with delta_improved
    and the single negative pass, tags = sets of worlds) against tla/worlds/Worlds.tla, exhaustive
    over every 1..3-rule program of a rule pool x every choice of certain/uncertain inputs of small
    pools, two processing orders per round.  Negative control: without delta_improved TagsExact fails.
L2  every terminal state TLC reached in L1 is printed as a case (with the model's probabilities),
    executed on the real Reasoner under all provenance modes and validated.
L3  seeded random programs (recursive, shared evidence, constants, repeated variables, several
    conclusions, stratified negation; random dictionary order) under DnfWmcProvenance,
    SddProvenance, MinMaxProbability, BooleanProvenance (+ TopKProofs lower bound, AddMult fact
    set), validated by WorldsTrace.tla: TLC enumerates all 2^|U| worlds of every case.
"""
import concurrent.futures
import json
import os
import random
import time
import vlib
from vlib import log

FAMILY = "worlds"
SITE = "Reasoner::infer_new_facts_with_provenance"
ALL_MODES = ["dnf", "sdd", "minmax", "bool", "topk", "addmult"]
# the exact modes with a provenance object (shared manager / weight table) that was used before, under other probabilities
WARM_MODES = ["dnf-warm", "sdd-warm", "minmax", "bool"]


# ------------------------------------------------------------------ classification (no oracle here)

def has_naf(case):
    return any(r["neg"] for r in case["rules"])


def is_recursive(case):
    """Predicate dependency graph of the positive rules has a cycle (variable predicate = wildcard)."""
    edges = {}
    for r in case["rules"]:
        for h in r["concl"]:
            for b in r["prem"]:
                edges.setdefault(b[1] if b[1] > 0 else "*", set()).add(h[1] if h[1] > 0 else "*")
    nodes = set(edges) | {y for v in edges.values() for y in v}

    def succ(n):
        # a variable body predicate matches every fact; a variable head predicate can conclude any predicate
        out = set(edges.get(n, ())) | set(edges.get("*", ()))
        return out | nodes if "*" in out else out

    for start in nodes:
        seen, todo = set(), list(succ(start))
        while todo:
            n = todo.pop()
            if n == start:
                return True
            if n not in seen:
                seen.add(n)
                todo.extend(succ(n))
    return False


def sig_for(case, mode, reason):
    trig = ("naf" if has_naf(case) else "positive") + "," + ("recursive" if is_recursive(case) else "nonrecursive")
    return f"{SITE}|mode={mode}|{trig}|{reason}"


def core(case):
    return {k: case[k] for k in ("rules", "certain", "seeds", "den")}


# ------------------------------------------------------------------ validation

def shard(path, nshards):
    """Split a trace into files of whole runs (reset .. next reset)."""
    runs, cur = [], None
    with open(path) as f:
        for line in f:
            if '"ev":"reset"' in line:
                cur = []
                runs.append(cur)
            cur.append(line)
    nshards = max(1, min(nshards, len(runs)))
    # deal heavy runs (many seeds) round-robin so the shards finish together
    order = sorted(range(len(runs)), key=lambda i: -len(json.loads(runs[i][0])["seeds"]))
    parts = [[] for _ in range(nshards)]
    for k, i in enumerate(order):
        parts[k % nshards].append(i)
    paths = []
    for k, idx in enumerate(parts):
        p = f"{path}.{k}"
        with open(p, "w") as f:
            for i in sorted(idx):
                f.writelines(runs[i])
        paths.append(p)
    return paths


def validate(trace_path, verdict, tag, nshards=1, timeout=3600):
    paths = shard(trace_path, nshards) if nshards > 1 else [trace_path]
    with concurrent.futures.ThreadPoolExecutor(max_workers=len(paths)) as ex:
        results = list(ex.map(lambda kp: vlib.tlc_trace(FAMILY, "WorldsTrace.tla", "WorldsTrace.cfg", kp[1],
                                                        tag=f"c06-{tag}-{kp[0]}", timeout=timeout, heap="2g"),
                              enumerate(paths)))
    runs = vlib.split_runs(vlib.read_ndjson(trace_path))
    fails, infos, diffs, states, witness = [], [], set(), 0, {}
    for res in results:
        fails += res["fail"]
        infos += res["info"]
        diffs |= {d[0] for d in res["modeldiff"]}
        states += res["states"]
        for line in res["out"].splitlines():
            if line.startswith('"WITNESS '):
                parts = line.strip('"').split(" ", 3)
                witness[(int(parts[1]), parts[2])] = parts[3]
    for p in paths:
        if p != trace_path:
            os.remove(p)
    failed = set()
    for rid, mode, reason in fails:
        ev = runs[rid]
        case = ev[0]["case"]
        failed.add((rid, mode))
        observed = [e for e in ev[1:] if e["mode"] == mode]
        one = dict(case)
        warm = any(e.get("warm") for e in observed)
        one["modes"] = [mode + "-warm" if warm else mode]
        verdict.violation(sig_for(case, mode, reason) + (",provenance-object-reused" if warm else ""),
                          {"driver": "c06", "case": one, "mode": mode, "reason": reason, "observed": observed},
                          detail=f"run {rid}: [s,p,o,observed,expected]={witness.get((rid, mode), '')}")
    skipped = {(i[0], i[2]) for i in infos if i[1] == "skipped"}
    drift = {d for d in diffs if not any(r == d for r, _ in failed)}
    return dict(runs=runs, failed=failed, skipped=skipped, drift=drift, states=states,
                wall=max(r["wall"] for r in results))


def stats(runs, skipped, distinct, cls):
    """Counts for the evidence: judged (case, mode) evaluations; distinct non-trivial cases and their classes
    are accumulated in `distinct` / `cls` over all batches."""
    evaluations = 0
    for rid, ev in runs.items():
        case = ev[0]["case"]
        scale = case["den"] ** len(case["seeds"])
        inputs = {tuple(x[:3]) for x in case["certain"]} | {tuple(x[:3]) for x in case["seeds"]}
        dnf = next((e for e in ev[1:] if e["mode"] == "dnf" and e["ret"] == "ok"), None)
        am = next((e for e in ev[1:] if e["mode"] == "addmult" and e["ret"] == "ok"), None)
        for e in ev[1:]:
            if (rid, e["mode"]) not in skipped:
                evaluations += 1
                if not e.get("integral", True) and e["mode"] != "addmult":
                    cls["nonintegral"] += 1
        if not dnf or (rid, "dnf") in skipped:
            continue
        if any(tuple(x[:3]) not in inputs and 0 < x[3] < scale for x in dnf["out"]):
            h = vlib.case_hash(core(case))
            if h not in distinct:
                distinct.add(h)
                cls["recursive"] += is_recursive(case)
                cls["naf"] += has_naf(case)
                cls["maxu"] = max(cls["maxu"], len(case["seeds"]))
                # independent-combination (add-mult) semantics differs from the exact value: proofs share evidence
                if am and not has_naf(case) and (not am["grid"] or am["out"] != dnf["out"]):
                    cls["correlated"] += 1
    return evaluations


# ------------------------------------------------------------------ the check

def l2_cases(behaviours, seed):
    rnd = random.Random(seed)
    seen, cases = set(), []
    for b in behaviours:
        h = vlib.case_hash([b["rules"], sorted(b["certain"]), sorted(b["seeds"])])
        if h in seen:
            continue
        seen.add(h)
        terms = sorted({t for r in b["rules"] for part in ("prem", "neg", "concl") for pat in r[part] for t in pat if t > 0}
                       | {t for f in b["certain"] for t in f} | {t for f in b["seeds"] for t in f[:3]})
        perm = terms[:]
        rnd.shuffle(perm)
        cases.append({"rules": b["rules"], "certain": b["certain"], "seeds": b["seeds"], "den": b["den"], "perm": perm,
                      "modes": WARM_MODES if len(cases) % 4 == 3 else ALL_MODES, "k": rnd.choice([1, 2, 3, 5]), "hasmodel": True, "model": b["model"]})
    return cases


def run(ctx):
    t0 = time.time()
    verdict = vlib.Verdict("C06", ctx.seed, ctx.tier)
    wd = vlib.workdir("c06")
    if ctx.replay:
        case = json.load(open(ctx.replay))["case"]["case"]
        vlib.write_ndjson(os.path.join(wd, "cases.ndjson"), [case])
        vlib.kverif(["c06", "--cases", os.path.join(wd, "cases.ndjson"), "--out", os.path.join(wd, "replay.ndjson")])
        v = validate(os.path.join(wd, "replay.ndjson"), verdict, "replay")
        log(f"replay: {len(v['failed'])} mode(s) rejected, {len(v['skipped'])} outside the preconditions")
        return verdict.finish()

    thorough = ctx.tier == "thorough"

    # L1 (+ emission of every terminal state for L2)
    mc = vlib.tlc_mc(FAMILY, "MCWorlds.tla", "MC_thorough.cfg" if thorough else "MC_quick.cfg", workers=8, timeout=3000)
    log(f"L1 TagPropagationImpl vs Worlds: {mc['states']} distinct states ({mc['generated']} transitions), violated={mc['violated']} "
        f"[{time.time() - t0:.0f}s]")
    if mc["uncovered"]:
        raise vlib.ToolError(f"vacuity: actions never taken in L1: {mc['uncovered']}")
    if mc["violated"]:
        raise vlib.ToolError(f"L1 invariant {mc['violated']} violated: the code-shaped model no longer meets the requirement "
                             f"(model or design change; L2/L3 judge the code itself)")
    neg = vlib.tlc_mc(FAMILY, "MCWorlds.tla", "MC_noretrigger.cfg", workers=4, coverage=False, tag="c06-neg")
    if neg["violated"] != "TagsExact":
        raise vlib.ToolError("non-vacuity check failed: dropping delta_improved no longer violates TagsExact in the model")
    behaviours = []
    for line in mc["out"].splitlines():
        if line.startswith('<<"REPLAY", '):
            behaviours.append(json.loads(json.loads(line[len('<<"REPLAY", '):-2])))
    if not behaviours:
        raise vlib.ToolError("L1 emitted no terminal states")

    # L2
    cases = l2_cases(behaviours, ctx.seed)
    vlib.write_ndjson(os.path.join(wd, "l2cases.ndjson"), cases)
    vlib.kverif(["c06", "--cases", os.path.join(wd, "l2cases.ndjson"), "--out", os.path.join(wd, "l2.ndjson")])
    v2 = validate(os.path.join(wd, "l2.ndjson"), verdict, "l2", nshards=8 if thorough else 4)
    log(f"L2 replayed {len(cases)} terminal states of the model on the real code x {len(ALL_MODES)} modes: "
        f"{len(v2['failed'])} rejected, {len(v2['drift'])} differ from the code-shaped model only [{time.time() - t0:.0f}s]")

    # L3
    plan = [(3000, 6, 30), (1200, 10, 30), (600, 12, 25)] if thorough else [(260, 6, 30), (12, 9, 25)]
    v3s = []
    for k, (n, maxu, naf) in enumerate(plan):
        path = os.path.join(wd, f"l3-{k}.ndjson")
        vlib.kverif(["c06", "--random", n, "--seed", ctx.seed * 100 + k, "--maxu", maxu, "--naf", naf, "--out", path])
        v3s.append(validate(path, verdict, f"l3-{k}", nshards=8 if thorough else 6))
        log(f"L3 random programs (<= {maxu} uncertain facts): {len(v3s[-1]['runs'])} cases, {len(v3s[-1]['failed'])} (case, mode) rejected, "
            f"TLC {v3s[-1]['wall']:.0f}s [{time.time() - t0:.0f}s]")

    if v2["drift"] and not verdict.violations:
        log(f"MODEL-DRIFT: {len(v2['drift'])} cases where the code differs from TagPropagationImpl.tla while the requirement holds; not a verdict")

    rc = verdict.finish()
    distinct, cls = set(), dict(recursive=0, naf=0, correlated=0, maxu=0, nonintegral=0)
    evaluations, nruns, skipped = 0, 0, 0
    for v in [v2] + v3s:
        evaluations += stats(v["runs"], v["skipped"], distinct, cls)
        nruns += len(v["runs"])
        skipped += len(v["skipped"])
    s3 = v3s[0]["runs"][sorted(v3s[0]["runs"])[0]]
    cov = {
        "states": mc["states"], "transitions": mc["generated"],
        "traces_validated_against_impl": nruns,
        "samples": [{"case": core(s3[0]["case"]), "observed": [{k: e[k] for k in ("mode", "ret", "out", "new")} for e in s3[1:5]]},
                    {"tlc_terminal_state": behaviours[len(behaviours) // 2]}],
        "evaluations": evaluations, "distinct_nontrivial": len(distinct),
        "rule": "one evaluation = one call of infer_new_facts_with_provenance under one mode, every fact's recovered probability judged by TLC "
                "against the enumeration of all 2^|U| worlds (calls outside a mode's preconditions are counted as skipped, not as evaluations); "
                "L2 = every terminal state of the L1 instance, L3 = seeded random programs; distinct by hash of (rules, certain, seeds, den); "
                "non-trivial = at least one derived (non-input) fact with probability strictly between 0 and 1",
        "exhaustive": True,
        "l1_constants": "MC_thorough.cfg" if thorough else "MC_quick.cfg",
        "l2_cases": len(cases), "l3_cases": sum(len(v["runs"]) for v in v3s),
        "skipped_mode_events": skipped,
        "nontrivial_recursive": cls["recursive"], "nontrivial_with_negation": cls["naf"],
        "nontrivial_with_correlated_proofs": cls["correlated"], "max_uncertain_facts": cls["maxu"],
        "non_integral_scaled_values_within_tolerance": cls["nonintegral"],
        "model_drift": len(v2["drift"]),
        "trace_states": v2["states"] + sum(v["states"] for v in v3s),
    }
    vlib.write_evidence("C06", ctx.tier, ctx.seed, "model_checking", cov,
                        ["input probabilities on a dyadic grid num/den, den in {2,4,8,16}, den^|U| <= 2^30: scaled probabilities are exact "
                         "integers in f64 and in TLC; accuracy on arbitrary reals is not claimed (the driver accepts |p*scale - round| < 1e-6)",
                         "safe rules, certain and uncertain inputs disjoint; negation only stratified (head predicates of rules with NOT occur in "
                         "no body, constant predicates) and only judged for dnf, sdd, bool; min-max, top-k, add-mult judged on positive programs",
                         "TopKProofs is judged only for value <= exact and zero iff exact zero; AddMultProbability only for the set of facts",
                         "L1 exhaustive only within the rule/fact pools of the cfg and two processing orders per round; rule filters are not used"],
                        time.time() - t0, len(verdict.violations))
    return rc
