------------------------------ MODULE UnionImpl ------------------------------
(***************************************************************************)
(* Code-shaped model for C15 (second sentence): two databases are built    *)
(* independently through the real API shape (Dictionary::encode,           *)
(* QuotedTripleStore::encode, insert_quad, create_graph, probability_seeds)*)
(* -- both dictionaries count from 0, so their identifiers clash by        *)
(* construction -- and are then combined                                   *)
(*   either by SparqlDatabase::union, step by step as the code does it     *)
(*     (pre-pass over the sorted dictionary ids, pre-pass over the sorted  *)
(*      quoted ids, copy of self, graph catalog, quads, seeds, all through *)
(*      reencode_term_id and its translation cache; iteration orders that  *)
(*      come from hash maps are nondeterministic),                         *)
(*   or by Dictionary::merge + QuotedTripleStore::merge (or_insert).       *)
(*                                                                         *)
(* Checked: each dictionary refines Dict.tla (DSpec, Stable); the union    *)
(* denotes the union of the denotations (Terms!UnionOK) and leaves its     *)
(* operands alone; the translation cache is sound at every step; the       *)
(* result does not depend on the iteration order; merge yields a bijection *)
(* exactly under Terms!Compatible.                                         *)
(***************************************************************************)
EXTENDS DictCode

CONSTANTS Str,              \* strings
          Probs,            \* seed probabilities (permille)
          QA, QB,           \* quoted triples per database (self, other)
          QuadsA, QuadsB,   \* quads per database
          SeedsA, SeedsB,   \* probability seeds per database
          EmptyA, EmptyB,   \* graphs created explicitly (may stay empty)
          SizeA, SizeB,     \* total number of entries per database
          TranslateGraphs   \* TRUE = as the code; FALSE = negative control (graph names of `other` copied untranslated)

VARIABLES db,       \* db[1] = self, db[2] = other
          handed,   \* ghost per database: [p, q] every pair ever returned
          pc,
          u         \* union / merge workspace
vars == <<db, handed, pc, u>>

A == db[1]
B == db[2]
MaxQ == <<QA, QB>>
MaxQuads == <<QuadsA, QuadsB>>
MaxSeeds == <<SeedsA, SeedsB>>
MaxEmpty == <<EmptyA, EmptyB>>
MaxSize == <<SizeA, SizeB>>
Idle == [st |-> UnionStart(NewDb), o |-> [quads |-> {}, named |-> {}, seeds |-> {}], todo |-> {}]

Size(x) == Cardinality(x.d.s2i) + Cardinality(x.q.c2i) + Cardinality(x.quads) + Cardinality(x.seeds)
             + Cardinality(x.named \ {qd[4] : qd \in x.quads})
KnownOf(x) == Ran(x.d.s2i) \cup Ran(x.q.c2i)
PlainOf(x) == Ran(x.d.s2i)
P0 == <<0, 0>>       \* the first string a database encodes serves as its predicate

Cur == IF pc = "A" THEN 1 ELSE 2

BEnc(i, s) ==
  LET e == EncI(db[i].d, s) IN
  /\ db' = [db EXCEPT ![i].d = e.d]
  /\ handed' = [handed EXCEPT ![i].p = @ \cup {<<s, e.id>>}]

BQEnc(i, t) ==
  LET e == QEncI(db[i].q, t) IN
  /\ Cardinality(db[i].q.c2i) < MaxQ[i] \/ Has(db[i].q.c2i, t)
  /\ db' = [db EXCEPT ![i].q = e.q]
  /\ handed' = [handed EXCEPT ![i].q = @ \cup {<<t, e.id>>}]

BQuad(i, qd) ==
  /\ Cardinality(db[i].quads) < MaxQuads[i]
  /\ qd \notin db[i].quads
  /\ db' = [db EXCEPT ![i] = InsQuad(db[i], qd)]
  /\ UNCHANGED handed

BGraph(i, g) ==
  /\ g \notin db[i].named
  /\ Cardinality(db[i].named \ {qd[4] : qd \in db[i].quads}) < MaxEmpty[i]
  /\ db' = [db EXCEPT ![i].named = @ \cup {g}]
  /\ UNCHANGED handed

BSeed(i, t, p) ==
  /\ Cardinality(db[i].seeds) < MaxSeeds[i]
  /\ ~Has(db[i].seeds, t)
  /\ db' = [db EXCEPT ![i].seeds = Put(@, t, p)]
  /\ UNCHANGED handed

Build ==
  /\ pc \in {"A", "B"}
  /\ LET i == Cur
         K == KnownOf(db[i])
     IN  /\ Size(db[i]) < MaxSize[i]
         /\ \/ \E s \in Str : BEnc(i, s)
            \/ /\ P0 \in K
               /\ \/ \E s \in K, o \in K : BQEnc(i, <<s, P0, o>>)
                  \/ \E s \in K, o \in K, g \in {DefaultG} \cup PlainOf(db[i]) : BQuad(i, <<s, P0, o, g>>)
                  \/ \E g \in PlainOf(db[i]) : BGraph(i, g)
                  \/ \E s \in K, o \in K, p \in Probs : BSeed(i, <<s, P0, o>>, p)
  /\ UNCHANGED <<pc, u>>

Switch ==
  /\ pc \in {"A", "B"}
  /\ pc' = IF pc = "A" THEN "B" ELSE "built"
  /\ UNCHANGED <<db, handed, u>>

---------------------------------------------------------------------------
\* SparqlDatabase::union, one loop iteration per step
StartUnion ==
  /\ pc = "built" /\ pc' = "terms"
  /\ u' = [st |-> UnionStart(A), o |-> Idle.o, todo |-> Dom(B.d.i2s)]
  /\ UNCHANGED <<db, handed>>

StepSorted(here, next, nextTodo) ==
  /\ pc = here
  /\ IF u.todo = {}
       THEN pc' = next /\ u' = [u EXCEPT !.todo = nextTodo]
       ELSE LET m == MinId(u.todo)
            IN  pc' = pc /\ u' = [u EXCEPT !.st = Reenc(m, B, u.st).st, !.todo = @ \ {m}]
  /\ UNCHANGED <<db, handed>>

CopySelf ==
  /\ pc = "copy" /\ pc' = "graphs"
  /\ u' = [u EXCEPT !.o = [quads |-> A.quads, named |-> A.named, seeds |-> A.seeds], !.todo = B.named]
  /\ UNCHANGED <<db, handed>>

StepGraphs ==
  /\ pc = "graphs"
  /\ IF u.todo = {} THEN pc' = "quads" /\ u' = [u EXCEPT !.todo = B.quads]
     ELSE \E g \in u.todo :
            LET r == IF TranslateGraphs THEN Reenc(g, B, u.st) ELSE [st |-> u.st, id |-> g]
            IN  pc' = pc /\ u' = [st |-> r.st, o |-> [u.o EXCEPT !.named = @ \cup {r.id}], todo |-> u.todo \ {g}]
  /\ UNCHANGED <<db, handed>>

StepQuads ==
  /\ pc = "quads"
  /\ IF u.todo = {} THEN pc' = "seeds" /\ u' = [u EXCEPT !.todo = B.seeds]
     ELSE \E qd \in u.todo :
            LET r == ReencQuad(qd, B, u.st)
                q == IF TranslateGraphs THEN r.q ELSE <<r.q[1], r.q[2], r.q[3], qd[4]>>
            IN  pc' = pc /\ u' = [st |-> r.st, o |-> InsQuad(u.o, q), todo |-> u.todo \ {qd}]
  /\ UNCHANGED <<db, handed>>

StepSeeds ==
  /\ pc = "seeds"
  /\ IF u.todo = {} THEN pc' = "done" /\ u' = u
     ELSE \E x \in u.todo :
            LET r == ReencTriple(x[1], B, u.st)
            IN  pc' = pc /\ u' = [st |-> r.st, o |-> [u.o EXCEPT !.seeds = Put(@, r.t, x[2])], todo |-> u.todo \ {x}]
  /\ UNCHANGED <<db, handed>>

\* Dictionary::merge + QuotedTripleStore::merge of other into self (the result is kept in u.st)
Merge ==
  /\ pc = "built" /\ pc' = "merged"
  /\ u' = [Idle EXCEPT !.st = [d |-> MergeI(A.d, B.d), q |-> QMergeI(A.q, B.q), c |-> {}]]
  /\ UNCHANGED <<db, handed>>

Init == /\ db = [i \in 1..2 |-> NewDb]
        /\ handed = [i \in 1..2 |-> [p |-> {}, q |-> {}]]
        /\ pc = "A" /\ u = Idle

Next == \/ Build \/ Switch \/ StartUnion \/ Merge
        \/ StepSorted("terms", "quoted", Dom(B.q.i2c))
        \/ StepSorted("quoted", "copy", {})
        \/ CopySelf \/ StepGraphs \/ StepQuads \/ StepSeeds
Spec == Init /\ [][Next]_vars

---------------------------------------------------------------------------
Result == [d |-> u.st.d, q |-> u.st.q, quads |-> u.o.quads, named |-> u.o.named, seeds |-> u.o.seeds]
InUnion == pc \in {"terms", "quoted", "copy", "graphs", "quads", "seeds", "done"}

\* each database alone: stable bijection, maps in lock-step, only handed-out ids in use
DictsOK == \A i \in 1..2 : DbOK(AbsDb(db[i])) /\ LockStep(db[i])

\* every cache entry maps an id of `other` to an id of the target with the same lexical meaning
CacheSound ==
  InUnion => /\ DictOK(u.st.d.s2i, u.st.q.c2i)
             /\ A.d.s2i \subseteq u.st.d.s2i /\ A.q.c2i \subseteq u.st.q.c2i
             /\ \A p \in u.st.c : /\ Renderable(u.st.d.s2i, u.st.q.c2i, p[2])
                                  /\ Render(B.d.s2i, B.q.c2i, p[1]) = Render(u.st.d.s2i, u.st.q.c2i, p[2])

UnionDenotesUnion ==
  pc = "done" => /\ DbOK(AbsDb(Result)) /\ LockStep(Result)
                 /\ UnionOK(Lex(AbsDb(A)), Lex(AbsDb(B)), Lex(AbsDb(Result)))

\* hash iteration order does not matter, not even for the identifiers chosen
OrderIrrelevant == pc = "done" => Result = UnionI(A, B)

SourceUntouched == [][pc \notin {"A", "B"} => db' = db]_vars

\* merge: the result is a bijection containing both operands exactly when they agree
MergeSafe ==
  pc = "merged" =>
     LET m == u.st IN
     /\ Compatible(A.d.s2i, B.d.s2i) <=> (Bij(m.d.s2i) /\ m.d.i2s = Flip(m.d.s2i) /\ (A.d.s2i \cup B.d.s2i) \subseteq m.d.s2i)
     /\ Compatible(A.d.s2i, B.d.s2i) => MergeOK(A.d.s2i, B.d.s2i, m.d.s2i) /\ \A p \in m.d.s2i : p[2][2] < m.d.next
     /\ Compatible(A.q.c2i, B.q.c2i) <=> (Bij(m.q.c2i) /\ m.q.i2c = Flip(m.q.c2i) /\ (A.q.c2i \cup B.q.c2i) \subseteq m.q.c2i)
     /\ Compatible(A.q.c2i, B.q.c2i) => MergeOK(A.q.c2i, B.q.c2i, m.q.c2i) /\ \A p \in m.q.c2i : p[2][2] < m.q.next
\* negative control: without the precondition merge does not keep the dictionary a bijection
MergeAlwaysBijective == pc = "merged" => Bij(u.st.d.s2i) /\ u.st.d.i2s = Flip(u.st.d.s2i)
\* non-vacuity: identifiers really clash (some id means different strings in the two databases)
NeverClash == pc = "done" => \A p \in A.d.i2s, q \in B.d.i2s : p[1] = q[1] => p[2] = q[2]

\* refinement: each dictionary is a behaviour of Dict.tla
D1 == INSTANCE Dict WITH enc <- db[1].d.s2i, qenc <- db[1].q.c2i, handed <- handed[1], NPlain <- 8, NQuoted <- 8
D2 == INSTANCE Dict WITH enc <- db[2].d.s2i, qenc <- db[2].q.c2i, handed <- handed[2], NPlain <- 8, NQuoted <- 8
Refines1 == D1!DSpec
Refines2 == D2!DSpec
Stable1  == D1!Stable
Stable2  == D2!Stable
Handed   == D1!HandedCurrent /\ D2!HandedCurrent

SizeBound == Size(db[1]) <= MaxSize[1] /\ Size(db[2]) <= MaxSize[2]
=============================================================================
