---------------------------- MODULE SemiNaiveImpl ----------------------------
(***************************************************************************)
(* Code-shaped model of Reasoner::infer_with_strategy driving              *)
(* SemiNaiveStrategy / NaiveStrategy (datalog/src/reasoning/               *)
(* materialisation/{infer_generic,semi_naive,my_naive}.rs):                *)
(*                                                                         *)
(*   all       the fact vector `all_facts` (base facts in the order the    *)
(*             store returned them, then the facts of every round in the   *)
(*             order the HashSet drained them - both nondeterministic)     *)
(*   known     `known_facts`                                               *)
(*   startIdx  `start_idx_for_delta`: the delta of a round is the slice    *)
(*             all[startIdx .. len); every premise position in turn is fed *)
(*             by the delta, the other positions by all facts              *)
(*   stratum   rules without negation run to fixpoint first, then all      *)
(*             rules; NOT atoms are looked up in `known`; start_stratum    *)
(*             resets startIdx to 0                                        *)
(*   run       the materialisation is executed twice on the same store     *)
(*                                                                         *)
(* Checked against Datalog!Model for every program / fact set of the       *)
(* family given by the constants: ReachesModel, OrderIndependent (any      *)
(* vector order, any rule order), SecondRunEmpty, RoundsAreNew.            *)
(***************************************************************************)
EXTENDS Datalog

CONSTANTS Programs,   \* set of programs (sequences of rules)
          FactSets,   \* set of fact sets
          Permute,    \* TRUE: rule order and fact vector order are arbitrary
          Mode,       \* "semi" | "naive" | "nodelta-bug" | "stale-delta-bug" (negative controls)
          Runs        \* 1 or 2

VARIABLES prog,      \* the program as given (a sequence of rules)
          R,         \* the rule vector of the reasoner (a permutation of prog)
          base,      \* fact set before the first run
          all, known, startIdx, stratum, pc, run,
          rounds,    \* history: the new facts of every productive round of run 1
          goal       \* Model(prog, base), computed once
vars == <<prog, R, base, all, known, startIdx, stratum, pc, run, rounds, goal>>

Perms(S) == {sq \in [1..Cardinality(S) -> S] : \A i, j \in 1..Cardinality(S) : i # j => sq[i] # sq[j]}
RECURSIVE SeqOf(_)
SeqOf(S) == IF S = {} THEN <<>> ELSE LET x == CHOOSE y \in S : TRUE IN <<x>> \o SeqOf(S \ {x})
Orders(S) == IF Permute THEN Perms(S) ELSE {SeqOf(S)}
RuleOrders(P) == IF Permute THEN {[i \in 1..Len(P) |-> P[pi[i]]] : pi \in Perms(1..Len(P))} ELSE {P}

Strata(P) == IF HasNeg(P) THEN <<Positive(P), P>> ELSE <<P>>

\* premise i is matched against the delta, the remaining premises in order against all facts
RECURSIVE JoinRest(_, _, _, _, _)
JoinRest(prem, i, j, S, X) ==
  IF j > Len(prem) THEN S
  ELSE IF j = i THEN JoinRest(prem, i, j + 1, S, X)
  ELSE IF S = {} THEN {}
  ELSE JoinRest(prem, i, j + 1, UNION {Unify(sg, prem[j], f) : sg \in S, f \in X}, X)

DeltaMatch(prem, i, D, X) == JoinRest(prem, i, 1, UNION {Unify(Empty, prem[i], f) : f \in D}, X)

Solutions(r, D, X) ==
  IF Mode = "naive" THEN Match(r.prem, X)
  ELSE UNION {DeltaMatch(r.prem, i, D, X) : i \in 1..Len(r.prem)}

\* infer_round: conclusions of all solutions that pass the filters and the NOT atoms, minus known
RoundFacts(rules, D, X, K) ==
  UNION {{Inst(rules[k].concl[c], sg) :
             c \in 1..Len(rules[k].concl),
             sg \in {s \in Solutions(rules[k], D, X) : FiltersOK(s, rules[k].flt) /\ NegOK(s, rules[k].neg, K)}}
         : k \in 1..Len(rules)} \ K

Delta ==
  CASE Mode = "nodelta-bug"     -> Range(SubSeq(all, startIdx + 2, Len(all)))  \* off by one: first delta fact skipped
    [] Mode = "stale-delta-bug" -> IF startIdx = 0 THEN Range(all) ELSE {}      \* delta never advanced past round 1
    [] OTHER                    -> Range(SubSeq(all, startIdx + 1, Len(all)))

Init ==
  /\ prog \in Programs /\ base \in FactSets
  /\ R = prog /\ all = <<>> /\ goal = {}
  /\ known = base /\ startIdx = 0 /\ stratum = 1 /\ pc = "setup" /\ run = 1 /\ rounds = <<>>

\* loading the reasoner: rules and facts arrive in some order; cases outside the quantifier of
\* C05 are dropped (TLC evaluates this action in parallel, unlike the initial predicate)
Setup ==
  /\ pc = "setup"
  /\ LET M == IF SafeProgram(prog) /\ Stratified(prog) THEN Model(prog, base) ELSE {} IN
     IF SafeProgram(prog) /\ Stratified(prog) /\ TypedOn(prog, M)
       THEN /\ R' \in RuleOrders(prog)
            /\ all' \in Orders(base)
            /\ goal' = M
            /\ pc' = "round"
       ELSE pc' = "skipped" /\ UNCHANGED <<R, all, goal>>
  /\ UNCHANGED <<prog, base, known, startIdx, stratum, run, rounds>>

Round ==
  /\ pc = "round"
  /\ LET rules == Strata(R)[stratum]
         new   == RoundFacts(rules, Delta, Range(all), known)
     IN  IF new # {}
           THEN /\ \E sq \in Orders(new) : all' = all \o sq
                /\ known' = known \cup new
                /\ startIdx' = Len(all)
                /\ rounds' = IF run = 1 THEN Append(rounds, new) ELSE rounds
                /\ UNCHANGED <<stratum, pc>>
           ELSE IF stratum < Len(Strata(R))
                  THEN /\ stratum' = stratum + 1 /\ startIdx' = 0          \* start_stratum
                       /\ UNCHANGED <<all, known, pc, rounds>>
                  ELSE /\ pc' = "done" /\ startIdx' = Len(all)
                       /\ UNCHANGED <<all, known, stratum, rounds>>
  /\ UNCHANGED <<prog, R, base, run, goal>>

\* second call of infer_new_facts_* on the same reasoner: the store is read again
Again ==
  /\ pc = "done" /\ run < Runs
  /\ run' = run + 1 /\ pc' = "round" /\ stratum' = 1 /\ startIdx' = 0
  /\ all' \in Orders(known)
  /\ UNCHANGED <<prog, R, base, known, rounds, goal>>

Next == Setup \/ Round \/ Again
Spec == Init /\ [][Next]_vars /\ WF_vars(Next)

\* ---- properties -------------------------------------------------------------
Done == pc = "done"
ReachesModel     == Done => (known = goal /\ Range(all) = known)
OrderIndependent == Done => known = Model(prog, base)       \* whatever R and the vector orders were
SecondRunEmpty   == (Done /\ run = 2) => Len(all) = Cardinality(goal)
NoDuplicates     == Len(all) = Cardinality(Range(all))
RoundsAreNew     == \A i \in 1..Len(rounds) : rounds[i] # {} /\ rounds[i] \cap base = {}
                       /\ \A j \in 1..(i - 1) : rounds[i] \cap rounds[j] = {}
Sound            == (pc \in {"round", "done"}) => known \subseteq goal                   \* every fact in the store has a derivation
SpecLaws         == (pc = "round" /\ run = 1 /\ rounds = <<>> /\ stratum = 1 /\ startIdx = 0) => LFP(prog, base, goal) = goal
Terminates       == <>Done
=============================================================================
