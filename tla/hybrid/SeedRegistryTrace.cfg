SPECIFICATION TSpec
CONSTANTS
  Triples = {}
  Keys = {}
  Groups = {}
  Probs = {}
  MaxId = 2000000000
POSTCONDITION Consumed
CHECK_DEADLOCK FALSE
