//! C19 driver: inconsistency-tolerant querying and repair-aware materialisation on the
//! real `datalog::reasoning::Reasoner`.
//!
//! Terms in cases and events: positive integer = constant (dictionary id used verbatim),
//! negative integer = variable (named through the case's `names`, default `V<k>`).
//!
//! case {"kind":"query","facts":[[s,p,o]..],"cons":[[[t,t,t]..]..],"goal":[t,t,t],"reps":K}
//!   -> reset ; K x {"ev":"query","rep":i,"answers":[[value per goal variable, in order of first
//!      occurrence; 0 = variable missing from the binding]..],"panic":bool} ; end
//!   every repetition builds a fresh Reasoner; every HashSet the engine creates has a fresh
//!   SipHash key (std RandomState), so the repetitions differ in hash iteration order.
//! case {"kind":"mat","facts":..,"cons":..,"rules":[{"prem":[..],"concl":[..]}..],"reps":K}
//!   -> reset ; K x {"ev":"mat","rep":i,"inferred":[[s,p,o]..],"final":[[s,p,o]..],"panic":bool} ; end
use crate::util::*;
use datalog::reasoning::Reasoner;
use serde_json::{json, Value};
use shared::rule::Rule;
use shared::terms::{Term, TriplePattern};
use shared::triple::Triple;

fn vname(case: &Value, t: i64) -> String {
    let k = (-t - 1) as usize;
    case.get("names").and_then(|n| n.get(k)).and_then(|s| s.as_str()).map(|s| s.to_string()).unwrap_or_else(|| format!("V{}", k + 1))
}

fn term(case: &Value, v: &Value) -> Term {
    let t = v.as_i64().expect("term");
    if t > 0 { Term::Constant(t as u32) } else { Term::Variable(vname(case, t)) }
}

fn pattern(case: &Value, v: &Value) -> TriplePattern {
    (term(case, &v[0]), term(case, &v[1]), term(case, &v[2]))
}

fn patterns(case: &Value, v: &Value) -> Vec<TriplePattern> {
    v.as_array().map(|a| a.iter().map(|p| pattern(case, p)).collect()).unwrap_or_default()
}

fn triple(v: &Value) -> Triple {
    Triple { subject: v[0].as_u64().unwrap() as u32, predicate: v[1].as_u64().unwrap() as u32, object: v[2].as_u64().unwrap() as u32 }
}

fn build(case: &Value, order: &[usize]) -> Reasoner {
    let mut r = Reasoner::new();
    let facts = case["facts"].as_array().unwrap();
    for &i in order {
        r.insert_ground_triple(triple(&facts[i]));
    }
    for c in case["cons"].as_array().unwrap() {
        r.add_constraint(Rule { premise: patterns(case, c), negative_premise: vec![], filters: vec![], conclusion: vec![] });
    }
    if let Some(rules) = case.get("rules").and_then(|x| x.as_array()) {
        for ru in rules {
            r.add_rule(Rule { premise: patterns(case, &ru["prem"]), negative_premise: vec![], filters: vec![], conclusion: patterns(case, &ru["concl"]) });
        }
    }
    r
}

fn goal_vars(goal: &Value) -> Vec<i64> {
    let mut vs = Vec::new();
    for t in goal.as_array().unwrap() {
        let t = t.as_i64().unwrap();
        if t < 0 && !vs.contains(&t) {
            vs.push(t);
        }
    }
    vs
}

fn sorted_triples(mut v: Vec<Triple>) -> Vec<Value> {
    v.sort();
    v.dedup();
    v.iter().map(|t| json!([t.subject, t.predicate, t.object])).collect()
}

fn run_case(out: &mut Out, run: &mut u64, case: &Value, rng: &mut Rng) {
    *run += 1;
    let kind = case["kind"].as_str().unwrap_or("query");
    let reps = case["reps"].as_u64().unwrap_or(1);
    let nfacts = case["facts"].as_array().unwrap().len();
    let goal = case.get("goal").cloned().unwrap_or(json!([-1, -2, -3]));
    let rules = case.get("rules").cloned().unwrap_or(json!([]));
    let hasmodel = case.get("hasmodel").and_then(|v| v.as_bool()).unwrap_or(false);
    let model = if hasmodel { case["model"].clone() } else { json!([]) };
    // the event lists the facts sorted and without duplicates (the case keeps the insertion order)
    let mut fsorted: Vec<Vec<u64>> = case["facts"].as_array().unwrap().iter()
        .map(|f| (0..3).map(|k| f[k].as_u64().unwrap()).collect()).collect();
    fsorted.sort();
    fsorted.dedup();
    out.ev(json!({"ev":"reset","run":*run,"kind":kind,"facts":fsorted,"cons":case["cons"],"goal":goal,
                  "rules":rules,"hasmodel":hasmodel,"model":model,"case":case}));
    for rep in 0..reps {
        // insertion order of the facts is varied too (it must not matter)
        let mut order: Vec<usize> = (0..nfacts).collect();
        if rep > 0 {
            rng.shuffle(&mut order);
        }
        if kind == "query" {
            let q = pattern(case, &goal);
            let vs = goal_vars(&goal);
            let res = guarded(|| {
                let r = build(case, &order);
                r.query_with_repairs(&q)
            });
            match res {
                Ok(ans) => {
                    let mut rows: Vec<Vec<u32>> = ans.iter().map(|b| vs.iter().map(|v| *b.get(&vname(case, *v)).unwrap_or(&0)).collect()).collect();
                    let extra: usize = ans.iter().map(|b| b.keys().filter(|k| !vs.iter().any(|v| &vname(case, *v) == *k)).count()).sum();
                    rows.sort();
                    out.ev(json!({"ev":"query","rep":rep,"answers":rows,"n":ans.len(),"foreign_keys":extra,"panic":false}));
                }
                Err(_) => out.ev(json!({"ev":"query","rep":rep,"answers":[],"n":0,"foreign_keys":0,"panic":true})),
            }
        } else {
            let res = guarded(|| {
                let mut r = build(case, &order);
                let inferred = r.infer_new_facts_semi_naive_with_repairs();
                let fin = r.dataset_index.query(None, None, None);
                (inferred, fin)
            });
            match res {
                Ok((inf, fin)) => out.ev(json!({"ev":"mat","rep":rep,"inferred":sorted_triples(inf),"final":sorted_triples(fin),"panic":false})),
                Err(_) => out.ev(json!({"ev":"mat","rep":rep,"inferred":[],"final":[],"panic":true})),
            }
        }
    }
    out.ev(json!({"ev":"end","run":*run}));
}

// ---------------------------------------------------------------------------- generation

const NODES: [i64; 4] = [1, 2, 3, 4];
const PREDS: [i64; 3] = [11, 12, 13];

fn gen_term(rng: &mut Rng, pool: &[i64], nvars: i64, pvar: u64) -> i64 {
    if rng.chance(pvar, 100) { -(rng.range(1, nvars as u64) as i64) } else { *rng.pick(pool) }
}

/// constraint body over the predicates / nodes that occur in the facts (so that bodies match
/// often): 1..3 atoms; shapes: disjointness (X p Y)(X q Y), chains, constants, repeated
/// variable, variable predicate (rare)
fn gen_body(rng: &mut Rng, preds: &[i64], nodes: &[i64]) -> Vec<Value> {
    let n = match rng.below(10) { 0 => 1, 1..=6 => 2, _ => 3 };
    let nvars = rng.range(2, 3) as i64;
    let mut body = Vec::new();
    for _ in 0..n {
        let s = gen_term(rng, nodes, nvars, 85);
        let p = if rng.chance(1, 12) { -(rng.range(1, nvars as u64) as i64) } else { *rng.pick(preds) };
        let o = gen_term(rng, nodes, nvars, 80);
        body.push(json!([s, p, o]));
    }
    body
}

fn gen_facts(rng: &mut Rng, maxf: u64) -> Vec<Value> {
    let n = rng.range(1, maxf);
    let nn = rng.range(2, 4) as usize;
    let np = rng.range(1, 3) as usize;
    let mut fs: Vec<[i64; 3]> = Vec::new();
    let mut guard = 0;
    while (fs.len() as u64) < n && guard < 200 {
        guard += 1;
        let f = [*rng.pick(&NODES[..nn]), *rng.pick(&PREDS[..np]), *rng.pick(&NODES[..nn])];
        if !fs.contains(&f) {
            fs.push(f);
        }
    }
    fs.iter().map(|f| json!([f[0], f[1], f[2]])).collect()
}

fn gen_goal(rng: &mut Rng) -> Value {
    match rng.below(8) {
        0 | 1 | 2 => json!([-1, -2, -3]),
        3 | 4 => json!([-1, *rng.pick(&PREDS), -2]),
        5 => json!([*rng.pick(&NODES), -1, -2]),
        6 => json!([-1, *rng.pick(&PREDS), -1]),
        _ => json!([-1, *rng.pick(&PREDS), *rng.pick(&NODES)]),
    }
}

fn gen_rule(rng: &mut Rng, fpreds: &[i64]) -> Value {
    // safe positive rule: conclusion variables occur in the premises
    let np = rng.range(1, 2);
    let mut prem = Vec::new();
    let mut vars: Vec<i64> = Vec::new();
    for _ in 0..np {
        let mut a = [0i64; 3];
        for (k, slot) in a.iter_mut().enumerate() {
            *slot = if k == 1 { *rng.pick(fpreds) } else if rng.chance(85, 100) { -(rng.range(1, 3) as i64) } else { *rng.pick(&NODES) };
            if *slot < 0 && !vars.contains(slot) {
                vars.push(*slot);
            }
        }
        prem.push(json!([a[0], a[1], a[2]]));
    }
    let mut c = [0i64; 3];
    for (k, slot) in c.iter_mut().enumerate() {
        *slot = if k == 1 { *rng.pick(&PREDS) } else if !vars.is_empty() && rng.chance(85, 100) { *rng.pick(&vars) } else { *rng.pick(&NODES) };
    }
    json!({"prem": prem, "concl": [[c[0], c[1], c[2]]]})
}

fn gen_cases(seed: u64, n: u64, maxf: u64, reps: u64) -> Vec<Value> {
    let mut rng = Rng::new(seed);
    let mut cases = Vec::new();
    for i in 0..n {
        let facts = gen_facts(&mut rng, maxf);
        let ncons = rng.range(1, 3);
        let mut preds: Vec<i64> = facts.iter().map(|f| f[1].as_i64().unwrap()).collect();
        let mut nodes: Vec<i64> = facts.iter().flat_map(|f| [f[0].as_i64().unwrap(), f[2].as_i64().unwrap()]).collect();
        preds.sort(); preds.dedup(); nodes.sort(); nodes.dedup();
        let rules: Vec<Value> = if i % 4 == 3 { (0..rng.range(1, 3)).map(|_| gen_rule(&mut rng, &preds)).collect() } else { vec![] };
        // constraints may also speak about the predicates the rules conclude
        for r in &rules {
            let cp = r["concl"][0][1].as_i64().unwrap();
            if !preds.contains(&cp) { preds.push(cp); }
        }
        let cons: Vec<Value> = (0..ncons).map(|_| Value::Array(gen_body(&mut rng, &preds, &nodes))).collect();
        if i % 4 == 3 {
            cases.push(json!({"kind":"mat","facts":facts,"cons":cons,"rules":rules,"reps":reps.min(4).max(1)}));
        } else {
            cases.push(json!({"kind":"query","facts":facts,"cons":cons,"goal":gen_goal(&mut rng),"reps":reps}));
        }
    }
    cases
}

pub fn main(a: &Args) {
    let mut out = Out::create(a.req("out"));
    let mut run = 0u64;
    let seed = a.num("seed", 1);
    let cases = if let Some(f) = a.get("cases") { read_cases(f) } else { gen_cases(seed, a.num("random", 100), a.num("maxfacts", 8), a.num("reps", 8)) };
    let mut rng = Rng::new(seed ^ 0x5151);
    for c in &cases {
        run_case(&mut out, &mut run, c, &mut rng);
    }
    out.finish();
}
