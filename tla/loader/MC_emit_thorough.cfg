SPECIFICATION Spec
CONSTANTS
  ChunkSize = 2
  MaxLines = 5
  Alphabet <- Lines
  Priors <- PriorSet
  Formats = {"nt", "n3", "ttl"}
  ReencodeN3 = TRUE
  SharePrefixesN3 = TRUE
  EmitDone = TRUE
INVARIANTS Emit
CHECK_DEADLOCK FALSE
