------------------------------ MODULE SdsTrace ------------------------------
(***************************************************************************)
(* Trace validation for C12.  A trace is a concatenation of runs           *)
(*   reset(case) ; step(k, t, win, inc, naive, panic)*                     *)
(* recorded from the real incremental_sds_plus (state carried from step to *)
(* step by the driver) and naive_sds_plus.  Every step is judged by the    *)
(* requirement SdsReq: TLC computes the alive facts, their least model per *)
(* component and every fact's expiry (threshold characterisation) and      *)
(* compares them with what the code returned.  Preconditions of the        *)
(* property (configuration, rules over annotated predicates, window-       *)
(* consistent history) are evaluated on every run; a run outside them is   *)
(* skipped, never failed.  After a FAIL or a skip the rest of the run is   *)
(* ignored and validation continues with the next run.                     *)
(***************************************************************************)
EXTENDS SdsReq, TLC, Json, IOUtils

Rec == ndJsonDeserialize(IOEnv.TRACE)

VARIABLES l,      \* next trace line
          cfg,    \* configuration of the current run
          prevT,  \* previous evaluation time of the run (-1 before the first)
          prev,   \* previous window contents
          bad     \* rest of the run is ignored
vars == <<l, cfg, prevT, prev, bad>>

ToSet(sq) == {sq[i] : i \in 1..Len(sq)}
Ev == Rec[l]

NoCfg == [run |-> 0, W |-> <<>>, S |-> <<>>, O |-> {}, R |-> {}, hasmodel |-> FALSE, model |-> <<>>]

Init == l = 1 /\ cfg = NoCfg /\ prevT = -1 /\ prev = <<>> /\ bad = FALSE

Reset ==
  /\ Ev.ev = "reset"
  /\ LET c == Ev.case
         W == c.windows
         S == [i \in 1..Len(c.static) |-> [iri |-> c.static[i].iri, triples |-> ToSet(c.static[i].triples)]]
         O == ToSet(c.outputs)
         R == ToSet(c.rules)
         ok == /\ ConfigOK(W, S, O)
               /\ \A i \in 1..Len(c.static) : Len(c.static[i].triples) = Cardinality(S[i].triples)
               /\ RulesOK(R, Comps(W, S, O))
     IN  /\ cfg' = [run |-> Ev.run, W |-> W, S |-> S, O |-> O, R |-> R, hasmodel |-> c.hasmodel, model |-> c.model]
         /\ bad' = ~ok
         /\ IF ok THEN TRUE ELSE PrintT(<<"INFO", Ev.run, "skipped", "configuration-or-rules-out-of-scope">>)
  /\ prevT' = -1
  /\ prev' = [i \in 1..Len(Ev.case.windows) |-> {}]

StepEv ==
  /\ Ev.ev = "step"
  /\ IF bad THEN UNCHANGED <<cfg, prevT, prev, bad>>
     ELSE LET cur  == [i \in 1..Len(cfg.W) |-> ToSet(Ev.win[i])]
              pre  == /\ \A i \in 1..Len(cfg.W) : Len(Ev.win[i]) = Cardinality(cur[i])
                      /\ WindowConsistent(cfg.W, prevT, prev, Ev.t, cur)
              base == Base(cfg.W, cfg.S, cur, Ev.t)
              inc  == ToSet(Ev.inc)
              kind == IF Ev.panic THEN "panic"
                      ELSE Judge(cfg.R, Comps(cfg.W, cfg.S, cfg.O), base, inc, ToSet(Ev.naive))
          IN  IF ~pre
                THEN /\ PrintT(<<"INFO", cfg.run, "skipped", "history-not-window-consistent">>)
                     /\ bad' = TRUE /\ UNCHANGED <<cfg, prevT, prev>>
              ELSE IF kind # "ok"
                THEN /\ PrintT(<<"FAIL", cfg.run, Ev.k, kind>>)
                     /\ bad' = TRUE /\ UNCHANGED <<cfg, prevT, prev>>
              ELSE /\ IF cfg.hasmodel /\ {<<x[2], x[3], x[4], x[5]>> : x \in inc} # ToSet(cfg.model[Ev.k])
                        THEN PrintT(<<"MODELDIFF", cfg.run, Ev.k>>) ELSE TRUE
                   /\ prevT' = Ev.t /\ prev' = cur /\ UNCHANGED <<cfg, bad>>

Next == /\ l <= Len(Rec)
        /\ l' = l + 1
        /\ (Reset \/ StepEv)

Spec == Init /\ [][Next]_vars

Consumed == IF TLCGet("stats").diameter - 1 = Len(Rec) THEN TRUE
            ELSE PrintT(<<"STUCK", TLCGet("stats").diameter, Len(Rec)>>) /\ FALSE
=============================================================================
