------------------------------ MODULE MultiImpl ------------------------------
(***************************************************************************)
(* Code-shaped model of a continuous query over two windows in MultiThread *)
(* mode (rsp_engine.rs): one worker per window fed through a FIFO channel, *)
(* ONE R2R store shared by all windows, a coordinator thread that collects *)
(* WindowResults through a channel and joins the latest result of every    *)
(* window under the synchronisation policy (Steal / Wait / Timeout with    *)
(* fallback steal or drop; the timer is a silent action).                  *)
(*                                                                         *)
(* The store mutex spans evict .. query, so one window firing is one       *)
(* action.  SharedEvict = TRUE is the repaired processor: the list of raw  *)
(* items loaded by the previous firing is shared by all windows.  With     *)
(* FALSE (historic) each window only evicts its own previous items and a   *)
(* block sees the other window's latest items.                             *)
(*                                                                         *)
(* Requirement (C11): every emitted solution, restricted to the variables  *)
(* of a WINDOW block, is an answer of that block over a content this very  *)
(* window reported.                                                        *)
(***************************************************************************)
EXTENDS Rsp

CONSTANTS Wins,          \* the two window names
          Items,         \* Items[w]: set of triples that can arrive on w's stream
          Block,         \* Block[w]: the window's basic graph pattern
          MaxFire,       \* contents fed per window
          Policies,      \* subset of {"steal", "wait", "timeout-steal", "timeout-drop"}
          SharedEvict

VARIABLES policy, fedN, chan, store, loadedShared, loadedOwn, res, lastMat, have, cycle, reported, emitted
vars == <<policy, fedN, chan, store, loadedShared, loadedOwn, res, lastMat, have, cycle, reported, emitted>>

BlockVars(w) == UNION {TPVars(Block[w][i]) : i \in 1..Len(Block[w])}

Init == /\ policy \in Policies
        /\ fedN = [w \in Wins |-> 0] /\ chan = [w \in Wins |-> <<>>]
        /\ store = {} /\ loadedShared = {} /\ loadedOwn = [w \in Wins |-> {}]
        /\ res = <<>> /\ lastMat = [w \in Wins |-> {}] /\ have = [w \in Wins |-> FALSE] /\ cycle = {}
        /\ reported = [w \in Wins |-> {}] /\ emitted = {}

\* the stream side: a window reports a content (any subset of what can arrive on its stream)
Feed(w, K) == /\ fedN[w] < MaxFire
              /\ fedN' = [fedN EXCEPT ![w] = @ + 1] /\ chan' = [chan EXCEPT ![w] = Append(@, K)]
              /\ UNCHANGED <<policy, store, loadedShared, loadedOwn, res, lastMat, have, cycle, reported, emitted>>

\* one firing processed by window w's worker while it holds the store lock
Process(w) ==
  /\ chan[w] # <<>>
  /\ LET K == Head(chan[w])
         evicted == IF SharedEvict THEN store \ loadedShared ELSE store \ loadedOwn[w]
         st == evicted \cup K
         rows == DOMAIN EvalBgp(Block[w], Len(Block[w]), st)
     IN  /\ store' = st
         /\ loadedShared' = K /\ loadedOwn' = [loadedOwn EXCEPT ![w] = K]
         /\ res' = Append(res, [win |-> w, rows |-> rows])
         /\ reported' = [reported EXCEPT ![w] = @ \cup {K}]
  /\ chan' = [chan EXCEPT ![w] = Tail(@)]
  /\ UNCHANGED <<policy, fedN, lastMat, have, cycle, emitted>>

\* natural join of the latest results of all windows
RECURSIVE JoinAll(_, _)
JoinAll(ws, lm) ==
  IF ws = {} THEN {EmptyMap}
  ELSE LET w == CHOOSE x \in ws : TRUE
           rest == JoinAll(ws \ {w}, lm)
       IN  {Merge(a, b) : a \in {x \in lm[w] : TRUE}, b \in rest} \cap
           {Merge(p[1], p[2]) : p \in {q \in lm[w] \X rest : Compatible(q[1], q[2])}}
Complete(hv) == \A w \in Wins : hv[w]
EmitNow(lm) == emitted \cup JoinAll(Wins, lm)

\* the coordinator receives one result and drains any number of further pending ones (try_recv loop)
CoordRecv(n) ==
  /\ n \in 1..Len(res)
  /\ LET taken == SubSeq(res, 1, n)
         lm == [w \in Wins |-> LET idx == {i \in 1..n : taken[i].win = w} IN
                                 IF idx = {} THEN lastMat[w] ELSE taken[CHOOSE i \in idx : \A j \in idx : j <= i].rows]
         cyc == cycle \cup {taken[i].win : i \in 1..n}
         hv == [w \in Wins |-> have[w] \/ \E i \in 1..n : taken[i].win = w]
     IN  /\ res' = SubSeq(res, n + 1, Len(res))
         /\ lastMat' = lm /\ have' = hv
         /\ IF cyc = Wins
              THEN emitted' = EmitNow(lm) /\ cycle' = {}
              ELSE IF policy = "steal"
                     THEN /\ emitted' = (IF Complete(hv) THEN EmitNow(lm) ELSE emitted)
                          /\ cycle' = {}
                     ELSE emitted' = emitted /\ cycle' = cyc
  /\ UNCHANGED <<policy, fedN, chan, store, loadedShared, loadedOwn, reported>>

\* the deadline of the current cycle elapses (silent)
Timeout ==
  /\ policy \in {"timeout-steal", "timeout-drop"} /\ cycle # {}
  /\ emitted' = (IF policy = "timeout-steal" /\ Complete(have) THEN EmitNow(lastMat) ELSE emitted)
  /\ cycle' = {}
  /\ UNCHANGED <<policy, fedN, chan, store, loadedShared, loadedOwn, res, lastMat, have, reported>>

Next == \/ \E w \in Wins : \E K \in SUBSET Items[w] : Feed(w, K)
        \/ \E w \in Wins : Process(w)
        \/ \E n \in 1..2 : CoordRecv(n)
        \/ Timeout
Spec == Init /\ [][Next]_vars

---------------------------------------------------------------------------
OwnAnswers(w) == UNION {DOMAIN EvalBgp(Block[w], Len(Block[w]), K) : K \in reported[w]}
BlockAnswersFromOwnWindow ==
  \A m \in emitted : \A w \in Wins : RestrictTo(m, BlockVars(w)) \in OwnAnswers(w)

=============================================================================
