---------------------------- MODULE BoolFunImpl ----------------------------
(***************************************************************************)
(* L1 sanity model for C07 (DESIGN.md section 5): the parts of SddManager  *)
(* whose DESIGN can break the requirement, with node contents abstracted   *)
(* to their meaning:                                                       *)
(*   unique table    Lookup(D): the handle already denoting D, else the    *)
(*                   next free one (handles are numbered in order of first *)
(*                   appearance, as the recording harness numbers them)    *)
(*   apply_cache     acache : <<op, min, max>> -> handle                   *)
(*   negate_cache    ncache : handle -> handle                             *)
(*                   both filled only after the operation succeeded        *)
(*   vtree growth    NewVar between operations: every stored meaning gets  *)
(*                   a don't-care bit; cache entries made before the       *)
(*                   variable existed are still used afterwards            *)
(*   budgets         every operation may end "deadline"/"nodes" at any     *)
(*                   call (the point inside the operation is abstracted)   *)
(* Checked: every step is a step of BoolFun (Refines), den stays injective,*)
(* constants fixed, caches stay sound across variable introduction,        *)
(* exhaustion leaves den unchanged, and the laws that tie Wmc/Grad/Models  *)
(* of BoolFun.tla to each other (so an error in the oracle definitions is  *)
(* found here, not in the binding).  FillCacheOnFailure = TRUE is the      *)
(* negative control ("cache filled before success").                       *)
(***************************************************************************)
EXTENDS BoolFun

CONSTANTS VarIds, PosW, Kinds, MaxOps, MaxHandles, FillCacheOnFailure

VARIABLES acache, ncache, n, last, pden

ivars == <<vars, den, acache, ncache, n, last, pden>>

Fresh     == Cardinality(Handles)
Lookup(D) == IF Known(D) THEN CHOOSE k \in Handles : den[k] = D ELSE Fresh
Alloc(h, D) == den' = IF h \in Handles THEN den ELSE (h :> D) @@ den
Key(op, x, y) == IF x <= y THEN <<op, x, y>> ELSE <<op, y, x>>
Outs == {"ok", "deadline", "nodes"}

IInit == Init /\ acache = <<>> /\ ncache = <<>> /\ n = 0 /\ last = "ok" /\ pden = den

INewVar(v, p, k) ==
  /\ NewVar(v, p, IF k = 0 THEN Scale - p ELSE Scale, k)
  /\ UNCHANGED <<acache, ncache>>

ILit(v, b, out) ==
  IF out = "ok"
    THEN Alloc(Lookup(LitDen(v, b)), LitDen(v, b)) /\ UNCHANGED <<vars, acache, ncache>>
    ELSE UNCHANGED <<vars, den, acache, ncache>>

IApply(op, x, y, out) ==
  LET key == Key(op, x, y)
      D   == ApplyDen(op, x, y)
      h   == IF key \in DOMAIN acache THEN acache[key] ELSE Lookup(D)
  IN  IF out = "ok"
        THEN Alloc(h, D) /\ acache' = (key :> h) @@ acache /\ UNCHANGED <<vars, ncache>>
        ELSE /\ UNCHANGED <<vars, den, ncache>>
             /\ acache' = IF FillCacheOnFailure /\ key \notin DOMAIN acache
                            THEN (key :> x) @@ acache ELSE acache

INeg(x, out) ==
  LET D == NegDen(x)
      h == IF x \in DOMAIN ncache THEN ncache[x] ELSE Lookup(D)
  IN  IF out = "ok"
        THEN Alloc(h, D) /\ ncache' = (x :> h) @@ ncache /\ UNCHANGED <<vars, acache>>
        ELSE UNCHANGED <<vars, den, acache, ncache>>

IXOne(S, out) ==
  IF out = "ok"
    THEN Alloc(Lookup(XOneDen(S)), XOneDen(S)) /\ UNCHANGED <<vars, acache, ncache>>
    ELSE UNCHANGED <<vars, den, acache, ncache>>

Tick == n < MaxOps /\ n' = n + 1 /\ pden' = den
ANewVar == Tick /\ last' = "ok" /\ \E v \in VarIds, p \in PosW, k \in Kinds : INewVar(v, p, k)
ALit    == Tick /\ \E out \in Outs : last' = out /\ \E v \in Reg, b \in {0, 1} : ILit(v, b, out)
AApply  == Tick /\ \E out \in Outs : last' = out /\ \E op \in {"and", "or"}, x \in Handles, y \in Handles : IApply(op, x, y, out)
ANeg    == Tick /\ \E out \in Outs : last' = out /\ \E x \in Handles : INeg(x, out)
AXOne   == Tick /\ \E out \in Outs : last' = out /\ \E S \in (SUBSET Reg) \ {{}} : IXOne(S, out)
INext == ANewVar \/ ALit \/ AApply \/ ANeg \/ AXOne

ISpec == IInit /\ [][INext]_ivars

Bound == Cardinality(Handles) <= MaxHandles

(* ---------------------------- refinement ---------------------------- *)
ReqNext ==
  \/ \E v \in VarIds, p \in 0..Scale, q \in 0..Scale, k \in Kinds : NewVar(v, p, q, k)
  \/ \E h \in 0..(MaxHandles + 1) :
       \/ \E v \in Reg, b \in {0, 1} : Literal(v, b, h)
       \/ \E op \in {"and", "or"}, x \in Handles, y \in Handles : Apply(op, x, y, h)
       \/ \E x \in Handles : Negate(x, h)
       \/ \E S \in (SUBSET Reg) \ {{}} : ExactlyOne(S, h)
Refines == [][ReqNext]_<<vars, den>>

(* ---------------------------- invariants ---------------------------- *)
CacheSound ==
  /\ \A key \in DOMAIN acache : acache[key] \in Handles /\ den[acache[key]] = ApplyDen(key[1], key[2], key[3])
  /\ \A x \in DOMAIN ncache : ncache[x] \in Handles /\ den[ncache[x]] = NegDen(x)

ExhaustionPreserves == last # "ok" => den = pden

\* laws between the oracle definitions
WmcComplement ==
  WmcMeaningful(Full) => \A h \in Handles : Wmc(den[h]) + Wmc(NegDen(h)) = Wmc(Full)

\* Wmc is multilinear: moving one weight by one unit changes it by Grad
GradIsDerivative ==
  \A i \in DOMAIN vars : vars[i].pos < Scale =>
     LET v  == vars[i].id
         w2 == [vars EXCEPT ![i] = [@ EXCEPT !.pos = @ + 1,
                                               !.neg = IF vars[i].kind = 0 THEN @ - 1 ELSE @]]
         B2 == INSTANCE BoolFun WITH vars <- w2
     IN  (vars[i].kind # 0 \/ vars[i].neg > 0) =>
            \A h \in Handles : B2!Wmc(den[h]) - Wmc(den[h]) = Grad(den[h], v)

\* the total models of a denotation, listed one by one, describe it; a model list with one
\* model dropped or doubled does not
RECURSIVE SeqOf(_)
SeqOf(S) == IF S = {} THEN <<>> ELSE LET x == CHOOSE y \in S : TRUE IN <<x>> \o SeqOf(S \ {x})
TotalModel(a) == SeqOf({<<v, Bit(a, v)>> : v \in Reg})
ModelsLaw ==
  \A h \in Handles :
     LET ms == SeqOf({TotalModel(a) : a \in den[h]})
     IN  /\ Models(ms, den[h])
         /\ ms # <<>> => ~Models(Tail(ms), den[h]) /\ ~Models(<<ms[1]>> \o ms, den[h])
         /\ Models(IF den[h] = Full THEN << <<>> >> ELSE ms, den[h])
=============================================================================
