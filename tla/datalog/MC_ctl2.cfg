SPECIFICATION Spec
CONSTANTS
  Consts = {"a"}
  NVars = 2
  Preds = {"p"}
  PVars = {}
  MaxPrem = 2
  MaxConcl = 1
  MaxRules = 1
  NegAtoms = 0
  WithFilters = FALSE
  FConsts = {"a", "b"}
  FPreds = {"p"}
  MaxFacts = 4
  Permute = FALSE
  Mode = "nodelta-bug"
  Runs = 1
INVARIANTS ReachesModel
CHECK_DEADLOCK FALSE
