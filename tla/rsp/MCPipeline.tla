---- MODULE MCPipeline ----
EXTENDS Pipeline, Json
T(s, p, o) == <<s, p, o>>
U3 == {T("a","p","o"), T("a","q","o"), T("b","p","o")}
U4 == U3 \cup {T("b","q","o")}
Vx == <<"v","x">>
Vy == <<"v","y">>
RulesPQ == << [prem |-> << <<Vx, <<"c","p">>, Vy>> >>, concl |-> << <<Vx, <<"c","q">>, Vy>> >>] >>
QueryQ == << <<Vx, <<"c","q">>, Vy>> >>
AllOps == {"RSTREAM", "ISTREAM", "DSTREAM"}
RulesChain == << [prem |-> << <<Vx, <<"c","p">>, Vy>> >>, concl |-> << <<Vx, <<"c","q">>, Vy>> >>],
                 [prem |-> << <<Vx, <<"c","q">>, Vy>> >>, concl |-> << <<Vy, <<"c","q">>, Vx>> >>] >>
RECURSIVE AsSeq(_)
AsSeq(S) == IF S = {} THEN <<>> ELSE LET x == CHOOSE y \in S : TRUE IN <<x>> \o AsSeq(S \ {x})
\* L2: one line per completely processed sequence of window contents with the emissions the model predicts (the
\* interleavings of feeder and worker all end in the same emissions - that is the invariant)
Emit == (Len(fed) = MaxFirings /\ pc = "idle" /\ chan = <<>> /\ Len(emitted) = MaxFirings) =>
          PrintT(<<"REPLAY", ToJson([op |-> op, fed |-> [k \in 1..Len(fed) |-> AsSeq(fed[k])],
                     emitted |-> [k \in 1..Len(emitted) |-> AsSeq({[row |-> m, n |-> emitted[k][m]] : m \in DOMAIN emitted[k]})]])>>)
====
