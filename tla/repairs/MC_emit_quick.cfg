SPECIFICATION ESpec
CONSTANTS
  Nodes = {1,2}
  Preds = {11,12}
  MaxFacts = 4
  ConSets <- MCConSets
  FinalFilter = TRUE
INVARIANTS Emit
CHECK_DEADLOCK FALSE
