"""C12 - incremental cross-window reasoning equals recomputation from scratch.

L1  tla/sds/SdsImpl.tla (code-shaped incremental_sds_plus: d_old / d_new split, seeded tags,
    semi-naive rounds with improved-tag re-triggering, regrouping per component) is driven
    through every window-consistent history of a small universe and checked in every reachable
    state against tla/sds/SdsReq.tla: FactsEqualNaive, ExpiryIsMaxMin, DefinitionsAgree
    (threshold characterisation of the expiry = (max,min) fixpoint), GenConsistent.
    Two deliberately wrong variants (renewals ignored, min over derivations) must violate
    ExpiryIsMaxMin (non-vacuity).
L2  every maximal history of a smaller instance is printed by TLC with the model's prediction,
    replayed through the real incremental_sds_plus (carrying the returned state) and
    naive_sds_plus; the recording is validated by SdsTrace.tla (requirement) and compared with
    the prediction (MODELDIFF).
L3  seeded random longer histories (<= 30 evaluations, <= 4 windows, nested component IRIs,
    <= 12 stream triples, <= 5 rules, recursion, several conclusions) recorded from the real
    code and validated by SdsTrace.tla: TLC computes Alive, Mat per component and Exp.
"""
import concurrent.futures
import json
import os
import time
import vlib
from vlib import log

FAMILY = "sds"
PROP = "C12"


def is_prefix(a, b):
    return len(a) < len(b) and b[:len(a)] == a


def sig_for(case, k, kind):
    """site | trigger class | symptom.  Classification only; the verdict is TLC's."""
    site = "naive_sds_plus" if kind.startswith("naive") else "incremental_sds_plus"
    comps = [w["iri"] for w in case["windows"]] + [g["iri"] for g in case["static"]] + list(case["outputs"])
    nested = any(is_prefix(a, b) for a in comps for b in comps)
    if site == "naive_sds_plus":
        trig = "nested-iris" if nested else "flat-iris"
    else:
        trig = ("first-evaluation" if k == 1 else "carried-state") + ("|nested-iris" if nested and "component" in kind else "")
    return f"{site}|{trig}|{kind}"


def validate(trace_path, verdict, tag, jobs=1):
    """Validate a recording with SdsTrace.tla (split over `jobs` JVMs).  Returns (runs, failed, drift, skipped, states, wall)."""
    events = vlib.read_ndjson(trace_path)
    runs = vlib.split_runs(events)
    ids = sorted(runs)
    jobs = max(1, min(jobs, len(ids)))
    parts = []
    for j in range(jobs):
        sel = ids[j::jobs]
        if not sel:
            continue
        path = f"{trace_path}.part{j}"
        vlib.write_ndjson(path, [e for r in sel for e in runs[r]])
        parts.append((j, path))
    t0 = time.time()

    def one(p):
        j, path = p
        return vlib.tlc_trace(FAMILY, "SdsTrace.tla", "SdsTrace.cfg", path, tag=f"c12-{tag}-{j}", heap="3g")

    with concurrent.futures.ThreadPoolExecutor(max_workers=jobs) as ex:
        results = list(ex.map(one, parts))
    for _, path in parts:
        os.remove(path)
    failed, drift, skipped, states = {}, set(), {}, 0
    for res in results:
        states += res["states"]
        for f in res["fail"]:
            failed.setdefault(f[0], f)
        for d in res["modeldiff"]:
            drift.add(d[0])
        for i in res["info"]:
            if len(i) >= 2 and i[1] == "skipped":
                skipped[i[0]] = i[2] if len(i) > 2 else ""
    for rid, f in sorted(failed.items()):
        ev = runs[rid]
        case = ev[0]["case"]
        k, kind = f[1], f[2]
        observed = [e for e in ev[1:] if e["k"] <= k]
        verdict.violation(sig_for(case, k, kind),
                          {"driver": "c12", "case": dict(case, steps=case["steps"][:k], model=case["model"][:k]),
                           "failing_step": k, "kind": kind, "observed": observed[-2:]},
                          detail=f"run {rid} step {k}")
    return runs, failed, drift - set(failed), skipped, states, time.time() - t0


def base_facts(case, ev):
    s = set()
    for g in case["static"]:
        for t in g["triples"]:
            s.add(json.dumps([t[0], g["iri"] + t[1], t[2]]))
    for i, w in enumerate(case["windows"]):
        for x in ev["win"][i]:
            s.add(json.dumps([x[0], w["iri"] + x[1], x[2]]))
    return s


def nontrivial(ev):
    """A run exercises the property's mechanism when, at an evaluation that carries state (k >= 2),
    the returned materialisation holds a fact that is not a listed base fact (a derived fact)."""
    case = ev[0]["case"]
    for e in ev[1:]:
        if e["k"] >= 2 and e["inc"]:
            b = base_facts(case, e)
            if any(json.dumps([r[1], r[2], r[3]]) not in b for r in e["inc"]):
                return True
    return False


def run(ctx):
    t0 = time.time()
    verdict = vlib.Verdict(PROP, ctx.seed, ctx.tier)
    wd = vlib.workdir("c12")
    if ctx.replay:
        case = json.load(open(ctx.replay))["case"]["case"]
        vlib.write_ndjson(os.path.join(wd, "cases.ndjson"), [case])
        vlib.kverif(["c12", "--cases", os.path.join(wd, "cases.ndjson"), "--out", os.path.join(wd, "replay.ndjson")])
        _, failed, _, skipped, _, _ = validate(os.path.join(wd, "replay.ndjson"), verdict, "replay")
        if skipped:
            log(f"replay case is outside the property's precondition: {skipped}")
        return verdict.finish()

    thorough = ctx.tier == "thorough"
    l1cfgs = ["MC_thorough.cfg", "MC_thorough2.cfg"] if thorough else ["MC_quick.cfg"]
    negcfgs = ["MC_neg_renewal.cfg", "MC_neg_min.cfg"]
    jobs = 8 if thorough else 4

    def l3():
        n3 = 6000 if thorough else 300
        vlib.kverif(["c12", "--random", n3, "--seed", ctx.seed, "--maxsteps", 30, "--out", os.path.join(wd, "l3.ndjson")])
        return validate(os.path.join(wd, "l3.ndjson"), verdict, "l3", jobs=jobs)

    # the TLC runs of L1 (model check, negative controls), the L2 emission and L3 are independent: run them side by side
    with concurrent.futures.ThreadPoolExecutor(max_workers=8) as ex:
        f_l1 = [ex.submit(vlib.tlc_mc, FAMILY, "MCSds.tla", cfg, workers=8 if thorough else 6, timeout=3000, tag="c12-" + cfg) for cfg in l1cfgs]
        f_emit = ex.submit(vlib.tlc_emit, FAMILY, "MCSds.tla", "MC_emit_thorough.cfg" if thorough else "MC_emit_quick.cfg",
                           workers=6, timeout=3000, tag="c12-emit")
        f_neg = [ex.submit(vlib.tlc_mc, FAMILY, "MCSds.tla", cfg, workers=2, coverage=False, tag="c12-" + cfg) for cfg in negcfgs]
        f_l3 = None if thorough else ex.submit(l3)
        # ------------------------------------------------------------ L1
        l1 = []
        for cfg, f in zip(l1cfgs, f_l1):
            mc = f.result()
            log(f"L1 SdsImpl => SdsReq [{cfg}]: {mc['states']} distinct states, {mc['generated']} transitions, "
                f"violated={mc['violated']} ({mc['wall']:.0f}s)")
            if mc["uncovered"]:
                raise vlib.ToolError(f"vacuity: actions never taken in L1: {mc['uncovered']}")
            l1.append(mc)
        for cfg, f in zip(negcfgs, f_neg):
            if f.result()["violated"] != "ExpiryIsMaxMin":
                raise vlib.ToolError(f"non-vacuity check failed: wrong variant {cfg} no longer violates ExpiryIsMaxMin")
        l1_violated = [m["violated"] for m in l1 if m["violated"]]
        # ------------------------------------------------------------ L2
        behaviours, st = f_emit.result()
        if not behaviours:
            raise vlib.ToolError("L2: TLC emitted no behaviour")
        vlib.write_ndjson(os.path.join(wd, "l2cases.ndjson"), behaviours)
        vlib.kverif(["c12", "--cases", os.path.join(wd, "l2cases.ndjson"), "--out", os.path.join(wd, "l2.ndjson")])
        runs2, failed2, drift2, skipped2, states2, wall2 = validate(os.path.join(wd, "l2.ndjson"), verdict, "l2", jobs=jobs)
        steps2 = sum(len(r) - 1 for r in runs2.values())
        log(f"L2 replayed {len(behaviours)} TLC histories ({steps2} evaluations, emit {st['wall']:.0f}s, validate {wall2:.0f}s): "
            f"{len(failed2)} rejected, {len(drift2)} differ from the code-shaped model only, {len(skipped2)} skipped")
        if skipped2:
            raise vlib.ToolError(f"L2: {len(skipped2)} TLC-generated histories are outside the precondition (generator/predicate disagree)")
        # ------------------------------------------------------------ L3
        runs3, failed3, _, skipped3, states3, wall3 = f_l3.result() if f_l3 else l3()
    steps3 = sum(len(r) - 1 for r in runs3.values())
    log(f"L3 validated {len(runs3)} random histories ({steps3} evaluations, {wall3:.0f}s): {len(failed3)} rejected, {len(skipped3)} skipped")
    if len(skipped3) * 10 > len(runs3):
        raise vlib.ToolError(f"L3: {len(skipped3)} of {len(runs3)} generated histories are outside the precondition")

    if l1_violated and not (failed2 or failed3):
        raise vlib.ToolError(f"L1 {l1_violated} violated in the model but not reproduced on the code: model out of date")
    if drift2 and not verdict.violations:
        log(f"MODEL-DRIFT: {len(drift2)} histories where the code differs from SdsImpl.tla while the requirement holds "
            f"(update the code-shaped model); not a verdict")

    rc = verdict.finish()
    allruns = [ev for rid, ev in runs2.items() if rid not in skipped2] + [ev for rid, ev in runs3.items() if rid not in skipped3]
    distinct = {vlib.case_hash(ev[0]["case"]) for ev in allruns if nontrivial(ev)}
    s3 = runs3[sorted(runs3)[0]]
    s2 = runs2[sorted(runs2)[len(runs2) // 2]]
    cov = {
        "states": sum(m["states"] for m in l1), "transitions": sum(m["generated"] for m in l1),
        "traces_validated_against_impl": len(allruns),
        "samples": [{"random_history": {k: s3[0]["case"][k] for k in ("windows", "static", "outputs", "rules")},
                     "first_evaluations": [{k: e[k] for k in ("k", "t", "win", "inc", "naive")} for e in s3[1:4]]},
                    {"tlc_history": {k: s2[0]["case"][k] for k in ("windows", "steps", "model")},
                     "observed": [{k: e[k] for k in ("k", "t", "inc")} for e in s2[1:]]}],
        "evaluations": steps2 + steps3, "distinct_nontrivial": len(distinct),
        "rule": "one evaluation = one call of incremental_sds_plus (state carried from the previous call) and naive_sds_plus at an "
                "evaluation time, both judged by TLC against Mat/Exp. L2: every maximal history of the emit instance; L3: seeded random "
                "window-consistent histories. distinct_nontrivial counts distinct histories (hash of the case) in which an evaluation "
                "with carried state (k >= 2) returned at least one derived (non-base) fact.",
        "exhaustive": True,
        "l1_configs": l1cfgs,
        "l1_negative_controls": ["renewals-ignored violates ExpiryIsMaxMin", "min-over-derivations violates ExpiryIsMaxMin"],
        "l2_histories": len(behaviours), "l2_evaluations": steps2, "l3_histories": len(runs3), "l3_evaluations": steps3,
        "skipped_outside_precondition": len(skipped2) + len(skipped3), "model_drift": len(drift2),
        "trace_states": states2 + states3,
    }
    vlib.write_evidence(PROP, ctx.tier, ctx.seed, "model_checking", cov,
                        ["precondition (TLA+ predicates ConfigOK, RulesOK, WindowConsistent, evaluated on every run): distinct component IRIs, "
                         "one-segment local names, safe positive rules with constant component-annotated predicates, each window lists a triple "
                         "once with a non-decreasing arrival and keeps it listed until it expires, strictly increasing evaluation times, "
                         "static graphs and rules constant during a history",
                         "L1 exhaustive only within the cfg constants (2 windows, 1 static graph, 2 nested outputs, 3 stream triples, 4 programs); "
                         "beyond them evidence is trace validation of sampled histories",
                         "the RSPEngine wrapper (CrossWindowReasoningMode) is not driven; incremental_sds_plus / naive_sds_plus are called directly",
                         "trusted: TLC, Json module, recording harness harness/src/c12.rs (segment <-> string conversion, u64::MAX -> 1000000)"],
                        time.time() - t0, len(verdict.violations))
    return rc
