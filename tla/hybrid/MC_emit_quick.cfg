SPECIFICATION Spec
CONSTANTS
  N = 3
  Den = 4
  EmitWeights <- EmitWeightsQuick
  Grid <- GridQuick
INVARIANTS Emit
CHECK_DEADLOCK FALSE
