SPECIFICATION Spec
CONSTANTS
  MaxTs = 11
  MaxLen = 7
  Widths = {1,2,3,4,5,6}
  Slides = {1,2,3,4}
  Strategies <- StratDefault
  FixEvict = TRUE
INVARIANTS ContentExact StrategyPost Monotone ExactlyOnce UniqueKeys FlushExact
CHECK_DEADLOCK FALSE
