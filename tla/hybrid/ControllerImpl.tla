--------------------------- MODULE ControllerImpl ---------------------------
(***************************************************************************)
(* Code-shaped model of the escalation controller                           *)
(* (shared/src/hybrid.rs: evaluate_hybrid_controlled) against HybridReq.    *)
(*                                                                          *)
(* Lineage: a DNF over N independent seeds given by its set of proofs `pr`  *)
(* (monotone, subsumed and duplicate-free proofs allowed), optionally       *)
(* negated at the root (`neg`: not supported by top-k, goes straight to     *)
(* exact compilation - stands for every unsupported lineage).               *)
(*                                                                          *)
(* One action per clock-reading section of the code:                        *)
(*   Start         metadata, topk_start, deadline                           *)
(*   TopKRound     enumerate_proofs(k+1): abstracted to ANY antichain of    *)
(*                 proofs of size <= k+1 - fewer than k+1 only if it covers *)
(*                 all proofs (frontier exhausted) - with a residual that   *)
(*                 is >= the true mass of the uncovered proofs; Unknown if  *)
(*                 the clock has expired                                    *)
(*   Certify       retained_proof_wmc (exact count of the retained proofs), *)
(*                 interval_from_enumeration, the three certificates        *)
(*   Grow / GiveUp adaptive k (band / marginal gain are irrelevant for      *)
(*                 soundness: nondeterministic)                             *)
(*   CompileExact  exact fallback under its own fresh deadline / node budget*)
(*   ClockExpires  enabled wherever the code reads the clock                *)
(* Bug = "none" is the code; the other values are negative controls.        *)
(***************************************************************************)
EXTENDS HybridReq, TLC

CONSTANTS N,          \* number of seeds
          Den,        \* weight denominator
          Weights,    \* set of weight vectors (sequences of length N over 0..Den)
          Thetas,     \* threshold numerators (threshold = tn / Den)
          KSched,     \* set of <<k_initial, k_max, k_growth>>
          Bug         \* "none" | "noprobe" | "guess"

VARIABLES par,      \* [pr, neg, w, tn, kinit, kmax, growth] - fixed for the run
          pc, k,
          lower,    \* certified lower bound of the last completed round (-1: none)
          ivl,      \* interval of the last completed round (<<-1,-1>>: none)
          late,     \* the clock has passed the deadline of the current phase
          everLate, \* some reading expired in this run
          snap,     \* <<lower, ivl>> when the top-k deadline expired
          result
vars == <<par, pc, k, lower, ivl, late, everLate, snap, result>>

SeedSet == 1..N
Proofs  == SUBSET SeedSet

CaseOf(Q, ng, w) == DnfCase(Q, ng, w, N, Den)

TheCase == CaseOf(par.pr, par.neg, par.w)
P == TrueP(TheCase)
S == Scale(TheCase)
Mass(Q) == DnfMass(Q, par.w, N, Den)          \* exact probability of the disjunction of the proofs Q

Antichain(E) == \A a, b \in E : a \subseteq b => a = b
Covered(E)   == {p \in par.pr : \E e \in E : e \subseteq p}
Rest(E)      == par.pr \ Covered(E)

None == <<-1, -1>>
NoSnap == <<-2, None>>
NoResult == [kind |-> "none", haslo |-> FALSE, lo |-> 0, hashi |-> FALSE, hi |-> 0, decision |-> "Indeterminate"]
Decide(x) == IF x * Den >= par.tn * S THEN "Alert" ELSE "NoAlert"

Init ==
  /\ par \in [pr : SUBSET Proofs, neg : BOOLEAN, w : Weights, tn : Thetas, ks : KSched]
  /\ pc = "start" /\ k = 0 /\ lower = -1 /\ ivl = None
  /\ late = FALSE /\ everLate = FALSE /\ snap = NoSnap /\ result = NoResult

\* a reading of the injectable clock returns a time past the current deadline
ClockExpires ==
  /\ pc \in {"topk", "grow", "sdd"} /\ ~late
  /\ late' = TRUE /\ everLate' = TRUE
  /\ snap' = IF pc \in {"topk", "grow"} THEN <<lower, ivl>> ELSE snap
  /\ UNCHANGED <<par, pc, k, lower, ivl, result>>

Start ==
  /\ pc = "start"
  /\ IF par.neg THEN pc' = "sdd" /\ k' = 0          \* unsupported by top-k
     ELSE pc' = "topk" /\ k' = par.ks[1]
  /\ UNCHANGED <<par, lower, ivl, late, everLate, snap, result>>

Finish(r) == pc' = "done" /\ result' = r /\ UNCHANGED <<par, k, late, everLate, snap>>

\* one iteration of the loop body up to the certificates
TopKRound ==
  /\ pc = "topk"
  /\ IF late /\ Bug # "guess"
     THEN \* residual Unknown, or the retained count ran out of time: nothing is published
          /\ pc' = "sdd" /\ late' = FALSE
          /\ UNCHANGED <<par, k, lower, ivl, everLate, snap, result>>
     ELSE \E E \in SUBSET par.pr :
          /\ Antichain(E) /\ Cardinality(E) <= k + 1
          /\ (Cardinality(E) <= k /\ ~(late /\ Bug = "guess")) => Rest(E) = {}
          /\ \E probe \in (IF Cardinality(E) = k + 1 THEN E ELSE {{}}) :
             LET capHit    == Cardinality(E) = k + 1
                 retained  == IF capHit THEN E \ {probe} ELSE E
                 exhausted == ~capHit
                 lo        == Mass(retained)
                 probeMass == IF capHit /\ Bug # "noprobe" THEN Mass({probe}) ELSE 0
             IN  \E res \in (IF capHit THEN {Mass(Rest(E)), S} ELSE {0}) :
                 LET raw == lo + probeMass + res
                     hi  == IF raw > S THEN S ELSE raw
                 IN  /\ lower' = lo /\ ivl' = <<lo, hi>>
                     /\ IF exhausted
                        THEN Finish([kind |-> "Exact", haslo |-> TRUE, lo |-> lo, hashi |-> TRUE, hi |-> lo, decision |-> Decide(lo)])
                        ELSE IF lo * Den >= par.tn * S
                        THEN Finish([kind |-> "Bounded", haslo |-> TRUE, lo |-> lo, hashi |-> TRUE, hi |-> hi, decision |-> "Alert"])
                        ELSE IF hi * Den < par.tn * S
                        THEN Finish([kind |-> "Bounded", haslo |-> TRUE, lo |-> lo, hashi |-> TRUE, hi |-> hi, decision |-> "NoAlert"])
                        ELSE pc' = "grow" /\ UNCHANGED <<par, k, late, everLate, snap, result>>

\* `if k >= k_max || (!near && !climbing) || clock.now() >= deadline { break }`
Grow ==
  /\ pc = "grow"
  /\ \/ /\ k < par.ks[2] /\ ~late
        /\ k' = IF k * par.ks[3] > par.ks[2] THEN par.ks[2] ELSE k * par.ks[3]
        /\ pc' = "topk"
        /\ UNCHANGED late
     \/ /\ pc' = "sdd" /\ late' = FALSE /\ UNCHANGED k           \* give up: exact fallback with a fresh deadline
  /\ UNCHANGED <<par, lower, ivl, everLate, snap, result>>

CompileExact ==
  /\ pc = "sdd"
  /\ \/ /\ ~late \* compiled within the budgets
        /\ Finish([kind |-> "Exact", haslo |-> TRUE, lo |-> P, hashi |-> TRUE, hi |-> P, decision |-> Decide(P)])
     \/ \* deadline (late) or node budget (any time): flagged, bounds of the last completed round only
        Finish([kind |-> "NeedsExact", haslo |-> (ivl # None \/ lower >= 0), lo |-> (IF ivl # None THEN ivl[1] ELSE lower),
                hashi |-> (ivl # None), hi |-> ivl[2], decision |-> "Indeterminate"])
  /\ UNCHANGED <<lower, ivl>>

Done == pc = "done" /\ UNCHANGED vars

Next == ClockExpires \/ Start \/ TopKRound \/ Grow \/ CompileExact \/ Done
Spec == Init /\ [][Next]_vars

---------------------------------------------------------------------------
\* the requirement: whatever is returned is sound
DecisionSoundInv == pc = "done" => SoundResult(result, P, S, par.tn, Den)

\* what the controller keeps between rounds is always a certificate
PFast == Mass(par.pr)      \* = P for the un-negated lineages (MassAgrees); bounds exist only for those
BoundsCertified ==
  /\ lower >= 0 => ~par.neg /\ lower <= PFast
  /\ ivl # None => ~par.neg /\ ivl[1] <= PFast /\ PFast <= ivl[2]

\* the two definitions of the probability of a disjunction of proofs agree
MassAgrees == (pc = "start" /\ ~par.neg) => Mass(par.pr) = P

\* a round in which the top-k deadline expired publishes nothing: the bounds kept
\* are those of the moment of expiry (never a decision from a partial enumeration)
ExpiryNeverGuesses == snap # NoSnap => <<lower, ivl>> = snap

\* non-vacuity: every kind of result is reachable (checked as violated "never" invariants by the driver)
NeverBoundedAlert   == ~(pc = "done" /\ result.kind = "Bounded" /\ result.decision = "Alert")
NeverBoundedNoAlert == ~(pc = "done" /\ result.kind = "Bounded" /\ result.decision = "NoAlert")
NeverNeedsExactWithBounds == ~(pc = "done" /\ result.kind = "NeedsExact" /\ result.hashi)
=============================================================================
