------------------------------- MODULE Worlds -------------------------------
(***************************************************************************)
(* C06 requirement: possible-worlds meaning of probabilistic Datalog.      *)
(*                                                                         *)
(* Inputs: program R, certain facts C, uncertain facts U (disjoint from C) *)
(* with independent probabilities num[u]/den.  A world is a subset W of U; *)
(* its weight is the product of num[u] (u in W) and den-num[u] (u not in   *)
(* W), an integer; the weights of all worlds add up to den^|U|.            *)
(*                                                                         *)
(*   P(f)         total weight of the worlds whose model contains f        *)
(*                (probability = P(f) / den^|U|)          exact modes      *)
(*   MM(f)        the largest theta in 1..den such that f is in the model  *)
(*                of the inputs with num >= theta (certain inputs count as *)
(*                den); 0 when there is none               min-max mode    *)
(*   Derivable(f) f is in the model of the inputs with num > 0             *)
(*                                                         Boolean mode    *)
(***************************************************************************)
EXTENDS WorldsDatalog, FiniteSetsExt


\* den^n fits TLC's 32-bit integers: bits(den) * n <= 30
Bits(den) == CHOOSE k \in 0..31 : 2^k >= den /\ (k = 0 \/ 2^(k-1) < den)
Fits(den, n) == Bits(den) * n <= 30
Scale(den, n) == den^n

WorldModels(R, C, U) == [W \in SUBSET U |-> Model(R, C \cup W)]

WorldWeights(U, num, den) ==
  [W \in SUBSET U |-> FoldSet(LAMBDA u, acc : acc * (IF u \in W THEN num[u] ELSE den - num[u]), 1, U)]

\* every fact true in some world
Possible(mods) == UNION Range(mods)

P(f, mods, wt) == FoldSet(LAMBDA W, acc : acc + wt[W], 0, {W \in DOMAIN mods : f \in mods[W]})

\* min-max: threshold models, only thresholds that change the input set matter
Thresholds(U, num, den) == ({num[u] : u \in U} \cup {den}) \ {0}
AtLeast(U, num, th) == {u \in U : num[u] >= th}
ThresholdModels(R, C, U, num, den) ==
  [th \in Thresholds(U, num, den) |-> Model(R, C \cup AtLeast(U, num, th))]
MM(f, tmods) == LET good == {th \in DOMAIN tmods : f \in tmods[th]}
                IN  IF good = {} THEN 0 ELSE Max(good)

BoolModel(R, C, U, num) == Model(R, C \cup {u \in U : num[u] > 0})

\* sanity law used by the model-checking configuration: the weights of all worlds sum to den^|U|
WeightsSum(U, num, den) ==
  FoldSet(LAMBDA W, acc : acc + WorldWeights(U, num, den)[W], 0, SUBSET U) = Scale(den, Cardinality(U))
=============================================================================
