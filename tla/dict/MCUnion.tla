------------------------------- MODULE MCUnion -------------------------------
(***************************************************************************)
(* Behaviour emission for spec -> implementation replay (L2): every build  *)
(* history of the two databases (UnionImpl's Build/Switch actions with a   *)
(* history variable) is printed once as JSON when both are built, together *)
(* with the code-shaped model's prediction of SparqlDatabase::union        *)
(* (DictCode!UnionI) and of Dictionary/QuotedTripleStore::merge.           *)
(* Terms are written structurally (a string, or a triple of terms) so the  *)
(* harness resolves them in the real maps instead of trusting model ids.   *)
(***************************************************************************)
EXTENDS UnionImpl, Json

CONSTANT Extra      \* redundant operations allowed per database (re-encoding a known term)
VARIABLE hist
evars == <<db, handed, pc, u, hist>>

RECURSIVE Ref(_, _)
Ref(x, id) == IF IsQ(id) THEN LET t == Get(x.q.i2c, id) IN <<Ref(x, t[1]), Ref(x, t[2]), Ref(x, t[3])>>
              ELSE Get(x.d.i2s, id)
GRef(x, g) == IF g = DefaultG THEN "" ELSE Ref(x, g)
Ops(i) == Len(SelectSeq(hist, LAMBDA e : e.db = i))

EBuild ==
  /\ pc \in {"A", "B"}
  /\ LET i == Cur
         x == db[i]
         K == KnownOf(x)
     IN  /\ Ops(i) < MaxSize[i] + Extra
         /\ \/ \E s \in Str : /\ Has(x.d.s2i, s) \/ Size(x) < MaxSize[i]
                              /\ BEnc(i, s) /\ hist' = Append(hist, [op |-> "enc", db |-> i, s |-> s])
            \/ /\ P0 \in K
               /\ \/ \E s \in K, o \in K :
                       /\ Has(x.q.c2i, <<s, P0, o>>) \/ Size(x) < MaxSize[i]
                       /\ BQEnc(i, <<s, P0, o>>)
                       /\ hist' = Append(hist, [op |-> "qenc", db |-> i, t |-> <<Ref(x, s), Ref(x, P0), Ref(x, o)>>])
                  \/ \E s \in K, o \in K, g \in {DefaultG} \cup PlainOf(x) :
                       /\ Size(x) < MaxSize[i]
                       /\ BQuad(i, <<s, P0, o, g>>)
                       /\ hist' = Append(hist, [op |-> "quad", db |-> i, t |-> <<Ref(x, s), Ref(x, P0), Ref(x, o)>>, g |-> GRef(x, g)])
                  \/ \E g \in PlainOf(x) :
                       /\ Size(x) < MaxSize[i]
                       /\ BGraph(i, g) /\ hist' = Append(hist, [op |-> "graph", db |-> i, g |-> Ref(x, g)])
                  \/ \E s \in K, o \in K, p \in Probs :
                       /\ Size(x) < MaxSize[i]
                       /\ BSeed(i, <<s, P0, o>>, p)
                       /\ hist' = Append(hist, [op |-> "seed", db |-> i, t |-> <<Ref(x, s), Ref(x, P0), Ref(x, o)>>, p |-> p])
  /\ UNCHANGED <<pc, u>>

EInit == Init /\ hist = <<>>
ENext == EBuild \/ (Switch /\ UNCHANGED hist)
ESpec == EInit /\ [][ENext]_evars

Dump(r) == [s2i |-> r.d.s2i, qc2i |-> r.q.c2i, next |-> r.d.next, qnext |-> r.q.next,
            quads |-> r.quads, graphs |-> r.named, seeds |-> r.seeds]
Emit == pc = "built" =>
          PrintT(<<"REPLAY", ToJson([ops |-> hist,
                                     union |-> Dump(UnionI(A, B)),
                                     merge |-> Dump([NewDb EXCEPT !.d = MergeI(A.d, B.d), !.q = QMergeI(A.q, B.q)])])>>)
=============================================================================
